"""C01 — reads return the values the Dirfile Standards define."""
import os, sys
from vlib import common as C
from vlib import framework as F
from vlib import gen, streams

ASSUMPTIONS = [
    "double arithmetic: the Lean driver's Float (C double, no FMA contraction on x86-64 baseline) mirrors the C kernels' operation order; theorems are generic in the pointwise operations",
    "(int)ceil((double)n*spf2/spf1) modelled as the exact natural-number ceiling (operands < 2^53)",
    "complex-valued fields, MPLEX (stateful look-back) and SINDIR are outside this model (MPLEX/complex glue is exercised by C02/C06 streams)",
    "compressed/text/sie encodings are outside this stream (see C03/C04); RAW files here are unencoded with all four byte orders",
    "windows on which some internal read starts at sample -1 (== GD_HERE) are excluded from the model comparison and judged against the spec only (known finding 5.16)",
]
CHECKER_CMD = "cd /verif/lean && lake build GdModel.Props.C01 && lake env lean <generated #print axioms file>"
MODULES = ["GdModel.Props.C01"]


def windows(rng, thorough):
    W = []
    k = 8 if thorough else 5
    for _ in range(k):
        ff = rng.choice([0, 0, 0, 1, 2, 3, 5, 8])
        fs = rng.choice([0, 0, 0, 1, 2, 3, 4, 5, 7, 9])
        nf = rng.choice([0, 0, 1, 2, 4, 9])
        ns = rng.choice([0, 1, 2, 3, 5, 8, 12, 40])
        W.append((ff, fs, nf, ns))
    return W


def build_chunks(ctx, ndf):
    rng = ctx.rng
    chunks = []
    for i in range(ndf):
        regime = rng.choice(['exact', 'bitwise'])
        df = gen.Dirfile(rng, regime=regime, depth=(6 if ctx.thorough() else 4),
                         max_fields=(12 if ctx.thorough() else 8))
        L = df.script()
        for nm in df.vector_names():
            L.append("spf " + nm)
            L.append("eof " + nm)
            for (ff, fs, nf, ns) in windows(rng, ctx.thorough()):
                L.append("get %s %d %d %d %d f64" % (nm, ff, fs, nf, ns))
        chunks.append((df, L))
    return chunks


def split_flags(line):
    """model line 'get … al=A here=H' -> (body, al, here)"""
    i = line.find(" al=")
    if i < 0:
        return line, 1, 0
    body = line[:i]
    rest = line[i:].split()
    al = int(rest[0].split("=")[1])
    here = int(rest[1].split("=")[1]) if len(rest) > 1 else 0
    return body, al, here


def same_mod_junk(impl, model, al):
    """equality of two 'get n=.. e=.. d=a,b,c' lines; when the read is not
    aligned the model marks reads of never-filled buffer positions as nan and
    those positions are wildcards."""
    if impl == model:
        return True
    if al:
        return False
    pi, pm = impl.split(" d="), model.split(" d=")
    if len(pi) != 2 or len(pm) != 2 or pi[0] != pm[0]:
        return False
    a, b = pi[1].split(","), pm[1].split(",")
    if len(a) != len(b):
        return False
    return all(x == y or y == "nan" for x, y in zip(a, b))


def describe(df, code):
    return [l for l in df.format_text().split("\n") if l and not l.startswith("/")]


def run(ctx):
    ok, lr, infos = F.lean_obligations(ctx, MODULES, [])
    gdmodel = C.build_gdmodel()
    try:
        harness = C.build_harness("gdh", ["gdh.c"])
    except RuntimeError as e:
        raise F.C_BuildError(str(e))
    ndf = 1500 if ctx.thorough() else 220
    chunks = build_chunks(ctx, ndf)
    res = streams.run_chunks(harness, [c[1] for c in chunks], "c01")
    flat = [l for c in chunks for l in c[1]]
    mo, _, merr = streams.run_model(gdmodel, flat)
    so, _, _ = streams.run_model(gdmodel, flat, spec=True)
    if len(mo) != len(flat) or len(so) != len(flat):
        ctx.fail("correspondence", "Lean driver produced %d/%d lines for %d ops: %s" % (len(mo), len(so), len(flat), merr[-300:]),
                 {"correspondence": "gen_read"}, has_input=False)
        return
    k = 0
    hist = {}
    n_here = n_unaligned = n_unsup = 0
    corr_bad = []
    prop_bad = []
    rl_bad = []
    for ci, (lines, out, crashed, err) in enumerate(res):
        df = chunks[ci][0]
        if crashed:
            bad = lines[min(len(out), len(lines) - 1)]
            ctx.fail("input", "library aborted under ASan/UBSan at op '%s': %s" % (bad, err[-300:]),
                     {"script": lines[:len(out) + 1], "stderr": err[-2500:]}, sig={"class": "crash"})
        for i, l in enumerate(lines):
            if i >= len(out):
                break
            op = l.split()[0]
            if op not in ("get", "eof", "spf"):
                continue
            a, rl = streams.strip_rl(out[i])
            m, al, here = split_flags(mo[k + i])
            s, _, _ = split_flags(so[k + i])
            if m.startswith("unsupported"):
                n_unsup += 1
                continue
            ctx.evaluations += 1
            if rl not in (None, 0):
                rl_bad.append((l, rl))
            if op == "get":
                kind = next((f['kind'] for f in df.fields if f['name'] == l.split()[1]), '?')
                hist[kind] = hist.get(kind, 0) + 1
                nn = a.split()[1] if len(a.split()) > 1 else ""
                ctx.distinct.add((kind, al, here, nn != "n=0", l.split()[3] != "0"))
                if here:
                    n_here += 1
                elif not al:
                    n_unaligned += 1
            # property level: library vs spec
            if op == "get" and a != s:
                cls = "here" if here else ("unaligned" if not al else "aligned")
                prop_bad.append((cls, df, lines, l, s, a))
            # (gd_eof / gd_spf against the spec are judged by C16; here they are
            #  only compared with the impl model below)
            # correspondence: library vs impl model
            if not here and not same_mod_junk(a, m, al):
                corr_bad.append((df, lines, l, m, a))
        k += len(lines)
    ctx.coverage.update({
        "rule": "random dirfiles (1-4 RAW fields of the 10 real types, 4 byte orders, frame offsets 0-3, spf in {1,2,3,5,7,8}, partial trailing samples; "
                "1-%d derived fields: LINCOM1-3, LINTERP, BIT, SBIT, MULTIPLY, DIVIDE, RECIP, PHASE, POLYNOM, WINDOW(8 ops), INDIR, representation suffixes, CONST scalar indirection) "
                "x windows incl. unaligned starts and BOF/EOF straddles; each get compared (bitwise) with Impl.read of the Lean model and with the window of Spec.sample; "
                "distinct = (field kind, aligned?, touches-GD_HERE?, non-empty?, frame/sample addressing) classes" % (12 if ctx.thorough() else 8),
        "dirfiles": ndf, "gets_by_field_kind": hist, "windows_unaligned": n_unaligned,
        "windows_touching_GD_HERE": n_here, "ops_outside_model": n_unsup,
    })
    if res:
        lines, out, _, _ = res[0]
        for i, l in enumerate(lines):
            if l.startswith("get") and i < len(out) and len(ctx.samples) < 4:
                ctx.sample({"fields": describe(chunks[0][0], l.split()[1])[:6], "op": l, "impl": out[i][:160], "model": mo[i][:160]})
    for (l, rl) in rl_bad[:1]:
        ctx.fail("input", "recursion counter is %d after '%s'" % (rl, l), {"script": [l]}, sig={"class": "recurse_level"})
    seen = set()
    for (cls, df, lines, l, want, got) in prop_bad:
        if cls in seen and cls != "aligned":
            # count further matches of the same known class without new replays
            ctx.failures.append(F.Failure("input", "", {}, {"class": cls}, True))
            continue
        seen.add(cls)
        script = [x for x in lines if x.split()[0] in ("reset", "file", "def", "open")] + [l]
        ctx.fail("input", "%s: library returns '%s' but the Standards define '%s' [%s read]" % (l, got[:120], want[:120], cls),
                 {"script": script, "expected": want, "observed": got, "format": df.format_text()},
                 sig={"class": cls})
        if cls == "aligned" and len([1 for f in ctx.failures if f.sig.get("class") == "aligned"]) > 3:
            break
    prop_lines = {(id(p[1]), p[3]) for p in prop_bad}
    for (df, lines, l, want, got) in corr_bad[:3]:
        if (id(df), l) in prop_lines:
            continue
        script = [x for x in lines if x.split()[0] in ("reset", "file", "def", "open")] + [l]
        ctx.fail("correspondence", "impl model and library differ on '%s' (model '%s', library '%s') although the Standards' value is returned" % (
            l, want[:100], got[:100]), {"correspondence": "gen_read", "script": script, "model": want, "observed": got},
            has_input=False)
    if not ok and not any(f.sig.get("class") == "aligned" for f in ctx.failures):
        names = [o[0] for o in ctx.obligations if not o[1]]
        ctx.fail("obligation", "Lean obligations no longer check: " + "; ".join(names)[:300] + " :: " + lr.errors[-500:],
                 {"theorem": names, "lean_errors": lr.errors[-3000:]}, has_input=False)


def replay(ctx, obj):
    gdmodel = C.build_gdmodel()
    harness = C.build_harness("gdh", ["gdh.c"])
    lines = obj.get("script", [])
    out, rc, err = streams.run_gdh(harness, lines, "replay")
    so, _, _ = streams.run_model(gdmodel, lines, spec=True)
    bad = 0
    for i, l in enumerate(lines):
        if l.split()[0] in ("get", "eof", "spf"):
            a = streams.strip_rl(out[i])[0] if i < len(out) else "?"
            s = split_flags(so[i])[0]
            print(l, "\n  library:", a, "\n  spec:   ", s)
            if a != s:
                bad = 1
    return bad
