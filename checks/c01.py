"""C01 — reads return the values the Dirfile Standards define."""
import os, sys
from vlib import common as C
from vlib import framework as F
from vlib import gen, streams

ASSUMPTIONS = [
    "double arithmetic: the Lean driver's Float (C double, no FMA contraction on x86-64 baseline) mirrors the C kernels' operation order; theorems are generic in the pointwise operations",
    "(int)ceil((double)n*spf2/spf1) modelled as the exact natural-number ceiling (operands < 2^53)",
    "complex-valued fields, MPLEX (stateful look-back) and SINDIR are outside this model (MPLEX/complex glue is exercised by C02/C06 streams)",
    "compressed/text/sie encodings are outside this stream (see C03/C04); RAW files here are unencoded with all four byte orders",
    "windows on which some internal read starts at sample -1 (== GD_HERE) are excluded from the model comparison and judged against the spec only (known finding 5.16)",
]
CHECKER_CMD = "cd /verif/lean && lake build GdModel.Props.C01 && lake env lean <generated #print axioms file>"
MODULES = ["GdModel.Props.C01"]


def windows(rng, thorough):
    W = []
    k = 8 if thorough else 5
    for _ in range(k):
        ff = rng.choice([0, 0, 0, 1, 2, 3, 5, 8])
        fs = rng.choice([0, 0, 0, 1, 2, 3, 4, 5, 7, 9])
        nf = rng.choice([0, 0, 1, 2, 4, 9])
        ns = rng.choice([0, 1, 2, 3, 5, 8, 12, 40])
        W.append((ff, fs, nf, ns))
    return W


def build_chunks(ctx, ndf):
    rng = ctx.rng
    chunks = []
    for i in range(ndf):
        regime = rng.choice(['exact', 'bitwise'])
        df = gen.Dirfile(rng, regime=regime, depth=(6 if ctx.thorough() else 4),
                         max_fields=(12 if ctx.thorough() else 8))
        L = df.script()
        for nm in df.vector_names():
            L.append("spf " + nm)
            L.append("eof " + nm)
            for (ff, fs, nf, ns) in windows(rng, ctx.thorough()):
                L.append("get %s %d %d %d %d f64" % (nm, ff, fs, nf, ns))
        chunks.append((df, L))
    return chunks


def split_flags(line):
    """model line 'get … al=A here=H' -> (body, al, here)"""
    i = line.find(" al=")
    if i < 0:
        return line, 1, 0
    body = line[:i]
    rest = line[i:].split()
    al = int(rest[0].split("=")[1])
    here = int(rest[1].split("=")[1]) if len(rest) > 1 else 0
    return body, al, here


def same_mod_junk(impl, model, al):
    """equality of two 'get n=.. e=.. d=a,b,c' lines; when the read is not
    aligned the model marks reads of never-filled buffer positions as nan and
    those positions are wildcards."""
    if impl == model:
        return True
    if al:
        return False
    pi, pm = impl.split(" d="), model.split(" d=")
    if len(pi) != 2 or len(pm) != 2 or pi[0] != pm[0]:
        return False
    a, b = pi[1].split(","), pm[1].split(",")
    if len(a) != len(b):
        return False
    return all(x == y or y == "nan" for x, y in zip(a, b))


def describe(df, code):
    return [l for l in df.format_text().split("\n") if l and not l.startswith("/")]


def run(ctx):
    ok, lr, infos = F.lean_obligations(ctx, MODULES, [])
    gdmodel = C.build_gdmodel()
    try:
        harness = C.build_harness("gdh", ["gdh.c"])
    except RuntimeError as e:
        raise F.C_BuildError(str(e))
    ndf = 1500 if ctx.thorough() else 220
    chunks = build_chunks(ctx, ndf)
    res = streams.run_chunks(harness, [c[1] for c in chunks], "c01")
    flat = [l for c in chunks for l in c[1]]
    mo, _, merr = streams.run_model(gdmodel, flat)
    so, _, _ = streams.run_model(gdmodel, flat, spec=True)
    if len(mo) != len(flat) or len(so) != len(flat):
        ctx.fail("correspondence", "Lean driver produced %d/%d lines for %d ops: %s" % (len(mo), len(so), len(flat), merr[-300:]),
                 {"correspondence": "gen_read"}, has_input=False)
        return
    k = 0
    hist = {}
    n_here = n_unaligned = n_unsup = 0
    corr_bad = []
    prop_bad = []
    rl_bad = []
    for ci, (lines, out, crashed, err) in enumerate(res):
        df = chunks[ci][0]
        if crashed:
            bad = lines[min(len(out), len(lines) - 1)]
            ctx.fail("input", "library aborted under ASan/UBSan at op '%s': %s" % (bad, err[-300:]),
                     {"script": lines[:len(out) + 1], "stderr": err[-2500:]}, sig={"class": "crash"})
        for i, l in enumerate(lines):
            if i >= len(out):
                break
            op = l.split()[0]
            if op not in ("get", "eof", "spf"):
                continue
            a, rl = streams.strip_rl(out[i])
            m, al, here = split_flags(mo[k + i])
            s, _, _ = split_flags(so[k + i])
            if m.startswith("unsupported"):
                n_unsup += 1
                continue
            ctx.evaluations += 1
            if rl not in (None, 0):
                rl_bad.append((l, rl))
            if op == "get":
                kind = next((f['kind'] for f in df.fields if f['name'] == l.split()[1]), '?')
                hist[kind] = hist.get(kind, 0) + 1
                nn = a.split()[1] if len(a.split()) > 1 else ""
                ctx.distinct.add((kind, al, here, nn != "n=0", l.split()[3] != "0"))
                if here:
                    n_here += 1
                elif not al:
                    n_unaligned += 1
            # property level: library vs spec
            if op == "get" and a != s:
                cls = "here" if here else ("unaligned" if not al else "aligned")
                prop_bad.append((cls, df, lines, l, s, a))
            # (gd_eof / gd_spf against the spec are judged by C16; here they are
            #  only compared with the impl model below)
            # correspondence: library vs impl model
            if not here and not same_mod_junk(a, m, al):
                corr_bad.append((df, lines, l, m, a))
        k += len(lines)
    ctx.coverage.update({
        "rule": "random dirfiles (1-4 RAW fields of the 10 real types, 4 byte orders, frame offsets 0-3, spf in {1,2,3,5,7,8}, partial trailing samples; "
                "1-%d derived fields: LINCOM1-3, LINTERP, BIT, SBIT, MULTIPLY, DIVIDE, RECIP, PHASE, POLYNOM, WINDOW(8 ops), INDIR, representation suffixes, CONST scalar indirection) "
                "x windows incl. unaligned starts and BOF/EOF straddles; each get compared (bitwise) with Impl.read of the Lean model and with the window of Spec.sample; "
                "distinct = (field kind, aligned?, touches-GD_HERE?, non-empty?, frame/sample addressing) classes" % (12 if ctx.thorough() else 8),
        "dirfiles": ndf, "gets_by_field_kind": hist, "windows_unaligned": n_unaligned,
        "windows_touching_GD_HERE": n_here, "ops_outside_model": n_unsup,
    })
    if res:
        lines, out, _, _ = res[0]
        for i, l in enumerate(lines):
            if l.startswith("get") and i < len(out) and len(ctx.samples) < 4:
                ctx.sample({"fields": describe(chunks[0][0], l.split()[1])[:6], "op": l, "impl": out[i][:160], "model": mo[i][:160]})
    repr_stream(ctx, harness)
    for (l, rl) in rl_bad[:1]:
        ctx.fail("input", "recursion counter is %d after '%s'" % (rl, l), {"script": [l]}, sig={"class": "recurse_level"})
    seen = set()
    for (cls, df, lines, l, want, got) in prop_bad:
        if cls in seen and cls != "aligned":
            # count further matches of the same known class without new replays
            ctx.failures.append(F.Failure("input", "", {}, {"class": cls}, True))
            continue
        seen.add(cls)
        script = [x for x in lines if x.split()[0] in ("reset", "file", "def", "open")] + [l]
        ctx.fail("input", "%s: library returns '%s' but the Standards define '%s' [%s read]" % (l, got[:120], want[:120], cls),
                 {"script": script, "expected": want, "observed": got, "format": df.format_text()},
                 sig={"class": cls})
        if cls == "aligned" and len([1 for f in ctx.failures if f.sig.get("class") == "aligned"]) > 3:
            break
    prop_lines = {(id(p[1]), p[3]) for p in prop_bad}
    for (df, lines, l, want, got) in corr_bad[:3]:
        if (id(df), l) in prop_lines:
            continue
        script = [x for x in lines if x.split()[0] in ("reset", "file", "def", "open")] + [l]
        ctx.fail("correspondence", "impl model and library differ on '%s' (model '%s', library '%s') although the Standards' value is returned" % (
            l, want[:100], got[:100]), {"correspondence": "gen_read", "script": script, "model": want, "observed": got},
            has_input=False)
    if not ok and not any(f.sig.get("class") == "aligned" for f in ctx.failures):
        names = [o[0] for o in ctx.obligations if not o[1]]
        ctx.fail("obligation", "Lean obligations no longer check: " + "; ".join(names)[:300] + " :: " + lr.errors[-500:],
                 {"theorem": names, "lean_errors": lr.errors[-3000:]}, has_input=False)


def repr_stream(ctx, harness):
    """Representation suffixes (.r .i .m .a) are outside the Lean field model.  They are judged here by a relation the
    Standards imply: a field defined on `in.<r>` must equal, window for window, the same field defined on an explicit
    field `x = LINCOM 1 in.<r> 1 0` (multiplying by one and adding zero is exact).  Every field type with inputs, both
    input positions, FLOAT64 and COMPLEX128 returns, every window of a small range, fresh handle per field."""
    import struct
    from checks.c10 import hx
    rng = ctx.rng
    chunks, metas = [], []
    for i in range(24 if ctx.thorough() else 6):
        n = 24
        reps = ["r", "i", "m", "a"]
        r1 = rng.choice(reps)
        fmt = ["/VERSION 10", "/ENDIAN little", "/ENCODING none", "z RAW COMPLEX128 1", "cnt RAW UINT8 1", "w RAW COMPLEX64 1"]
        zdata = b"".join(struct.pack("<dd", rng.randint(-9, 9) + 0.5, rng.randint(-9, 9) - 0.25) for _ in range(n))
        wdata = b"".join(struct.pack("<ff", rng.randint(0, 4), rng.randint(0, 3)) for _ in range(n))
        cdata = bytes(rng.choice([0, 1, 2, 2, 3]) for _ in range(n))
        fmt += ["x LINCOM 1 z.%s 1 0" % r1, "y LINCOM 1 w.%s 1 0" % r1]
        pairs = []
        defs = [("MPLEX %s cnt 2 4", "d"), ("MPLEX cnt %s 1 3", "c"), ("WINDOW %s cnt GE 2", "d"), ("MULTIPLY %s cnt", "d"), ("MULTIPLY cnt %s", "d"),
                ("DIVIDE %s cnt", "d"), ("PHASE %s 2", "d"), ("LINCOM 2 %s 2 1 cnt 1 0", "d"), ("LINCOM 2 cnt 1 0 %s 2 1", "d"), ("RECIP %s 4", "d"),
                ("POLYNOM %s 1 2", "d"), ("LINTERP %s lut.txt", "d")]
        for k, (d, role) in enumerate(defs):
            src, expl = (("z.%s" % r1, "x") if role == "d" else ("w.%s" % r1, "y"))
            fmt.append("a%d %s" % (k, d % src))
            fmt.append("b%d %s" % (k, d % expl))
            pairs.append(("a%d" % k, "b%d" % k, d % src))
        L = ["reset", "file format " + hx("\n".join(fmt) + "\n"), "file z " + zdata.hex(), "file w " + wdata.hex(), "file cnt " + cdata.hex(),
             "file lut.txt " + hx("-20 0\n0 5\n20 9\n"), "open rdonly"]
        wins = [(s0, nn) for s0 in range(0, 12) for nn in (1, 3, 7)]
        idx = []
        for (a, b, d) in pairs:
            for (s0, nn) in wins:
                for t in ("f64", "c128"):
                    # a fresh handle for each pair of reads: nothing cached from an earlier window
                    L += ["open rdonly", "get %s 0 %d 0 %d %s" % (a, s0, nn, t), "open rdonly", "get %s 0 %d 0 %d %s" % (b, s0, nn, t)]
                    idx.append((len(L) - 3, len(L) - 1, d))
        chunks.append(L)
        metas.append(idx)
    res = streams.run_chunks(harness, chunks, "c01r")
    for ci, (lines, out, crashed, err) in enumerate(res):
        if crashed:
            ctx.fail("input", "library aborted in the representation stream: %s" % err[-300:], {"script": lines[:len(out) + 1], "stderr": err[-2500:]}, sig={"class": "crash"})
            continue
        for (ia, ib, d) in metas[ci]:
            ga, gb = streams.strip_rl(out[ia])[0], streams.strip_rl(out[ib])[0]
            ctx.evaluations += 1
            ctx.distinct.add(("repr", d.split()[0], d.split()[1][:2]))
            if ga.replace("nan;nan", "nan").replace("nan;0", "nan") != gb.replace("nan;nan", "nan").replace("nan;0", "nan"):
                ctx.fail("input", "'%s': %s gives '%s' but the same field on the explicit LINCOM of that representation gives '%s'" % (d, lines[ia], ga[:150], gb[:150]),
                         {"script": lines[:7] + [lines[ia - 1], lines[ia], lines[ib]]}, sig={"class": "repr", "type": d.split()[0]})
                break


def replay(ctx, obj):
    gdmodel = C.build_gdmodel()
    harness = C.build_harness("gdh", ["gdh.c"])
    lines = obj.get("script", [])
    out, rc, err = streams.run_gdh(harness, lines, "replay")
    so, _, _ = streams.run_model(gdmodel, lines, spec=True)
    bad = 0
    for i, l in enumerate(lines):
        if l.split()[0] in ("get", "eof", "spf"):
            a = streams.strip_rl(out[i])[0] if i < len(out) else "?"
            s = split_flags(so[i])[0]
            print(l, "\n  library:", a, "\n  spec:   ", s)
            if a != s:
                bad = 1
    return bad
