"""C02 — a read is a pure function of the database contents."""
import re
import os, sys
from vlib import common as C
from vlib import framework as F
from vlib import streams, history
from checks.c01 import split_flags

ASSUMPTIONS = [
    "oracle for every read in a history: the same samples taken from one whole-field read on a fresh handle of the same dirfile (MPLEX look-back ALL), and, for modelled field types, Spec.sample",
    "all fields of a generated dirfile share one sample rate (aligned windows only; the unaligned region is known finding 5.1, judged by C01)",
    "the library is built with hook H1 small buffers (GD_BUFFER_SIZE 640, bzip2 window 96, lzma windows 160/64, look-back 48) so that codec windows are crossed in kilobyte files; thorough tier adds the unhooked build",
    "zlib/bz2/lzma internals are trusted; the window reader's logic is modelled (GdModel.Codec.Window) and proved pure",
]
CHECKER_CMD = "cd /verif/lean && lake build GdModel.Props.C02 && lake env lean <generated #print axioms file>"
MODULES = ["GdModel.Props.C02"]
ENCS = ['none', 'text', 'sie', 'gzip', 'bzip2', 'lzma']


def parse_get(line):
    """'get n=3 e=0 d=a,b,c' -> (n, e, [..])"""
    t = line.split()
    if len(t) < 3 or t[0] != "get":
        return None
    try:
        n = int(t[1].split("=")[1])
        e = int(t[2].split("=")[1])
    except Exception:
        return None
    d = t[3][2:].split(",") if len(t) > 3 and len(t[3]) > 2 else []
    return n, e, d


def parse_pos(line):
    t = line.split()
    try:
        return int(t[1]), int(t[2].split("=")[1])
    except Exception:
        return None, None


def evaluate(ctx, df, lines, out, mo, enc, tag, judge_tell=False):
    """shared by C02 and C17: walk one history and apply the oracles"""
    whole = {}
    eofs = {}
    phase_of = {f['name']: f for f in df.fields}
    i = 0
    nlines = min(len(lines), len(out))
    # phase 1: whole-field reads until 'discard'
    while i < nlines and lines[i] != "discard":
        t = lines[i].split()
        a = streams.strip_rl(out[i])[0]
        if t[0] == "get":
            whole[t[1]] = parse_get(a)
        elif t[0] == "eof":
            eofs[t[1]] = parse_pos(a)
        i += 1
    last_tell = {}
    bad = []
    def script_upto(j):
        return lines[:j + 1]
    stats = {"get_abs": 0, "get_here": 0, "tell": 0, "seek": 0, "fail": 0, "other": 0}
    prev_get = None   # (field, s, count) of the immediately preceding successful absolute get
    limit_active = False   # with an open-file limit any call may auto-close (and so rewind) another field's file:
                           # I/O pointers are then not stable between calls, only absolute reads are judged
    for j in range(i, nlines):
        l = lines[j]
        t = l.split()
        if t[0] == "openlimit":
            limit_active = int(t[1]) > 0
        a, rl = streams.strip_rl(out[j])
        if rl not in (None, 0):
            bad.append(("recurse_level", j, "recursion counter %d after '%s'" % (rl, l), None))
        op = t[0]
        if op == "get":
            ctx.evaluations += 1
            g = parse_get(a)
            fld = t[1]
            if fld == "nosuchfield" or t[3].startswith("92233"):
                stats["fail"] += 1
                if g is None or g[1] == 0:
                    bad.append(("fail-accepted", j, "'%s' should fail, got '%s'" % (l, a), None))
                prev_get = None
                continue
            w = whole.get(fld)
            if w is None or w[1] != 0:
                prev_get = None
                continue
            if t[2] == "here":
                stats["get_here"] += 1
                if limit_active:
                    prev_get = None
                    continue
                p, pe = last_tell.get(fld, (None, None))
                n = int(t[5])
                if pe is None:
                    prev_get = None
                    continue
                if pe != 0:
                    # inputs disagree (or other error): the read must not guess
                    if g is not None and g[1] == 0 and g[0] > 0:
                        bad.append(("here-guess", j, "tell(%s) failed with %d but a GD_HERE read returned %d samples" % (fld, pe, g[0]), None))
                    prev_get = None
                    continue
                s = p
            else:
                stats["get_abs"] += 1
                spf = df.the_spf
                s = int(t[2]) * spf + int(t[3])
                n = int(t[4]) * spf + int(t[5])
            exp = w[2][s:s + n] if s >= 0 else None
            ctx.distinct.add((tag, enc, phase_of.get(fld, {}).get('kind', '?'), t[2] == "here", len(exp or []) == 0, (len(exp or []) < n)))
            if exp is None:
                prev_get = None
                continue
            if g is not None and g[1] != 0 and g[0] == len(exp) and g[2] == exp and _has_phase(df, fld):
                # right data, but an error raised while restoring I/O pointers through a PHASE (sign convention of _GD_Seek)
                bad.append(("phase-sign", j, "%s [%s]: correct data returned with error %d" % (l, enc, g[1]), {"expected": exp, "observed": a}))
            elif g is None or g[1] != 0 or g[0] != len(exp) or g[2] != exp:
                bad.append(("purity", j, "%s [%s]: history-dependent result: got '%s', a fresh handle gives n=%d d=%s" % (
                    l, enc, a[:160], len(exp), ",".join(exp)[:120]), {"expected": exp, "observed": a}))
            prev_get = (fld, s, g[0], g[0] == n and n > 0) if g is not None and g[1] == 0 else None
        elif op == "tell":
            stats["tell"] += 1
            last_tell[t[1]] = parse_pos(a)
            if judge_tell and not limit_active and prev_get is not None and prev_get[0] == t[1] and \
                    (not _multi(df, t[1]) or prev_get[3]):
                fld, s, c, full = prev_get
                p, pe = last_tell[t[1]]
                kind = phase_of.get(fld, {}).get('kind', '?')
                ctx.evaluations += 1
                want = s + c
                # reading 0 samples at/after EOF: pointer position is where the codec could seek to; judge only c>0 or s<=eof
                E = eofs.get(fld, (None, None))[0]
                if c == 0 and E is not None and s > E:
                    want = None
                if want is not None and (pe != 0 or p != want):
                    cls = "phase-sign" if _has_phase(df, fld) else "tell"
                    bad.append((cls, j, "%s [%s]: after reading %d samples of %s at %d gd_tell reports %s (e=%s), expected %d" % (
                        l, enc, c, fld, s, p, pe, want), {"expected": want, "observed": a}))
            prev_get = None
        elif op == "seek":
            stats["seek"] += 1
            prev_get = None
            if judge_tell and not limit_active and t[2] == "0" and t[4] == "set" and int(t[3]) >= 0:
                p, pe = parse_pos(a)
                fld = t[1]
                E, Ee = eofs.get(fld, (None, None))
                tgt = int(t[3])
                ctx.evaluations += 1
                if Ee == 0 and tgt <= E and not _multi(df, fld):
                    if pe != 0 or p != tgt:
                        cls = "phase-sign" if _has_phase(df, fld) else "seek"
                        bad.append((cls, j, "%s [%s]: gd_seek to %d (<= eof %d) returned %s (e=%s)" % (l, enc, tgt, E, p, pe),
                                    {"expected": tgt, "observed": a}))
            if int(t[3]) < 0 and t[4] == "set":
                p, pe = parse_pos(a)
                if pe == 0:
                    bad.append(("fail-accepted", j, "'%s' should fail, got '%s'" % (l, a), None))
        elif op == "eof":
            if t[1] == "nosuchfield":
                continue
            p = parse_pos(a)
            if t[1] in eofs and p != eofs[t[1]]:
                bad.append(("purity", j, "%s [%s]: gd_eof changed from %s to %s during a read-only history" % (l, enc, eofs[t[1]], p), None))
        else:
            stats["other"] += 1
            prev_get = None
        # correspondence with the model for absolute gets of modelled fields
        if op == "get" and t[2] != "here" and j < len(mo):
            m, al, here = split_flags(mo[j])
            if not m.startswith("unsupported") and not here and m.startswith("get n=") and a != m:
                bad.append(("model", j, "%s [%s]: impl model '%s' vs library '%s'" % (l, enc, m[:120], a[:120]), None))
    return bad, stats


def _has_phase(df, name, seen=None):
    seen = seen or set()
    if name in seen:
        return False
    seen.add(name)
    base = name.split(".")[0]
    f = next((x for x in df.fields if x['name'] == base), None)
    if f is None:
        return False
    if f['kind'] == 'phase' and f.get('shift', 0) != 0:
        return True
    return any(_has_phase(df, i, seen) for i in f.get('inputs', []))


def _multi(df, name):
    base = name.split(".")[0]
    f = next((x for x in df.fields if x['name'] == base), None)
    if f is None:
        return False
    if len(f.get('inputs', [])) > 1:
        return True
    return any(_multi(df, i) for i in f.get('inputs', []))


def run_streams(ctx, tag, judge_tell):
    gdmodel = C.build_gdmodel()
    try:
        harness = C.build_harness("gdh", ["gdh.c"], defines=history.SMALL_BUF_DEFINES)
        harness_big = C.build_harness("gdh", ["gdh.c"]) if ctx.thorough() else None
    except RuntimeError as e:
        raise F.C_BuildError(str(e))
    rng = ctx.rng
    nscripts = 600 if ctx.thorough() else 96
    built = []
    for i in range(nscripts):
        enc = ENCS[i % len(ENCS)]
        df, lines = history.build(rng, enc, rng.randint(30, 200 if ctx.thorough() else 90))
        built.append((df, lines, enc))
    res = streams.run_chunks(harness, [b[1] for b in built], tag)
    flat = [l for b in built for l in b[1]]
    mo, _, _ = streams.run_model(gdmodel, flat)
    k = 0
    allbad = []
    tot = {}
    for ci, (lines, out, crashed, err) in enumerate(res):
        df, _, enc = built[ci]
        if crashed:
            badl = lines[min(len(out), len(lines) - 1)]
            ctx.fail("input", "library aborted under ASan/UBSan at op '%s' [%s]: %s" % (badl, enc, err[-300:]),
                     {"script": lines[:len(out) + 1], "stderr": err[-2500:]}, sig={"class": "crash"})
        bad, stats = evaluate(ctx, df, lines, out, mo[k:k + len(lines)], enc, tag, judge_tell)
        for s, v in stats.items():
            tot[s] = tot.get(s, 0) + v
        for b in bad:
            allbad.append((b, df, lines, enc))
        k += len(lines)
    if harness_big is not None:
        res2 = streams.run_chunks(harness_big, [b[1] for b in built[:120]], tag + "big")
        for ci, (lines, out, crashed, err) in enumerate(res2):
            df, _, enc = built[ci]
            bad, stats = evaluate(ctx, df, lines, out, [], enc, tag + "-unhooked", judge_tell)
            for b in bad:
                allbad.append((b, df, lines, enc))
    return built, res, allbad, tot


def report(ctx, allbad, classes_known):
    seen = {}
    for (cls, j, what, extra), df, lines, enc in allbad:
        seen[cls] = seen.get(cls, 0) + 1
        if seen[cls] > 3 and cls not in ("purity", "tell", "seek"):
            ctx.failures.append(F.Failure("input", "", {}, {"class": cls}, True))
            continue
        if seen[cls] > 4:
            continue
        if cls == "model":
            ctx.fail("correspondence", what, {"correspondence": "gen_history", "script": lines[:j + 1]}, has_input=False)
        else:
            r = {"script": lines[:j + 1], "format": df.format_text()}
            if extra:
                r.update(extra)
            ctx.fail("input", what, r, sig={"class": cls, "enc": enc})


def run(ctx):
    ok, lr, infos = F.lean_obligations(ctx, MODULES, [])
    built, res, allbad, tot = run_streams(ctx, "c02", judge_tell=False)
    ctx.coverage.update({
        "rule": "per encoding (none,text,sie,gzip,bzip2,lzma) random single-rate dirfiles (2-3 RAW + index field, LINCOM/LINTERP/BIT/MULTIPLY/DIVIDE/RECIP/POLYNOM/WINDOW/PHASE/MPLEX on top); "
                "one whole-field read per field on a fresh handle, then a history of 30-90 (thorough 200) ops on a second handle: absolute and GD_HERE reads in arbitrary order, seeks, failing calls, "
                "raw_close, flush, open_limit; every read compared with the slice of the whole-field read; distinct = (encoding, field kind, GD_HERE?, empty?, short?)",
        "scripts": len(built), "op_histogram": tot, "small_buffers": history.SMALL_BUF_DEFINES,
    })
    if res:
        lines, out, _, _ = res[0]
        n = 0
        for i, l in enumerate(lines):
            if l.startswith(("get", "tell", "seek")) and i > len(lines) // 2 and i < len(out) and n < 4:
                ctx.sample({"op": l, "library": out[i][:140]})
                n += 1
    report(ctx, allbad, ())
    return_type_stream(ctx)
    alter_stream(ctx)
    if not ok and not any(f.kind == "input" for f in ctx.failures):
        names = [o[0] for o in ctx.obligations if not o[1]]
        ctx.fail("obligation", "Lean obligations no longer check: " + "; ".join(names)[:300] + " :: " + lr.errors[-500:],
                 {"theorem": names, "lean_errors": lr.errors[-3000:]}, has_input=False)


def alter_stream(ctx):
    """the clause 'after a successful change of ... metadata (gd_alter_*), reads reflect exactly that change': every derived field
    is read (so that its inputs are resolved and cached on the handle), then re-specified with gd_alter_spec — both inputs at
    once, one input, or only parameters — and read again on the same handle; the values must be those a fresh handle reads
    after the metadata have been flushed."""
    from checks.c10 import hx
    harness = C.build_harness("gdh", ["gdh.c"])
    rng = ctx.rng
    chunks = []
    RAWS = ["a", "b", "c", "d"]
    for i in range(40 if ctx.thorough() else 12):
        fmt = ["/VERSION 10", "/ENDIAN little", "/ENCODING none", "a RAW UINT8 1", "b RAW UINT8 1", "c RAW UINT8 1", "d RAW UINT8 1",
               "ca CARRAY FLOAT64 1.5 2.5 3.5 4.5 5.5 6.5", "cb CARRAY FLOAT64 10 20 30 40 50 60", "sa SARRAY p q r s t u", "sb SARRAY P Q R S T U"]
        def spec(nm, kind):
            x, y = rng.sample(RAWS, 2)
            return {"mu": "%s MULTIPLY %s %s" % (nm, x, y), "dv": "%s DIVIDE %s %s" % (nm, x, y),
                    "ind": "%s INDIR %s %s" % (nm, x, rng.choice(["ca", "cb"])), "wi": "%s WINDOW %s %s GE %d" % (nm, x, y, rng.randint(1, 4)),
                    "mp": "%s MPLEX %s %s %d" % (nm, x, y, rng.randint(1, 4)), "l2": "%s LINCOM 2 %s %d 0 %s %d 1" % (nm, x, rng.randint(1, 3), y, rng.randint(1, 3)),
                    "ph": "%s PHASE %s %d" % (nm, x, rng.randint(0, 2)), "bt": "%s BIT %s %d 3" % (nm, x, rng.randint(0, 2)),
                    "rc": "%s RECIP %s %d" % (nm, x, rng.randint(1, 4)), "po": "%s POLYNOM %s %d %d" % (nm, x, rng.randint(0, 3), rng.randint(1, 3))}[kind]
        kinds = ["mu", "dv", "ind", "wi", "mp", "l2", "ph", "bt", "rc", "po"]
        names = []
        for k in kinds:
            for j in range(2):
                nm = "%s%d" % (k, j)
                fmt.append(spec(nm, k))
                names.append((nm, k))
        L = ["reset", "file format " + hx("\n".join(fmt) + "\n")]
        for r in RAWS:
            L.append("file %s %s" % (r, bytes(rng.randint(0, 5) for _ in range(24)).hex()))
        L.append("open rdwr")
        warm = [nm for nm, k in names if rng.random() < 0.7]          # fields whose inputs are already resolved when they are altered
        L += ["get %s 0 0 0 100 f64" % nm for nm in warm]
        altered = []
        for nm, k in names:
            if rng.random() < 0.7:
                L.append("alterspec 0 " + hx(spec(nm, k)))
                altered.append(nm)
        mark1 = len(L)
        L += ["get %s 0 0 0 100 f64" % nm for nm, k in names]
        L += ["metaflush", "close", "open rdonly"]
        mark2 = len(L)
        L += ["get %s 0 0 0 100 f64" % nm for nm, k in names]
        chunks.append((L, names, mark1, mark2, set(warm), set(altered)))
    res = streams.run_chunks(harness, [c[0] for c in chunks], "c02alt")
    nalt = 0
    for ci, (lines, out, crashed, err) in enumerate(res):
        L, names, mark1, mark2, warm, altered = chunks[ci]
        if crashed or len(out) < len(lines):
            ctx.fail("input", "library aborted in the alter stream: %s" % err[-300:], {"script": lines[:len(out) + 1], "stderr": err[-2500:]}, sig={"class": "crash", "enc": "none"})
            continue
        for j, (nm, k) in enumerate(names):
            a, b = streams.strip_rl(out[mark1 + j])[0], streams.strip_rl(out[mark2 + j])[0]
            ctx.evaluations += 1
            nalt += 1
            ctx.distinct.add(("alter", k, nm in warm, nm in altered))
            if a != b:
                ctx.fail("input", "after gd_alter_spec%s the handle reads %s as '%s', a fresh handle on the flushed metadata reads '%s' (%s read before the change)" % (
                    " of it" if nm in altered else " of other fields", nm, a[:90], b[:90], "was" if nm in warm else "not"),
                    {"script": lines[:mark2 + j + 1], "observed": a, "expected": b}, sig={"class": "alter-not-reflected", "enc": "none"})
                break
    ctx.coverage["alter_stream"] = "%d field comparisons: 20 derived fields of 10 kinds per dirfile, read, re-specified with gd_alter_spec (new inputs and parameters), read on the same handle vs a fresh handle after gd_metaflush" % nalt


def return_type_stream(ctx):
    """the clause 'for RAW fields, and for derived fields whose inputs and result are exactly representable in both
    types, it is also the same in every return type': integer-valued data, integer/dyadic coefficients, every vector field
    read in FLOAT64, INT64, FLOAT32, COMPLEX128 and COMPLEX64; real parts must agree, imaginary parts of real fields be 0."""
    import struct
    from checks.c10 import hx
    harness = C.build_harness("gdh", ["gdh.c"])
    rng = ctx.rng
    chunks, metas = [], []
    for i in range(60 if ctx.thorough() else 16):
        s1, s2 = rng.choice([(1, 1), (2, 1), (1, 2), (2, 2), (4, 2)])
        n = rng.choice([6, 10])
        fmt = ["/VERSION 10", "/ENDIAN little", "/ENCODING none", "a RAW UINT8 %d" % s1, "b RAW INT16 %d" % s2, "c RAW COMPLEX64 %d" % s1,
               "l1 LINCOM 1 a %d %d" % (rng.randint(1, 5), rng.randint(-4, 4)),
               "l2 LINCOM 2 a %d %d b %d %d" % (rng.randint(1, 5), rng.randint(-4, 4), rng.randint(1, 3), rng.randint(0, 3)),
               "l2s LINCOM 2 a 2 1 a 3 0", "l3 LINCOM 3 a 1 0 b 2 1 a 1 1", "lc LINCOM 2 c 2 1 a 1 0",
               "mu MULTIPLY a b", "ph PHASE a 1", "po POLYNOM a 1 2 1", "bt BIT a 1 3", "rc RECIP a 64", "wi WINDOW a b GE 0", "mp MPLEX a b 3 0", "dv DIVIDE b a"]
        A = bytes(rng.choice([1, 2, 4, 8]) for _ in range(n * s1))
        B = b"".join(struct.pack("<h", rng.choice([-8, -2, 0, 3, 4, 16])) for _ in range(n * s2))
        Cc = b"".join(struct.pack("<ff", rng.randint(-9, 9), rng.randint(-9, 9)) for _ in range(n * s1))
        L = ["reset", "file format " + hx("\n".join(fmt) + "\n"), "file a " + A.hex(), "file b " + B.hex(), "file c " + Cc.hex(), "open rdonly"]
        fields = ["a", "b", "l1", "l2", "l2s", "l3", "mu", "ph", "po", "bt", "rc", "wi", "mp", "dv", "lc"]
        # aligned starts only (first sample of a frame): the multi-rate misalignment is known finding 5.1
        start = rng.choice([0, 1, 2])
        for f in fields:
            for t in ("f64", "c128", "i64", "f32", "c64"):
                L.append("get %s %d 0 0 5 %s" % (f, start, t))
        chunks.append(L)
        metas.append((fields, "\n".join(fmt)))
    res = streams.run_chunks(harness, chunks, "c02r")
    for ci, (lines, out, crashed, err) in enumerate(res):
        if crashed:
            ctx.fail("input", "library aborted in the return-type stream: %s" % err[-300:], {"script": lines[:len(out) + 1], "stderr": err[-2500:]}, sig={"class": "crash"})
            continue
        fields, fmt = metas[ci]
        base = 6

        def dec(a, t):
            m = re.match(r"get n=(\d+) e=(-?\d+) d=(\S*)", a)
            if not m or m.group(2) != "0":
                return None
            vals = []
            for x in [y for y in m.group(3).split(",") if y]:
                parts = x.split(";")
                def one(h):
                    if h == "nan":
                        return float("nan")
                    v = int(h, 16)
                    if t in ("f64", "c128"):
                        return struct.unpack("<d", struct.pack("<Q", v))[0]
                    if t in ("f32", "c64"):
                        return struct.unpack("<f", struct.pack("<I", v))[0]
                    return float(v - (1 << 64) if v >= (1 << 63) else v)
                vals.append((one(parts[0]), one(parts[1]) if len(parts) > 1 else 0.0))
            return vals
        for fi, f in enumerate(fields):
            got = {t: dec(out[base + 5 * fi + k], t) for k, t in enumerate(("f64", "c128", "i64", "f32", "c64"))}
            ref = got["c128"] if f == "lc" else got["f64"]
            if ref is None:
                continue
            ctx.evaluations += 1
            ctx.distinct.add(("rtype", f))
            for t in ("c128", "i64", "f32", "c64"):
                g = got[t]
                if g is None:
                    continue
                if f == "lc" and t in ("i64", "f32"):
                    cmpv = [(a[0], 0.0) for a in ref]
                elif f in ("rc", "dv") and t == "i64":
                    continue                      # not integer valued
                else:
                    cmpv = ref if (t.startswith("c") and f == "lc") else [(a[0], 0.0) for a in ref]
                if f == "lc" and t == "c64":
                    cmpv = ref
                same = len(g) == len(cmpv) and all((y[0] != y[0] and (x[0] != x[0] or (t == 'i64' and x[0] == 0))) or (x[0] == y[0] and x[1] == y[1]) for x, y in zip(g, cmpv))   # padding is NaN (any imaginary part)
                if not same:
                    ctx.fail("input", "field %s read as %s gives %s, as %s gives %s (exactly representable data)" % (f, t, g[:4], "c128" if f == "lc" else "f64", cmpv[:4]),
                             {"script": lines[:6] + [lines[base + 5 * fi], lines[base + 5 * fi + ("f64", "c128", "i64", "f32", "c64").index(t)]], "format": fmt},
                             sig={"class": "return-type", "field": f if f in ("rc", "dv") else "other", "type": t})
                    break


def replay(ctx, obj):
    harness = C.build_harness("gdh", ["gdh.c"], defines=history.SMALL_BUF_DEFINES)
    lines = obj.get("script", [])
    out, rc, err = streams.run_gdh(harness, lines, "replay")
    for l, a in list(zip(lines, out))[-12:]:
        if not l.startswith(("file", "def")):
            print(l, "->", a[:200])
    last = streams.strip_rl(out[-1])[0] if out else ""
    exp = obj.get("expected")
    if isinstance(exp, list):
        g = parse_get(last)
        return 0 if (g and g[1] == 0 and g[2] == exp) else 1
    return 1 if rc else 0
