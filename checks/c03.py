"""C03 — what is written is what is read back, for every encoding and invertible field."""
import struct
from vlib import common as C
from vlib import framework as F
from vlib import streams, gen, history
from checks.c01 import split_flags
import os, sys
sys.path.insert(0, os.path.join(C.VERIF, "extract"))
import x9_asciipad

ASSUMPTIONS = [
    "expected values come from the Lean model: Codec.Flat.put (proved in Props/C03) applied to the decoded RAW file, with caller-type -> field-type conversion by specConv (C06) and byte order by Bytes.Order (C01)",
    "text encoding, gap padding: the fscanf loop of _GD_AsciiRead is modelled (Codec.TextScan) over the scan formats, conversion counts and padding line that extractor X9 re-reads from src/ascii.c on every run; TextPad.padding_reads_back proves the padding of any gap is read back in full for all 12 types (numbers modelled as [sign] digits [. digits]; inf/nan/exponent spellings are left to the differential run)",
    "text encoding: only appends and writes past the end (the property's own restriction); floating data written as text compared through the library's own read-back",
    "writes through RECIP, first-order POLYNOM, LINTERP and MPLEX are judged by invariants on the real library (the written window reads back, every RAW sample outside the window is untouched, MPLEX touches only samples whose index equals the count value) with exactly invertible data; PHASE, BIT/SBIT and one-field LINCOM also against the Lean model",
    "the library is built with hook H1 small buffers so that the out-of-place copy loop and codec windows are crossed",
]
CHECKER_CMD = "cd /verif/lean && lake build GdModel.Props.C03 && lake env lean <generated #print axioms file>"
MODULES = ["GdModel.Props.C03"]
ENCS = ['none', 'text', 'sie', 'gzip', 'bzip2', 'lzma']
TYPES = ['u8', 'i8', 'u16', 'i16', 'u32', 'i32', 'u64', 'i64', 'f32', 'f64', 'c64', 'c128']
W = {'u8': 1, 'i8': 1, 'u16': 2, 'i16': 2, 'u32': 4, 'i32': 4, 'u64': 8, 'i64': 8, 'f32': 4, 'f64': 8, 'c64': 4, 'c128': 8}


def bits(ty, v):
    """python number (or (re,im)) -> hex bit pattern string for the put op"""
    if ty in ('c64', 'c128'):
        re, im = v if isinstance(v, tuple) else (v, 0.0)
        f = '<f' if ty == 'c64' else '<d'
        u = '<I' if ty == 'c64' else '<Q'
        return "%x;%x" % (struct.unpack(u, struct.pack(f, re))[0], struct.unpack(u, struct.pack(f, im))[0])
    if ty == 'f32':
        return "%x" % struct.unpack('<I', struct.pack('<f', v))[0]
    if ty == 'f64':
        return "%x" % struct.unpack('<Q', struct.pack('<d', v))[0]
    w = W[ty] * 8
    return "%x" % (int(v) % (1 << w))


def rand_vals(rng, ty, n, full=False):
    out = []
    pool = [rng.randint(0, 9) for _ in range(3)]
    for _ in range(n):
        r = rng.random()
        if full and ty[0] in 'fc' and r < 0.5:
            # full-mantissa values: every digit of the stored representation matters
            a, b = rng.uniform(-1000, 1000) / 3, rng.uniform(-1, 1) * 10.0 ** rng.randint(-30, 30)
            if ty in ('f32', 'c64'):
                a, b = struct.unpack('<ff', struct.pack('<ff', a, b))
            out.append((a, b) if ty[0] == 'c' else a)
            continue
        if full and ty[0] in 'ui' and r < 0.5:
            # the whole range of the type, boundaries first (top bit set, all ones, most negative)
            wbits = W[ty] * 8
            lo, hi = (0, (1 << wbits) - 1) if ty[0] == 'u' else (-(1 << (wbits - 1)), (1 << (wbits - 1)) - 1)
            out.append(rng.choice([lo, hi, hi - 1, lo + 1, (hi + lo + 1) // 2, (hi + lo + 1) // 2 - 1, rng.randint(lo, hi), rng.randint(lo, hi)]))
            continue
        if r < 0.45:
            v = rng.choice(pool)           # equal neighbours: SIE runs
        elif r < 0.55:
            v = 0
        else:
            v = rng.randint(0, 100)
        if ty in ('c64', 'c128'):
            out.append((float(v) if rng.random() < 0.7 else 0.0, float(rng.choice(pool)) if rng.random() < 0.6 else 0.0))
        elif ty in ('f32', 'f64'):
            out.append(float(v) / rng.choice([1, 2, 4]))
        else:
            out.append(v)
    return out


def model_line(l):
    t = l.split()
    if t and t[0] == "put" and t[-1].startswith("@"):
        return "put %s 0 %s %s %s" % (t[1], t[-1][1:], t[4], t[5])
    return l


def build(rng, enc, ty, order):
    spf = rng.choice([1, 2, 3])
    foff = rng.choice([0, 0, 1, 2])
    isint = ty[0] in 'ui'
    iscplx = ty[0] == 'c'
    GD = gen.GDNAME
    fmt = ["/VERSION 10", "/ENDIAN " + gen.ORDERS[order], "/ENCODING " + enc]
    if foff:
        fmt.append("/FRAMEOFFSET %d" % foff)
    fmt += ["r RAW %s %d" % (GD[ty], spf), "ph PHASE r 2"]
    defs = ["def raw r %s %d %d %s" % (ty, spf, foff, order), "def phase ph r 2"]
    writers = ["r", "r", "r", "ph"]
    if isint and W[ty] >= 2:
        fmt.append("bt BIT r 3 4")
        defs.append("def bit bt r 3 4")
        writers.append("bt")
    if not isint and not iscplx:
        fmt.append("l1 LINCOM 1 r 2 1")
        defs.append("def lincom l1 r %s %s" % (gen.f64hex(2.0), gen.f64hex(1.0)))
        writers.append("l1")
    n0 = rng.choice([0, 0, rng.randint(1, 12)])
    absent = True
    init = rand_vals(rng, ty, n0) if not iscplx else []
    L = ["reset", "file format " + ("\n".join(fmt) + "\n").encode().hex()]
    if n0 and not iscplx:
        absent = False
        raw = gen.encode_samples(ty, order, init)
        L.append("file r%s %s" % (gen.ENC_EXT[enc], gen.file_encode(enc, ty, order, init, raw).hex()))
        defs[0] += " " + raw.hex()
    elif rng.random() < 0.5:
        absent = False
        # a valid empty stream; otherwise no data file at all (gd_putdata creates it)
        L.append("file r%s %s" % (gen.ENC_EXT[enc], gen.file_encode(enc, ty if not iscplx else 'f64', order, [], b"").hex()))
    L += defs
    L.append("open rdwr")
    # model of the logical length (absolute samples) to steer positions
    length = foff * spf + (n0 if not iscplx else 0)
    rt = ty if (isint or iscplx) else 'f64'
    nops = rng.randint(5, 30)
    for opi in range(nops):
        r = rng.random()
        # with no data file yet the first write must be the one that creates it
        # (BIT's read-modify-write and PHASE reads of a missing file are I/O errors)
        w = rng.choice(writers) if not (absent and opi == 0) else "r"
        cty = ty if (w != "l1" and rng.random() < 0.6) else ('f64' if w in ("l1",) or not iscplx else ty)
        if w == "bt":
            cty = rng.choice(['u8', 'u16', ty])
        if iscplx:
            cty = rng.choice([ty, 'c128'])
        n = rng.choice([1, 2, 3, 5, 9])
        shift = 2 if w == "ph" else 0
        if r < 0.45 or enc == 'text':
            s = length - shift                                # append
        elif r < 0.7:
            s = length - shift + rng.randint(1, 7)            # past the end: leaves a gap
        else:
            s = rng.randint(foff * spf, max(foff * spf, length)) - shift   # overwrite somewhere inside
        if s + shift < foff * spf or s < 0:
            s = max(0, foff * spf - shift) if foff * spf - shift >= 0 else length
        vals = rand_vals(rng, cty if w != "bt" else 'u8', n, full=(w in ("r", "ph") and (ty[0] in 'fc' or cty == ty) and rng.random() < 0.5))
        if w == "bt":
            vals = [v % 16 for v in vals]
        L.append("put %s 0 %d %s %s" % (w, s, cty, ",".join(bits(cty, v) for v in vals)))
        length = max(length, s + shift + n)
        if w == "r" and rng.random() < 0.3:
            # GD_HERE sequential write: continues where the last write on r stopped.
            # ('@k' is ignored by the harness; model_line() turns it into the absolute position)
            here = s + n
            n2 = rng.choice([1, 2, 4])
            vals2 = rand_vals(rng, cty, n2, full=False)
            L.append("put r here 0 %s %s @%d" % (cty, ",".join(bits(cty, v) for v in vals2), here))
            length = max(length, here + n2)
        k = rng.random()
        if k < 0.5:
            L.append("get r 0 0 0 100000 %s" % rt)
        if k < 0.2:
            L.append("eof r")
        if 0.5 < k < 0.6:
            L.append("flush")
        if 0.6 < k < 0.7:
            L += ["close", "open rdwr"]
        if 0.7 < k < 0.78:
            L.append("get ph 0 0 0 100000 %s" % rt)
    L += ["get r 0 0 0 100000 %s" % rt, "eof r", "close", "open rdonly", "get r 0 0 0 100000 %s" % rt, "eof r", "nframes"]
    return L


def inverse_script(rng, enc):
    """writes through RECIP / POLYNOM / LINTERP / MPLEX, judged by invariants"""
    spf = 2
    fmt = ["/VERSION 10", "/ENDIAN little", "/ENCODING " + enc, "r RAW FLOAT64 %d" % spf, "ix RAW UINT8 %d" % spf,
           "rc RECIP r 4", "po POLYNOM r 1 2", "lt LINTERP r lut.txt", "mp MPLEX r ix 1"]
    init = [float(rng.choice([1, 2, 4, 8])) for _ in range(20)]
    ixv = [rng.randint(0, 2) for _ in range(20)]
    L = ["reset", "file format " + ("\n".join(fmt) + "\n").encode().hex(),
         "file lut.txt " + b"0 0\n4 8\n8 24\n16 40\n".hex()]
    for name, ty, vals in (("r", "f64", init), ("ix", "u8", ixv)):
        raw = gen.encode_samples(ty, 'le', vals)
        L.append("file %s%s %s" % (name, gen.ENC_EXT[enc], gen.file_encode(enc, ty, 'le', vals, raw).hex()))
    L.append("open rdwr")
    checks = []
    for _ in range(8):
        w = rng.choice(["rc", "po", "lt", "mp"])
        s = rng.randint(0, 14)
        n = rng.randint(1, 5)
        if w == "rc":
            vals = [rng.choice([0.5, 1.0, 2.0, 4.0]) for _ in range(n)]         # r = 4/v exact
        elif w == "po":
            vals = [float(2 * rng.randint(0, 8) + 1) for _ in range(n)]         # r = (v-1)/2 exact
        elif w == "lt":
            vals = [float(rng.choice([0, 8, 24, 40, 4, 16])) for _ in range(n)]  # knots and midpoints: exact
        else:
            vals = [float(rng.randint(50, 60)) for _ in range(n)]
        L.append("get r 0 0 0 100000 f64")
        L.append("put %s 0 %d f64 %s" % (w, s, ",".join(bits('f64', v) for v in vals)))
        L.append("get r 0 0 0 100000 f64")
        L.append("get %s 0 %d 0 %d f64" % (w, s, n))
        checks.append((len(L) - 4, w, s, n, vals, ixv))
    return L, checks


def run(ctx):
    ok, lr, infos = F.lean_obligations(ctx, MODULES, [lambda: x9_asciipad.main(C.REPO)])
    gdmodel = C.build_gdmodel()
    try:
        harness = C.build_harness("gdh", ["gdh.c"], defines=history.SMALL_BUF_DEFINES)
    except RuntimeError as e:
        raise F.C_BuildError(str(e))
    rng = ctx.rng
    chunks = []
    meta = []
    reps = 6 if ctx.thorough() else 1
    for rep in range(reps):
        for enc in ENCS:
            for ty in TYPES:
                # SIE is the one encoding whose writer restructures the file (run merging,
                # splitting, zero-fill records), so it gets more scripts per type
                for _ in range(4 if enc == 'sie' else 1):
                    order = rng.choice(list(gen.ORDERS))
                    chunks.append(build(rng, enc, ty, order))
                    meta.append((enc, ty, order))
    res = streams.run_chunks(harness, chunks, "c03")
    flat = [model_line(l) for c in chunks for l in c]
    mo, _, merr = streams.run_model(gdmodel, flat)
    k = 0
    nput = nget = 0
    shown = {}
    for ci, (lines, out, crashed, err) in enumerate(res):
        enc, ty, order = meta[ci]
        if crashed:
            bad = lines[min(len(out), len(lines) - 1)]
            ctx.fail("input", "library aborted at op '%s' [%s %s %s]: %s" % (bad, enc, ty, order, err[-300:]),
                     {"script": lines[:len(out) + 1], "stderr": err[-2500:]}, sig={"class": "crash", "enc": enc})
        for i, l in enumerate(lines):
            if i >= len(out) or k + i >= len(mo):
                break
            t = l.split()
            if t[0] not in ("put", "get", "eof", "nframes"):
                continue
            a, rl = streams.strip_rl(out[i])
            m = split_flags(mo[k + i])[0]
            if m.startswith("unsupported") or m == "-":
                continue
            ctx.evaluations += 1
            if t[0] == "put":
                nput += 1
            else:
                nget += 1
            ctx.distinct.add((enc, ty, t[0], t[1] if t[0] == "put" else ""))
            if rl not in (None, 0):
                ctx.fail("input", "recursion counter %d after '%s'" % (rl, l), {"script": lines[:i + 1]}, sig={"class": "recurse_level"})
            if t[0] == "nframes":
                # model's reference field: the only RAW
                pass
            if a != m:
                key = (enc, ty, t[0])
                shown[key] = shown.get(key, 0) + 1
                if shown[key] <= 1 and len(ctx.failures) < 8:
                    ctx.fail("input", "%s [%s %s %s, after %d ops]: library '%s', expected (Flat.put model) '%s'" % (
                        l[:80], enc, ty, order, i, a[:140], m[:140]),
                        {"script": lines[:i + 1], "expected": m, "observed": a}, sig={"class": "putget", "enc": enc, "type": ty})
        k += len(lines)
    # inverse-field invariants
    inv_chunks = []
    inv_checks = []
    for rep in range(4 if ctx.thorough() else 1):
        for enc in ENCS:
            if enc == 'text':
                continue    # text supports appends only (property text); in-place overwrites are out of scope
            L, ch = inverse_script(rng, enc)
            inv_chunks.append(L)
            inv_checks.append((enc, ch))
    res2 = streams.run_chunks(harness, inv_chunks, "c03inv")
    for ci, (lines, out, crashed, err) in enumerate(res2):
        enc, checks = inv_checks[ci]
        if crashed:
            bad = lines[min(len(out), len(lines) - 1)]
            ctx.fail("input", "library aborted at op '%s' [%s]: %s" % (bad, enc, err[-300:]),
                     {"script": lines[:len(out) + 1], "stderr": err[-2500:]}, sig={"class": "crash", "enc": enc})
            continue
        from checks.c02 import parse_get
        for (i0, w, s, n, vals, ixv) in checks:
            if i0 + 3 >= len(out):
                continue
            before = parse_get(streams.strip_rl(out[i0])[0])
            putr = streams.strip_rl(out[i0 + 1])[0]
            after = parse_get(streams.strip_rl(out[i0 + 2])[0])
            back = parse_get(streams.strip_rl(out[i0 + 3])[0])
            ctx.evaluations += 1
            ctx.distinct.add((enc, "inverse", w))
            if " e=0" not in putr or before is None or after is None or back is None:
                continue
            want = [bits('f64', v) for v in vals]
            sel = [j for j in range(n)] if w != "mp" else [j for j in range(n) if s + j < len(ixv) and ixv[s + j] == 1]
            problems = []
            for j in sel:
                if j < len(back[2]) and back[2][j] != want[j]:
                    problems.append("sample %d reads back %s, written %s" % (s + j, back[2][j], want[j]))
            for j in range(min(len(before[2]), len(after[2]))):
                touched = s <= j < s + n and (w != "mp" or (j < len(ixv) and ixv[j] == 1))
                if not touched and before[2][j] != after[2][j]:
                    problems.append("RAW sample %d outside the written set changed %s -> %s" % (j, before[2][j], after[2][j]))
            if problems and len(ctx.failures) < 10:
                ctx.fail("input", "%s [%s]: %s" % (lines[i0 + 1][:80], enc, "; ".join(problems[:3])),
                         {"script": lines[:i0 + 4], "problems": problems[:10]}, sig={"class": "inverse", "enc": enc, "field": w})
    ctx.coverage.update({
        "rule": "6 encodings x 12 native types (one byte order and frame offset seeded per script): 5-30 gd_putdata calls each (appends, overwrites, writes past the end, mixed caller types, through PHASE / BIT / one-field LINCOM) "
                "interleaved with whole-field reads, gd_eof, gd_flush, close+reopen; every answer compared with the Lean model (Flat.put on the decoded file); "
                "plus writes through RECIP/POLYNOM/LINTERP/MPLEX judged by read-back and untouched-elsewhere invariants; distinct = (encoding, type, op, target)",
        "scripts": len(chunks) + len(inv_chunks), "puts": nput, "reads": nget, "small_buffers": history.SMALL_BUF_DEFINES,
    })
    if res:
        lines, out, _, _ = res[0]
        n = 0
        for i, l in enumerate(lines):
            if l.startswith(("put", "get")) and i < len(out) and n < 4:
                ctx.sample({"op": l[:100], "library": out[i][:120], "model": mo[i][:120]})
                n += 1
    if not ok and not any(f.kind == "input" for f in ctx.failures):
        names = [o[0] for o in ctx.obligations if not o[1]]
        ctx.fail("obligation", "Lean obligations no longer check: " + "; ".join(names)[:300] + " :: " + lr.errors[-500:],
                 {"theorem": names, "lean_errors": lr.errors[-3000:]}, has_input=False)


def replay(ctx, obj):
    gdmodel = C.build_gdmodel()
    harness = C.build_harness("gdh", ["gdh.c"], defines=history.SMALL_BUF_DEFINES)
    lines = obj.get("script", [])
    out, rc, err = streams.run_gdh(harness, lines, "replay")
    mo, _, _ = streams.run_model(gdmodel, [model_line(l) for l in lines])
    bad = 0
    for l, a, m in list(zip(lines, out, mo))[-8:]:
        if l.startswith(("put", "get", "eof")):
            a0 = streams.strip_rl(a)[0]
            print(l[:90], "\n  library:", a0[:160], "\n  model:  ", m[:160])
            if not m.startswith("unsupported") and a0 != split_flags(m)[0]:
                bad = 1
    return 1 if (bad or rc) else 0
