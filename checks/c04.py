"""C04 — RAW data files on disk follow the Standards and the external codecs' formats."""
import struct, gzip, bz2, lzma, zlib
from vlib import common as C
from vlib import framework as F
from vlib import streams, gen, history
from checks import c03
from checks.c01 import split_flags

ASSUMPTIONS = [
    "the gzip / bzip2 / xz containers are decoded and produced by Python's zlib, bz2 and lzma modules (stock decoders, independent of the library's use of libz/libbz2/liblzma)",
    "the payload, the text lines and the sie records are decoded by the Lean on-disk model (GdModel.Codec.Disk: decodeSamples, parseLines, decodeSie/expand), whose round-trip theorems are Props/C04",
    "expected samples are the Lean write model's bare array after the same gd_putdata history (C03 model)",
    "floating text lines are compared after strtod-equivalent parsing by Python float() and rounding to the field's type",
]
CHECKER_CMD = "cd /verif/lean && lake build GdModel.Props.C04 && lake env lean <generated #print axioms file>"
MODULES = ["GdModel.Props.C04"]
ENCS = c03.ENCS
W = c03.W


def unhex_dump(line):
    if not line.startswith("dump "):
        return None
    return bytes.fromhex(line[5:].strip())


def container_decode(enc, blob):
    if enc == 'gzip':
        return gzip.decompress(blob)
    if enc == 'bzip2':
        return bz2.decompress(blob)
    if enc == 'lzma':
        return lzma.decompress(blob, format=lzma.FORMAT_XZ)
    return blob


def foreign_file(rng, enc, ty, order, vals):
    """a file 'produced by another tool', with the container variations such tools use"""
    raw = gen.encode_samples(ty, order, vals)
    if enc == 'none':
        return raw
    if enc == 'gzip':
        k = rng.randint(0, 3)
        if k == 0:
            return gzip.compress(raw, compresslevel=rng.choice([1, 6, 9]), mtime=rng.randint(0, 2 ** 31))
        if k == 1:      # header with a file name and comment field, as gzip(1) writes
            co = zlib.compressobj(rng.choice([1, 9]), zlib.DEFLATED, -15)
            body = co.compress(raw) + co.flush()
            hdr = b"\x1f\x8b\x08\x18" + struct.pack("<I", 12345) + b"\x02\x03" + b"data.bin\x00" + b"a comment\x00"
            return hdr + body + struct.pack("<II", zlib.crc32(raw) & 0xffffffff, len(raw) & 0xffffffff)
        if k == 2:      # stored (uncompressed) deflate blocks
            return gzip.compress(raw, compresslevel=0, mtime=0)
        return gzip.compress(raw, mtime=0)
    if enc == 'bzip2':
        return bz2.compress(raw, rng.choice([1, 5, 9]))
    if enc == 'lzma':
        chk = rng.choice([lzma.CHECK_CRC32, lzma.CHECK_CRC64, lzma.CHECK_NONE, lzma.CHECK_SHA256])
        return lzma.compress(raw, format=lzma.FORMAT_XZ, check=chk, preset=rng.choice([0, 6, 9]))
    if enc == 'text':
        return gen.text_encode(ty, vals)
    if enc == 'sie':
        return gen.sie_encode(ty, order, vals, merge=rng.random() < 0.5)
    raise ValueError(enc)


def foreign_script(rng, enc, ty, order, autodetect):
    spf = rng.choice([1, 2, 3])
    foff = rng.choice([0, 0, 2])
    n = rng.choice([0, 1, 7, 40, 300])
    pool = [rng.randint(0, 5) for _ in range(3)]
    vals = []
    for _ in range(n):
        v = rng.choice(pool) if rng.random() < 0.5 else rng.randint(-100 if ty[0] in 'if' else 0, 120)
        if ty[0] == 'u':
            v = abs(v)
        vals.append(float(v) / 4 if ty[0] == 'f' else v)
    fmt = ["/VERSION 10", "/ENDIAN " + gen.ORDERS[order]]
    if not autodetect:
        fmt.append("/ENCODING " + enc)
    if foff:
        fmt.append("/FRAMEOFFSET %d" % foff)
    fmt.append("r RAW %s %d" % (gen.GDNAME[ty], spf))
    raw = gen.encode_samples(ty, order, vals)
    L = ["reset", "file format " + ("\n".join(fmt) + "\n").encode().hex(),
         "file r%s %s" % (gen.ENC_EXT[enc], foreign_file(rng, enc, ty, order, vals).hex()),
         "def raw r %s %d %d %s %s" % (ty, spf, foff, order, raw.hex()),
         "open rdonly", "getenc", "get r 0 0 0 100000 %s" % ty, "eof r", "nframes"]
    # a few windows, so that seeks inside the container are exercised too
    for _ in range(3):
        s = rng.randint(0, max(0, n + foff * spf))
        L.append("get r 0 %d 0 %d %s" % (s, rng.randint(1, 50), ty))
    return L


def run(ctx):
    ok, lr, infos = F.lean_obligations(ctx, MODULES, [])
    gdmodel = C.build_gdmodel()
    try:
        harness = C.build_harness("gdh", ["gdh.c"], defines=history.SMALL_BUF_DEFINES)
    except RuntimeError as e:
        raise F.C_BuildError(str(e))
    rng = ctx.rng
    # ---- stream A: files the library writes ---------------------------------
    chunks, meta = [], []
    reps = 5 if ctx.thorough() else 1
    for rep in range(reps):
        for enc in ENCS:
            for ty in c03.TYPES:
                for _ in range(2 if enc in ('sie', 'text') else 1):
                    order = rng.choice(list(gen.ORDERS))
                    L = c03.build(rng, enc, ty, order)
                    L += ["close", "bytes r", "dump r%s" % gen.ENC_EXT[enc], "ls"]
                    chunks.append(L)
                    meta.append((enc, ty, order))
    res = streams.run_chunks(harness, chunks, "c04")
    flat = [c03.model_line(l) for c in chunks for l in c]
    mo, _, _ = streams.run_model(gdmodel, flat)
    k = 0
    q = []          # second model pass: decode what the library wrote
    qmeta = []
    nfiles = 0
    for ci, (lines, out, crashed, err) in enumerate(res):
        enc, ty, order = meta[ci]
        base = k
        k += len(lines)
        if crashed or len(out) < len(lines):
            ctx.fail("input", "library aborted in a write script [%s %s %s]: %s" % (enc, ty, order, err[-300:]),
                     {"script": lines[:len(out) + 1], "stderr": err[-2500:]}, sig={"class": "crash", "enc": enc})
            continue
        want = mo[base + len(lines) - 3]
        if not want.startswith("bytes "):
            continue
        want = bytes.fromhex(want[6:].strip())
        blob = unhex_dump(out[len(lines) - 2])
        ls = out[len(lines) - 1].split()[1:]
        ctx.evaluations += 1
        nfiles += 1
        ctx.distinct.add(("written", enc, ty, order))
        name = "r" + gen.ENC_EXT[enc]
        script = lines
        # no debris, and only the file the encoding names
        extra = [f for f in ls if f not in ("format", name)]
        if extra:
            ctx.fail("input", "after gd_close the directory holds %s besides format and %s [%s %s]" % (extra, name, enc, ty),
                     {"script": script, "ls": ls}, sig={"class": "debris", "enc": enc})
        if blob is None:
            if want:
                ctx.fail("input", "no data file %s after writes [%s %s]" % (name, enc, ty), {"script": script},
                         sig={"class": "absent", "enc": enc})
            continue
        if enc in ('none', 'gzip', 'bzip2', 'lzma'):
            try:
                payload = container_decode(enc, blob)
            except Exception as e:
                ctx.fail("input", "%s written by the library is rejected by the stock %s decoder: %s [%s %s]" % (name, enc, e, ty, order),
                         {"script": script, "file": blob.hex()}, sig={"class": "container", "enc": enc})
                continue
            if payload != want:
                i = next((j for j in range(min(len(payload), len(want))) if payload[j] != want[j]), min(len(payload), len(want)))
                ctx.fail("input", "%s [%s %s %s]: payload differs from the field's samples at byte %d (file %d bytes, expected %d): ...%s vs ...%s" % (
                    name, enc, ty, order, i, len(payload), len(want), payload[max(0, i - 4):i + 8].hex(), want[max(0, i - 4):i + 8].hex()),
                    {"script": script, "file": blob.hex(), "expected_payload": want.hex()}, sig={"class": "payload", "enc": enc, "type": ty})
        elif enc == 'sie':
            q.append("siedecode %s %s %s" % (ty, order, blob.hex()))
            q.append("baredecode %s %s %s" % (ty, order, want.hex()))
            qmeta.append(("sie", ci, blob))
        elif enc == 'text':
            q.append("textdecode %s" % blob.hex())
            q.append("baredecode %s %s %s" % (ty, order, want.hex()))
            qmeta.append(("text", ci, blob))
    if q:
        qo, _, _ = streams.run_model(gdmodel, q)
        for j, (kind, ci, blob) in enumerate(qmeta):
            enc, ty, order = meta[ci]
            a, b = qo[2 * j], qo[2 * j + 1]
            exp = b[len("samples "):].strip()
            script = chunks[ci]
            if kind == "sie":
                # sie inc=1 whole=1 nrec=N samples ...
                head, _, got = a.partition(" samples ")
                got = got.strip()
                if "inc=1" not in head:
                    ctx.fail("input", "r.sie [%s %s]: record indices are not strictly increasing (%s)" % (ty, order, head),
                             {"script": script, "file": blob.hex()}, sig={"class": "sie-order", "type": ty})
                if "whole=1" not in head:
                    ctx.fail("input", "r.sie [%s %s]: file length is not a whole number of records (%s)" % (ty, order, head),
                             {"script": script, "file": blob.hex()}, sig={"class": "sie-partial", "type": ty})
                if got != exp:
                    ctx.fail("input", "r.sie [%s %s]: records expand to %s..., the field holds %s..." % (ty, order, got[:120], exp[:120]),
                             {"script": script, "file": blob.hex(), "expected": exp}, sig={"class": "sie-samples", "type": ty})
            else:
                expl = [x for x in exp.split(",") if x]
                lines_txt = blob.decode("latin1").split("\n")
                if lines_txt and lines_txt[-1] == "":
                    lines_txt.pop()
                else:
                    ctx.fail("input", "r.txt [%s]: last line is not newline-terminated" % ty, {"script": script, "file": blob.hex()},
                             sig={"class": "text-newline", "type": ty})
                bad = None
                if len(lines_txt) != len(expl):
                    bad = "file has %d lines, the field holds %d samples" % (len(lines_txt), len(expl))
                elif ty[0] in 'ui':
                    got = a[len("lines "):].strip().split(",") if a.strip() != "lines" else []
                    w = W[ty] * 8
                    for i, (g, e) in enumerate(zip(got, expl)):
                        ev = int(e.split(";")[0], 16)
                        if ty[0] == 'i' and ev >= 1 << (w - 1):
                            ev -= 1 << w
                        if g != str(ev):
                            bad = "line %d is '%s', sample is %d" % (i, lines_txt[i], ev)
                            break
                else:
                    for i, (t, e) in enumerate(zip(lines_txt, expl)):
                        parts = t.split(";")
                        eb = [int(x, 16) for x in e.split(";")]
                        ncomp = 2 if ty[0] == 'c' else 1
                        # (a complex sample needs both parts on its line: the library's own reader accepts nothing else — 5.84)
                        if len(parts) != ncomp:
                            bad = "line %d '%s' has %d components" % (i, t, len(parts))
                            break
                        for c in range(ncomp):
                            try:
                                v = float(parts[c])
                            except ValueError:
                                bad = "line %d '%s' is not a decimal number" % (i, t)
                                break
                            if W[ty] == 4:
                                gb = struct.unpack('<I', struct.pack('<f', v))[0]
                            else:
                                gb = struct.unpack('<Q', struct.pack('<d', v))[0]
                            if gb != eb[c] and not (v != v):
                                bad = "line %d '%s' parses to %x, sample is %x" % (i, t, gb, eb[c])
                                break
                        if bad:
                            break
                if bad:
                    ctx.fail("input", "r.txt [%s %s]: %s" % (ty, order, bad), {"script": script, "file": blob.hex(), "expected": exp},
                             sig={"class": "text", "type": ty})
    # ---- stream B: files produced by another tool ---------------------------
    fchunks, fmeta = [], []
    for rep in range(6 if ctx.thorough() else 2):
        for enc in ENCS:
            for ty in gen.REAL_TYPES:
                order = rng.choice(list(gen.ORDERS))
                auto = rng.random() < 0.5
                fchunks.append(foreign_script(rng, enc, ty, order, auto))
                fmeta.append((enc, ty, order, auto))
    res2 = streams.run_chunks(harness, fchunks, "c04f")
    flat2 = [l for c in fchunks for l in c]
    mo2, _, _ = streams.run_model(gdmodel, flat2)
    k = 0
    nforeign = 0
    ENCNAME = {'none': 'none', 'text': 'text', 'sie': 'sie', 'gzip': 'gzip', 'bzip2': 'bzip2', 'lzma': 'lzma'}
    for ci, (lines, out, crashed, err) in enumerate(res2):
        enc, ty, order, auto = fmeta[ci]
        if crashed:
            ctx.fail("input", "library aborted reading a foreign %s file [%s %s]: %s" % (enc, ty, order, err[-300:]),
                     {"script": lines[:len(out) + 1], "stderr": err[-2500:]}, sig={"class": "crash", "enc": enc})
        for i, l in enumerate(lines):
            if i >= len(out):
                break
            t = l.split()
            if t[0] == "getenc":
                ctx.evaluations += 1
                if ("getenc %s " % ENCNAME[enc]) not in out[i]:
                    # with no data file content the extension is still what selects the codec
                    ctx.fail("input", "gd_encoding reports '%s' for a dirfile whose data file is r%s (%s)" % (
                        out[i], gen.ENC_EXT[enc], "no /ENCODING directive" if auto else "/ENCODING " + enc),
                        {"script": lines[:i + 1]}, sig={"class": "discovery", "enc": enc})
                continue
            if t[0] not in ("get", "eof", "nframes"):
                continue
            a = streams.strip_rl(out[i])[0]
            m = split_flags(mo2[k + i])[0]
            if m.startswith("unsupported"):
                continue
            ctx.evaluations += 1
            nforeign += 1
            ctx.distinct.add(("foreign", enc, ty, order, auto))
            if a != m:
                ctx.fail("input", "%s on a foreign r%s [%s %s%s]: library '%s', the file holds '%s'" % (
                    l, gen.ENC_EXT[enc], ty, order, ", codec chosen by extension" if auto else "", a[:140], m[:140]),
                    {"script": lines[:i + 1], "expected": m, "observed": a}, sig={"class": "foreign", "enc": enc, "type": ty})
                break
        k += len(lines)
    ctx.coverage.update({
        "rule": "A: for 6 encodings x 12 types, a random gd_putdata history, gd_close, then the data file's bytes are decoded independently "
                "(stock gzip/bz2/xz decoders; Lean decodeSamples / parseLines / decodeSie+expand) and compared with the Lean write model's array; "
                "directory listing checked for debris. B: for 6 encodings x 10 types, a file produced by Python encoders with container variations "
                "(gzip header fields, levels, stored blocks; bzip2 block sizes; xz check types and presets; sie with unmerged runs) is read by the "
                "library with and without an /ENCODING directive and compared with the samples",
        "written_files": nfiles, "foreign_reads": nforeign,
    })
    if res and res[0][1]:
        ctx.sample({"script_tail": res[0][0][-4:], "library": [x[:100] for x in res[0][1][-3:]]})
    if not ok and not any(f.kind == "input" for f in ctx.failures):
        names = [o[0] for o in ctx.obligations if not o[1]]
        ctx.fail("obligation", "Lean obligations no longer check: " + "; ".join(names)[:300] + " :: " + lr.errors[-500:],
                 {"theorem": names, "lean_errors": lr.errors[-3000:]}, has_input=False)


def replay(ctx, obj):
    harness = C.build_harness("gdh", ["gdh.c"], defines=history.SMALL_BUF_DEFINES)
    gdmodel = C.build_gdmodel()
    lines = obj.get("script", [])
    out, rc, err = streams.run_gdh(harness, lines, "replay")
    mo, _, _ = streams.run_model(gdmodel, lines)
    for l, a, m in list(zip(lines, out, mo))[-6:]:
        print(l[:100], "\n  library:", a[:200], "\n  model:  ", m[:200])
    print("expected:", str(obj.get("expected") or obj.get("expected_payload"))[:300])
    return 1
