"""C05 — no file content can make the library misbehave."""
import bz2, gzip, lzma, os, re, shutil, struct, zlib
from concurrent.futures import ThreadPoolExecutor
from vlib import common as C
from vlib import framework as F
from vlib import streams

ASSUMPTIONS = [
    "PARTIAL: memory safety of the C is not a property a Lean model has.  Proved in Lean (Props/C05, all inputs): the tokeniser never writes more bytes than the line has (the buffer _GD_Tokenise allocates is long enough), the LINTERP index search stays inside the table for every outcome of the floating-point comparisons (NaNs, unsorted tables), the alias walk of _GD_ResolveAlias stops within the table size, evaluation of any field graph stops at GD_MAX_RECURSE_LEVEL, include trees deeper than the limit end in the recursion error.  Everything else is sampled: the real library, built with ASan+UBSan+LSan, opens generated hostile dirfiles and calls every read-side API on every field the parser accepted",
    "oracle of the sampled part: the process exits normally, no sanitizer or leak report, every gd_error value is a GetData error code other than GD_E_INTERNAL_ERROR, gd_open returns a handle, gd_close/gd_discard succeed, every call returns within the time limit, definitions known to be circular answer GD_E_RECURSE_LEVEL",
    "uninitialised reads are not visible to ASan; a valgrind memcheck pass over a subsample of the same inputs (unsanitised build) supports that part",
    "zlib/bz2/lzma internals are trusted; their streams are produced and corrupted by python's codecs",
]
CHECKER_CMD = "cd /verif/lean && lake build GdModel.Props.C05 && lake env lean <generated #print axioms file>"
MODULES = ["GdModel.Props.C05"]

BASE = """/VERSION 10
/ENDIAN little
/ENCODING {enc}
r8 RAW UINT8 2
r16 RAW INT16 1
f64 RAW FLOAT64 4
c64 RAW COMPLEX64 1
lin LINCOM 2 r8 1.5 0 r16 2 1
lin1 LINCOM 1 r8 2 k
lin3 LINCOM 3 r8 1 0 r16 2 1 f64 1 0
lt LINTERP r8 table.lut
bt BIT r16 3 4
sb SBIT r16 1 5
mu MULTIPLY r8 f64
dv DIVIDE f64 r8
rc RECIP f64 2.5
ph PHASE r8 -3
po POLYNOM r16 1 2 3
wi WINDOW r8 r16 GT 3
mp MPLEX r8 r16 1 4
ind INDIR r16 ca
sind SINDIR r16 sa
k CONST FLOAT64 3.5
ca CARRAY UINT8 1 2 3 4 5 6
s STRING "hello world"
sa SARRAY a b c
r8/m CONST UINT8 1
/META r8 ms STRING x
/ALIAS al lin
/ALIAS al2 al
/HIDDEN bt
/INCLUDE sub/format1 P S
/REFERENCE r8
"""
SUB = """/ENCODING text
x RAW UINT8 1
y LINCOM 1 x 2 0
/FRAMEOFFSET 2
"""
HOSTILE_TOKENS = ["99999999999999999999", "-1", "0", "1e999", "-1e999", "NAN", "nan(0x1)", "0x7fffffffffffffff", "18446744073709551616", "-9223372036854775808",
                  '""', "a" * 5000, "r8", "lin", "al", "INDEX", ".r8", "ns.r8", "r8.i", "r8.z", "r8/m", "r8/m/m", "a;b", "1;2", "1e308;1e308", "<3>", "ca<99>", "ca<-1>",
                  "k<0>", "UINT8", "FLOAT128", "COMPLEX128", "NULL", "4294967296", "65536", "2147483648", "\\x00", "\\u110000", "\\777", "#", "\"unterminated",
                  "name with space", "&|<>;", "/", "//", "a/b/c", "..", "./x", "../format", "/etc/passwd", "format", "sub/format1", "table.lut", "%s%s%n", "\xff\xfe"]
TYPES = ["RAW", "LINCOM", "LINTERP", "BIT", "SBIT", "MULTIPLY", "DIVIDE", "RECIP", "PHASE", "POLYNOM", "WINDOW", "MPLEX", "INDIR", "SINDIR", "CONST", "CARRAY",
         "STRING", "SARRAY", "/ALIAS", "/META", "/INCLUDE", "/HIDDEN", "/REFERENCE", "/VERSION", "/ENDIAN", "/ENCODING", "/PROTECT", "/FRAMEOFFSET", "/NAMESPACE"]
EXT = {"none": "", "text": ".txt", "sie": ".sie", "gzip": ".gz", "bzip2": ".bz2", "lzma": ".xz"}


def encode_data(enc, ty, vals):
    """bytes of a data file holding `vals` (ints) of struct type `ty` in encoding enc"""
    fmt = {"UINT8": "B", "INT16": "h", "FLOAT64": "d", "COMPLEX64": "f"}[ty]
    if ty == "COMPLEX64":
        raw = b"".join(struct.pack("<ff", float(v), float(-v)) for v in vals)
    else:
        raw = b"".join(struct.pack("<" + fmt, (v % 120) if fmt != "d" else v * 0.5) for v in vals)
    if enc == "none":
        return raw
    if enc == "text":
        if ty == "COMPLEX64":
            return "".join("%g;%g\n" % (v, -v) for v in vals).encode()
        return "".join(("%g\n" % (v * 0.5) if fmt == "d" else "%d\n" % (v % 120)) for v in vals).encode()
    if enc == "sie":
        sz = len(raw) // max(1, len(vals))
        out = b""
        for i, v in enumerate(vals):
            if i % 3 == 2 or i == len(vals) - 1:
                out += struct.pack("<q", i) + raw[i * sz:(i + 1) * sz]
        return out
    if enc == "gzip":
        return gzip.compress(raw)
    if enc == "bzip2":
        return bz2.compress(raw)
    return lzma.compress(raw)


def base_case(rng):
    enc = rng.choice(["none", "none", "text", "sie", "gzip", "bzip2", "lzma"])
    files = {"format": BASE.format(enc=enc).encode(), "sub/format1": SUB.encode(),
             "table.lut": b"0 0\n10 100\n20 150\n200 1e3\n"}
    n = rng.choice([0, 1, 7, 40, 300])
    e = EXT[enc]
    files["r8" + e] = encode_data(enc, "UINT8", list(range(2 * n)))
    files["r16" + e] = encode_data(enc, "INT16", [i * 3 - 50 for i in range(n)])
    files["f64" + e] = encode_data(enc, "FLOAT64", list(range(max(0, n - 2))))
    files["c64" + e] = encode_data(enc, "COMPLEX64", list(range(n)))
    files["sub/x.txt"] = b"".join(b"%d\n" % i for i in range(n))
    return enc, files


def mutate_format(rng, text, kind):
    lines = text.decode("latin1").split("\n")
    body = [i for i, l in enumerate(lines) if l.strip()]
    if not body:
        return text + b"x RAW UINT8 1\n"
    if kind == "token":
        for _ in range(rng.randint(1, 3)):
            i = rng.choice(body)
            t = lines[i].split(" ")
            j = rng.randrange(len(t))
            t[j] = rng.choice(HOSTILE_TOKENS)
            lines[i] = " ".join(t)
    elif kind == "tokcount":
        i = rng.choice(body)
        t = lines[i].split(" ")
        if rng.random() < 0.5 and len(t) > 1:
            del t[rng.randrange(1, len(t)):]
        else:
            t += [rng.choice(HOSTILE_TOKENS + ["1", "2", "r8"]) for _ in range(rng.choice([1, 3, 40, 300]))]
        lines[i] = " ".join(t)
    elif kind == "type":
        i = rng.choice(body)
        t = lines[i].split(" ")
        if len(t) > 1:
            t[1 if not t[0].startswith("/") else 0] = rng.choice(TYPES)
        lines[i] = " ".join(t)
    elif kind == "dupline":
        i = rng.choice(body + [3, 3])          # line 3 = the first RAW field (CVE-2021-20204 shape)
        i = min(i, len(lines) - 1)
        lines.insert(rng.choice([i, i + 1, len(lines) - 1]), lines[i])
    elif kind == "swap":
        i, j = rng.choice(body), rng.choice(body)
        lines[i], lines[j] = lines[j], lines[i]
    elif kind == "delete":
        for _ in range(rng.randint(1, 4)):
            if len(lines) > 3:
                del lines[rng.randrange(len(lines))]
    elif kind == "bytes":
        b = bytearray("\n".join(lines).encode("latin1"))
        for _ in range(rng.randint(1, 6)):
            r = rng.random()
            p = rng.randrange(len(b) + 1)
            if r < 0.3 and p < len(b):
                b[p] = rng.choice([0, 1, 9, 10, 13, 32, 34, 35, 92, 127, 128, 255, rng.randrange(256)])
            elif r < 0.6:
                b[p:p] = bytes(rng.choice([0, 34, 92, 35, 10, 255, rng.randrange(256)]) for _ in range(rng.choice([1, 1, 2, 8])))
            elif r < 0.8:
                del b[p:p + rng.choice([1, 3, 20])]
            else:
                del b[p:]
        return bytes(b)
    elif kind == "longline":
        i = rng.choice(body)
        n = rng.choice([4090, 4095, 4096, 4097, 9000, 70000])
        lines[i] = lines[i] + " " + rng.choice(["x", "\\x41", "\"q q\"", "1"]) * n
    elif kind == "directive":
        d = rng.choice(["/VERSION", "/ENDIAN", "/ENCODING", "/PROTECT", "/FRAMEOFFSET", "/NAMESPACE", "/REFERENCE", "/HIDDEN", "/META", "/ALIAS", "/INCLUDE", "VERSION", "ENDIAN"])
        lines.insert(rng.choice(body), d + " " + " ".join(rng.choice(HOSTILE_TOKENS + ["big", "arm", "none", "text", "slim", "5", "0", "11", "99"]) for _ in range(rng.randint(0, 3))))
    return "\n".join(lines).encode("latin1")


def circular_case(rng):
    """definitions known to be circular: the answer must be GD_E_RECURSE_LEVEL"""
    k = rng.choice(["self", "pair", "triple", "alias", "phase", "mplex", "deep"])
    if k == "self":
        f = "a LINCOM 1 a 1 0\n"; probe = "a"
    elif k == "pair":
        f = "a PHASE b 1\nb RECIP a 1\n"; probe = "a"
    elif k == "triple":
        f = "a MULTIPLY b c\nb BIT c 1 1\nc POLYNOM a 1 2\n"; probe = "b"
    elif k == "alias":
        f = "/ALIAS al a\na LINCOM 1 al 1 0\n"; probe = "al"
    elif k == "phase":
        f = "a PHASE a 0\n"; probe = "a"
    elif k == "mplex":
        f = "r RAW UINT8 1\na MPLEX r a 1 2\n"; probe = "a"
    else:
        n = rng.choice([31, 32, 33, 40, 100])
        f = "r RAW UINT8 1\nf0 PHASE r 0\n" + "".join("f%d PHASE f%d 0\n" % (i, i - 1) for i in range(1, n)); probe = "f%d" % (n - 1)
        return {"format": ("/VERSION 10\n" + f).encode(), "r": bytes(range(30))}, probe, ("deep", n)
    return {"format": ("/VERSION 10\n" + f).encode(), "r": bytes(range(30))}, probe, (k, 0)


def include_cycle_case(rng):
    k = rng.choice(["self", "parent", "chain"])
    # (no field definitions in the cycle: a duplicate-field error would end the parse before the limit is reached)
    if k == "self":
        return {"format": b"/VERSION 10\n/ENDIAN big\n/INCLUDE format\n"}
    if k == "parent":
        return {"format": b"/VERSION 10\n/INCLUDE sub/f1\n", "sub/f1": b"/FRAMEOFFSET 3\n/INCLUDE ../format\n"}
    n = rng.choice([32, 33, 40])          # 31 nested includes are within the limit (see Props/C09 shallow_tree_parses)
    files = {"format": b"/INCLUDE c1\n"}
    for d in range(1, n + 1):
        files["c%d" % d] = ("x%d RAW UINT8 1\n" % d + ("/INCLUDE c%d\n" % (d + 1) if d < n else "")).encode()
    return files


def mutate_data(rng, enc, name, data):
    k = rng.choice(["truncate", "corrupt", "garbage", "empty", "append", "sie", "text"])
    if k == "truncate" and data:
        return data[:rng.randrange(len(data))]
    if k == "corrupt" and data:
        b = bytearray(data)
        for _ in range(rng.randint(1, 5)):
            p = rng.randrange(len(b))
            b[p:p + rng.choice([1, 1, 4])] = bytes(rng.randrange(256) for _ in range(rng.choice([1, 1, 4])))
        return bytes(b)
    if k == "garbage":
        return bytes(rng.randrange(256) for _ in range(rng.choice([1, 7, 64, 1000])))
    if k == "empty":
        return b""
    if k == "append":
        return data + data[: rng.choice([1, 3, 9])] + (data if rng.random() < 0.3 else b"")
    if k == "sie":
        # records with hostile indices: decreasing, equal, negative, INT64_MAX, truncated last record
        sz = rng.choice([1, 2, 8])
        idx = [rng.choice([0, 1, 5, 5, 4, -1, 2 ** 63 - 1, -2 ** 63, 1000, 3]) for _ in range(rng.randint(1, 6))]
        out = b"".join(struct.pack("<q", i) + bytes(rng.randrange(256) for _ in range(sz)) for i in idx)
        return out[: len(out) - rng.choice([0, 0, 1, 5])]
    return rng.choice([b"nan\n1e999\n-0x1p3\n\n\n 7 8 9\nfoo\n", b"1\n" * 3 + b"9" * 5000 + b"\n", b"1;2;3\n;\n", b"\x00\x01\n", b"5"])


def hostile_lut(rng):
    return rng.choice([
        b"", b"1 1\n", b"5 1\n3 2\n4 9\n1 0\n", b"nan 1\n2 nan\nnan nan\n", b"1 1\n1 2\n1 3\n", b"1e999 1\n-1e999 2\n0 0\n",
        b"0 0;1\n1 2;3\n", b"0 0\n1 1;\n", b"a b\nc d\n", b"1\n2\n", b"1 2 3 4\n5 6 7 8\n", b"0 0\n" + b"9" * 6000 + b" 1\n", b"\x00\xff\xfe\n1 1\n2 2\n",
        b"".join(b"%d %d\n" % (i * 7 % 13, i) for i in range(rng.choice([2, 3, 50, 3000]))), b"1 1\n2 2", b"# comment\n1 1\n2 2\n", b"1 1\r\n2 2\r\n",
    ])


def make_cases(ctx, n):
    rng = ctx.rng
    cases = []
    kinds = ["token", "tokcount", "type", "dupline", "swap", "delete", "bytes", "longline", "directive"]
    for i in range(n):
        r = rng.random()
        meta = {}
        if r < 0.08:
            files, probe, ck = circular_case(rng)
            meta = {"class": "circular", "probe": probe, "shape": ck[0], "n": ck[1]}
        elif r < 0.12:
            files = include_cycle_case(rng)
            meta = {"class": "include-cycle"}
        else:
            enc, files = base_case(rng)
            meta = {"class": "valid", "enc": enc}
            if r < 0.62:
                kind = rng.choice(kinds)
                which = "format" if rng.random() < 0.8 else "sub/format1"
                files[which] = mutate_format(rng, files[which], kind)
                if rng.random() < 0.25:
                    files[which] = mutate_format(rng, files[which], rng.choice(kinds))
                meta = {"class": "format-" + kind, "enc": enc}
            elif r < 0.85:
                nm = rng.choice([k for k in files if not k.endswith(("format", "format1", ".lut"))])
                files[nm] = mutate_data(rng, enc, nm, files[nm])
                if rng.random() < 0.3:
                    nm2 = rng.choice([k for k in files if not k.endswith(("format", "format1", ".lut"))])
                    files[nm2] = mutate_data(rng, enc, nm2, files[nm2])
                meta = {"class": "data", "enc": enc}
            elif r < 0.95:
                files["table.lut"] = hostile_lut(rng)
                meta = {"class": "lut", "enc": enc}
        cb = rng.choice(["ignore", "ignore", "continue", "abort", "none"])
        if meta["class"] == "circular":
            cb = "none"
        args = [cb, rng.choice(["close", "discard"])] + rng.choice([[], [], ["pedantic"], ["permissive"], ["ignore_dups"], ["ignore_refs"], ["big"]])
        cases.append((files, args, meta))
    # SIE files whose record indices are every triple of extreme values (a defect found this way: an index that does
    # not increase made _GD_SampIndRead return a count larger than asked for -> memcpy of 2^63 bytes)
    import itertools
    ext = [-2 ** 63, -2 ** 63 + 1, -1, 0, 1, 5, 2 ** 63 - 2, 2 ** 63 - 1]
    triples = list(itertools.product(ext, repeat=3))
    if not ctx.thorough():
        keep = [(0, -2 ** 63 + 1, 5), (0, -2 ** 63 + 1, 2 ** 63 - 2)]
        triples = keep + rng.sample(triples, 96)
    for t in triples:
        data = b"".join(struct.pack("<q", i) + bytes([7 + k]) for k, i in enumerate(t))
        cases.append(({"format": b"/VERSION 10\n/ENCODING sie\nr RAW UINT8 1\np PHASE r 1\n", "r.sie": data}, ["none", "close"], {"class": "sie-indices", "enc": "sie"}))
    return cases


def run_case(harness, idx, files, args, timeout=90, env=None, wrapper=()):
    d = os.path.join(C.scratch(), "h%06d" % idx)
    shutil.rmtree(d, ignore_errors=True)
    for rel, data in files.items():
        p = os.path.join(d, "df", rel)
        os.makedirs(os.path.dirname(p), exist_ok=True)
        with open(p, "wb") as f:
            f.write(data)
    e = dict(C.SAN_ENV)
    e["ASAN_OPTIONS"] = "detect_leaks=1:abort_on_error=0:exitcode=99:allocator_may_return_null=1:malloc_context_size=12"
    if env:
        e.update(env)
    try:
        p = C.run(list(wrapper) + [harness, os.path.join(d, "df")] + args, timeout=timeout, env=e)
        out, err, rc = p.stdout.decode(errors="replace"), p.stderr.decode(errors="replace"), p.returncode
    except Exception as ex:          # subprocess timeout
        out, err, rc = "", "TIMEOUT %r" % (ex,), -1
    shutil.rmtree(d, ignore_errors=True)
    return out, err, rc


def classify(out, err, rc, meta):
    """-> (None | (class, text))"""
    if rc == -1:
        return ("hang", "no answer within the time limit")
    if "HANG" in out or rc == 97:
        return ("hang", "a call did not return within 20 s: " + out[-80:].replace("\n", " "))
    if rc != 0:
        m = re.search(r"SUMMARY: (\w+): ([^\n]*)", err)
        rt = re.search(r"runtime error: ([^\n]*)", err)
        kind = (m.group(2).split()[0] if m else ("ubsan" if rt else "abort"))
        where = re.findall(r"in (_?[Gg][Dd]_?\w+)", err)
        return ("sanitizer:" + kind + ":" + (where[0] if where else "?"), (m.group(0) if m else (rt.group(0) if rt else err[-200:]))[:300])
    m = re.search(r" BAD (.*)", out)
    if m:
        return ("bad:" + m.group(1).split(":")[0], m.group(1)[:200])
    if not out.startswith("host open="):
        return ("no-output", out[:100] + err[-200:])
    if meta.get("class") == "circular":
        codes = out.split("codes=")[1].split()[0]
        if "-10," not in codes:
            return ("circular-not-detected", "circular definition (%s) did not answer GD_E_RECURSE_LEVEL: %s" % (meta.get("shape"), out.strip()[-120:]))
    if meta.get("class") == "include-cycle" and not out.startswith("host open=-10 "):
        return ("include-cycle-not-detected", "circular /INCLUDE did not end in GD_E_RECURSE_LEVEL: " + out.strip()[:80])
    return None


def shrink(harness, files, args, meta, cls):
    """greedy line removal on the format files while the same class of failure persists"""
    files = dict(files)
    budget = 40
    for which in [k for k in files if "format" in k]:
        lines = files[which].split(b"\n")
        i = 0
        while i < len(lines) and budget > 0:
            trial = lines[:i] + lines[i + 1:]
            f2 = dict(files); f2[which] = b"\n".join(trial)
            budget -= 1
            o, e, rc = run_case(harness, 900000 + budget, f2, args)
            c = classify(o, e, rc, meta)
            if c and c[0] == cls:
                lines = trial; files = f2
            else:
                i += 1
    for k in list(files):
        if "format" in k or k.endswith(".lut"):
            continue
        if budget <= 0:
            break
        f2 = {a: b for a, b in files.items() if a != k}
        budget -= 1
        o, e, rc = run_case(harness, 900000 + budget, f2, args)
        c = classify(o, e, rc, meta)
        if c and c[0] == cls:
            files = f2
    return files


def run(ctx):
    ok, lr, infos = F.lean_obligations(ctx, MODULES, [])
    try:
        harness = C.build_harness("gdhost", ["hostile.c"], defines=("GD_VERIF_BUFFER_SIZE=512", "GD_VERIF_BZIP_BUFFER_SIZE=256", "GD_VERIF_LZMA_DATA_OUT=256", "GD_VERIF_LZMA_DATA_IN=64", "GD_VERIF_LZMA_LOOKBACK=64"))
    except RuntimeError as e:
        raise F.C_BuildError(str(e))
    n = 12000 if ctx.thorough() else 1500
    cases = make_cases(ctx, n)
    with ThreadPoolExecutor(C.NCPU) as ex:
        res = list(ex.map(lambda t: run_case(harness, t[0], t[1][0], t[1][1]), enumerate(cases)))
    hist, codes, opened, calls = {}, set(), 0, 0
    seen_cls = set()
    for i, (out, err, rc) in enumerate(res):
        files, args, meta = cases[i]
        ctx.evaluations += 1
        hist[meta["class"]] = hist.get(meta["class"], 0) + 1
        c = classify(out, err, rc, meta)
        m = re.match(r"host open=(-?\d+) nfrag=(\d+) nfields=(\d+) cb=(\d+) calls=(\d+) errs=(\d+) codes=(\S*)", out)
        if m:
            opened += m.group(1) == "0"
            calls += int(m.group(5))
            codes |= set(m.group(7).strip(",").split(","))
            ctx.distinct.add((meta["class"], meta.get("enc", ""), m.group(1), min(int(m.group(3)) // 8, 5), args[0]))
        if c is None:
            continue
        cls, text = c
        if cls in seen_cls:
            continue
        seen_cls.add(cls)
        small = shrink(harness, files, args, meta, cls) if (len(seen_cls) <= 6 and cls != "hang") else files
        ctx.fail("input", "%s [%s; %s]: %s" % (cls, meta["class"], " ".join(args), text),
                 {"files": {k: v.hex() for k, v in small.items()}, "args": args, "meta": meta, "stderr": err[-3000:], "stdout": out[-300:]},
                 sig={"class": cls.split(":")[0], "detail": ":".join(cls.split(":")[1:]), "input": meta["class"]})
    # valgrind memcheck on a subsample (uninitialised reads), unsanitised build
    vg = {"ran": 0, "reports": 0}
    nvg = 120 if ctx.thorough() else 16
    try:
        plain = C.build_harness("gdhostp", ["hostile.c"], sanitize=False, defines=("GD_VERIF_BUFFER_SIZE=512",))
        pick = [i for i in range(len(cases)) if cases[i][2]["class"] != "circular"][:: max(1, len(cases) // nvg)][:nvg]
        with ThreadPoolExecutor(C.NCPU) as ex:
            vres = list(ex.map(lambda i: (i, run_case(plain, 500000 + i, cases[i][0], cases[i][1], timeout=600,
                                                     wrapper=("valgrind", "-q", "--error-exitcode=96", "--track-origins=no", "--leak-check=no"))), pick))
        for i, (out, err, rc) in vres:
            vg["ran"] += 1
            if rc == 96 or "uninitialised" in err or "Invalid read" in err or "Invalid write" in err:
                vg["reports"] += 1
                files, args, meta = cases[i]
                first = re.search(r"==\d+== ([A-Z][^\n]*)\n(?:==\d+==\s+(?:at|by) [^\n]*\n)*", err)
                where = re.findall(r"(?:at|by) 0x[0-9A-F]+: (_?[Gg][Dd]_?\w+)", err)
                ctx.fail("input", "valgrind memcheck: %s in %s [%s]" % (first.group(1)[:80] if first else "?", where[0] if where else "?", meta["class"]),
                         {"files": {k: v.hex() for k, v in files.items()}, "args": args, "meta": meta, "stderr": err[-3000:]},
                         sig={"class": "valgrind", "detail": where[0] if where else "?", "input": meta["class"]})
                break
    except RuntimeError as e:
        ctx.notes.append("valgrind pass skipped: " + str(e)[:200])
    ctx.coverage.update({
        "rule": "%d generated dirfiles: a 30-line format covering all 18 field types, metafields, aliases, an affixed sub-fragment, a LINTERP table and data files in one of six encodings; "
                "then one or two mutations: hostile tokens, token counts (to 300), type swaps, duplicated lines (incl. the first RAW field), swaps, deletions, byte edits (NUL, quotes, backslashes, truncation), "
                "lines of 4090-70000 bytes, garbage directives; data files truncated/corrupted/garbage/empty/over-long, SIE files with decreasing, negative and INT64_MAX indices, text garbage; "
                "17 hostile LINTERP tables; circular field definitions (7 shapes, chains of 31-100) and circular/deep includes; opened with gd_open or gd_cbopen (ignore/continue/abort), "
                "six flag sets, every read-side call on up to 400 fields and their metafields, then gd_close or gd_discard; buffers of 512/256 bytes (hook H1)" % n,
        "input_classes": hist, "opened_ok": opened, "api_calls": calls, "error_codes_seen": sorted(codes), "valgrind": vg,
    })
    if res:
        ctx.sample({"args": cases[0][1], "meta": cases[0][2], "out": res[0][0][:200]})
    if not ok and not any(f.kind == "input" for f in ctx.failures):
        names = [o[0] for o in ctx.obligations if not o[1]]
        ctx.fail("obligation", "Lean obligations no longer check: " + "; ".join(names)[:300] + " :: " + lr.errors[-500:],
                 {"theorem": names, "lean_errors": lr.errors[-3000:]}, has_input=False)


def replay(ctx, obj):
    harness = C.build_harness("gdhost", ["hostile.c"], defines=("GD_VERIF_BUFFER_SIZE=512", "GD_VERIF_BZIP_BUFFER_SIZE=256", "GD_VERIF_LZMA_DATA_OUT=256", "GD_VERIF_LZMA_DATA_IN=64", "GD_VERIF_LZMA_LOOKBACK=64"))
    files = {k: bytes.fromhex(v) for k, v in obj.get("files", {}).items()}
    out, err, rc = run_case(harness, 1, files, obj.get("args", ["ignore", "close"]))
    print(out, err[-3000:])
    c = classify(out, err, rc, obj.get("meta", {}))
    print("classification:", c)
    return 1 if c else 0
