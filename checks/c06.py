"""C06 — numeric type conversion preserves every representable value."""
import os, struct, sys
from vlib import common as C
from vlib import framework as F
sys.path.insert(0, os.path.join(C.VERIF, "extract"))
import x1_convtable

TYPES = ['i8', 'u8', 'i16', 'u16', 'i32', 'u32', 'i64', 'u64', 'f32', 'f64', 'c64', 'c128']
WIDTH = {'i8': 8, 'u8': 8, 'i16': 16, 'u16': 16, 'i32': 32, 'u32': 32, 'i64': 64, 'u64': 64,
         'f32': 32, 'f64': 64, 'c64': 32, 'c128': 64}
ASSUMPTIONS = [
    "C cast semantics on bit patterns (GdModel.Num.Cast.ccast) written from C11 6.3.1.3-5 and IEEE-754 RNE; tied to gcc/x86-64 by running _GD_ConvertType itself",
    "out-of-range/NaN/Inf float->integer conversions are C-undefined: compared separately, never a violation",
    "NaN results compared as a class (payload/sign not compared)",
    "the statement shapes of _GD_ConvertType are recognised by a whitespace-insensitive regex extractor; unrecognised shapes fail closed",
]
CHECKER_CMD = "cd /verif/lean && lake build GdModel.Props.C06 && lake env lean <generated #print axioms file>"


def f64bits(x):
    return struct.unpack('<Q', struct.pack('<d', x))[0]


def f32bits(x):
    return struct.unpack('<I', struct.pack('<f', x))[0]


def boundary_values(ty, rng, nrand):
    w = WIDTH[ty]
    vals = set()
    if ty[0] in 'iu':
        for k in range(w + 1):
            for d in (-1, 0, 1):
                vals.add((2 ** k + d) % 2 ** w)
                vals.add((-(2 ** k) + d) % 2 ** w)
        vals |= {0, 1, 2 ** w - 1, 2 ** (w - 1), 2 ** (w - 1) - 1}
        for _ in range(nrand):
            vals.add(rng.getrandbits(w))
            vals.add(rng.getrandbits(rng.randint(1, w)))
    else:
        conv = f64bits if w == 64 else f32bits
        fl = []
        for k in list(range(0, 66)) + [100, 127, 128, 1023]:
            for d in (-1.0, -0.5, 0.0, 0.5, 1.0):
                for sgn in (1.0, -1.0):
                    try:
                        fl.append(sgn * (2.0 ** k + d))
                    except OverflowError:
                        pass
        fl += [0.0, -0.0, 0.1, -0.1, 0.9999999, -0.9999999, 1.5, 2.5, -1.5, 3e9, -3e9, 1e10, 1e19, 1e20,
               1e38, 3.5e38, 1e39, 1e308, 1e-40, 1e-310, float('inf'), float('-inf'), float('nan'),
               2147483647.5, 2147483648.5, 4294967295.5, 4294967296.5, 9007199254740993.0,
               16777217.0, 16777216.0, 16777215.0, 255.9, 256.0, -128.9, -129.0, 127.9, 128.0,
               65535.9, 65536.0, -32768.9, -32769.0, 32767.9]
        for x in fl:
            try:
                vals.add(conv(x))
            except (OverflowError, struct.error):
                pass
        # subnormals, NaN payloads, largest finite, ulp neighbours of powers of two
        if w == 64:
            vals |= {1, 0xFFFFFFFFFFFFF, 0x0010000000000000, 0x7FEFFFFFFFFFFFFF, 0x7FF0000000000001,
                     0xFFF8000000000000, 0x8000000000000001, 0x7FF4000000000000,
                     0x47EFFFFFE0000000, 0x47EFFFFFF0000000, 0x47EFFFFFEFFFFFFF, 0x36A0000000000000,
                     0x3690000000000000, 0x3690000000000001, 0x380FFFFFFFFFFFFF, 0x3810000000000000,
                     0x3FF0000010000000, 0x3FF0000030000000, 0x3FF0000010000001}
            for k in (31, 32, 53, 63, 64, 24):
                b = f64bits(2.0 ** k)
                vals |= {b - 1, b + 1, b | 0x8000000000000000, (b - 1) | 0x8000000000000000}
        else:
            vals |= {1, 0x7FFFFF, 0x00800000, 0x7F7FFFFF, 0x7F800001, 0xFFC00000, 0x80000001}
            for k in (31, 32, 63, 64, 24, 7, 8, 15, 16):
                b = f32bits(2.0 ** k)
                vals |= {b - 1, b + 1, b | 0x80000000, (b - 1) | 0x80000000}
        for _ in range(nrand):
            vals.add(rng.getrandbits(w))
            # random finite value with exponent in the integer range
            if w == 64:
                vals.add((rng.getrandbits(1) << 63) | ((1023 + rng.randint(-2, 66)) << 52) | rng.getrandbits(52))
            else:
                vals.add((rng.getrandbits(1) << 31) | ((127 + rng.randint(-2, 66)) << 23) | rng.getrandbits(23))
    return sorted(vals)


def gen_lines(ctx):
    nrand = 2000 if ctx.thorough() else 150
    lines = []
    for s in TYPES:
        w = WIDTH[s]
        if s[0] in 'iu' and w <= 16:
            src = [(v, 0) for v in range(2 ** w)]
        else:
            vs = boundary_values(s, ctx.rng, nrand)
            if s[0] == 'c':
                ims = boundary_values(s, ctx.rng, 3)
                src = [(v, ims[ctx.rng.randrange(len(ims))]) for v in vs]
                src += [(ims[ctx.rng.randrange(len(ims))], v) for v in vs[:: max(1, len(vs) // 200)]]
            else:
                src = [(v, 0) for v in vs]
        for d in TYPES:
            for (re, im) in src:
                lines.append("conv %s %s %x %x" % (s, d, re, im))
    return lines


def run_streams(ctx, lines, gdmodel, harness):
    inp = ("\n".join(lines) + "\n").encode()
    pi = C.run([harness], inp=inp, env=C.SAN_ENV, timeout=1800)
    impl = pi.stdout.decode().split("\n")
    san = pi.stderr.decode(errors="replace")
    pm = C.run([gdmodel], inp=inp, timeout=1800)
    model = pm.stdout.decode().split("\n")
    ps = C.run([gdmodel], inp=inp.replace(b"conv ", b"convspec "), timeout=1800)
    spec = ps.stdout.decode().split("\n")
    return impl, model, spec, san, pi.returncode


GD = {'i8': 'INT8', 'u8': 'UINT8', 'i16': 'INT16', 'u16': 'UINT16', 'i32': 'INT32', 'u32': 'UINT32',
      'i64': 'INT64', 'u64': 'UINT64', 'f32': 'FLOAT32', 'f64': 'FLOAT64', 'c64': 'COMPLEX64', 'c128': 'COMPLEX128'}


def le_bytes(ty, re, im):
    w = WIDTH[ty] // 8
    b = re.to_bytes(w, 'little')
    if ty[0] == 'c':
        b += im.to_bytes(w, 'little')
    return b


def glue_stream(ctx, gdmodel):
    """The callers of the conversion: gd_getdata on RAW fields of every native
    type (incl. complex) read in every return type, through a PHASE, and
    gd_get_carray on CARRAYs.  Expected values come from specConv (convspec)."""
    from vlib import streams
    rng = ctx.rng
    harness = C.build_harness("gdh", ["gdh.c"])
    fmt = ["/VERSION 10", "/ENDIAN little", "/ENCODING none"]
    L = ["reset"]
    srcvals = {}
    for s in TYPES:
        vs = boundary_values(s, rng, 10)
        rng.shuffle(vs)
        vs = vs[:60]
        if s[0] == 'c':
            ims = boundary_values(s, rng, 2)
            pairs = [(v, ims[rng.randrange(len(ims))]) for v in vs]
        else:
            pairs = [(v, 0) for v in vs]
        srcvals[s] = pairs
        fmt.append("r_%s RAW %s 1" % (s, GD[s]))
        fmt.append("p_%s PHASE r_%s 0" % (s, s))
        L.append("file r_%s %s" % (s, b"".join(le_bytes(s, re, im) for re, im in pairs).hex()))
    # CARRAYs: storage types are INT64 / UINT64 / FLOAT64 / COMPLEX128
    carr = {'i64': [-1, -129, 127, 255, 65535, -32769, 2147483648, -2147483649, 4294967295, 0, 9223372036854775807, -9223372036854775808, 16777217, 9007199254740993],
            'u64': [0, 1, 255, 256, 65536, 4294967296, 18446744073709551615, 9223372036854775808, 16777217, 9007199254740993]}
    for t, vals in carr.items():
        fmt.append("ca_%s CARRAY %s %s" % (t, GD[t], " ".join(str(v) for v in vals)))
    fvals = [0.5, -0.5, 255.99999999, -128.99999999, 32767.9999, 65535.5, 16777217.0, 2147483647.0, 4294967295.0, -2147483648.0, 3e9, 1e10, 0.0, 127.0, -1.0]
    fmt.append("ca_f64 CARRAY FLOAT64 " + " ".join(repr(v) for v in fvals))
    fmt.append("ca_c128 CARRAY COMPLEX128 " + " ".join("%r;%r" % (v, 3.0) for v in fvals))
    L.insert(1, "file format " + ("\n".join(fmt) + "\n").encode().hex())
    L.append("open rdonly")
    gets = []
    for s in TYPES:
        for d in TYPES:
            for code in ("r_%s" % s, "p_%s.r" % s if s[0] == 'c' else "p_%s" % s):
                L.append("get %s 0 0 %d 0 %s" % (code, len(srcvals[s]), d))
                gets.append((len(L) - 1, s, d, srcvals[s], code))
    for t in ('i64', 'u64', 'f64', 'c128'):
        for d in TYPES:
            L.append("getcarray ca_%s %s" % (t, d))
            if t in carr:
                vals = [(v % 2 ** 64, 0) for v in carr[t]]
            elif t == 'f64':
                vals = [(f64bits(v), 0) for v in fvals]
            else:
                vals = [(f64bits(v), f64bits(3.0)) for v in fvals]
            gets.append((len(L) - 1, t, d, vals, "ca_" + t))
    out, rc, err = streams.run_gdh(harness, L, "c06glue")
    # expected values from specConv
    q = []
    for (_, s, d, vals, code) in gets:
        for (re, im) in vals:
            if code.endswith(".r"):   # real part of a complex field: a real value of the component type
                q.append("convspec %s %s %x 0" % ('f32' if s == 'c64' else 'f64', d, re))
            else:
                q.append("convspec %s %s %x %x" % (s, d, re, im))
    sp = C.run([gdmodel], inp=("\n".join(q) + "\n").encode(), timeout=600).stdout.decode().split("\n")
    k = 0
    nglue = 0
    bad = {}
    if rc != 0:
        ctx.fail("input", "gdh aborted in the C06 glue stream: " + err[-300:], {"script": L, "stderr": err[-2000:]},
                 sig={"pair": "glue-abort"})
    for (li, s, d, vals, code) in gets:
        line = out[li] if li < len(out) else ""
        body = streams.strip_rl(line)[0]
        got = body.split(" d=")[1].split(",") if " d=" in body else []
        for j, (re, im) in enumerate(vals):
            want = sp[k].replace(" ", ";")
            k += 1
            if want == "undef" or "undef" in want:
                continue
            nglue += 1
            g = got[j] if j < len(got) else "<missing>"
            if d[0] == 'c' and ";" not in want:
                want = want
            if g != want:
                bad.setdefault((s, d, code.split("_")[0].split(".")[0]), []).append((L[li], j, "%x;%x" % (re, im), want, g))
    ctx.evaluations += nglue
    ctx.coverage["glue_evaluations"] = nglue
    for key, lst in sorted(bad.items()):
        op, j, src, want, got = lst[0]
        ctx.fail("input", "%s: element %d (source %s as %s) read as %s gives %s, the property requires %s (%d such)" % (
            op, j, src, key[0], key[1], got, want, len(lst)),
            {"script": [x for x in L if not x.startswith("get")] + [op], "expected": want, "observed": got,
             "element": j}, sig={"pair": "%s %s" % (key[0], key[1]), "path": "glue"})
        if len([1 for f in ctx.failures]) > 6:
            break


def run(ctx):
    ok, lr, infos = F.lean_obligations(
        ctx, ["GdModel.Props.C06"],
        [lambda: x1_convtable.emit(C.REPO, os.path.join(C.LEAN, "GdModel", "Generated"))])
    gdmodel = C.build_gdmodel()
    try:
        harness = C.build_harness("conv", ["conv.c"])
    except RuntimeError as e:
        raise F.C_BuildError(str(e))
    lines = gen_lines(ctx)
    impl, model, spec, san, rc = run_streams(ctx, lines, gdmodel, harness)
    n = len(lines)
    if rc != 0 or len(impl) < n:
        # sanitizer abort or crash: locate the input (the line after the last answered one)
        k = max(0, len([x for x in impl if x]) )
        bad = lines[min(k, n - 1)]
        ctx.fail("input", "harness aborted (rc=%d) at input: %s :: %s" % (rc, bad, san[-400:]),
                 {"script": [bad], "observed": "abort", "stderr": san[-2000:]},
                 sig={"pair": " ".join(bad.split()[1:3])})
        n = min(n, k)
    undef = 0
    pairs_seen = set()
    mism_corr = {}
    mism_prop = {}
    hist = {}
    for i in range(n):
        _, s, d, re, im = lines[i].split()
        a, m, sp = impl[i], model[i], spec[i]
        hist[(s, d)] = hist.get((s, d), 0) + 1
        if sp == "undef":
            undef += 1
        else:
            if a != sp:
                mism_prop.setdefault((s, d), []).append((lines[i], sp, a))
            else:
                ctx.distinct.add((s, d, a != ("%x" % int(re, 16))))  # distinct: pair x (value changed by conversion?)
        if m != "undef" and m != a:
            mism_corr.setdefault((s, d), []).append((lines[i], m, a))
        ctx.evaluations += 1
    ctx.coverage.update({
        "rule": "every 8- and 16-bit source value x 12 destinations exhaustively; wider types: powers of two +-1, "
                "type limits, straddles of 2^31/2^32/2^53/2^63, signed zeros, Inf, NaN, subnormals, rounding ties, "
                "seeded random bit patterns; one evaluation = one call of the real _GD_ConvertType compared with "
                "(a) the extracted table's Lean semantics and (b) specConv; distinct = (src,dst,changed-by-conversion) classes",
        "exhaustive_8_16_bit": True,
        "undefined_inputs_skipped": undef,
        "pairs_covered": len(hist),
        "min_inputs_per_pair": min(hist.values()) if hist else 0,
    })
    for i in (0, n // 3, n // 2, n - 1):
        if 0 <= i < n:
            ctx.sample({"input": lines[i], "impl": impl[i], "model": model[i], "spec": spec[i]})
    for (s, d), lst in sorted(mism_prop.items()):
        line, want, got = min(lst, key=lambda t: len(t[0]))
        ctx.fail("input", "conversion %s->%s: %s gives %s, the property requires %s (%d differing inputs)" % (
            s, d, line, got, want, len(lst)),
            {"script": [line], "expected": want, "observed": got,
             "source_line": (infos[0].get("entries", {}).get("%s->%s" % (s, d), {}) or {}).get("line")},
            sig={"pair": "%s %s" % (s, d)})
    for (s, d), lst in sorted(mism_corr.items()):
        if (s, d) in mism_prop:
            continue
        line, want, got = lst[0]
        ctx.fail("correspondence", "model of table entry %s->%s differs from the code on %s (model %s, code %s) but the property holds there" % (
            s, d, line, want, got), {"correspondence": "gen_conv", "script": [line], "model": want, "observed": got},
            has_input=False)
    glue_stream(ctx, gdmodel)
    typed_history_stream(ctx)
    if not ok and not mism_prop:
        names = [o[0] for o in ctx.obligations if not o[1]]
        ctx.fail("obligation", "Lean obligations no longer check: " + "; ".join(names)[:400] + " :: " + lr.errors[-600:],
                 {"theorem": names, "lean_errors": lr.errors[-3000:],
                  "searched": "%d inputs over all 144 pairs, no input where the code differs from specConv" % n},
                 has_input=False)


def typed_history_stream(ctx):
    """'intermediate conversions inside derived fields': a value must reach the caller through the field's own type
    and the caller's type only — never through the type of an earlier call.  Consecutive windows of derived fields are
    read with changing return types on one handle and compared with the same read on a fresh handle."""
    import struct
    from checks.c10 import hx
    from vlib import streams
    harness = C.build_harness("gdh", ["gdh.c"])
    rng = ctx.rng
    types = ["u8", "i8", "u16", "i16", "i32", "u64", "f32", "f64", "c64", "c128"]
    chunks, metas = [], []
    for i in range(40 if ctx.thorough() else 10):
        n = 40
        fmt = ["/VERSION 10", "/ENDIAN little", "/ENCODING none", "v RAW INT16 1", "z RAW COMPLEX128 1", "cnt RAW UINT8 1",
               "mp MPLEX v cnt 1 3", "mz MPLEX z cnt 2 0", "ph PHASE v 1", "li LINCOM 2 v 1 0 cnt 1 0", "bt BIT v 2 9", "wi WINDOW v cnt NE 1", "mu MULTIPLY v cnt"]
        vdata = b"".join(struct.pack("<h", rng.choice([1091, -300, 257, 70000 % 32768, 5, -1])) for _ in range(n))
        zdata = b"".join(struct.pack("<dd", rng.choice([13.1, 1e10, 0.1]), rng.choice([1013.3, -7.7, 3e-3])) for _ in range(n))
        cdata = bytes(rng.choice([0, 1, 2, 3]) for _ in range(n))
        base = ["reset", "file format " + hx("\n".join(fmt) + "\n"), "file v " + vdata.hex(), "file z " + zdata.hex(), "file cnt " + cdata.hex()]
        L = list(base) + ["open rdonly"]
        plan = []
        for f in ("mp", "mz", "ph", "li", "bt", "wi", "mu"):
            pos = 0
            while pos < 30:
                k = rng.choice([1, 2, 3, 5])
                t = rng.choice(types)
                L.append("get %s 0 %d 0 %d %s" % (f, pos, k, t))
                plan.append((len(L) - 1, f, pos, k, t))
                pos += k
        # reference: the same reads, each on a fresh handle
        refs = []
        for (_, f, pos, k, t) in plan:
            L += ["open rdonly", "get %s 0 %d 0 %d %s" % (f, pos, k, t)]
            refs.append(len(L) - 1)
        chunks.append(L)
        metas.append((plan, refs))
    res = streams.run_chunks(harness, chunks, "c06h")
    nh = 0
    for ci, (lines, out, crashed, err) in enumerate(res):
        if crashed:
            ctx.fail("input", "library aborted in the typed-history stream: %s" % err[-300:], {"script": lines[:len(out) + 1], "stderr": err[-2500:]}, sig={"pair": "glue-abort"})
            continue
        plan, refs = metas[ci]
        prev = None
        for (pi, f, pos, k, t), ri in zip(plan, refs):
            a, b = streams.strip_rl(out[pi])[0], streams.strip_rl(out[ri])[0]
            nh += 1
            ctx.distinct.add(("typed-history", f, t))
            if a != b:
                ctx.fail("input", "%s after '%s' gives '%s', on a fresh handle '%s': the value went through the type of the earlier call" % (lines[pi], prev, a[:120], b[:120]),
                         {"script": lines[:6] + [lines[x[0]] for x in plan if x[0] <= pi and x[1] == f]}, sig={"pair": "typed-history", "field": f})
                break
            prev = lines[pi]
    ctx.evaluations += nh
    ctx.coverage["typed_history_reads"] = nh


def replay(ctx, obj):
    gdmodel = C.build_gdmodel()
    harness = C.build_harness("conv", ["conv.c"])
    lines = obj.get("script", [])
    impl, model, spec, san, rc = run_streams(ctx, lines, gdmodel, harness)
    bad = 0
    for i, l in enumerate(lines):
        print(l, "impl=", impl[i] if i < len(impl) else "?", "spec=", spec[i], "model=", model[i])
        if spec[i] != "undef" and (i >= len(impl) or impl[i] != spec[i]):
            bad = 1
    return bad
