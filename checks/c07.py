"""C07 — metadata survive a flush and reopen unchanged."""
import re, struct
from vlib import common as C
from vlib import framework as F
from vlib import streams, gen
from checks.c10 import template, hx

ASSUMPTIONS = [
    "the token writer is modelled (Token.Escape) and proved to round-trip through the Standards tokeniser (Props/C07); it is tied to _GD_StringEscapeise by comparing, byte for byte, the STRING lines the library writes for random byte strings with the model's output",
    "everything else in the writer/parser pair (field specifications, directives, number formatting by printf %.17g / strtod) is tied observationally: after a random sequence of metadata calls the complete observable metadata (every gd_entry with all parameters bit for bit, scalar codes and indices, CONST/CARRAY/STRING/SARRAY values, aliases, hidden flags, metafields, fragments with encoding, byte order, frame offset, protection, affixes, namespace, reference) is dumped, the dirfile is flushed or closed and reopened (also under GD_PEDANTIC), and dumped again",
    "input-field codes are compared after removing the explicit null representation suffix '.z' that gd_metaflush adds to names which could be read as carrying a representation (same field, same representation)",
]
CHECKER_CMD = "cd /verif/lean && lake build GdModel.Props.C07 && lake env lean <generated #print axioms file>"
MODULES = ["GdModel.Props.C07"]


def fnum(rng):
    k = rng.random()
    if k < 0.3:
        return repr(float(rng.randint(-1000, 1000)))
    if k < 0.6:
        return repr(rng.uniform(-1, 1) * 10.0 ** rng.randint(-300, 300))
    if k < 0.8:
        return repr(rng.uniform(-1e6, 1e6) / 3)
    return rng.choice(["0.1", "1e-320", "1.7976931348623157e308", "4.9e-324", "-0.0", "3.141592653589793", "0.30000000000000004"])


def f64bits(x):
    return "%x" % struct.unpack('<Q', struct.pack('<d', float(x)))[0]


def rbytes(rng, n=None):
    n = n if n is not None else rng.choice([0, 1, 2, 5, 12, 40])
    pool = [32, 35, 34, 92, 9, 10, 13, 1, 31, 127, 128, 255, 47, 46, 60, 62, 59, 65, 97, 48]
    return bytes(rng.choice(pool) if rng.random() < 0.6 else rng.randint(1, 255) for _ in range(n))


def mutation(rng, st):
    """one metadata call (may legitimately fail; a failed call changes nothing)"""
    k = rng.randint(0, 27)
    nm = "n%d" % st["n"]
    st["n"] += 1
    frag = rng.choice([0, 0, 1])
    vec = rng.choice(["a", "b", "c", "l1", "l2", "ph", "bt", "mu", "po", "wi", "mp", "lt"] + st["added_vec"])
    sca = rng.choice(["k", "ki", "ca"] + st["added_sca"])
    if k == 0:
        st["added_sca"].append(nm)
        return "addspec %d %s" % (frag, hx("%s CONST FLOAT64 %s" % (nm, fnum(rng))))
    if k == 1:
        st["added_sca"].append(nm)
        ty = rng.choice(["UINT8", "INT16", "UINT64", "INT64", "FLOAT32", "FLOAT64", "COMPLEX128"])
        vals = " ".join((fnum(rng) + ";" + fnum(rng)) if ty.startswith("C") else (fnum(rng) if ty.startswith("F") else str(rng.randint(0, 120)))
                        for _ in range(rng.randint(1, 6)))
        return "addspec %d %s" % (frag, hx("%s CARRAY %s %s" % (nm, ty, vals)))
    if k == 2:
        st["added_vec"].append(nm)
        return "addspec %d %s" % (frag, hx("%s LINCOM 2 %s %s %s %s %s %s" % (nm, vec, rng.choice([fnum(rng), sca]), fnum(rng), "a",
                                                                               fnum(rng) + ";" + fnum(rng), rng.choice([fnum(rng), "ca<2>"]))))
    if k == 3:
        st["added_vec"].append(nm)
        return "addspec %d %s" % (frag, hx("%s POLYNOM %s %s" % (nm, vec, " ".join(fnum(rng) for _ in range(rng.randint(2, 5))))))
    if k == 4:
        st["added_vec"].append(nm)
        return "addspec %d %s" % (frag, hx("%s %s %s %s %s" % (nm, rng.choice(["BIT", "SBIT"]), vec, rng.choice(["3", "ki", "0"]), rng.choice(["4", "1", "ca<1>"]))))
    if k == 5:
        st["added_vec"].append(nm)
        return "addspec %d %s" % (frag, hx("%s PHASE %s %s" % (nm, vec, rng.choice(["-3", "0", "9223372036854775807", "ki"]))))
    if k == 6:
        st["added_vec"].append(nm)
        op = rng.choice(["EQ", "GE", "GT", "LE", "LT", "NE", "SET", "CLR"])
        thr = fnum(rng) if op in ("GE", "GT", "LE", "LT") else str(rng.randint(0, 200))
        return "addspec %d %s" % (frag, hx("%s WINDOW %s %s %s %s" % (nm, vec, "c", op, thr)))
    if k == 7:
        st["added_vec"].append(nm)
        return "addspec %d %s" % (frag, hx("%s MPLEX %s c %d %d" % (nm, vec, rng.randint(0, 5), rng.randint(0, 9))))
    if k == 8:
        st["added_vec"].append(nm)
        return "addspec %d %s" % (frag, hx("%s RECIP %s %s" % (nm, vec, rng.choice([fnum(rng), fnum(rng) + ";" + fnum(rng), "k"]))))
    if k == 9:
        return "putconst %s f64 %s" % (rng.choice(["k"] + [x for x in st["added_sca"][:3]]), f64bits(float(fnum(rng))))
    if k == 10:
        return "putstring %s %s" % (rng.choice(["s", "a/ms"]), rbytes(rng).hex() or "")
    if k == 11:
        vals = ",".join((rbytes(rng).hex() or "-") for _ in range(rng.randint(1, 3)))
        return "putsarray sa %d %s" % (rng.randint(0, 2), vals)
    if k == 12:
        st["added_sca"].append(nm)
        return "addspec %d %s" % (frag, hx("%s STRING %s" % (nm, "x")))
    if k == 13:
        return "alias %s %s %d" % (nm, rng.choice([vec, sca, "al", "nosuch_yet"]), frag)
    if k == 14:
        return "%s %s" % (rng.choice(["hide", "unhide"]), rng.choice([vec, sca, "al"]))
    if k == 15:
        return "maddspec %s %s" % (rng.choice(["a", "b", "l1"]), hx("%s CONST %s %s" % (nm, rng.choice(["FLOAT64", "UINT16"]), rng.randint(0, 9))))
    if k == 16:
        return "malias %s %s %s" % (rng.choice(["a", "b"]), nm, rng.choice(["k", "a/m", vec]))
    if k == 17:
        return "protect %d %d" % (rng.choice([0, 1, 2, 3]), rng.choice([0, 1, 2]))
    if k == 18:
        return "frameoffset %d %d 0" % (rng.choice([0, 1, 7, 1000000]), rng.choice([0, 1, 2]))
    if k == 19:
        return "encoding %s %d 0" % (rng.choice(["none", "text", "sie", "gzip", "bzip2", "lzma"]), rng.choice([0, 1, 2]))
    if k == 20:
        return "endianness %s %d 0" % (rng.choice(["0x4", "0x8"]), rng.choice([0, 1, 2]))
    if k == 21:
        return "affixes %d %s %s" % (rng.choice([1, 2]), rng.choice(["-", "Q_", "P_", "zz"]), rng.choice(["-", "_T", "_S"]))
    if k == 22:
        st["nfrag"] += 1
        extra = rng.choice([[], ["px=I%d_" % st["n"]], ["sx=_J%d" % st["n"]], ["ns=ns%d" % st["n"]]])
        return "include inc%d.format %d creat %s" % (st["n"], rng.choice([0, 1]), " ".join(extra))
    if k == 23:
        return "reference %s" % rng.choice(["a", "b", "c", "P_x_S"])
    if k == 25:
        return "metaflush"          # later calls then start from clean fragments
    if k == 26:
        # a field of the root fragment that refers to a field of the included one
        st["added_vec"].append(nm)
        return "addspec 0 %s" % hx("%s %s" % (nm, rng.choice(["PHASE P_x_S 1", "LINCOM 1 P_y_S 2 P_kk_S", "RECIP P_x_S P_kk_S", "BIT P_x_S P_kk_S 2"])))
    if k == 27:
        old = rng.choice(["x", "y", "kk"])
        return "rename P_%s_S P_%s%d_S 2" % (old, old, st["n"])
    return "rename %s %s 2" % (rng.choice(st["added_vec"] + st["added_sca"] + ["ph", "k", "s"]), nm + "r")


DOTZ = re.compile(r'(in2?="[^"]*?)\.z"')


FRAG = re.compile(r'^F(\d+) name="([^"]*)"(.*) par=(-?\d+)(.*)$')


def canon_frags(d):
    """fragment indices are not part of the metadata: key fragments by file name"""
    items = d.split("|")
    names = {}
    for it in items:
        m = FRAG.match(it)
        if m:
            names[m.group(1)] = m.group(2)
    out, frs = [], []
    for it in items:
        m = FRAG.match(it)
        if m:
            frs.append('F name="%s"%s par=%s%s' % (m.group(2), m.group(3), names.get(m.group(4), "-"), m.group(5)))
        elif it.startswith("E "):
            it = re.sub(r' f=(\d+) ', lambda mm: ' f=%s ' % names.get(mm.group(1), mm.group(1)), it, count=1)
            out.append(re.sub(r' afrag=(-?\d+) ', lambda mm: ' afrag=%s ' % names.get(mm.group(1), mm.group(1)), it, count=1))
        else:
            out.append(it)
    return "|".join(out[:1] + sorted(frs) + out[1:])


def canon(dump):
    # an empty prefix / suffix and an absent one are the same thing
    # (the '|n=' item is gd_nentries, whose agreement with the length of the list is property C15)
    d = DOTZ.sub(r'\1"', dump).replace('px=""', 'px=(null)').replace('sx=""', 'sx=(null)')
    return canon_frags(re.sub(r'\|n=\d+', '', d))


def first_diff(a, b):
    pa, pb = a.split("|"), b.split("|")
    for x, y in zip(pa, pb):
        if x != y:
            return "before: %s   after: %s" % (x[:260], y[:260])
    return "before has %d items, after %d: %s" % (len(pa), len(pb), (pa[len(pb):] or pb[len(pa):])[:2])


def run(ctx):
    import sys as _sys, os as _os
    _sys.path.insert(0, _os.path.join(C.VERIF, "extract"))
    import x6_writecode
    ok, lr, infos = F.lean_obligations(ctx, MODULES, [lambda: x6_writecode.main(C.REPO)])
    gdmodel = C.build_gdmodel()
    try:
        harness = C.build_harness("gdh", ["gdh.c"])
    except RuntimeError as e:
        raise F.C_BuildError(str(e))
    rng = ctx.rng
    # ---- stream A: the token writer against the model -----------------------
    chunks, metaA = [], []
    for i in range(60 if ctx.thorough() else 15):
        enc, L = template(rng)
        L.append("open rdwr")
        strs = []
        for j in range(10):
            b = rbytes(rng, rng.choice([1, 2, 3, 6, 20]))
            strs.append(b)
            L += ["putstring s %s" % b.hex(), "metaflush", "dump format"]
        chunks.append(L)
        metaA.append(strs)
    resA = streams.run_chunks(harness, chunks, "c07a")
    q = ["escape %s" % (b.hex() or "-") for strs in metaA for b in strs]
    qo, _, _ = streams.run_model(gdmodel, q)
    qi = 0
    nesc = 0
    for ci, (lines, out, crashed, err) in enumerate(resA):
        if crashed:
            ctx.fail("input", "library aborted at '%s': %s" % (lines[min(len(out), len(lines) - 1)], err[-300:]),
                     {"script": lines[:len(out) + 1], "stderr": err[-2000:]}, sig={"class": "crash"})
        j = 0
        for i, l in enumerate(lines):
            if l == "dump format" and i < len(out):
                b = metaA[ci][j]
                j += 1
                want = bytes.fromhex(qo[qi].split()[1]) if len(qo[qi].split()) > 1 else b""
                qi += 1
                nesc += 1
                ctx.evaluations += 1
                ctx.distinct.add(("escape", len(b), tuple(sorted(set(x for x in b if x in (32, 34, 35, 92) or x < 32)))[:4]))
                txt = bytes.fromhex(out[i][5:].strip()) if out[i].startswith("dump ") else b""
                line = [x for x in txt.split(b"\n") if x.startswith(b"s STRING ")]
                # a newline inside the value is written as \x0A, so the line is intact
                if not line or line[0][len(b"s STRING "):] != want:
                    ctx.fail("input", "gd_put_string(s, %r): format file has %r, the writer model gives %r" % (b, line[0][:80] if line else None, want[:80]),
                             {"script": lines[:i + 1], "expected": want.hex()}, sig={"class": "escape"})
        while j < len(metaA[ci]):
            j += 1
            qi += 1
    # ---- stream B: flush / reopen -------------------------------------------
    chunks, metaB = [], []
    nseq = 400 if ctx.thorough() else 90
    for i in range(nseq):
        enc, L = template(rng)
        L.append("open rdwr")
        st = {"n": 0, "added_vec": [], "added_sca": [], "nfrag": 2}
        if rng.random() < 0.25:
            # scenario: references across fragments, the referring fragment flushed (clean) before
            # the referred-to field is renamed with GD_REN_UPDB; only the other fragment is touched afterwards
            for _ in range(rng.randint(1, 3)):
                nm = "n%d" % st["n"]
                st["n"] += 1
                L.append("addspec 0 %s" % hx("%s %s" % (nm, rng.choice(["PHASE P_x_S 1", "LINCOM 1 P_y_S 2 P_kk_S", "RECIP P_x_S P_kk_S",
                                                                          "BIT P_x_S P_kk_S 2", "MULTIPLY b P_x_S"]))))
            if rng.random() < 0.5:
                L.append("alias n%d P_%s_S 0" % (st["n"], rng.choice(["x", "y", "kk"])))
                st["n"] += 1
            L.append("metaflush")
            for old in rng.sample(["x", "y", "kk"], rng.randint(1, 3)):
                L.append("rename P_%s_S P_%s%d_S 2" % (old, old, st["n"]))
                st["n"] += 1
            if rng.random() < 0.5:
                L.append("addspec 1 %s" % hx("n%d CONST UINT8 3" % st["n"]))
        else:
            nops = rng.randint(1, 14)
            for _ in range(nops):
                L.append(mutation(rng, st))
        how = rng.choice(["metaflush", "close", "close", "rewrite"])
        L.append("dumpmeta")
        if how == "metaflush":
            L += ["metaflush", "dumpmeta", "discard"]
        elif how == "rewrite":
            L += ["rewrite -1", "dumpmeta", "discard"]
        else:
            L += ["close"]
        L += ["open rdonly pedantic", "dumpmeta", "close", "open rdwr", "dumpmeta", "close"]
        chunks.append(L)
        metaB.append(how)
    resB = streams.run_chunks(harness, chunks, "c07b")
    nok = 0
    opstat = {}
    for ci, (lines, out, crashed, err) in enumerate(resB):
        if crashed:
            ctx.fail("input", "library aborted at '%s': %s" % (lines[min(len(out), len(lines) - 1)], err[-300:]),
                     {"script": lines[:len(out) + 1], "stderr": err[-2000:]}, sig={"class": "crash", "op": lines[min(len(out), len(lines) - 1)].split()[0]})
            continue
        dumps = [(i, canon(streams.strip_rl(out[i])[0])) for i, l in enumerate(lines) if l == "dumpmeta" and i < len(out)]
        for i, l in enumerate(lines):
            t = l.split()[0]
            if i < len(out) and t not in ("reset", "file", "open", "dumpmeta", "close", "discard", "metaflush", "rewrite"):
                key = t + (" ok" if " e=0" in out[i] else " refused")
                opstat[key] = opstat.get(key, 0) + 1
        if not dumps:
            continue
        ref_i, ref = dumps[0]
        ctx.evaluations += 1
        reopen_failed = False
        for i in range(len(lines)):
            if lines[i].startswith("open") and i > ref_i and i < len(out) and " e=0" not in out[i]:
                reopen_failed = True
                cls = "reopen-fails"
                if any(l.startswith("affixes") and j < len(out) and " e=0" in out[j] for j, l in enumerate(lines[:i])):
                    cls = "reopen-fails-after-alter-affixes"       # stale codes left by gd_alter_affixes (5.47)
                ctx.fail("input", "%s after %s of a modified dirfile fails: %s" % (lines[i], metaB[ci], out[i]),
                         {"script": lines[:i + 1]}, sig={"class": cls})
        if reopen_failed:
            continue        # reported above; there is no database to compare with
        # a flush that reports failure keeps the changes pending (C12); nothing to compare then
        flush_failed = None
        for i in range(ref_i, len(lines)):
            if lines[i].split()[0] in ("metaflush", "rewrite", "close") and i < len(out) and " e=0" not in out[i] and out[i] != "close 0":
                flush_failed = (i, out[i])
                break
        if flush_failed:
            i, o = flush_failed
            opstat["flush refused: " + o.split()[-2 if "rl=" in o else -1]] = opstat.get("flush refused: " + o.split()[-2 if "rl=" in o else -1], 0) + 1
            cls = "flush-fails"
            if any(l.startswith("affixes") and j < len(out) and " e=0" in out[j] for j, l in enumerate(lines[:i])) and "-6" in o:
                # gd_alter_affixes renamed the fragment's fields but not the field codes that refer to them
                cls = "flush-fails-after-alter-affixes"
            ctx.fail("input", "%s of a dirfile built by successful calls fails: %s" % (lines[i], o),
                     {"script": lines[:i + 1]}, sig={"class": cls, "err": o.split("e=")[-1].split()[0] if "e=" in o else o.split()[-1]})
            continue
        for (i, d) in dumps[1:]:
            ctx.distinct.add((metaB[ci], len(ref) // 2000))
            if d != ref:
                diff = first_diff(ref, d)
                cls = "roundtrip"
                if d == ref.replace(";8000000000000000", ";0"):
                    cls = "negative-zero-imaginary"        # known finding 5.90
                elif re.search(r'in2?="[PQIzJ_0-9a-z]*[_.]?[aimr][_.]?[A-Za-z_0-9]*"', diff) and re.search(r'in2?="[aimr]\.[A-Za-z0-9_]*z', diff):
                    # a one-letter input name (a, i, m, r) inside a fragment with affixes: written as "a.z",
                    # read back as namespace a + field z
                    cls = "dotz-under-affixes"
                elif diff.startswith("before: F name=") and any(l.startswith("affixes") and j < len(out) and " e=0" in out[j] for j, l in enumerate(lines[:i])):
                    cls = "fragment-affixes-after-alter-affixes"     # stale affix lengths left by gd_alter_affixes (5.47c)
                ctx.fail("input", "metadata differ after %s + reopen (%d ops): %s" % (metaB[ci], len(lines), diff),
                         {"script": lines[:i + 1], "before": ref[:6000], "after": d[:6000]}, sig={"class": cls, "how": metaB[ci]})
                break
        else:
            nok += 1
    ctx.coverage.update({
        "rule": "A: 10 random byte strings (all special bytes, control bytes, high bytes) per dirfile written with gd_put_string + gd_metaflush; the STRING line in the format file compared with Token.escapeStr. "
                "B: template dirfile (15 field types, metafields, aliases, hidden, an included fragment with affixes) + 1-14 random metadata calls (add of every kind with full-mantissa and extreme numbers, "
                "scalar codes and indices, put_constant/string/sarray, aliases, hide, metafields, protect, frame offset, encoding, byte order, affixes, includes with prefix/suffix/namespace, reference, rename), "
                "then gd_metaflush / gd_rewrite_fragment / gd_close, reopen under GD_PEDANTIC and GD_RDWR, full metadata dumps compared",
        "escape_lines": nesc, "sequences": nseq, "roundtrips_equal": nok, "calls": opstat,
    })
    if resB and resB[0][1]:
        ctx.sample({"ops": [l[:80] for l in resB[0][0][8:14]], "dump_prefix": resB[0][1][-2][:200] if len(resB[0][1]) > 1 else ""})
    if not ok and not any(f.kind == "input" for f in ctx.failures):
        names = [o[0] for o in ctx.obligations if not o[1]]
        ctx.fail("obligation", "Lean obligations no longer check: " + "; ".join(names)[:300] + " :: " + lr.errors[-500:],
                 {"theorem": names, "lean_errors": lr.errors[-3000:]}, has_input=False)


def replay(ctx, obj):
    harness = C.build_harness("gdh", ["gdh.c"])
    lines = obj.get("script", [])
    out, rc, err = streams.run_gdh(harness, lines, "replay")
    dumps = [canon(streams.strip_rl(o)[0]) for l, o in zip(lines, out) if l == "dumpmeta"]
    if rc or len(out) < len(lines):
        print("library aborted:", err[-400:])
        return 1
    if len(dumps) >= 2 and dumps[0] != dumps[-1]:
        print(first_diff(dumps[0], dumps[-1]))
        return 1
    print("dumps equal")
    return 0
