"""C08 — format files are tokenised (and interpreted) as the Standards specify."""
import itertools, os, sys
from vlib import common as C
from vlib import framework as F
from vlib import streams

ASSUMPTIONS = [
    "the tokeniser is driven through _GD_Tokenise itself (as gd_strtok, _GD_ParseFragment and gd_add_spec do), in permissive/>=6 mode and in pedantic Standards Version 5 mode",
    "Spec.tokenise is my reading of dirfile-format(5) 'Tokens'; the readings the man page leaves open are listed in GdModel/Token/Spec.lean",
    "Impl.tokenise = Spec.tokenise is NOT proved for all strings; it is checked exhaustively over a 13-symbol alphabet up to the length bound, and on random longer strings",
    "field-specification line parsing (per-type parsers, _GD_TokToNum, _GD_ValidateField) is exercised through gd_open with generated lines against the library's own re-serialisation, not against a Lean parser model (partial)",
]
CHECKER_CMD = "cd /verif/lean && lake build GdModel.Props.C08 && lake env lean <generated #print axioms file>"
MODULES = ["GdModel.Props.C08"]
# the syntactically significant alphabet: letters/digits that matter to escapes,
# whitespace, quote, comment, backslash, newline, a high-bit byte
ALPHA = [b'a', b'1', b'8', b'f', b'x', b'u', b' ', b'\t', b'"', b'#', b'\\', b'\n', b'\xc3']


def gen_strings(ctx):
    maxlen = 5 if ctx.thorough() else 4
    out = []
    for n in range(0, maxlen + 1):
        for t in itertools.product(ALPHA, repeat=n):
            out.append(b"".join(t))
    rng = ctx.rng
    pool = ALPHA + [b'0', b'7', b'3', b'A', b'F', b'g', b'e', b'n', b'\r', b'\x0b', b'\x0c', b'\xff', b'\x7f', b'\x01']
    nrand = 60000 if ctx.thorough() else 15000
    for _ in range(nrand):
        n = rng.randint(5, 24)
        s = b"".join(rng.choice(pool) for _ in range(n))
        out.append(s)
    # targeted: every octal escape \0..\777, hex, unicode boundaries, at end of string and before other text
    for v in range(0, 512):
        for tail in (b"", b"z", b" z", b"7", b"\n"):
            out.append(b"s\\%o" % v + tail)
    for v in list(range(0, 256)) :
        for tail in (b"", b"z", b"f"):
            out.append(b"\\x%x" % v + tail)
            out.append(b"\\x%02X" % v + tail)
    for v in [0, 1, 0x7f, 0x80, 0x7ff, 0x800, 0xffff, 0x10000, 0x10ffff, 0x110000, 0x1fffff, 0xfffffff, 0x20ac, 0xd800]:
        for tail in (b"", b"z", b" z", b"0"):
            out.append(b"\\u%x" % v + tail)
            out.append(b"\\u%07x" % v + tail)
    return out


def run(ctx):
    ok, lr, infos = F.lean_obligations(ctx, MODULES, [])
    gdmodel = C.build_gdmodel()
    try:
        harness = C.build_harness("gdh", ["gdh.c"])
    except RuntimeError as e:
        raise F.C_BuildError(str(e))
    strings = gen_strings(ctx)
    L = []
    for s in strings:
        h = s.hex()
        L.append("tok 1 32 " + h)
        L.append("tok 1 1 " + h)
        if len(s) <= 3 or ctx.rng.random() < 0.1:
            L.append("tok 0 32 " + h)
    out, rc, err = streams.run_gdh(harness, L, "c08", timeout=3000)
    mo, _, _ = streams.run_model(gdmodel, L, timeout=3000)
    so, _, _ = streams.run_model(gdmodel, L, spec=True, timeout=3000)
    if rc != 0 or len(out) < len(L):
        bad = L[min(len(out), len(L) - 1)]
        ctx.fail("input", "_GD_Tokenise aborted under ASan/UBSan on '%s': %s" % (bad, err[-300:]),
                 {"script": [bad], "stderr": err[-2500:]}, sig={"class": "crash"})
    n = min(len(out), len(L))
    corr_bad = []
    prop_bad = []
    hist = {"ok": 0, "character": 0, "unterminated": 0}
    for i in range(n):
        a, m, s = out[i], mo[i], so[i]
        ctx.evaluations += 1
        if a != m:
            corr_bad.append((L[i], m, a))
        # property level: error kind, and (when the whole string is tokenised without error) the tokens
        t = L[i].split()
        ae = a.split(" e=")[1].split()[0] if " e=" in a else "?"
        se = s.split(" e=")[1].split()[0] if " e=" in s else "?"
        hist[ae] = hist.get(ae, 0) + 1
        if t[2] == "32":
            at = a.split(" t=")[1] if " t=" in a else "?"
            st = s.split(" t=")[1] if " t=" in s else "?"
            ntok = at.count(",") + 1 if at else 0
            ctx.distinct.add((ae, min(ntok, 4), "\\" in bytes.fromhex(t[3] if len(t) > 3 else "").decode("latin1"),
                              '"' in bytes.fromhex(t[3] if len(t) > 3 else "").decode("latin1"), t[1]))
            if ae != se or (ae == "ok" and at != st and ntok < 32):
                prop_bad.append((L[i], s, a))
    ctx.coverage.update({
        "rule": "every string over the 13-symbol alphabet {a,1,8,f,x,u,space,tab,quote,#,backslash,newline,0xC3} up to length %d, all octal/hex/unicode escapes with several continuations, "
                "seeded random strings of length 5-24 over a wider pool; each through the real _GD_Tokenise with tok_want=32 and 1 (gd_strtok), permissive and pedantic-v5; "
                "compared with Impl.tokenise (tokens, error kind, resume position) and with Spec.tokenise (tokens, error kind); distinct = (error kind, token count class, has-backslash, has-quote, mode)" % (5 if ctx.thorough() else 4),
        "exhaustive": True, "strings": len(strings), "error_kinds": hist,
    })
    for i in (1, n // 2, n - 2):
        if 0 <= i < n:
            ctx.sample({"op": L[i], "string": repr(bytes.fromhex(L[i].split()[3] if len(L[i].split()) > 3 else "")), "impl": out[i], "model": mo[i], "spec": so[i]})
    for (l, want, got) in prop_bad[:4]:
        sraw = bytes.fromhex(l.split()[3] if len(l.split()) > 3 else "")
        ctx.fail("input", "string %r: _GD_Tokenise gives '%s', the Standards' reading gives '%s'" % (sraw, got, want),
                 {"script": [l], "string": repr(sraw), "expected": want, "observed": got}, sig={"class": "tokenise"})
    pl = {p[0] for p in prop_bad}
    for (l, want, got) in corr_bad[:3]:
        if l in pl:
            continue
        sraw = bytes.fromhex(l.split()[3] if len(l.split()) > 3 else "")
        ctx.fail("correspondence", "string %r: impl model '%s' vs library '%s' (the Standards' tokens are returned)" % (sraw, want, got),
                 {"correspondence": "gen_tok", "script": [l], "model": want, "observed": got}, has_input=False)
    if not ok and not prop_bad:
        names = [o[0] for o in ctx.obligations if not o[1]]
        ctx.fail("obligation", "Lean obligations no longer check: " + "; ".join(names)[:300] + " :: " + lr.errors[-500:],
                 {"theorem": names, "lean_errors": lr.errors[-3000:]}, has_input=False)


def replay(ctx, obj):
    gdmodel = C.build_gdmodel()
    harness = C.build_harness("gdh", ["gdh.c"])
    lines = obj.get("script", [])
    out, rc, err = streams.run_gdh(harness, lines, "replay")
    so, _, _ = streams.run_model(gdmodel, lines, spec=True)
    bad = 0
    for i, l in enumerate(lines):
        print(l, "\n  library:", out[i] if i < len(out) else "?", "\n  spec:   ", so[i])
        ae = out[i].split(" e=")[1].split()[0] if i < len(out) and " e=" in out[i] else "?"
        se = so[i].split(" e=")[1].split()[0]
        if ae != se or (ae == "ok" and out[i].split(" t=")[1] != so[i].split(" t=")[1]):
            bad = 1
    return bad
