"""C09 — directive scope, inclusion, affixes, namespaces and aliases follow the Standards."""
import re
from vlib import common as C
from vlib import framework as F
from vlib import streams
from checks.c10 import hx

ASSUMPTIONS = [
    "the format-file interpreter (parse.c _GD_ParseDirective/_GD_ParseFragment, include.c _GD_Include/_GD_SetFieldAffixes, name.c _GD_BuildCode) is modelled by hand in GdModel.Scope.Model; Props/C09 proves, for every include tree below the recursion limit, that the per-fragment /ENCODING /ENDIAN /FRAMEOFFSET /PROTECT settings the sequential interpreter leaves are the declarative ones of dirfile-format(5) (own last directive, else what the parent had at the /INCLUDE line), plus the version-propagation rule, reference selection lemmas, affix/namespace composition and the alias-chain specification (Reaches / chase)",
    "the tie is differential: random include trees are written to disk, opened with gd_cbopen (callback: ignore) and every fragment attribute, field name, fragment index, reference field and RAW file path is compared with the executable model and with the declarative Spec.frags; the same trees are rebuilt with gd_include_affix/gd_include_ns/gd_add_spec/gd_fragment_namespace/gd_alter_affixes and compared again; alias tables (chains, loops, dangling targets, metafield aliases) are compared with the C-shaped resolver model and with the specification",
    "not modelled: /ENCODING auto-detection from data files, /META parent checks, field-name validation per Standards Version (the generator stays inside names valid in every version it uses), absolute include paths, duplicate names",
]
CHECKER_CMD = "cd /verif/lean && lake build GdModel.Props.C09 && lake env lean <generated #print axioms file>"
MODULES = ["GdModel.Props.C09"]

ENC_TXT = {1: "none", 2: "text", 3: "gzip", 4: "sie"}
ENC_LIB = {0: 0, 1: 0x01000000, 2: 0x02000000, 3: 0x04000000, 4: 0x07000000}
END_TXT = {0: "little", 1: "big", 2: "little arm", 3: "big arm"}
PROT_TXT = {0: "none", 1: "format", 2: "data", 3: "all"}
PROBE = {0: "LINCOM 1 INDEX 1 0", 6: "CONST UINT8 1", 7: "POLYNOM INDEX 1 2", 8: "RECIP INDEX 1", 9: "WINDOW INDEX INDEX EQ 1",
         10: "INDIR INDEX INDEX"}


def hexn(s):
    return s.encode().hex() if s else "-"


class Gen:
    """random include tree -> files, model tokens"""

    def __init__(self, rng, mode, maxdepth):
        self.rng, self.mode, self.maxdepth = rng, mode, maxdepth
        self.nfile = 0
        self.nname = 0
        self.files = {}          # relpath -> text
        self.fragdir = {}        # fragment index (preorder) -> directory relative to the dirfile ("" = top)
        self.nfrag = 1
        self.rawbase = {}        # written name -> (frag idx, base name)
        self.raws = []           # (frag, written name, base) in definition order
        self.lt_raws = set()     # RAW probes with a one-character type (accepted only where parsing is not pedantic or the version is < 8)

    def name(self):
        self.nname += 1
        return self.rng.choice("abcdefgh") + self.rng.choice("klmnop") + str(self.nname)

    def fragment(self, depth, fdir, idx):
        rng = self.rng
        lines, toks = [], []
        epoch = 0
        myraws = []
        n = rng.randint(2, 7)
        if depth > 0 and self.mode == "A" and rng.random() < 0.4:
            # an included fragment that declares its version first (as every fragment the library writes does)
            v = rng.choice([10, 10, 9, 8])
            lines.append("/VERSION %d" % v); toks.append("V:%d" % v)
        for _ in range(n):
            r = rng.random()
            if r < 0.30:
                a = rng.choice(["enc", "endian", "offset", "protect"])
                if a == "enc":
                    v = rng.choice([1, 2, 3, 4]); lines.append("/ENCODING " + ENC_TXT[v])
                elif a == "endian":
                    v = rng.choice([0, 1] if self.mode == "A" else [0, 1, 2, 3]); lines.append("/ENDIAN " + END_TXT[v])
                elif a == "offset":
                    v = rng.choice([0, 1, 2, 3, 7, 100]); lines.append("/FRAMEOFFSET %d" % v)
                else:
                    v = rng.choice([0, 1, 2, 3]); lines.append("/PROTECT " + PROT_TXT[v])
                toks.append("S:%s:%d" % (a, v))
            elif r < 0.42 and self.mode == "A":
                v = rng.choice([6, 7, 8, 9, 10])
                lines.append("/VERSION %d" % v); toks.append("V:%d" % v)
                # probes on both sides of the version just declared: a field type introduced in v is accepted,
                # one introduced in v+1 is a syntax error under this version (unless the open is permissive)
                for mv in ([v] if v == 10 else [v, v + 1]):
                    nm = self.name()
                    lines.append("%s %s" % (nm, PROBE[mv])); toks.append("O:%s:%d" % (hexn(nm), mv))
            elif r < 0.42 and self.mode == "B":
                ns = rng.choice(["", "n1", "n2", "n3.n4", ".n5", "n6."])
                lines.append('/NAMESPACE %s' % (ns if ns else '""')); toks.append("N:" + hexn(ns))
                epoch += 1
            elif r < 0.47 and self.mode == "A":
                # syntax that pedantic parsing accepts only BEFORE a version: a one-character RAW type (_GD_RawType:
                # !pedantic || standards < 8).  Shows whether a fragment is parsed pedantically at this point, which the
                # ">= version" probes cannot (they all pass at Version 10) — e.g. after an include whose /VERSION must not leak.
                nm = self.name()
                lines.append("%s RAW c 1" % nm); toks.append("W:%s:108" % hexn(nm))
                self.raws.append((idx, nm, nm))
                self.lt_raws.add(nm)          # has a data file only where the model accepts the line
            elif r < 0.60:
                nm = self.name()
                if self.mode == "B":
                    nm = rng.choice(["", "", "", ".", "t1.", ".t2."]) + nm
                lines.append("%s RAW UINT8 1" % nm); toks.append("W:%s:0" % hexn(nm))
                base = nm.split(".")[-1]
                myraws.append((nm, epoch))
                self.raws.append((idx, nm, base))
            elif r < 0.72:
                nm = self.name()
                mv = rng.choice([0, 6, 7, 8, 9, 10]) if self.mode == "A" else 0
                if self.mode == "B":
                    nm = rng.choice(["", "", ".", "t3."]) + nm
                lines.append("%s %s" % (nm, PROBE[mv])); toks.append("O:%s:%d" % (hexn(nm), mv))
            elif r < 0.80 and myraws:
                cand = [w for (w, e) in myraws if e == epoch]
                if cand:
                    c = rng.choice(cand)
                    lines.append("/REFERENCE " + c); toks.append("R:" + hexn(c))
            elif depth < self.maxdepth and self.nfrag < 14:
                self.nfile += 1
                sub = rng.choice(["", "", "s%d/" % self.nfile])
                rel = sub + "frag%d" % self.nfile
                ns = px = sx = ""
                if self.mode == "B":
                    ns = rng.choice(["", "", "q1", "q2.q3"])
                    px = rng.choice(["", "", "P", "Xy"])
                    sx = rng.choice(["", "", "S", "zZ"])
                t3 = (ns + "." if ns else "") + px
                line = "/INCLUDE " + rel
                if t3 or sx:
                    line += " " + (t3 if t3 else '""')
                if sx:
                    line += " " + sx
                cidx = self.nfrag
                self.nfrag += 1
                cdir = fdir + sub
                path = fdir + rel
                self.fragdir[cidx] = cdir
                cl, ct = self.fragment(depth + 1, cdir, cidx)
                self.files[path] = "\n".join(cl) + "\n"
                lines.append(line)
                toks.append("I:%s:%s:%s" % (hexn(ns), hexn(px), hexn(sx)))
                toks += ct
                toks.append("E")
                if self.mode == "A" and rng.random() < 0.6:
                    # what the rest of the parent is parsed as, straight after the include
                    nm = self.name()
                    lines.append("%s RAW c 1" % nm); toks.append("W:%s:108" % hexn(nm))
                    self.raws.append((idx, nm, nm))
                    self.lt_raws.add(nm)
        return lines, toks


def make_tree(rng, mode, maxdepth):
    g = Gen(rng, mode, maxdepth)
    g.fragdir[0] = ""
    lines, toks = g.fragment(0, "", 0)
    g.files["format"] = "\n".join(lines) + "\n"
    return g, toks


def parse_dump(line):
    """dumpmeta line -> (frags dict list, names {name: frag}, ref)"""
    frags, names, ref = [], {}, None
    for it in line.split("|"):
        m = re.match(r'F(\d+) name="([^"]*)" enc=(\d+) end=([0-9a-f]+) fo=(-?\d+) prot=(\d+) par=(-?\d+) px=(\S+) sx=(\S+) ns=(\S+)', it)
        if m:
            q = lambda s: "" if s in ("(null)", '""') else s.strip('"')
            frags.append({"idx": int(m.group(1)), "name": m.group(2), "enc": int(m.group(3)), "end": int(m.group(4), 16), "fo": int(m.group(5)),
                          "prot": int(m.group(6)), "par": int(m.group(7)), "px": q(m.group(8)), "sx": q(m.group(9)), "ns": q(m.group(10))})
            continue
        m = re.match(r'E "([^"]*)" as="([^"]*)" t=([0-9a-f]+) f=(\d+)', it)
        if m:
            names[m.group(1)] = int(m.group(4))
            continue
        m = re.match(r'ref=(\S+)', it)
        if m:
            ref = None if m.group(1) == "(null)" else m.group(1).strip('"')
    return frags, names, ref


def unhexn(s):
    return "" if s == "-" else bytes.fromhex(s).decode()


def parse_model(line):
    """gdmodel `scope` line -> (frags, names, ref) or None on recursion error"""
    if not line.startswith("scope F"):
        return None
    a, b, c = line[6:].split(" || ")
    frags = []
    for f in a.split(" | "):
        m = re.match(r'F(\d+) par=(\d+) enc=(\d+) end=(\d+) fo=(\d+) prot=(\d+) ns=(\S+) px=(\S+) sx=(\S+)', f)
        frags.append({"idx": int(m.group(1)), "par": int(m.group(2)), "enc": int(m.group(3)), "end": int(m.group(4)), "fo": int(m.group(5)),
                      "prot": int(m.group(6)), "ns": unhexn(m.group(7)), "px": unhexn(m.group(8)), "sx": unhexn(m.group(9))})
    names = {}
    for t in b.split():
        n, f = t.rsplit("@", 1)
        names[unhexn(n)] = int(f)
    ref = c[4:].strip()
    return frags, names, (None if ref == "-" else unhexn(ref))


def lib_end(x):
    v = 1 if (x & 4) else 0
    if x & 0x2000:
        v += 2
    return v


def tree_script(g, flags):
    L = ["reset"]
    for rel, txt in sorted(g.files.items()):
        L.append("file %s %s" % (rel, hx(txt)))
    L += ["opencb ignore rdonly " + flags, "dumpmeta", "rawfiles"]
    return L


def strlencmp_key(n):
    b = n.encode()
    return (len(b), b)


def alias_case(rng):
    """an alias table: real fields, aliases in chains / loops / dangling, metafield aliases; returns (format text, entries)"""
    reals = ["r%d" % i for i in range(rng.randint(1, 4))]
    metas = []
    if rng.random() < 0.5:
        metas.append(reals[0] + "/m")
    names = []
    nal = rng.randint(2, 9)
    for i in range(nal):
        nm = rng.choice(["a", "b", "c", "zz", "y", "k", "lo", "a_long_one", "q", "mm"]) + (str(i) if rng.random() < 0.6 else "")
        if nm not in names and nm not in reals:
            names.append(nm)
    if rng.random() < 0.4 and len(names) > 1:
        names[-1] = reals[0] + "/al"      # a metafield alias
    ents = []
    for nm in names:
        r = rng.random()
        pool = names + reals + metas
        if r < 0.12:
            tgt = "missing%d" % rng.randint(0, 2)
        elif r < 0.2:
            tgt = rng.choice(["INDEX", "ns9.INDEX"])
        else:
            tgt = rng.choice(pool)
        ents.append((nm, tgt))
    lines = ["/VERSION 10"]
    for r in reals:
        lines.append("%s RAW UINT8 1" % r)
    for m in metas:
        lines.append("%s CONST UINT8 1" % m)
    al = ["/ALIAS %s %s" % e for e in ents]
    rng.shuffle(al)
    hidden = [nm for (nm, _) in ents if rng.random() < 0.25] + ([reals[-1]] if rng.random() < 0.3 else [])
    return "\n".join(lines + al + ["/HIDDEN " + h for h in hidden]) + "\n", reals, metas, ents, hidden


def run(ctx):
    ok, lr, infos = F.lean_obligations(ctx, MODULES, [])
    gdmodel = C.build_gdmodel()
    try:
        harness = C.build_harness("gdh", ["gdh.c"])
    except RuntimeError as e:
        raise F.C_BuildError(str(e))
    rng = ctx.rng
    ntrees = 260 if ctx.thorough() else 70
    # ---- stream A/B: trees parsed from disk ----------------------------------
    cases, chunks, mlines = [], [], []
    for i in range(ntrees):
        mode = "A" if i % 2 == 0 else "B"
        deep = ctx.thorough() and i % 40 == 7
        g, toks = make_tree(rng, mode, 31 if deep else rng.choice([1, 2, 3, 5]))
        fl = rng.choice(["", "", "pedantic", "permissive"]) if mode == "A" else ""
        if rng.random() < 0.3:
            fl += " big"
        perm, ped = int("permissive" in fl), int("pedantic" in fl)
        rootend = 1 if "big" in fl else 0
        cases.append((g, toks, fl, mode))
        chunks.append(tree_script(g, fl))
        args = "%d %d 0 %d 0 0 %s" % (perm, ped, rootend, " ".join(toks))
        mlines += ["scope " + args, "scopespec " + args]
    # recursion limit: a chain of includes 33 deep must end in GD_E_RECURSE_LEVEL, 31 deep must parse
    for depth in (31, 32, 33):
        g = Gen(rng, "A", 0)
        g.files["format"] = "/INCLUDE c1\n"
        toks = []
        for d in range(1, depth + 1):
            g.files["c%d" % d] = ("x%d RAW UINT8 1\n" % d) + ("/INCLUDE c%d\n" % (d + 1) if d < depth else "")
            toks += ["I:-:-:-", "W:%s:0" % hexn("x%d" % d)]
        toks += ["E"] * depth
        cases.append((g, toks, "", "R%d" % depth))
        chunks.append(tree_script(g, ""))
        mlines += ["scope 0 0 0 0 0 0 " + " ".join(toks), "scopespec 0 0 0 0 0 0 " + " ".join(toks)]
    res = streams.run_chunks(harness, chunks, "c09a")
    mo, _, _ = streams.run_model(gdmodel, mlines)
    stats = {"fragments": 0, "fields": 0, "version_probes_rejected": 0, "references": 0, "subdir_raw": 0, "recurse_errors": 0, "depth_max": 0}
    for ci, (lines, out, crashed, err) in enumerate(res):
        g, toks, fl, mode = cases[ci]
        rep = {"script": lines, "model_tokens": " ".join(toks), "open_flags": fl}
        if crashed:
            ctx.fail("input", "library aborted opening an include tree: %s" % err[-300:], dict(rep, stderr=err[-2500:]), sig={"class": "crash", "stream": "tree"})
            continue
        o_open, o_dump, o_raw = out[-3], out[-2], out[-1]
        model = parse_model(mo[2 * ci])
        spec = mo[2 * ci + 1]
        ctx.evaluations += 1
        oe = int(re.search(r"e=(-?\d+)", o_open).group(1))
        if model is None:
            stats["recurse_errors"] += 1
            ctx.distinct.add(("recurse", mode))
            if oe != -10:
                ctx.fail("input", "include chain deeper than the recursion limit did not end in GD_E_RECURSE_LEVEL (%s)" % o_open[:60], rep, sig={"class": "recurse-limit"})
            continue
        if oe != 0:
            ctx.fail("input", "gd_cbopen failed (%s) on a tree the model parses" % o_open[:80], rep, sig={"class": "open-error", "mode": mode[:1]})
            continue
        frags, names, ref = parse_dump(o_dump)
        mfr, mnames, mref = model
        stats["fragments"] += len(mfr)
        stats["fields"] += len(mnames)
        stats["depth_max"] = max(stats["depth_max"], max([t.count("/") for t in g.files] + [0]))
        stats["version_probes_rejected"] += sum(1 for t in toks if t.startswith(("O:", "W:"))) - len(mnames)
        bad = None
        if len(frags) != len(mfr):
            bad = "number of fragments: library %d, model %d" % (len(frags), len(mfr))
        else:
            for lf, mf in zip(frags, mfr):
                got = {"enc": 0 if lf["enc"] == 0x0F000000 and mf["enc"] == 0 else lf["enc"], "end": lib_end(lf["end"]), "fo": lf["fo"], "prot": lf["prot"], "par": lf["par"] if lf["idx"] else 0,
                       "px": lf["px"], "sx": lf["sx"], "ns": lf["ns"]}
                exp = {"enc": ENC_LIB[mf["enc"]], "end": mf["end"], "fo": mf["fo"], "prot": mf["prot"], "par": mf["par"],
                       "px": mf["px"], "sx": mf["sx"], "ns": mf["ns"]}
                for k in exp:
                    ctx.distinct.add(("attr", k, str(exp[k])[:6], mode[:1]))
                    if got[k] != exp[k] and bad is None:
                        bad = "fragment %d (%s): %s is %r, Standards/model say %r" % (lf["idx"], lf["name"], k, got[k], exp[k])
        # the declarative spec line must agree with the sequential model (proved; re-checked here on the executable)
        specattrs = [re.findall(r"\w+=(\d+)", x) for x in spec[len("scopespec "):].split(" | ")]
        modattrs = [[str(f["enc"]), str(f["end"]), str(f["fo"]), str(f["prot"])] for f in mfr]
        if specattrs != modattrs:
            ctx.fail("correspondence", "executable Impl and Spec.frags disagree (theorem scoped_directive_spec)", rep, has_input=False)
        lnames = {n: f for n, f in names.items() if n != "INDEX"}
        if bad is None and lnames != mnames:
            d1 = sorted(set(lnames.items()) - set(mnames.items()))[:3]
            d2 = sorted(set(mnames.items()) - set(lnames.items()))[:3]
            bad = "field names/fragments differ: library has %s, model has %s" % (d1, d2)
        if bad is None and ref != mref:
            bad = "reference field: library %r, model %r" % (ref, mref)
        if mref:
            stats["references"] += 1
        # RAW file names: in the directory of the defining fragment, without affixes or namespace
        if bad is None and not mode.startswith("R"):
            rawmap = dict(x.split("=", 1) for x in streams.strip_rl(o_raw)[0].split()[1:])
            EXT = {0: "", 1: "", 2: ".txt", 3: ".gz", 4: ".sie"}
            # the data file is named by the field name as written in the fragment (no affix, no root namespace), plus the encoding's extension
            expected = sorted(("/" + g.fragdir[fi] + w + EXT[mfr[fi]["enc"]]) if mfr[fi]["enc"] else "?" for (fi, w, base) in g.raws if w not in g.lt_raws or w in mnames)   # no file name while the encoding is undetermined
            gotp = sorted(rawmap.values())
            stats["subdir_raw"] += sum(1 for e in expected if e.count("/") > 1)
            if expected != gotp:
                bad = "RAW file paths: library %s, expected %s" % ([p for p in gotp if p not in expected][:3], [p for p in expected if p not in gotp][:3])
        if bad:
            ctx.fail("input", bad, rep, sig={"class": "tree", "what": re.sub(r"[0-9]+", "N", bad.split(":")[0])[:40], "mode": mode[:1]})
    # ---- stream C: the same kind of tree built at run time ----------------------
    chunks, cases = [], []
    for i in range(60 if ctx.thorough() else 20):
        L = ["reset", "file format " + hx("/VERSION 10\n"), "open rdwr creat enc_none"]
        toks = []
        nfrag = 1
        cur = {0: {"ns": "", "px": "", "sx": ""}}

        def build(parent, depth, L=L):
            nonlocal nfrag
            t = []
            for _ in range(rng.randint(1, 4)):
                r = rng.random()
                if r < 0.5:
                    nm = "w%d" % len(L)
                    L.append("addspec %d %s" % (parent, hx("%s RAW UINT8 1" % nm)))
                    t.append("W:%s:0" % hexn(nm))
                elif depth < 3 and nfrag < 8:
                    ns = rng.choice(["", "", "q1", "q2.q3"])
                    px = rng.choice(["", "P", "Xy"]) if not ns else ""
                    sx = rng.choice(["", "S"]) if not ns else ""
                    me = nfrag
                    nfrag += 1
                    ln = "include inc%d %d creat" % (me, parent)
                    if ns:
                        ln += " ns=" + ns
                    else:
                        if px:
                            ln += " px=" + px
                        if sx:
                            ln += " sx=" + sx
                    L.append(ln)
                    t.append("I:%s:%s:%s" % (hexn(ns), hexn(px), hexn(sx)))
                    t += build(me, depth + 1)
                    t.append("E")
            return t
        toks = build(0, 0)
        L += ["dumpmeta", "metaflush", "close", "open rdonly", "dumpmeta"]
        chunks.append(L)
        cases.append(toks)
    res = streams.run_chunks(harness, chunks, "c09c")
    mo, _, _ = streams.run_model(gdmodel, ["scope 0 0 0 0 0 0 " + " ".join(t) for t in cases])
    nrt = 0
    for ci, (lines, out, crashed, err) in enumerate(res):
        rep = {"script": lines, "model_tokens": " ".join(cases[ci])}
        if crashed:
            ctx.fail("input", "library aborted building an include tree at run time: %s" % err[-300:], dict(rep, stderr=err[-2500:]), sig={"class": "crash", "stream": "runtime"})
            continue
        model = parse_model(mo[ci])
        ctx.evaluations += 1
        nrt += 1
        for which, dl in (("in memory", out[-5]), ("after metaflush and reopen", out[-1])):
            frags, names, ref = parse_dump(dl)
            mfr, mnames, mref = model
            lnames = {n: f for n, f in names.items() if n != "INDEX"}
            got = [(f["par"] if f["idx"] else 0, f["px"], f["sx"], f["ns"]) for f in frags]
            exp = [(f["par"], f["px"], f["sx"], f["ns"]) for f in mfr]
            ctx.distinct.add(("runtime", len(mfr), which[:2]))
            if got != exp or lnames != mnames:
                ctx.fail("input", "tree built with gd_include_affix/gd_include_ns/gd_add_spec (%s): fragments %s vs model %s; names %s vs %s" % (
                    which, got[:4], exp[:4], sorted(lnames.items())[:4], sorted(mnames.items())[:4]), rep, sig={"class": "runtime-tree", "when": which[:9]})
                break
    # ---- stream D: alias tables ---------------------------------------------------
    chunks, cases = [], []
    for i in range(240 if ctx.thorough() else 80):
        txt, reals, metas, ents, hidden = alias_case(rng)
        chunks.append(["reset", "file format " + hx(txt), "open rdonly", "dumpmeta"] + ["validate " + e[0] for e in ents])
        allnames = sorted(reals + metas + [e[0] for e in ents], key=strlencmp_key)
        tgt = dict(ents)
        cases.append((allnames, tgt, hidden, txt))
    # a long chain against name order and a long loop (the walk must not recurse without bound)
    n = 3000 if ctx.thorough() else 600
    txt = "/VERSION 10\nr RAW UINT8 1\n" + "".join("/ALIAS a%05d a%05d\n" % (i, i + 1) for i in range(n)) + "/ALIAS a%05d r\n" % n
    chunks.append(["reset", "file format " + hx(txt), "open rdonly", "validate a00000", "validate a%05d" % (n // 2)])
    txt2 = "/VERSION 10\nr RAW UINT8 1\n/ALIAS h l00000\n" + "".join("/ALIAS l%05d l%05d\n" % (i, (i + 1) % n) for i in range(n))
    chunks.append(["reset", "file format " + hx(txt2), "open rdonly", "validate h", "validate r"])
    res = streams.run_chunks(harness, chunks, "c09d")
    ml = []
    for (allnames, tgt, hidden, txt) in cases:
        ml.append("alias " + " ".join("%s:%s" % (hexn(nm), hexn(tgt[nm]) if nm in tgt else "-") for nm in allnames))
    mo, _, _ = streams.run_model(gdmodel, ml)
    kinds = {"resolved": 0, "dangling_or_loop": 0, "hidden": 0}
    for ci, (lines, out, crashed, err) in enumerate(res):
        rep = {"script": lines}
        if crashed:
            ctx.fail("input", "library aborted on an alias table: %s" % err[-300:], dict(rep, stderr=err[-2500:]), sig={"class": "crash", "stream": "alias"})
            continue
        if ci >= len(cases):
            ctx.evaluations += 1
            ctx.distinct.add(("alias-long", ci - len(cases)))
            if "e=0" not in out[2] or ("validate" in lines[3] and ci == len(cases) and " e=0" not in out[3]):
                ctx.fail("input", "long alias chain/loop: %s / %s" % (out[2][:40], out[3][:60]), rep, sig={"class": "alias-long"})
            continue
        allnames, tgt, hidden, txt = cases[ci]
        rep["format"] = txt
        m = re.match(r"alias impl=(\S*) spec=(\S*)", mo[ci])
        impl, spec = m.group(1).split(","), m.group(2).split(",")
        ctx.evaluations += 1
        if impl != spec:
            ctx.fail("correspondence", "alias resolver model and specification disagree on %s" % txt[:200], rep, has_input=False)
        if " e=0" not in out[2]:
            ctx.fail("input", "gd_open failed on an alias table: %s" % out[2][:60], rep, sig={"class": "alias-open"})
            continue
        # library: each alias's gd_entry field name (as=) is its ultimate target, or an error
        lib = {}
        hid = {}
        for it in out[3].split("|"):
            mm = re.match(r'E "([^"]*)" (?:as="([^"]*)"|err=(-?\d+))', it)
            if mm:
                lib[mm.group(1)] = mm.group(2) if mm.group(2) is not None else None
                h = re.search(r" hid=(\d)", it)
                hid[mm.group(1)] = int(h.group(1)) if h else 0
        valid = {l.split()[1]: (" e=0" in a) for l, a in zip(lines[4:], out[4:])}
        index_aliases = set()
        changed = True
        while changed:                      # aliases whose chain ends at INDEX (the implicit field is not a table entry of the model)
            changed = False
            for nm0, t0 in tgt.items():
                if nm0 not in index_aliases and (t0 == "INDEX" or t0.endswith(".INDEX") or t0 in index_aliases):
                    index_aliases.add(nm0)
                    changed = True
        for k, nm in enumerate(allnames):
            if nm not in tgt:
                continue
            want = allnames[int(spec[k])] if spec[k] != "-" else None
            t = tgt[nm]
            if nm in index_aliases:
                want = "INDEX"
            got = lib.get(nm)
            if got is None and valid.get(nm):
                got = "(valid but not listed)"
            if got is not None and not valid.get(nm):
                got = "(listed but does not validate)"
            kinds["resolved" if want else "dangling_or_loop"] += 1
            ctx.distinct.add(("alias", want is None, "/" in nm, t in tgt))
            if got != want:
                ctx.fail("input", "alias %s (-> %s): library resolves it to %r, the Standards' chain ends at %r" % (nm, t, got, want),
                         rep, sig={"class": "alias-target", "dangling": want is None})
                break
        else:
            for nm in allnames:
                if nm in hid and hid[nm] != (1 if nm in hidden else 0):
                    ctx.fail("input", "/HIDDEN: %s hidden=%d, expected %d (hiddenness applies to the name only)" % (nm, hid[nm], int(nm in hidden)), rep, sig={"class": "hidden"})
                    break
            kinds["hidden"] += len(hidden)
    ctx.coverage.update({
        "rule": "A/B: %d random include trees (depth 1-5, one in forty 31 deep in the thorough tier; sub-directories; scoped directives before/between/after includes; "
                "A: /VERSION 6-10 lines with version-gated probe fields under default/pedantic/permissive opens; B: prefixes, suffixes, include namespaces, /NAMESPACE switches, "
                "leading-dot and tagged names), plus include chains 31/32/33 deep; C: trees built with gd_include_affix/gd_include_ns/gd_add_spec, compared in memory and after metaflush+reopen; "
                "D: alias tables in shuffled order (chains, loops, dangling, INDEX, metafield aliases, /HIDDEN) and a long chain and a long loop" % ntrees,
        "tree_stats": stats, "runtime_trees": nrt, "alias_outcomes": kinds,
    })
    if res and res[0][1]:
        ctx.sample({"alias_format": cases[0][3][:300]})
    if not ok and not any(f.kind == "input" for f in ctx.failures):
        names = [o[0] for o in ctx.obligations if not o[1]]
        ctx.fail("obligation", "Lean obligations no longer check: " + "; ".join(names)[:300] + " :: " + lr.errors[-500:],
                 {"theorem": names, "lean_errors": lr.errors[-3000:]}, has_input=False)


def replay(ctx, obj):
    harness = C.build_harness("gdh", ["gdh.c"])
    lines = obj.get("script", [])
    out, rc, err = streams.run_gdh(harness, lines, "replay")
    for l, a in list(zip(lines, out))[-4:]:
        print(l[:100], "\n  library:", a[:600])
    if obj.get("model_tokens"):
        gdmodel = C.build_gdmodel()
        mo, _, _ = streams.run_model(gdmodel, ["scope 0 0 0 0 0 0 " + obj["model_tokens"]])
        print("  model:", mo[0][:600])
    if rc or len(out) < len(lines):
        print("library aborted:", err[-600:])
    return 1
