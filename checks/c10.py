"""C10 — a failed call changes nothing; every argument combination is answered safely."""
import os, sys
from vlib import common as C
from vlib import framework as F
from vlib import streams, gen
sys.path.insert(0, os.path.join(C.VERIF, "extract"))
import x4_rlflow
import x3_sliceguards

ASSUMPTIONS = [
    "recursion-counter balance is proved on the control-flow terms extracted from the clang AST (conditions abstracted to nondeterministic choice: over-approximation, can only alarm falsely); nested calls are either analysed functions or do not touch the counter",
    "'a failed call changes nothing' is judged by snapshots (all metadata observable through the API, recursive directory listing with content hashes) before and after every call that returns an error; mutators have no Lean model here (see C15/C07 for the metadata models)",
    "buffers are allocated exactly as documented so that AddressSanitizer sees any overrun; the harness does not pass NULL or undersized buffers",
]
CHECKER_CMD = "cd /verif/lean && lake build GdModel.Props.C10 && lake env lean <generated #print axioms file>"
MODULES = ["GdModel.Props.C10"]
HUGE = ["9223372036854775807", "9223372036854775800", "18446744073709551615", "4294967296", "-1", "-9223372036854775808"]


def hx(s):
    return s.encode().hex()


def template(rng):
    enc = rng.choice(['none', 'none', 'text', 'sie', 'gzip'])
    fmt = ["/VERSION 10", "/ENDIAN little", "/ENCODING " + enc, "/FRAMEOFFSET %d" % rng.choice([0, 2]),
           "a RAW UINT16 2", "b RAW FLOAT64 1", "c RAW INT8 3",
           "k CONST FLOAT64 2.5", "ki CONST INT32 -7", "ca CARRAY UINT16 1 2 3 4", "s STRING hello", "sa SARRAY x y z",
           "l1 LINCOM 1 a k 1", "l2 LINCOM 2 a 1 0 b 2 1", "ph PHASE a 3", "bt BIT a 2 3", "mu MULTIPLY a b", "rc RECIP b k",
           "po POLYNOM b 1 2 3", "wi WINDOW a c GE 2", "mp MPLEX a c 1 4", "ind INDIR c ca", "lt LINTERP a lut.txt",
           "a/m CONST UINT8 5", "a/ms STRING meta", "a/msa SARRAY p q r", "a/mca CARRAY UINT8 1 2 3", "sind SINDIR c a/msa", "ind2 INDIR c a/mca",
           "/ALIAS al l1", "/ALIAS al2 al", "/HIDDEN rc",
           "/INCLUDE sub/format2 P_ _S"]
    # (the last four: names that look like numbers once the fragment's affixes are stripped, used as scalar parameters)
    sub = ["/VERSION 10", "/ENCODING none", "x RAW INT32 1", "y LINCOM 1 x 2 0", "kk CONST UINT8 1",
           "1e3 CONST UINT8 7", "10 CONST FLOAT64 2.5", "pz PHASE x 1e3<0>", "lz LINCOM 1 x 10<0> 1e3<0>"]
    L = ["reset", "file format " + hx("\n".join(fmt) + "\n"), "file sub/format2 " + hx("\n".join(sub) + "\n"),
         "file lut.txt " + hx("0 0\n1 2\n5 9\n")]
    vals_a = [rng.randint(0, 60000) for _ in range(40)]
    vals_b = [rng.uniform(-100, 100) for _ in range(20)]
    vals_c = [rng.randint(0, 4) for _ in range(60)]
    for name, ty, vals in (("a", "u16", vals_a), ("b", "f64", vals_b), ("c", "i8", vals_c)):
        raw = gen.encode_samples(ty, 'le', vals)
        L.append("file %s%s %s" % (name, gen.ENC_EXT[enc], gen.file_encode(enc, ty, 'le', vals, raw).hex()))
    L.append("file sub/x " + gen.encode_samples('i32', 'le', list(range(10))).hex())
    return enc, L


def op_pool(rng):
    """ops that exercise argument checking; most of them must fail"""
    P = []
    big = lambda: rng.choice(HUGE)
    bigfail = lambda: rng.choice(["9223372036854775807", "9223372036854775800", "-9223372036854775808", "-2"])
    f = lambda: rng.choice(["a", "b", "c", "l1", "l2", "ph", "bt", "mu", "rc", "po", "wi", "mp", "ind", "lt", "al", "al2", "P_x_S", "P_y_S", "INDEX"])
    sc = lambda: rng.choice(["k", "ki", "ca", "s", "sa", "a/m", "a/ms", "P_kk_S"])
    bad = lambda: rng.choice(["nosuch", "a/nosuch", "a.q", "x" * 300, "a#b", "l1/m", ".a", "a.", "/", "a//m"])
    P += ["get %s 0 0 0 5 f64" % bad(), "get %s 0 %s 0 5 f64" % (f(), big()), "get %s %s 0 0 5 f64" % (f(), big()),
          "get %s 0 0 0 5 f64" % sc(), "get %s 0 0 %s 5 f64" % (f(), "4611686018427387904"), "get %s 0 0 0 0 f64" % f(),
          "get %s 0 0 0 3 null" % f(), "get %s 0 -3 0 3 f64" % f(), "get %s -2 0 0 3 f64" % f(),
          "put %s 0 0 f64 3ff0000000000000" % bad(), "put %s 0 %s f64 3ff0000000000000" % (f(), bigfail()),
          "put l2 0 0 f64 3ff0000000000000", "put mu 0 0 f64 3ff0000000000000", "put %s 0 0 f64 3ff0000000000000" % sc(),
          "put wi 0 0 u8 1", "put ind 0 0 u8 1", "put INDEX 0 0 u8 1", "put a 0 -5 u16 1",
          "seek %s 0 %s set" % (f(), rng.choice(["-1", "-5", "-9223372036854775808"])), "seek %s 0 0 set" % bad(), "seek %s 0 0 set" % sc(),
          "seek %s %s 0 set" % (f(), big()), "seek %s 0 %s cur" % (f(), big()), "seek %s 0 %s end" % (f(), big()),
          "tell %s" % bad(), "tell %s" % sc(), "eof %s" % bad(), "eof %s" % sc(), "bof %s" % bad(), "bof %s" % sc(), "eof INDEX",
          "spf %s" % bad(), "spf %s" % sc(), "ntype %s" % bad(),
          "cslice ca 2 18446744073709551615 f64", "cslice ca 5 1 f64", "cslice ca 0 5 f64", "cslice k 1 1 f64", "cslice k 0 2 f64",
          "cslice %s 0 1 f64" % bad(), "cslice a 0 1 f64", "cslice ca 4294967296 1 u8", "cslice ca 4 1 u8", "cslice ca 4 0 u8",
          "putcarray ca 2 u8 1,2,3", "putcarray ca 18446744073709551615 u8 1", "putcarray ca 3 u8 1,2", "putcarray k 1 f64 3ff0000000000000",
          "putcarray k 0 f64 3ff0000000000000,4000000000000000", "putcarray ki 1099511627776 i32 5", "putcarray a 0 u8 1", "putcarray %s 0 u8 1" % bad(),
          "putcarray ca 1 u8 1 18446744073709551615", "putcarray s 0 u8 1",
          "sslice sa 2 18446744073709551615", "sslice sa 4 1", "sslice s 1 1", "sslice %s 0 1" % bad(), "sslice a 0 1",
          "putsarray sa 2 %s,%s" % (hx("p"), hx("q")), "putsarray sa 18446744073709551615 %s" % hx("p"), "putsarray s 1 %s" % hx("p"),
          "putsarray a 0 %s" % hx("p"), "putsarray sa 1 %s 18446744073709551615" % hx("p"),
          "putstring a %s" % hx("zz"), "putstring %s %s" % (bad(), hx("zz")), "putconst a f64 0", "putconst %s f64 0" % bad(), "putconst s f64 0",
          "addspec 0 " + hx("zz RAW"), "addspec 0 " + hx("a RAW UINT8 1"), "addspec 99 " + hx("zz RAW UINT8 1"), "addspec -1 " + hx("zz RAW UINT8 1"),
          "addspec 0 " + hx("zz RAW UINT8 0"), "addspec 0 " + hx("zz BIT a 70 1"), "addspec 0 " + hx("zz BIT a 0 65"), "addspec 0 " + hx("zz LINCOM 4 a 1 0 a 1 0 a 1 0 a 1 0"),
          "addspec 0 " + hx("z/z RAW UINT8 1"), "addspec 0 " + hx("INDEX RAW UINT8 1"), "addspec 0 " + hx("zz RAW UINT99 1"), "addspec 0 " + hx("\"zz RAW UINT8 1"),
          "addspec 0 " + hx("zz POLYNOM a"), "addspec 0 " + hx("/VERSION 3"), "addspec 1 " + hx("x RAW UINT8 1"), "addspec 0 " + hx("zz WINDOW a c XX 2"),
          "maddspec nosuch " + hx("m2 CONST UINT8 1"), "maddspec a " + hx("m CONST UINT8 1"), "maddspec a " + hx("m3 RAW UINT8 1"), "maddspec a/m " + hx("q CONST UINT8 1"),
          "alterspec 0 " + hx("nosuch RAW UINT8 1"), "alterspec 0 " + hx("a LINCOM 1 b 1 0"), "alterspec 0 " + hx("a RAW UINT99 1"), "alterspec 0 " + hx("k CONST"),
          "delete nosuch 0", "delete a 0", "delete b 0", "delete k 0", "delete ca 0", "delete INDEX 0", "delete al meta",
          "rename a b 0", "rename nosuch zz 0", "rename a a/b 0", "rename a %s 0" % ("x" * 5000), "rename a INDEX 0", "rename INDEX zz 0", "rename a/m ms 0", "rename a . 0",
          "move a 99 0", "move a -1 0", "move nosuch 1 0", "move INDEX 1 0", "move a/m 1 0",
          "hide nosuch", "unhide nosuch", "hide a/zz", "alias a b 0", "alias zz nosuch 99", "alias al a 0", "alias a/b a 0", "malias nosuch q a", "malias a m a",
          "include nosuchfile 0 rdwr", "include sub/format2 0 rdwr", "include format 0 rdwr", "include sub/format2 99 rdwr", "include sub/format2 -1 rdwr",
          "include newfrag 0 rdwr px=a/b", "uninclude 0 0", "uninclude 99 0", "uninclude -1 0",
          "affixes 99 x y", "affixes 0 x y", "affixes 1 a/b -", "affixes -1 x y", "namespace 99 ns", "namespace 0 ns", "namespace 1 a/b",
          "encoding 99999 0 0", "encoding none 99 0", "encoding none -3 0", "endianness big 99 0", "endianness big -2 0", "frameoffset 5 99 0", "frameoffset -5 0 0", "frameoffset 5 -2 0",
          "protect 99 0", "protect 1 99", "protect -1 0", "protect 1 -2",
          "framenum nosuch 3ff0000000000000 0 0", "framenum k 3ff0000000000000 0 0", "framenum a 3ff0000000000000 5 5", "framenum a 3ff0000000000000 10 2",
          "framenum a 3ff0000000000000 %s 0" % big(), "framenum a 3ff0000000000000 0 %s" % big(), "framenum INDEX 3ff0000000000000 0 100", "framenum b 7ff8000000000000 0 0",
          "standards 99", "standards -5", "rewrite 99", "rewrite -1", "reference nosuch", "reference k", "reference l1",
          "altertable a x -", "altertable nosuch x -", "alterraw nosuch u8 1 0", "alterraw l1 u8 1 0", "alterraw a null 0 0",
          "openlimit -7", "openlimit 1", "validate nosuch", "validate a", "flush nosuch", "sync nosuch", "rawclose nosuch", "flush k",
          ]
    return P


def taints(lines, out, upto):
    """successful calls earlier in the script that are known to corrupt the handle (separate known findings):
    moving a metafield to another fragment (5.33), deleting an alias that another alias targets (5.15)"""
    t = []
    for i in range(min(upto, len(out))):
        w = lines[i].split()
        a = out[i]
        if w[0] == "move" and "/" in w[1] and " e=0" in a:
            t.append("meta-move")
        if w[0] == "delete" and w[1] == "al" and " e=0" in a:
            t.append("alias-of-alias-delete")
    return t


VALID = ["get a 0 0 0 10 f64", "get l2 1 0 2 0 f64", "get mp 0 2 0 20 f64", "eof a", "bof ph", "nframes", "tell a", "get ind 0 0 0 9 f64",
         "cslice ca 1 2 f64", "get lt 0 0 0 6 f64", "get P_y_S 0 0 0 5 f64", "lists"]


def run(ctx):
    ok, lr, infos = F.lean_obligations(
        ctx, MODULES, [lambda: x4_rlflow.emit(C.REPO, os.path.join(C.LEAN, "GdModel", "Generated")),
                       lambda: x3_sliceguards.main(C.REPO)])
    try:
        harness = C.build_harness("gdh", ["gdh.c"])
    except RuntimeError as e:
        raise F.C_BuildError(str(e))
    rng = ctx.rng
    nscripts = 120 if ctx.thorough() else 24
    chunks = []
    for i in range(nscripts):
        enc, L = template(rng)
        missing = (i % 3 == 2)
        if missing:
            # one data file is absent: every call that needs the size or the data of b (or of a field derived from it) fails with GD_E_IO
            L = [l for l in L if not l.startswith("file b")]
        L.append("open " + ("rdwr" if i % 4 else "rdonly"))
        pool = op_pool(rng)
        if missing:
            pool += ["eof b", "eof rc", "eof mu", "bof b", "seek l2 0 0 end", "seek b 0 2 set", "get b 0 0 0 3 f64", "get po 0 0 0 3 f64", "nframes", "tell b", "framenum b 3 0 0"] * 2
        rng.shuffle(pool)
        nops = len(pool) if ctx.thorough() else 90
        L.append("snap")
        for j, op in enumerate(pool[:nops]):
            rep = 40 if (j % 29 == 0) else 1      # arbitrarily many repetitions of a failing call
            for _ in range(rep):
                L.append(op)
            L.append("snap")
            if j % 7 == 0:
                L.append(rng.choice(VALID))
                L.append("snap")
        L.append("lists")
        L.append("close" if rng.random() < 0.5 else "discard")
        chunks.append((enc, L))
    res = streams.run_chunks(harness, [c[1] for c in chunks], "c10")
    errs_seen = {}
    n_fail = n_ok = 0
    for ci, (lines, out, crashed, err) in enumerate(res):
        enc = chunks[ci][0]
        if crashed and out and out[-1].strip() == "HANG" and enc != "none":
            w = lines[len(out) - 1].split()
            if w[0] == "put" and w[3].isdigit() and int(w[3]) >= 2 ** 40:
                # a write at a sample number near 2^63 of a field whose encoding has no holes (text, sie, gzip, bzip2, lzma) asks the
                # library to materialise 2^63 samples of padding: the harness watchdog stops it.  Not one of the outcomes C10 rules out.
                ctx.coverage["unbounded_padding_writes_cut_short"] = ctx.coverage.get("unbounded_padding_writes_cut_short", 0) + 1
                crashed = False
                lines, out = lines[:len(out) - 1], out[:-1]
        if crashed:
            bad = lines[min(len(out), len(lines) - 1)]
            tn = taints(lines, out, len(out))
            ctx.fail("input", "library aborted (ASan/UBSan/abort) at op '%s' [%s]%s: %s" % (bad, enc, " after " + tn[0] if tn else "", err[-400:]),
                     {"script": lines[:len(out) + 1], "stderr": err[-3000:]},
                     sig={"class": ("tainted:" + tn[0]) if tn else "crash", "op": bad.split()[0]})
        last_snap = None
        last_snap_i = None
        mutated = False      # some call succeeded in changing the database: list consistency is then C15's business
        pending_err = []     # ops since the last snapshot that returned an error
        pending_ok = False   # some op since the last snapshot succeeded (snapshot may legitimately change)
        for i, l in enumerate(lines):
            if i >= len(out):
                break
            t = l.split()
            a, rl = streams.strip_rl(out[i])
            if t[0] in ("reset", "file", "open"):
                continue
            if rl not in (None, 0):
                ctx.fail("input", "recursion counter is %d after '%s' [%s]" % (rl, l, enc), {"script": lines[:i + 1]},
                         sig={"class": "recurse_level"})
            if t[0] == "snap":
                if last_snap is not None and pending_err and not pending_ok and a != last_snap:
                    ctx.fail("input", "after the failing call(s) %s [%s] the snapshot changed: %s -> %s" % (
                        pending_err[:2], enc, last_snap, a), {"script": lines[:i + 1], "expected": last_snap, "observed": a},
                        sig={"class": "changed", "op": pending_err[0].split()[0]})
                if last_snap is not None and a != last_snap:
                    mutated = True
                last_snap, last_snap_i = a, i
                pending_err, pending_ok = [], False
                continue
            ctx.evaluations += 1
            e = None
            if " e=" in a:
                try:
                    e = int(a.split(" e=")[1].split()[0])
                except ValueError:
                    e = None
            if a.startswith("lists BAD") and not mutated:
                ctx.fail("input", "list functions inconsistent after '%s' [%s]: %s" % (lines[i - 1], enc, a), {"script": lines[:i + 1]},
                         sig={"class": "lists"})
            if e is not None and e != 0:
                n_fail += 1
                pending_err.append(l)
                errs_seen[e] = errs_seen.get(e, 0) + 1
                ctx.distinct.add((t[0], e))
                if e == -6:
                    ctx.fail("input", "'%s' [%s] answered GD_E_INTERNAL_ERROR: %s" % (l, enc, a), {"script": lines[:i + 1]},
                             sig={"class": "internal", "op": t[0]})
            else:
                n_ok += 1
                pending_ok = True
                ctx.distinct.add((t[0], 0))
            # documented refusals
            if t[0] in ("cslice", "putcarray", "sslice", "putsarray") and e == 0:
                # an out-of-range slice must be refused with GD_E_BOUNDS
                try:
                    start = int(t[2]) if t[0] != "putcarray" or t[2] != "all" else 0
                    if t[0] == "cslice" or t[0] == "sslice":
                        n = int(t[3])
                    elif t[0] == "putcarray":
                        n = int(t[5]) if len(t) > 5 else len(t[4].split(","))
                    else:
                        n = int(t[4]) if len(t) > 4 else len(t[3].split(","))
                    length = {"ca": 4, "k": 1, "ki": 1, "sa": 3, "s": 1}.get(t[1])
                    if length is not None and start + n > length:
                        ctx.fail("input", "'%s' [%s] addresses elements beyond the %d-element field but was accepted: %s" % (l, enc, length, a),
                                 {"script": lines[:i + 1]}, sig={"class": "bounds", "op": t[0]})
                except ValueError:
                    pass
    ctx.coverage.update({
        "rule": "a fixed-shape dirfile (3 RAW fields in a seeded encoding, 14 derived fields, CONST/CARRAY/STRING/SARRAY, metafields, aliases, a sub-fragment with affixes) opened rdwr (3 of 4) or rdonly; "
                "~230 argument tuples per script drawn from invalid codes, wrong field kinds, offsets near 2^63, counts near SIZE_MAX, wrapping start+n, negative seeks, fragment -1/99, numbits 0/65 ...; every 29th tuple repeated 40x, "
                "valid calls interleaved; snapshot (all metadata + directory hashes) before and after; distinct = (operation, error code)",
        "scripts": nscripts, "calls_failed": n_fail, "calls_succeeded": n_ok, "error_codes_seen": {str(k): v for k, v in sorted(errs_seen.items())},
        "flow_functions": infos[0].get("functions") if infos else None,
    })
    if res:
        lines, out, _, _ = res[0]
        k = 0
        for i, l in enumerate(lines):
            if l.split()[0] not in ("reset", "file", "open", "snap") and i < len(out) and k < 5 and i % 37 == 0:
                ctx.sample({"op": l[:120], "library": out[i][:120]})
                k += 1
    if not ok and not any(f.kind == "input" and f.sig.get("class") == "recurse_level" for f in ctx.failures):
        names = [o[0] for o in ctx.obligations if not o[1]]
        # search: a leak shows as rl != 0 after some failing call; none seen in this run
        ctx.fail("obligation", "Lean obligations no longer check: " + "; ".join(names)[:300] + " :: " + lr.errors[-500:],
                 {"theorem": names, "lean_errors": lr.errors[-3000:],
                  "searched": "%d failing calls, recursion counter 0 after each" % n_fail}, has_input=False)


def replay(ctx, obj):
    harness = C.build_harness("gdh", ["gdh.c"])
    lines = obj.get("script", [])
    out, rc, err = streams.run_gdh(harness, lines, "replay")
    for l, a in list(zip(lines, out))[-6:]:
        if not l.startswith("file"):
            print(l[:100], "->", a[:200])
    if rc:
        print(err[-1500:])
        return 1
    exp = obj.get("expected")
    if exp and out and streams.strip_rl(out[-1])[0] != exp:
        return 1
    return 0
