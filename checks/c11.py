"""C11 — read-only handles and /PROTECT levels are never bypassed."""
import os, re, sys
from vlib import common as C
from vlib import framework as F
from vlib import streams, gen
from checks.c10 import hx
from checks import c07
sys.path.insert(0, os.path.join(C.VERIF, "extract"))
import x5_guards

ASSUMPTIONS = [
    "the guard table (which public mutator tests the access mode / format protection / data protection) is regenerated from /repo/src on every run by extract/x5_guards.py (function bodies by text, call graph to depth 5; presence of a test, not its position) and Props/C11.all_guarded is re-proved on it",
    "the rule itself (GdModel.Guard.Model) is proved to freeze protected fragments over any call sequence; whether the library follows it is judged on the real library: after every call the complete metadata dump and a recursive listing with content hashes are compared with those before the call",
    "RAW file names are derived from the field name by stripping the fragment's prefix and suffix (Standards) and adding the encoding's extension",
]
CHECKER_CMD = "cd /verif/lean && python3 ../extract/x5_guards.py && lake build GdModel.Props.C11 && lake env lean <generated #print axioms file>"
MODULES = ["GdModel.Props.C11"]
PROT = ["none", "format", "data", "all"]
MUTATORS = ("addspec", "maddspec", "alterspec", "malterspec", "delete", "rename", "move", "hide", "unhide", "alias", "malias", "include", "uninclude",
            "affixes", "namespace", "encoding", "endianness", "frameoffset", "protect", "putcarray", "putstring", "putsarray", "putconst", "put",
            "alterraw", "reference", "altertable", "metaflush", "rewrite", "flush")


def template(rng, p0, p1):
    enc = rng.choice(['none', 'none', 'text', 'sie', 'gzip'])
    fmt = ["/VERSION 10", "/ENDIAN little", "/ENCODING " + enc, "/PROTECT " + p0,
           "a RAW UINT16 2", "b RAW FLOAT64 1", "k CONST FLOAT64 2.5", "ca CARRAY UINT16 1 2 3 4", "s STRING hello", "sa SARRAY x y z",
           "l1 LINCOM 1 a k 1", "ph PHASE a 3", "bt BIT a 2 3", "lt LINTERP a lut.txt", "a/m CONST UINT8 5", "/ALIAS al l1", "/HIDDEN ph",
           "px PHASE P_x_S 1", "lx LINCOM 1 P_x_S 2 0", "/INCLUDE sub/format2 P_ _S"]
    sub = ["/VERSION 10", "/ENCODING none", "/PROTECT " + p1, "x RAW INT32 1", "y LINCOM 1 x 2 0", "kk CONST UINT8 1", "sx STRING sub", "z RAW UINT8 1"]
    L = ["reset", "file format " + hx("\n".join(fmt) + "\n"), "file sub/format2 " + hx("\n".join(sub) + "\n"), "file lut.txt " + hx("0 0\n1 2\n5 9\n")]
    for name, ty, vals in (("a", "u16", [rng.randint(0, 60000) for _ in range(40)]), ("b", "f64", [float(i) for i in range(20)])):
        raw = gen.encode_samples(ty, 'le', vals)
        L.append("file %s%s %s" % (name, gen.ENC_EXT[enc], gen.file_encode(enc, ty, 'le', vals, raw).hex()))
    L.append("file sub/x " + gen.encode_samples('i32', 'le', list(range(10))).hex())
    L.append("file sub/z " + bytes(range(10)).hex())
    return enc, L


def call(rng, st):
    k = rng.randint(0, 23)
    st["n"] += 1
    nm = "n%d" % st["n"]
    vec0 = rng.choice(["a", "b", "l1", "ph", "bt", "px", "lx"])
    vec1 = rng.choice(["P_x_S", "P_y_S", "P_z_S"])
    anyf = rng.choice(["a", "b", "k", "ca", "s", "l1", "ph", "al", "a/m", "px", "lx", "P_x_S", "P_y_S", "P_kk_S", "P_sx_S", "P_z_S"])
    if k == 0:
        return "put %s 0 %d u16 %s" % (rng.choice([vec0, vec1, "al"]), rng.randint(0, 50), ",".join("%x" % rng.randint(0, 9) for _ in range(rng.randint(1, 4))))
    if k == 1:
        return "addspec %d %s" % (rng.choice([0, 1]), hx("%s %s" % (nm, rng.choice(["RAW UINT8 1", "CONST UINT8 3", "PHASE a 1", "STRING q", "LINCOM 1 b 1 0"]))))
    if k == 2:
        return "maddspec %s %s" % (rng.choice(["a", "b", "P_x_S", "P_y_S"]), hx("%s CONST UINT8 1" % nm))
    if k == 3:
        return "delete %s %d" % (anyf, rng.choice([0, 2, 8, 10, 9, 11]))
    if k == 4:
        new = nm if not anyf.startswith("P_") else "P_%s_S" % nm
        return "rename %s %s %d" % (anyf, new, rng.choice([0, 1, 2, 3]))
    if k == 5:
        return "move %s %d %d" % (anyf, rng.choice([0, 1]), rng.choice([0, 1]))
    if k == 6:
        return "%s %s" % (rng.choice(["hide", "unhide"]), anyf)
    if k == 7:
        return "alias %s %s %d" % (nm, anyf, rng.choice([0, 1]))
    if k == 8:
        return "malias %s %s %s" % (rng.choice(["a", "P_x_S"]), nm, rng.choice(["k", "P_kk_S"]))
    if k == 9:
        return "include %s.format %d creat %s" % (nm, rng.choice([0, 1]), rng.choice(["", "px=I_"]))
    if k == 10:
        return "uninclude 1 %d" % rng.choice([0, 1])
    if k == 11:
        return "affixes 1 %s %s" % (rng.choice(["-", "Q_", "P_"]), rng.choice(["-", "_T", "_S"]))
    if k == 12:
        return "namespace 1 %s" % rng.choice(["-", "nsA"])
    if k == 13:
        return "encoding %s %d %d" % (rng.choice(["none", "text", "sie", "gzip"]), rng.choice([0, 1]), rng.choice([0, 1]))
    if k == 14:
        return "endianness %s %d %d" % (rng.choice(["0x4", "0x8"]), rng.choice([0, 1]), rng.choice([0, 1]))
    if k == 15:
        return "frameoffset %d %d %d" % (rng.choice([0, 1, 3]), rng.choice([0, 1]), rng.choice([0, 1]))
    if k == 16:
        return "alterraw %s %s %d %d" % (rng.choice(["a", "b", "P_x_S", "P_z_S"]), rng.choice(["u8", "f32", "i64", "u16"]), rng.choice([1, 2, 3]), rng.choice([0, 1]))
    if k == 17:
        return "putconst %s f64 %s" % (rng.choice(["k", "P_kk_S", "a/m"]), "4008000000000000")
    if k == 18:
        return "putstring %s %s" % (rng.choice(["s", "P_sx_S"]), b"new".hex())
    if k == 19:
        return "putcarray ca 1 u16 7,8"
    if k == 20:
        return "alterspec %d %s" % (rng.choice([0, 1]), hx(rng.choice(["l1 LINCOM 1 a 3 3", "y LINCOM 1 x 4 4", "k CONST FLOAT64 9", "kk CONST UINT8 2", "ph PHASE b 1"])))
    if k == 21:
        return "reference %s" % rng.choice(["a", "b", "P_x_S", "P_z_S"])
    if k == 22:
        return rng.choice(["metaflush", "flush", "rewrite -1", "sync"])
    return "protect %d %d" % (rng.randint(0, 3), rng.choice([0, 1]))


def call_data(rng, st, protfrag):
    """calls whose effect would land on the data files of the data-protected fragment"""
    st["n"] += 1
    raws = ["a", "b"] if protfrag == 0 else ["P_x_S", "P_z_S"]
    r = rng.choice(raws)
    k = rng.randint(0, 8)
    if k == 0:
        return "move %s %d 1" % (r, 1 - protfrag)
    if k == 1:
        return "rename %s %s 1" % (r, ("n%d" % st["n"]) if protfrag == 0 else "P_n%d_S" % st["n"])
    if k == 2:
        return "delete %s %d" % (r, rng.choice([2, 10, 11]))
    if k == 3:
        return "alterraw %s %s %d 1" % (r, rng.choice(["u8", "f32", "i64"]), rng.choice([1, 2, 3]))
    if k == 4:
        return "encoding %s %d 1" % (rng.choice(["text", "sie", "gzip", "none"]), protfrag)
    if k == 5:
        return "endianness %s %d 1" % (rng.choice(["0x4", "0x8"]), protfrag)
    if k == 6:
        return "frameoffset %d %d 1" % (rng.choice([1, 3]), protfrag)
    if k == 7:
        deriv = rng.choice(["l1", "ph", "al", "a"]) if protfrag == 0 else rng.choice(["px", "lx", "P_y_S", "P_x_S"])
        return "put %s 0 %d u16 1,2,3" % (deriv, rng.randint(0, 60))
    # a move INTO the protected fragment, with data
    other = rng.choice(["P_x_S", "P_z_S"] if protfrag == 0 else ["a", "b"])
    return "move %s %d 1" % (other, protfrag)


FRAGRE = re.compile(r'^F name="([^"]*)" enc=(\d+).* prot=(\d+) par=(\S+) px=(\S+) sx=(\S+) ns=')
ENCEXT = {"16777216": "", "33554432": ".txt", "100663296": ".gz", "117440512": ".bz2", "150994944": ".sie", "83886080": ".slm", "184549376": ".xz"}


def parse_dump(d):
    """-> fragments {name: dict(prot, px, sx, enc, item)}, entries {ename: (fragname, type, item)}"""
    items = c07.canon(d).split("|")
    frs, ents = {}, {}
    for it in items:
        m = FRAGRE.match(it)
        if m:
            unq = lambda x: "" if x == "(null)" else x.strip('"')
            frs[m.group(1)] = {"prot": int(m.group(3)), "px": unq(m.group(5)), "sx": unq(m.group(6)), "enc": m.group(2), "item": it}
        elif it.startswith("E "):
            mm = re.match(r'^E "([^"]*)" as="[^"]*" t=([0-9a-f]+) f=(\S+) ', it)
            if mm:
                af = re.search(r' afrag=(\S+) ', it)
                # an alias belongs to the fragment it is defined in, not to its target's
                ents[mm.group(1)] = (af.group(1) if af else mm.group(3), "alias" if af else mm.group(2), it)
    return frs, ents


def parse_lsr(l):
    files = {}
    for m in re.finditer(r'\[f (\S+) (\d+) ([0-9a-f]+)\]', l):
        files[m.group(1)] = (m.group(2), m.group(3))
    return files


def raw_path(frname, fr, ename):
    d = os.path.dirname(frname)
    base = ename
    if fr["px"] and base.startswith(fr["px"]):
        base = base[len(fr["px"]):]
    if fr["sx"] and base.endswith(fr["sx"]):
        base = base[:len(base) - len(fr["sx"])]
    return (d if d != "/" else "") + "/" + base


def run(ctx):
    x = x5_guards.main(os.path.join(C.VERIF, "lean", "GdModel", "Generated", "Guards.lean"))
    ctx.oblige("X5 guard table extracted (%d functions parsed, %d mutators)" % (x["functions_parsed"], x["mutators"]), not x["missing"], str(x["missing"]))
    ok, lr, infos = F.lean_obligations(ctx, MODULES, [])
    try:
        harness = C.build_harness("gdh", ["gdh.c"])
    except RuntimeError as e:
        raise F.C_BuildError(str(e))
    rng = ctx.rng
    chunks, metas = [], []
    nseq = 500 if ctx.thorough() else 130
    for i in range(nseq):
        p0, p1 = rng.choice(PROT), rng.choice(PROT)
        mode = "rdonly" if rng.random() < 0.25 else "rdwr"
        scenario = rng.random() < 0.3
        if scenario:
            # exactly-data protection of one fragment, the other unprotected: the case where only
            # the data check stands between a call and the files
            mode = "rdwr"
            p0, p1 = rng.choice([("data", "none"), ("none", "data")])
        raised = (not scenario) and rng.random() < 0.2
        if raised:
            mode, p0, p1 = "rdwr", "none", "none"
        enc, L = template(rng, p0, p1)
        L += ["open " + mode, "dumpmeta", "lsr"]
        st = {"n": 0}
        if raised:
            # the protection level is raised on a live handle: data files that calls made while the fragment was still
            # unprotected left open (for writing) must be just as untouchable afterwards as any other
            pf = rng.choice([0, 1])
            for _ in range(rng.randint(1, 3)):
                deriv = rng.choice(["l1", "ph", "al", "a", "b"]) if pf == 0 else rng.choice(["px", "lx", "P_y_S", "P_x_S", "P_z_S"])
                L += [rng.choice(["put %s 0 %d u16 1,2,3" % (deriv, rng.randint(0, 60)), "get %s 0 0 0 5 f64" % deriv]), "dumpmeta", "lsr"]
            L += ["protect %d %d" % (rng.choice([2, 3]), pf), "dumpmeta", "lsr"]
            for _ in range(rng.randint(2, 6)):
                L += [call_data(rng, st, pf) if rng.random() < 0.8 else call(rng, st), "dumpmeta", "lsr"]
        for _ in range(0 if raised else rng.randint(2, 10)):
            L += [call_data(rng, st, 0 if p0 == "data" else 1) if scenario and rng.random() < 0.8 else call(rng, st), "dumpmeta", "lsr"]
        L += ["close"]
        chunks.append(L)
        metas.append((mode, p0, p1))
    res = streams.run_chunks(harness, chunks, "c11")
    stat = {}
    for ci, (lines, out, crashed, err) in enumerate(res):
        mode, p0, p1 = metas[ci]
        if crashed:
            bad = lines[min(len(out), len(lines) - 1)]
            prev = [l for l in lines[:len(out)] if l.split()[0] in MUTATORS][-1:]
            ctx.fail("input", "library aborted at '%s' (after '%s') [%s, /PROTECT %s / %s]: %s" % (bad, prev[0] if prev else "", mode, p0, p1, err[-300:]),
                     {"script": lines[:len(out) + 1], "stderr": err[-2500:]}, sig={"class": "crash", "op": (prev[0] if prev else bad).split()[0]})
        i = 0
        base = None
        while i + 2 < len(lines) and i + 2 < len(out):
            if lines[i + 1] == "dumpmeta" and lines[i + 2] == "lsr":
                cur = (streams.strip_rl(out[i + 1])[0], out[i + 2])
                if lines[i].startswith("open"):
                    base = cur
                    i += 3
                    continue
                op, ans = lines[i], streams.strip_rl(out[i])[0]
                before = base
                base = cur
                t = op.split()[0]
                ctx.evaluations += 1
                okc = " e=0" in ans or ans.endswith(" 0")
                key = "%s %s" % (t, "ok" if okc else "e=" + ans.split("e=")[-1].split()[0])
                stat[key] = stat.get(key, 0) + 1
                ctx.distinct.add((mode, t, okc))
                if mode == "rdonly":
                    # (a call that has nothing to do - moving a field to the fragment it is in - may answer 0;
                    #  what matters is that nothing changes and that a refusal is GD_E_ACCMODE)
                    if t in MUTATORS and t not in ("flush", "metaflush", "rewrite", "sync") and not okc and " e=-13" not in ans and " e=-3 " not in ans + " " \
                            and " e=-19" not in ans and " e=-24" not in ans:
                        ctx.fail("input", "read-only handle: '%s' is refused with '%s', not GD_E_ACCMODE" % (op, ans[:60]), {"script": lines[:i + 1]},
                                 sig={"class": "rdonly-wrong-error", "op": t})
                    if c07.canon(cur[0]) != c07.canon(before[0]) or cur[1] != before[1]:
                        what = "metadata" if c07.canon(cur[0]) != c07.canon(before[0]) else "files"
                        ctx.fail("input", "read-only handle: '%s' changed the %s: %s" % (op, what, c07.first_diff(c07.canon(before[0]), c07.canon(cur[0]))[:300] if what == "metadata" else cur[1][:200]),
                                 {"script": lines[:i + 1]}, sig={"class": "rdonly-changed", "op": t})
                        break
                else:
                    frs0, ents0 = parse_dump(before[0])
                    frs1, ents1 = parse_dump(cur[0])
                    f0, f1 = parse_lsr(before[1]), parse_lsr(cur[1])
                    viol = None
                    for fn, fr in frs0.items():
                        if t == "protect":
                            continue
                        if fn not in frs1 and t == "uninclude":
                            continue        # the fragment left the dirfile: gd_uninclude(3) looks at the including fragment only
                        if fr["prot"] & 1:           # GD_PROTECT_FORMAT
                            e0 = sorted(it for (f, ty, it) in ents0.values() if f == fn)
                            e1 = sorted(it for (f, ty, it) in ents1.values() if f == fn)
                            if fn not in frs1 or frs1[fn]["item"] != fr["item"] or e0 != e1:
                                d = [x for x in e0 if x not in e1][:1] + [x for x in e1 if x not in e0][:1]
                                viol = "metadata of the format-protected fragment %s changed: %s" % (fn, (d or [fr["item"], frs1.get(fn, {}).get("item")])[:2])
                        if fr["prot"] & 2 and not viol:        # GD_PROTECT_DATA
                            for en, (f, ty, it) in ents0.items():
                                if f == fn and ty == "1":
                                    path = raw_path(fn, fr, en) + ENCEXT.get(fr["enc"], "")
                                    if f0.get(path) != f1.get(path):
                                        viol = "data file %s of RAW field %s in the data-protected fragment %s: %s -> %s" % (path, en, fn, f0.get(path), f1.get(path))
                            if fn in frs1 and not viol:
                                for en, (f, ty, it) in ents1.items():
                                    if f == fn and ty == "1":
                                        path = raw_path(fn, frs1[fn], en) + ENCEXT.get(frs1[fn]["enc"], "")
                                        if path in f1 and path not in f0:
                                            viol = "data file %s was created for RAW field %s in the data-protected fragment %s" % (path, en, fn)
                    if viol:
                        ctx.fail("input", "'%s' -> '%s' [/PROTECT %s / %s]: %s" % (op, ans[:40], p0, p1, viol[:400]), {"script": lines[:i + 3]},
                                 sig={"class": "protection-bypassed", "op": t})
                        break
                i += 3
            else:
                i += 1
    ctx.coverage.update({
        "rule": "130/500 dirfiles: root fragment and an included fragment (affixes P_ _S, sub-directory) each with a random /PROTECT level, opened read-only (25%) or read-write; "
                "2-10 calls from 24 kinds of mutator (data writes through RAW, derived fields and aliases in both fragments, add/madd, delete with data, rename and move with data, "
                "hide, aliases, include/uninclude, affixes, namespace, recoding calls, alter_raw, scalar writes, alter_spec, reference, flushes, protection changes); "
                "after each call the metadata dump and the content-hashed directory listing are compared per fragment with those before",
        "dirfiles": nseq, "calls": stat, "guard_table": {"mutators": x["mutators"], "lacking": x["lacking"]},
    })
    if res and res[0][1]:
        ctx.sample({"mode": metas[0], "ops": [l[:60] for l in res[0][0] if l.split()[0] in MUTATORS][:6]})
    if not ok and not any(f.kind == "input" for f in ctx.failures):
        names = [o[0] for o in ctx.obligations if not o[1]]
        ctx.fail("obligation", "Lean obligations no longer check (guards lacking: %s): " % x["lacking"] + "; ".join(names)[:300] + " :: " + lr.errors[-400:],
                 {"theorem": names, "lean_errors": lr.errors[-3000:], "lacking": x["lacking"]}, has_input=False)


def replay(ctx, obj):
    harness = C.build_harness("gdh", ["gdh.c"])
    lines = obj.get("script", [])
    out, rc, err = streams.run_gdh(harness, lines, "replay")
    for l, a in list(zip(lines, out))[-6:]:
        print(l[:100], "\n  library:", a[:300])
    return 1
