"""C12 — a format fragment on disk is always entirely old or entirely new."""
import re
from vlib import common as C
from vlib import framework as F
from vlib import streams, gen
from checks.c10 import hx
from checks import c07

ASSUMPTIONS = [
    "the replacement protocol (create temporary, write, fchmod, fclose, rename; unlink on failure) is modelled in GdModel.Replace.Model and proved crash-safe at every call boundary (Props/C12); the tie is the call trace of the real library, recorded by interposing the calls it makes (stdio output calls, fchmod, fclose, fflush, fsync, rename(at), unlink(at), write, ftruncate) and checked against the protocol's shape",
    "a kill is emulated by copying the directory tree immediately before each interposed call; a failure by making that one call return an error (ENOSPC / EIO) once. Writes that stdio performs inside libc are not separate crash points: the points are the library's own call boundaries",
    "old / new versions are compared by the content of each fragment file and by the metadata a fresh gd_open of the snapshot reports",
]
CHECKER_CMD = "cd /verif/lean && lake build GdModel.Props.C12 && lake env lean <generated #print axioms file>"
MODULES = ["GdModel.Props.C12"]
TRACE = re.compile(r'^((fprintf|fputs|fputc|fwrite|fflush)(,(fprintf|fputs|fputc|fwrite|fflush))*,fchmod,fclose,renameat)(,((fprintf|fputs|fputc|fwrite|fflush)(,(fprintf|fputs|fputc|fwrite|fflush))*,fchmod,fclose,renameat))*$')
TEMP = re.compile(r'format_[A-Za-z0-9]{6}|inc\w*_[A-Za-z0-9]{6}|_[A-Za-z0-9]{6}\b')


def scenario(rng):
    fmt = ["/VERSION 10", "/ENDIAN little", "a RAW UINT16 2", "k CONST FLOAT64 2.5", "l1 LINCOM 1 a k 1", "s STRING hello",
           "/INCLUDE sub/format2 P_ _S", "/INCLUDE inc3.format"]
    sub = ["/VERSION 10", "x RAW INT32 1", "y LINCOM 1 x 2 0", "kk CONST UINT8 1"]
    inc3 = ["/VERSION 10", "w CONST UINT8 9"]
    L = ["reset", "file format " + hx("\n".join(fmt) + "\n"), "file sub/format2 " + hx("\n".join(sub) + "\n"), "file inc3.format " + hx("\n".join(inc3) + "\n"),
         "file a " + bytes(range(16)).hex(), "file sub/x " + bytes(range(16)).hex(), "open rdwr", "dumpmeta", "lsr"]
    muts = []
    frs = rng.sample([0, 1, 2], rng.randint(1, 3))
    n = 0
    for f in frs:
        for _ in range(rng.randint(1, 3)):
            n += 1
            muts.append("addspec %d %s" % (f, hx("n%d %s" % (n, rng.choice(["CONST FLOAT64 %r" % rng.uniform(-9, 9), "STRING v%d" % n, "PHASE INDEX %d" % n,
                                                                             "CARRAY UINT8 1 2 3", "LINCOM 1 INDEX 2 %d" % n])))))
    if rng.random() < 0.3:
        muts.append("putstring s " + b"changed".hex())
    how = rng.choice(["metaflush", "metaflush", "rewrite -1", "flush", "close"])
    return L + muts + ["dumpmeta"], how


def fmtfiles(lsr):
    return {m.group(1): (m.group(2), m.group(3)) for m in re.finditer(r'\[f (\S*format\S*) (\d+) ([0-9a-f]+)\]', lsr)}


def run(ctx):
    ok, lr, infos = F.lean_obligations(ctx, MODULES, [])
    try:
        harness = C.build_harness("gdh", ["gdh.c"])
    except RuntimeError as e:
        raise F.C_BuildError(str(e))
    rng = ctx.rng
    nsc = 40 if ctx.thorough() else 10
    scen = [scenario(rng) for _ in range(nsc)]
    # ---- phase 1: count the calls, snapshot before each -----------------------
    chunks = []
    for (L, how) in scen:
        chunks.append(L + ["fault arm", "fault snap all", how, "fault log", "fault off"] + (["open rdonly"] if how == "close" else []) + ["lsr", "dumpmeta"])
    res = streams.run_chunks(harness, chunks, "c12a")
    plans = []
    nsnap = 0
    for si, (lines, out, crashed, err) in enumerate(res):
        L, how = scen[si]
        if crashed or len(out) < len(lines):
            ctx.fail("input", "library aborted during %s: %s" % (how, err[-300:]), {"script": lines[:len(out) + 1], "stderr": err[-2000:]}, sig={"class": "crash"})
            plans.append(None)
            continue
        base = len(L)
        cn = lambda d: c07.canon(d).replace("enc=251658240", "enc=16777216")   # GD_AUTO_ENCODED with no data files is written as none
        old_dump = cn(streams.strip_rl(out[7])[0])
        old_files = fmtfiles(out[8])
        new_dump = cn(streams.strip_rl(out[base - 1])[0])
        flush_ans = out[base + 2]
        log = out[base + 3]
        m = re.match(r'faultlog n=(\d+) fired=\d+ snaps=(\d+) (.*)$', log)
        n = int(m.group(1)) if m else 0
        trace = m.group(3) if m else ""
        new_files = fmtfiles(out[-2])
        final_dump = cn(streams.strip_rl(out[-1])[0])
        ctx.evaluations += 1
        ctx.distinct.add(("count", how, n // 20))
        if " e=0" not in flush_ans and flush_ans != "close 0":
            ctx.fail("input", "%s without faults fails: %s" % (how, flush_ans), {"script": lines}, sig={"class": "flush-fails"})
        if final_dump != new_dump:
            ctx.fail("input", "metadata after %s differ from those before: %s" % (how, c07.first_diff(new_dump, final_dump)[:300]), {"script": lines}, sig={"class": "lost"})
        if n and not TRACE.match(trace) and how in ("metaflush", "rewrite -1"):
            ctx.fail("input", "call trace of %s does not follow the temporary-file protocol: %s" % (how, trace[:400]), {"script": lines, "trace": trace},
                     sig={"class": "trace"})
        plans.append((n, old_dump, old_files, new_dump, new_files, trace))
    # ---- phase 2: inspect every snapshot; phase 3: fail each call ------------
    chunks2, meta2 = [], []
    for si, (L, how) in enumerate(scen):
        if not plans[si]:
            continue
        n = plans[si][0]
        ks = list(range(1, n + 1))
        probe = ks if ctx.thorough() or n <= 40 else sorted(set(rng.sample(ks, 30) + ks[-6:] + ks[:3]))
        S = L + ["fault arm", "fault snap all", how, "fault off"]
        for k in probe:
            S += ["snaplsr %d" % k, "snapmeta %d" % k]
        chunks2.append(S)
        meta2.append(("snap", si, probe))
        fk = ks if ctx.thorough() else sorted(set(rng.sample(ks, min(len(ks), 12)) + ks[-4:]))
        for k in fk:
            errno = rng.choice([28, 5])
            S = L + ["fault arm", "fault fail %d %d" % (k, errno), how, "fault log", "fault off", "lsr", "dumpmeta"]
            if how == "close":
                S = S[:-1]      # a failed gd_close keeps the handle; dump below
                S += ["dumpmeta"]
            S += ["metaflush", "lsr", "close", "open rdonly", "dumpmeta"]
            chunks2.append(S)
            meta2.append(("fail", si, k))
    res2 = streams.run_chunks(harness, chunks2, "c12b")
    nfail = nfired = 0
    for ci, (lines, out, crashed, err) in enumerate(res2):
        kind, si, arg = meta2[ci]
        L, how = scen[si]
        n, old_dump, old_files, new_dump, new_files, trace = plans[si]
        if crashed or len(out) < len(lines):
            ctx.fail("input", "library aborted (%s run of %s, %s): %s" % (kind, how, arg, err[-300:]), {"script": lines[:len(out) + 1], "stderr": err[-2000:]},
                     sig={"class": "crash", "kind": kind})
            continue
        base = len(L)
        if kind == "snap":
            j = base + 4
            for k in arg:
                lsr, sm = out[j], out[j + 1]
                j += 2
                nsnap += 1
                ctx.evaluations += 1
                ctx.distinct.add(("snap", how, trace.split(",")[k - 1] if k - 1 < len(trace.split(",")) else "?"))
                files = fmtfiles(lsr)
                for fn in old_files:
                    got = files.get(fn)
                    if got != old_files[fn] and got != new_files.get(fn):
                        ctx.fail("input", "killed before call %d (%s) of %s: fragment %s is neither its old (%s) nor its new (%s) text: %s" % (
                            k, trace.split(",")[k - 1] if k - 1 < len(trace.split(",")) else "?", how, fn, old_files[fn], new_files.get(fn), got),
                            {"script": lines[:base + 4] + ["snaplsr %d" % k]}, sig={"class": "torn", "how": how})
                if "open-error" in sm:
                    ctx.fail("input", "killed before call %d of %s: a later gd_open fails (%s)" % (k, how, sm), {"script": lines[:base + 4] + ["snapmeta %d" % k]},
                             sig={"class": "snapshot-unreadable"})
        else:
            k = arg
            nfail += 1
            ans = out[base + 2]
            log = out[base + 3]
            fired = "fired=1" in log
            ctx.evaluations += 1
            if not fired:
                continue
            nfired += 1
            call = log.split()[-1].split(",")[k - 1] if len(log.split()[-1].split(",")) >= k else "?"
            ctx.distinct.add(("fail", how, call))
            after_files = fmtfiles(out[base + 5])
            cn = lambda d: c07.canon(d).replace("enc=251658240", "enc=16777216")
            mem_dump = cn(streams.strip_rl(out[base + 6])[0])
            problems = []
            if " e=0" in ans or ans == "close 0":
                problems.append("%s reports success although its call %d (%s) failed" % (how, k, call))
            for fn in old_files:
                got = after_files.get(fn)
                if got != old_files[fn] and got != new_files.get(fn):
                    problems.append("fragment %s is neither old nor new after the failed flush: %s" % (fn, got))
            leftovers = [m for m in re.findall(r'\[f (\S+) ', out[base + 5]) if re.search(r'_[A-Za-z0-9]{6}$', m)]
            if leftovers:
                problems.append("temporary file left behind: %s" % leftovers)
            if mem_dump != new_dump:
                problems.append("pending changes lost in the handle: " + c07.first_diff(new_dump, mem_dump)[:200])
            retry = out[base + 7]
            if " e=0" not in retry:
                problems.append("retry after lifting the fault fails: %s" % retry)
            final = cn(streams.strip_rl(out[-1])[0])
            if " e=0" in retry and final != new_dump:
                problems.append("after the retry and reopen the metadata are not the new ones: " + c07.first_diff(new_dump, final)[:200])
            if problems:
                ctx.fail("input", "call %d (%s) of %s fails with errno: %s" % (k, call, how, "; ".join(problems)[:500]), {"script": lines, "problems": problems},
                         sig={"class": "failed-flush", "call": call})
    ctx.coverage.update({
        "rule": "10/40 three-fragment dirfiles (root, sub-directory fragment with affixes, second root-directory fragment), 1-9 metadata additions over a random subset of fragments, "
                "then gd_metaflush / gd_rewrite_fragment / gd_flush / gd_close: (1) call trace matched against the protocol, (2) a directory snapshot before each interposed call "
                "(all of them when <= 40 calls or thorough, else 30 incl. the last six): every fragment file old or new, snapshot opens, (3) each sampled call made to fail once with ENOSPC/EIO: "
                "failure reported, files old or new, no temporary left, pending changes kept, retry succeeds, reopen shows the new metadata",
        "scenarios": nsc, "snapshots_inspected": nsnap, "failure_runs": nfail, "faults_fired": nfired,
    })
    if plans and plans[0]:
        ctx.sample({"calls": plans[0][0], "trace": plans[0][5][:200]})
    if not ok and not any(f.kind == "input" for f in ctx.failures):
        names = [o[0] for o in ctx.obligations if not o[1]]
        ctx.fail("obligation", "Lean obligations no longer check: " + "; ".join(names)[:300] + " :: " + lr.errors[-500:],
                 {"theorem": names, "lean_errors": lr.errors[-3000:]}, has_input=False)


def replay(ctx, obj):
    harness = C.build_harness("gdh", ["gdh.c"])
    lines = obj.get("script", [])
    out, rc, err = streams.run_gdh(harness, lines, "replay")
    for l, a in list(zip(lines, out))[-8:]:
        print(l[:100], "\n  library:", a[:300])
    return 1
