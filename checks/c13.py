"""C13 — restructuring a dirfile does not change the data it holds."""
import re
from vlib import common as C
from vlib import framework as F
from vlib import streams, gen, history
from checks.c01 import split_flags

ASSUMPTIONS = [
    "two-fragment dirfiles (format + sub/inc.format, each with its own byte order, encoding and frame offset); RAW fields in both, LINCOM / PHASE / MULTIPLY fields referring across fragments",
    "after every restructuring call every field is read whole (gd_getdata from sample 0, as FLOAT64 and RAW fields also in their native type) on the same handle and again after close + reopen, and compared with the Lean model: identity for recode / byte-swap / move / rename, Restructure.shift for frame-offset changes, Restructure.respf then the C06 conversion for gd_alter_raw",
    "sample values are small (0..100, halves for floating types) so that every conversion between the ten real types is defined",
]
CHECKER_CMD = "cd /verif/lean && lake build GdModel.Props.C13 && lake env lean <generated #print axioms file>"
MODULES = ["GdModel.Props.C13"]
ENCS = ['none', 'text', 'sie', 'gzip', 'bzip2', 'lzma']
ENDFLAG = {'le': '0x8', 'be': '0x4', 'lea': '0x2008', 'bea': '0x2004'}


class DF:
    def __init__(self, rng):
        self.rng = rng
        self.frag = []      # per fragment: dict(order, enc, foff, dir)
        for i in range(2):
            self.frag.append({"order": rng.choice(list(gen.ORDERS)), "enc": rng.choice(ENCS),
                              "foff": rng.choice([0, 0, 1, 2]), "dir": "" if i == 0 else rng.choice(["sub/", "sub/", ""])})
        self.raws = {}      # name -> dict(ty, spf, frag, vals)
        spf0 = rng.choice([1, 2, 3])
        for name, fr in (("a", 0), ("b", 0), ("c", 1), ("d", 1)):
            ty = rng.choice(gen.REAL_TYPES)
            spf = spf0 if rng.random() < 0.7 else rng.choice([1, 2, 4])
            # never empty: for a field without data "zero-filled at the front" is not observable as a value
            # (the unencoded writer leaves the file empty, the compressed ones write the zeros)
            n = rng.choice([3, 10, 25, 60, 200])
            pool = [rng.randint(0, 9) for _ in range(3)]
            vals = []
            for _ in range(n):
                v = rng.choice(pool) if rng.random() < 0.4 else rng.randint(0, 100)
                vals.append(v + (0.5 if ty[0] == 'f' and rng.random() < 0.5 else 0) if ty[0] == 'f' else v)
            self.raws[name] = {"ty": ty, "spf": spf, "frag": fr, "vals": vals}
        self.derived = [("la", "LINCOM 2 a 1 0 c 2 1", "def lincom la a %s %s c %s %s" % (gen.f64hex(1.0), gen.f64hex(0.0), gen.f64hex(2.0), gen.f64hex(1.0)), 0),
                        ("pa", "PHASE a 1", "def phase pa a 1", 0),
                        ("mc", "MULTIPLY c a", "def multiply mc c a", 1),
                        ("pd", "PHASE d 2", "def phase pd d 2", 1),
                        ("lb", "LINCOM 1 b 3 -1", "def lincom lb b %s %s" % (gen.f64hex(3.0), gen.f64hex(-1.0)), 1)]

    def fname(self, name):
        r = self.raws[name]
        fr = self.frag[r["frag"]]
        return fr["dir"] + name + gen.ENC_EXT[fr["enc"]]

    def script(self):
        f0, f1 = self.frag
        inc = f1["dir"] + "inc.format"
        fmt0 = ["/VERSION 10", "/ENDIAN " + gen.ORDERS[f0["order"]], "/ENCODING " + f0["enc"], "/FRAMEOFFSET %d" % f0["foff"]]
        fmt1 = ["/VERSION 10", "/ENDIAN " + gen.ORDERS[f1["order"]], "/ENCODING " + f1["enc"], "/FRAMEOFFSET %d" % f1["foff"]]
        for n, r in self.raws.items():
            (fmt0 if r["frag"] == 0 else fmt1).append("%s RAW %s %d" % (n, gen.GDNAME[r["ty"]], r["spf"]))
        for n, spec, _, fr in self.derived:
            (fmt0 if fr == 0 else fmt1).append("%s %s" % (n, spec))
        fmt0.append("/INCLUDE " + inc)
        L = ["reset", "file format " + ("\n".join(fmt0) + "\n").encode().hex(), "file %s %s" % (inc, ("\n".join(fmt1) + "\n").encode().hex())]
        for n, r in self.raws.items():
            fr = self.frag[r["frag"]]
            raw = gen.encode_samples(r["ty"], fr["order"], r["vals"])
            L.append("file %s %s" % (self.fname(n), gen.file_encode(fr["enc"], r["ty"], fr["order"], r["vals"], raw).hex()))
            L.append("def raw %s %s %d %d %s %s" % (n, r["ty"], r["spf"], fr["foff"], fr["order"], raw.hex()))
        for n, _, d, _ in self.derived:
            L.append(d)
        L.append("open rdwr")
        return L


def reads(df, names_raw, names_der):
    L = []
    for n in names_raw:
        L.append("get %s 0 0 0 100000 f64" % n)
        L.append("get %s 0 0 0 100000 %s" % (n, df.raws_ty[n]))
    for n in names_der:
        L.append("get %s 0 0 0 100000 f64" % n)
    return L


def build(rng):
    df = DF(rng)
    L = df.script()
    names = {n: n for n in df.raws}                   # current name of each RAW
    der = [n for n, _, _, _ in df.derived]
    df.raws_ty = {n: r["ty"] for n, r in df.raws.items()}
    ops = []
    L += reads(df, list(names.values()), der)
    for step in range(rng.randint(1, 4)):
        k = rng.choice(["encoding", "endianness", "frameoffset", "alterraw", "alterraw", "move", "rename"])
        fi = rng.randint(0, 1)
        fr = df.frag[fi]
        mine = [n for n, r in df.raws.items() if r["frag"] == fi]
        if k == "encoding":
            e = rng.choice(ENCS)
            L.append("encoding %s %d 1" % (e, fi))
            fr["enc"] = e
        elif k == "endianness":
            # gd_alter_endianness accepts GD_BIG_ENDIAN or GD_LITTLE_ENDIAN only (ARM flags are refused with
            # GD_E_ARGUMENT, test/endian_alter_arg.c); the ARM bit of the fragment is dropped by the call
            o = rng.choice(['le', 'be'])
            L.append("endianness %s %d 1" % (ENDFLAG[o], fi))
            for n in mine:
                L.append("m_order %s %s" % (names[n], o))
            fr["order"] = o
        elif k == "frameoffset":
            f = rng.choice([0, 1, 2, 3, 5])
            L.append("frameoffset %d %d 1" % (f, fi))
            for n in mine:
                L.append("m_shift %s %d" % (names[n], f))
            fr["foff"] = f
        elif k == "alterraw":
            n = rng.choice(list(df.raws))
            r = df.raws[n]
            nty = rng.choice(gen.REAL_TYPES) if rng.random() < 0.7 else r["ty"]
            nspf = rng.choice([1, 2, 3, 4, 6]) if rng.random() < 0.6 else r["spf"]
            L.append("alterraw %s %s %d 1" % (names[n], nty, nspf))
            if nspf != r["spf"]:
                L.append("m_respf %s %d" % (names[n], nspf))
            if nty != r["ty"]:
                L.append("m_retype %s %s" % (names[n], nty))
            r["ty"], r["spf"] = nty, nspf
            df.raws_ty[n] = nty
        elif k == "move":
            n = rng.choice(list(df.raws))
            r = df.raws[n]
            to = 1 - r["frag"]
            L.append("move %s %d 1" % (names[n], to))          # GD_REN_DATA
            L.append("m_order %s %s" % (names[n], df.frag[to]["order"]))
            L.append("m_shift %s %d" % (names[n], df.frag[to]["foff"]))
            r["frag"] = to
        elif k == "rename":
            n = rng.choice(list(df.raws))
            new = names[n] + "x"
            L.append("rename %s %s 3" % (names[n], new))     # GD_REN_DATA | GD_REN_UPDB
            L.append("m_rename %s %s 1" % (names[n], new))
            names[n] = new
        ops.append(k)
        df.raws_ty2 = {names[n]: df.raws_ty[n] for n in names}
        rd = []
        for n in names:
            rd.append("get %s 0 0 0 100000 f64" % names[n])
            rd.append("get %s 0 0 0 100000 %s" % (names[n], df.raws_ty[n]))
        for n in der:
            rd.append("get %s 0 0 0 100000 f64" % n)
        L += rd
        if rng.random() < 0.6:
            L += ["close", "open rdwr"] + rd
    L += ["close", "ls", "lsr"]
    return L, ops


def dotz(lines):
    """was the dirfile rewritten and reopened before the rename (so that in_fields carry '.z')?"""
    seen_close = False
    for l in lines:
        if l == "close":
            seen_close = True
        if l.startswith("rename") and seen_close:
            return True
    return False


def run(ctx):
    ok, lr, infos = F.lean_obligations(ctx, MODULES, [])
    gdmodel = C.build_gdmodel()
    try:
        harness = C.build_harness("gdh", ["gdh.c"], defines=history.SMALL_BUF_DEFINES)
    except RuntimeError as e:
        raise F.C_BuildError(str(e))
    rng = ctx.rng
    chunks, metas = [], []
    ndf = 900 if ctx.thorough() else 220
    for i in range(ndf):
        L, ops = build(rng)
        chunks.append(L)
        metas.append(ops)
    res = streams.run_chunks(harness, chunks, "c13")
    flat = [l for c in chunks for l in c]
    mo, _, _ = streams.run_model(gdmodel, flat)
    k = 0
    opcount = {}
    refused = {}
    shown = {}
    for ci, (lines, out, crashed, err) in enumerate(res):
        if crashed:
            bad = lines[min(len(out), len(lines) - 1)]
            ctx.fail("input", "library aborted at '%s': %s" % (bad, err[-300:]),
                     {"script": lines[:len(out) + 1], "stderr": err[-2500:]}, sig={"class": "crash", "op": bad.split()[0]})
        lastop = None
        tainted = False
        for i, l in enumerate(lines):
            if i >= len(out):
                break
            t = l.split()
            if t[0] in ("encoding", "endianness", "frameoffset", "alterraw", "move", "rename"):
                lastop = l
                opcount[t[0]] = opcount.get(t[0], 0) + 1
                a = streams.strip_rl(out[i])[0]
                ctx.evaluations += 1
                if " e=0" not in a:
                    # a refused call is not a C13 matter (nothing was restructured); the model-side
                    # updates that follow in the script no longer apply, so the script ends here
                    refused[t[0] + " " + a.split()[-1]] = refused.get(t[0] + " " + a.split()[-1], 0) + 1
                    tainted = True
                continue
            if t[0] == "m_retype" and mo[k + i] == "undef":
                tainted = True
            if t[0] != "get" or tainted:
                continue
            a, rl = streams.strip_rl(out[i])
            m = split_flags(mo[k + i])[0]
            if m.startswith("unsupported"):
                continue
            ctx.evaluations += 1
            ctx.distinct.add((lastop.split()[0] if lastop else "initial", t[1][:2], t[6]))
            if rl not in (None, 0):
                ctx.fail("input", "recursion counter %d after '%s'" % (rl, l), {"script": lines[:i + 1]}, sig={"class": "recurse_level"})
            if a != m:
                key = (lastop.split()[0] if lastop else "initial")
                shown[key] = shown.get(key, 0) + 1
                if shown[key] <= 2:
                    cls = "data"
                    if key == "rename" and " e=-3 " in a + " " and t[1] in ("la", "pa", "mc", "pd", "lb") and dotz(lines[:i]):
                        # the referring field names the renamed one with the explicit null
                        # representation ("a.z", as gd_metaflush writes one-letter names that
                        # could be read as a representation suffix) and was not updated
                        cls = "rename-misses-dot-z-reference"
                    ctx.fail("input", "after '%s': %s: library '%s', expected '%s'" % (lastop, l, a[:150], m[:150]),
                             {"script": lines[:i + 1], "expected": m, "observed": a}, sig={"class": cls, "op": key})
                tainted = True
        # no temporary files left behind
        if not crashed and len(out) == len(lines):
            lsr = out[-1]
            if "XXXXXX" in lsr or "_tmp" in lsr:
                ctx.fail("input", "temporary file left after restructuring: %s" % lsr[:300], {"script": lines}, sig={"class": "debris"})
        k += len(lines)
    # ---- stream E: samples-per-frame change with recoding over all twelve types -----------------
    # The source index of every new sample comes from the Lean model (Restructure.respf applied to a field
    # holding its own sample numbers); the data are compared as bit patterns, complex types included.
    import struct as _st
    ALLT = [("u8", "B", 1), ("i8", "b", 1), ("u16", "H", 2), ("i16", "h", 2), ("u32", "I", 4), ("i32", "i", 4), ("u64", "Q", 8), ("i64", "q", 8),
            ("f32", "f", 4), ("f64", "d", 8), ("c64", "ff", 8), ("c128", "dd", 16)]
    PAIRS = [(2, 4), (1, 8), (3, 2), (2, 3), (4, 2), (5, 7), (7, 5), (6, 4), (1, 3)]
    ecases, echunks, emodel = [], [], []
    for (ty, fmt, sz) in ALLT:
        prs = PAIRS if ctx.thorough() else rng.sample(PAIRS, 3 if ty in ("c64", "c128") else 1)
        for (old, new) in prs:
            nfr = rng.choice([3, 5, 9])
            n = nfr * old
            if len(fmt) == 2:
                vals = [(float(rng.randint(-90, 90)) + 0.5, float(rng.randint(-90, 90)) - 0.25) for _ in range(n)]
                raw = b"".join(_st.pack("<" + fmt, a, b) for a, b in vals)
            elif fmt in "fd":
                vals = [float(rng.randint(-90, 90)) + 0.5 for _ in range(n)]
                raw = b"".join(_st.pack("<" + fmt, v) for v in vals)
            else:
                lo = 0 if fmt.isupper() else -100
                vals = [rng.randint(lo, 120) for _ in range(n)]
                raw = b"".join(_st.pack("<" + fmt, v) for v in vals)
            enc = rng.choice(["none", "none", "gzip"])
            data = raw if enc == "none" else __import__("gzip").compress(raw)
            L = ["reset", "file format " + ("/VERSION 10\n/ENDIAN little\n/ENCODING %s\nv RAW %s %d\nlv LINCOM 1 v 1 0\n" % (enc, gen.GDNAME[ty], old)).encode().hex(),
                 "file v%s %s" % (gen.ENC_EXT[enc], data.hex()), "open rdwr", "alterraw v %s %d 1" % (ty, new),
                 "get v 0 0 0 100000 %s" % ty, "get lv 0 0 0 100000 c128", "close", "open rdonly", "get v 0 0 0 100000 %s" % ty]
            echunks.append(L)
            ix = b"".join(_st.pack("<I", k) for k in range(n))
            emodel += ["reset", "def raw ix u32 %d 0 le %s" % (old, ix.hex()), "m_respf ix %d" % new, "get ix 0 0 0 100000 u32"]
            ecases.append((ty, sz, old, new, raw, n))
    eres = streams.run_chunks(harness, echunks, "c13e")
    emo, _, _ = streams.run_model(gdmodel, emodel)
    nresp = 0
    for ci, (lines, out, crashed, err) in enumerate(eres):
        ty, sz, old, new, raw, n = ecases[ci]
        rep = {"script": lines, "type": ty, "old_spf": old, "new_spf": new}
        if crashed:
            ctx.fail("input", "library aborted during gd_alter_raw(spf %d->%d, %s): %s" % (old, new, ty, err[-300:]), dict(rep, stderr=err[-2500:]), sig={"class": "crash", "op": "alterraw"})
            continue
        mline = emo[4 * ci + 3]
        mm = re.match(r"get n=(\d+) e=0 d=(.*)$", split_flags(mline)[0]) if mline.startswith("get") else None
        if not mm or " e=0" not in out[4]:
            continue
        src = [int(x, 16) for x in mm.group(2).split(",") if x]
        nresp += 1
        ctx.evaluations += 1
        ctx.distinct.add(("respf", ty, old, new))
        for which, oi in (("same handle", 5), ("after reopen", 9)):
            a = streams.strip_rl(out[oi])[0]
            got = a.split(" d=")[1].split(",") if " d=" in a and a.split(" d=")[1] else []
            exp = []
            for k in src:
                chunk = raw[k * sz:(k + 1) * sz]
                if ty in ("c64", "c128"):
                    h = sz // 2
                    exp.append("%x;%x" % (int.from_bytes(chunk[:h], "little"), int.from_bytes(chunk[h:], "little")))
                else:
                    exp.append("%x" % int.from_bytes(chunk, "little"))
            if got != exp:
                bad = next((j for j in range(min(len(got), len(exp))) if got[j] != exp[j]), min(len(got), len(exp)))
                ctx.fail("input", "gd_alter_raw(%s, spf %d -> %d, recode) %s: new sample %d is %s, old sample %s = %s expected (%d vs %d samples)" % (
                    ty, old, new, which, bad, got[bad] if bad < len(got) else "-", src[bad] if bad < len(src) else "-", exp[bad] if bad < len(exp) else "-", len(got), len(exp)),
                    rep, sig={"class": "respf", "type": ty})
                break
    ctx.coverage.update({
        "rule": "220 (quick) / 900 (thorough) two-fragment dirfiles x 1-4 restructuring calls (gd_alter_encoding, gd_alter_endianness, gd_alter_frameoffset with recode; gd_alter_raw type and/or sample rate with recode; gd_move and gd_rename with data) "
                "over 6 encodings, 4 byte orders, frame offsets 0-5, 10 types; whole-field reads of 4 RAW and 5 derived fields after each call, same handle and after reopen",
        "dirfiles": ndf, "calls": opcount, "refused_calls": refused,
    })
    if res and res[0][1]:
        lines, out, _, _ = res[0]
        for i, l in enumerate(lines):
            if l.split()[0] in ("encoding", "endianness", "frameoffset", "alterraw", "move", "rename") and i + 1 < len(out) and len(ctx.samples) < 4:
                ctx.sample({"op": l, "library": out[i]})
    if not ok and not any(f.kind == "input" for f in ctx.failures):
        names = [o[0] for o in ctx.obligations if not o[1]]
        ctx.fail("obligation", "Lean obligations no longer check: " + "; ".join(names)[:300] + " :: " + lr.errors[-500:],
                 {"theorem": names, "lean_errors": lr.errors[-3000:]}, has_input=False)


def replay(ctx, obj):
    harness = C.build_harness("gdh", ["gdh.c"], defines=history.SMALL_BUF_DEFINES)
    gdmodel = C.build_gdmodel()
    lines = obj.get("script", [])
    out, rc, err = streams.run_gdh(harness, lines, "replay")
    mo, _, _ = streams.run_model(gdmodel, lines)
    for l, a, m in list(zip(lines, out, mo))[-4:]:
        print(l[:100], "\n  library:", a[:200], "\n  model:  ", m[:200])
    if rc or len(out) < len(lines):
        print(err[-400:])
        return 1
    return 1 if streams.strip_rl(out[-1])[0] != split_flags(mo[-1])[0] else 0
