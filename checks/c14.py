"""C14 — data-file replacement is all-or-nothing and leaves no debris."""
import re
from vlib import common as C
from vlib import framework as F
from vlib import streams, gen, history
from checks.c10 import hx

ASSUMPTIONS = [
    "the replacement protocols (in place: temporary + rename; under a new name: temporary + rename + unlink of the old file) are modelled in GdModel.Replace.Model and proved to keep a complete copy at every call boundary and to leave no debris (Props/C12, Props/C14)",
    "kills are emulated by copying the dirfile tree before each interposed call of the real library (write, fwrite, fclose, rename(at), unlink(at), ftruncate, fsync, fchmod, stdio output); failures by making one call return ENOSPC/EIO once",
    "a snapshot is judged on its files: every data file under a final (non-temporary) name is byte-identical to that file before the call or after the completed call, and for every affected field the old file or the new file is there; failure runs are judged through the library (values read back, temporary files, a retry)",
]
CHECKER_CMD = "cd /verif/lean && lake build GdModel.Props.C14 && lake env lean <generated #print axioms file>"
MODULES = ["GdModel.Props.C14"]
TEMPRE = re.compile(r'_[A-Za-z0-9]{6}$')


def scenario(rng):
    enc0 = rng.choice(['none', 'gzip', 'sie', 'text', 'bzip2', 'lzma'])
    enc1 = rng.choice(['none', 'gzip', 'text'])
    order = rng.choice(['le', 'be'])
    n = rng.choice([40, 200, 700])
    va = [rng.randint(0, 250) for _ in range(n)]
    vb = [float(rng.randint(0, 99)) for _ in range(n // 2)]
    vx = [rng.randint(0, 1000) for _ in range(n)]
    fmt = ["/VERSION 10", "/ENDIAN " + gen.ORDERS[order], "/ENCODING " + enc0, "/FRAMEOFFSET 1", "a RAW UINT16 2", "b RAW FLOAT64 1", "l1 LINCOM 1 a 2 1",
           "/INCLUDE sub/format2"]
    sub = ["/VERSION 10", "/ENDIAN little", "/ENCODING " + enc1, "x RAW INT32 2", "y PHASE x 1"]
    L = ["reset", "file format " + hx("\n".join(fmt) + "\n"), "file sub/format2 " + hx("\n".join(sub) + "\n")]
    for name, ty, vals, enc, o, d in (("a", "u16", va, enc0, order, ""), ("b", "f64", vb, enc0, order, ""), ("x", "i32", vx, enc1, 'le', "sub/")):
        raw = gen.encode_samples(ty, o, vals)
        L.append("file %s%s%s %s" % (d, name, gen.ENC_EXT[enc], gen.file_encode(enc, ty, o, vals, raw).hex()))
    L.append("open rdwr")
    kind = rng.choice(["oopwrite", "encoding", "endianness", "frameoffset", "alterraw", "move", "rename", "delete"])
    if kind == "oopwrite":
        # an append to a compressed field, completed by gd_flush: the file is replaced when the write is finished
        if enc0 not in ('gzip', 'bzip2', 'lzma'):
            enc0 = 'gzip'
            L[1] = "file format " + hx("\n".join(fmt).replace("/ENCODING " + fmt[2].split()[1], "/ENCODING gzip") + "\n")
            raw = gen.encode_samples("u16", order, va)
            L[3] = "file a.gz " + gen.file_encode('gzip', "u16", order, va, raw).hex()
            raw = gen.encode_samples("f64", order, vb)
            L[4] = "file b.gz " + gen.file_encode('gzip', "f64", order, vb, raw).hex()
        pre = ["put a 0 %d u16 %s" % (n + 2, ",".join("%x" % rng.randint(0, 9) for _ in range(5)))]
        op = "flush a"
    else:
        pre = []
        if kind == "encoding":
            op = "encoding %s 0 1" % rng.choice([e for e in ['none', 'gzip', 'sie', 'text', 'bzip2', 'lzma'] if e != enc0])
        elif kind == "endianness":
            op = "endianness %s 0 1" % ("0x4" if order == 'le' else "0x8")
        elif kind == "frameoffset":
            op = "frameoffset %d 0 1" % rng.choice([0, 3])
        elif kind == "alterraw":
            op = "alterraw a %s %d 1" % (rng.choice(["u32", "f32", "u8"]), rng.choice([2, 3, 1]))
        elif kind == "move":
            op = rng.choice(["move a 1 1", "move x 0 1"])
        elif kind == "rename":
            op = "rename a a2 1"
        else:
            op = "delete b 2"
    reads = ["get a 0 0 0 100000 f64", "get b 0 0 0 100000 f64", "get x 0 0 0 100000 f64", "get a2 0 0 0 100000 f64"]
    return L, pre, op, reads, kind


def datafiles(lsr):
    return {m.group(1): (m.group(2), m.group(3)) for m in re.finditer(r'\[f (\S+) (\d+) ([0-9a-f]+)\]', lsr) if "format" not in m.group(1)}


def run(ctx):
    ok, lr, infos = F.lean_obligations(ctx, MODULES, [])
    try:
        harness = C.build_harness("gdh", ["gdh.c"], defines=history.SMALL_BUF_DEFINES)
    except RuntimeError as e:
        raise F.C_BuildError(str(e))
    rng = ctx.rng
    nsc = 48 if ctx.thorough() else 14
    scen = [scenario(rng) for _ in range(nsc)]
    chunks = []
    for (L, pre, op, reads, kind) in scen:
        chunks.append(L + reads + ["lsr"] + pre + ["fault arm", "fault snap all", op, "fault log", "fault off", "lsr"] + reads + ["metaflush", "close", "open rdonly"] + reads)
    res = streams.run_chunks(harness, chunks, "c14a")
    plans = []
    for si, (lines, out, crashed, err) in enumerate(res):
        L, pre, op, reads, kind = scen[si]
        if crashed or len(out) < len(lines):
            ctx.fail("input", "library aborted during '%s' [%s]: %s" % (op, kind, err[-300:]), {"script": lines[:len(out) + 1], "stderr": err[-2000:]},
                     sig={"class": "crash", "kind": kind})
            plans.append(None)
            continue
        b = len(L)
        old_reads = [streams.strip_rl(out[b + i])[0] for i in range(4)]
        old_files = datafiles(out[b + 4])
        j = b + 5 + len(pre)
        ans = streams.strip_rl(out[j + 2])[0]
        m = re.match(r'faultlog n=(\d+) fired=\d+ snaps=(\d+) ?(.*)$', out[j + 3])
        n = int(m.group(1)) if m else 0
        trace = (m.group(3) if m else "").split(",")
        new_files = datafiles(out[j + 5])
        new_reads = [streams.strip_rl(out[j + 6 + i])[0] for i in range(4)]
        re_reads = [streams.strip_rl(out[-4 + i])[0] for i in range(4)]
        ctx.evaluations += 1
        ctx.distinct.add(("count", kind, min(n, 60) // 10))
        if " e=0" not in ans:
            ctx.fail("input", "'%s' without faults fails: %s" % (op, ans), {"script": lines[:j + 3]}, sig={"class": "op-fails", "kind": kind})
            plans.append(None)
            continue
        debris = [p for p in new_files if TEMPRE.search(p)]
        if debris:
            ctx.fail("input", "'%s' leaves temporary files: %s" % (op, debris), {"script": lines[:j + 6]}, sig={"class": "debris", "kind": kind})
        if new_reads != re_reads:
            ctx.fail("input", "'%s': values after reopen differ from those on the same handle" % op, {"script": lines}, sig={"class": "reopen", "kind": kind})
        plans.append((n, trace, old_files, new_files, old_reads, new_reads))
    # ---- snapshots and failure runs ------------------------------------------
    chunks2, meta2 = [], []
    for si, (L, pre, op, reads, kind) in enumerate(scen):
        if not plans[si] or plans[si][0] == 0:
            continue
        n = plans[si][0]
        ks = list(range(1, n + 1))
        probe = ks if (ctx.thorough() or n <= 30) else sorted(set(rng.sample(ks, 22) + ks[-6:] + ks[:2]))
        S = L + pre + ["fault arm", "fault snap all", op, "fault off"] + ["snaplsr %d" % k for k in probe]
        chunks2.append(S)
        meta2.append(("snap", si, probe))
        fk = ks if ctx.thorough() else sorted(set(rng.sample(ks, min(len(ks), 8)) + ks[-4:]))
        for k in fk:
            S = L + pre + ["fault arm", "fault fail %d %d" % (k, rng.choice([28, 5])), op, "fault log", "fault off", "lsr"] + reads + [op] + reads + ["errstr", "lsr"]
            S.insert(len(L) + len(pre) + 3, "errstr")
            chunks2.append(S)
            meta2.append(("fail", si, k))
    res2 = streams.run_chunks(harness, chunks2, "c14b")
    nsnap = nfail = nfired = nunclean = 0
    for ci, (lines, out, crashed, err) in enumerate(res2):
        kind_, si, arg = meta2[ci]
        L, pre, op, reads, kind = scen[si]
        n, trace, old_files, new_files, old_reads, new_reads = plans[si]
        b = len(L) + len(pre)
        if crashed or len(out) < len(lines):
            call = trace[arg - 1] if kind_ == "fail" and arg - 1 < len(trace) else "?"
            cls = "crash"
            if kind_ == "fail" and call in ("fclose", "write", "fwrite", "fflush") and re.search(r'_GD_\w*Close|BZ2_bzWriteClose|gzclose|gzerror|_GD_SetEncIOError', err):
                # after a close that reported failure the library closes the same codec handle / stdio stream again,
                # or asks the closed handle for its error text (the handle is gone by then)
                cls = "codec-used-after-failed-close"
            ctx.fail("input", "library aborted (%s run of '%s', call %s %s): %s" % (kind_, op, arg, call, err[-300:]), {"script": lines[:len(out) + 1], "stderr": err[-2000:]},
                     sig={"class": cls, "kind": kind, "run": kind_} if cls == "crash" else {"class": cls})
            continue
        if kind_ == "snap":
            for i, k in enumerate(arg):
                files = datafiles(out[b + 4 + i])
                nsnap += 1
                ctx.evaluations += 1
                call = trace[k - 1] if k - 1 < len(trace) else "?"
                ctx.distinct.add(("snap", kind, call))
                bad = None
                for p, v in files.items():
                    if TEMPRE.search(p):
                        continue
                    if old_files.get(p) != v and new_files.get(p) != v:
                        bad = "%s under its final name is neither the old (%s) nor the new (%s) file: %s" % (p, old_files.get(p), new_files.get(p), v)
                # every file that the call changes or removes: old copy or new copy must be there
                for p in old_files:
                    if new_files.get(p) != old_files[p]:
                        # the field's new home: any new file that did not exist before
                        newnames = [q for q in new_files if q not in old_files or new_files[q] != old_files.get(q)]
                        have_old = files.get(p) == old_files[p]
                        have_new = any(files.get(q) == new_files[q] for q in newnames) or (not newnames and kind == "delete")
                        if not have_old and not have_new and kind != "delete":
                            bad = "neither the old %s nor a complete new copy (%s) exists" % (p, newnames)
                if bad:
                    ctx.fail("input", "killed before call %d (%s) of '%s' [%s]: %s" % (k, call, op, kind, bad), {"script": lines[:b + 4] + ["snaplsr %d" % k]},
                             sig={"class": "torn", "kind": kind})
                    break
        else:
            k = arg
            nfail += 1
            ans = streams.strip_rl(out[b + 2])[0]
            errstr = out[b + 3]
            del out[b + 3]          # (keeps the indices below as they were)
            log = out[b + 3]
            ctx.evaluations += 1
            if "fired=1" not in log:
                continue
            nfired += 1
            call = trace[k - 1] if k - 1 < len(trace) else "?"
            ctx.distinct.add(("fail", kind, call))
            files = datafiles(out[b + 5])
            after = [streams.strip_rl(out[b + 6 + i])[0] for i in range(4)]
            retry = streams.strip_rl(out[b + 10])[0]
            final = [streams.strip_rl(out[b + 11 + i])[0] for i in range(4)]
            problems = []
            if " e=-27" in ans:
                nunclean += 1
                if call not in ("rename", "renameat", "unlink", "unlinkat"):
                    problems.append("GD_E_UNCLEAN_DB after a failing %s (only rename/unlink failures may do that)" % call)
                # handle invalid, nothing more to ask of it
            elif call in ("rename", "renameat", "unlink", "unlinkat"):
                # the copy is complete when these are reached: the old data or the new data must be readable, whatever the error code
                if after != old_reads and after != new_reads and " e=0" not in ans:
                    problems.append("after a failing %s neither the old nor the new data are readable" % call)
            elif " e=0" in ans:
                # the failing call was not essential (e.g. an fsync or a close of the old file): the result must then be the new state
                if after != new_reads:
                    problems.append("the call reports success after a failing %s but the data are not the new data" % call)
            else:
                # an out-of-place write that gd_flush could not complete may stay pending, exactly as it was before the
                # call: its temporary file is then still the open write side, the handle shows the written data, and the
                # next call that needs the field completes it (nothing may remain after that)
                pending = kind == "oopwrite" and after == new_reads and all(
                    old_files.get(p_) == v_ for p_, v_ in files.items() if not TEMPRE.search(p_))
                if pending:
                    end_files = datafiles(out[b + 16]) if len(out) > b + 16 else {}
                    if [p_ for p_ in end_files if TEMPRE.search(p_)]:
                        problems.append("temporary file of the pending write still there at the end: %s" % sorted(end_files))
                    if " e=0" not in retry:
                        problems.append("the handle is not usable: retry answers %s" % retry)
                    elif final != new_reads:
                        problems.append("after the retry the data are not the new data")
                else:
                    if after != old_reads:
                        d = [i for i in range(4) if after[i] != old_reads[i]]
                        problems.append("after the refused call field %s reads '%s', before '%s'" % (reads[d[0]].split()[1], after[d[0]][:80], old_reads[d[0]][:80]))
                    debris = [p for p in files if TEMPRE.search(p)]
                    if debris:
                        problems.append("temporary file left behind: %s" % debris)
                    for p, v in files.items():
                        if not TEMPRE.search(p) and old_files.get(p) != v:
                            problems.append("data file %s changed by the failed call (%s -> %s)" % (p, old_files.get(p), v))
                            break
                    if " e=0" not in retry:
                        problems.append("the handle is not usable: retry answers %s" % retry)
                    elif final != new_reads:
                        problems.append("after the retry the data are not the new data")
            if problems:
                cls = "failed-call"
                if errstr.startswith("errstr Error closing") and " e=-27" not in ans:
                    # the write error surfaced while CLOSING the temporary file (buffered codec / stdio flush)
                    cls = "close-of-temporary-fails"
                ctx.fail("input", "call %d (%s) of '%s' [%s] fails: %s (%s) -> %s" % (k, call, op, kind, ans[:30], errstr[7:60], "; ".join(problems)[:500]),
                         {"script": lines, "problems": problems}, sig={"class": cls, "kind": kind, "call": call} if cls == "failed-call" else {"class": cls})
    ctx.coverage.update({
        "rule": "14/48 two-fragment dirfiles (6 x 3 encodings, 2 byte orders, 40-700 samples, small copy buffers) x one data-replacing call: completion of an out-of-place write, gd_alter_encoding / "
                "endianness / frameoffset with recode, gd_alter_raw with recode, gd_move / gd_rename with data, gd_delete with data; snapshots before each interposed call and a failure of each sampled call",
        "scenarios": nsc, "snapshots_inspected": nsnap, "failure_runs": nfail, "faults_fired": nfired, "unclean_db": nunclean,
        "kinds": sorted(set(s[4] for s in scen)),
    })
    if plans and plans[0]:
        ctx.sample({"op": scen[0][2], "calls": plans[0][0], "trace": ",".join(plans[0][1])[:160]})
    if not ok and not any(f.kind == "input" for f in ctx.failures):
        names = [o[0] for o in ctx.obligations if not o[1]]
        ctx.fail("obligation", "Lean obligations no longer check: " + "; ".join(names)[:300] + " :: " + lr.errors[-500:],
                 {"theorem": names, "lean_errors": lr.errors[-3000:]}, has_input=False)


def replay(ctx, obj):
    harness = C.build_harness("gdh", ["gdh.c"], defines=history.SMALL_BUF_DEFINES)
    lines = obj.get("script", [])
    out, rc, err = streams.run_gdh(harness, lines, "replay")
    for l, a in list(zip(lines, out))[-8:]:
        print(l[:100], "\n  library:", a[:300])
    return 1
