"""C15 — the field name table stays consistent under every sequence of metadata edits."""
import re
from vlib import common as C
from vlib import framework as F
from vlib import streams, gen
from checks.c10 import template, hx
from checks import c07
import os, sys
sys.path.insert(0, os.path.join(os.path.dirname(os.path.dirname(os.path.abspath(__file__))), "extract"))
import x8_resort

ASSUMPTIONS = [
    "the sorted name table (D->entry[], _GD_FindField, _GD_InsertSort) is modelled in GdModel.Names.Table and proved consistent for every operation sequence (Props/C15); the tie compares the model's table, name for name and in order, with D->entry[] read through src/internal.h by the harness after sequences of adds, deletes and renames of colliding names",
    "gd_alter_affixes / gd_fragment_namespace: the re-sort after the codes are replaced is modelled (`reaffix`, ordered insertion for qsort) and proved to restore a strictly sorted table of exactly the new names whenever they are distinct; extractor X8 re-reads _GD_UpdateAffixes and _GD_EntryCmp on every run (every replaced code sets `resort`, the qsort with _GD_EntryCmp follows, _GD_EntryCmp is _GD_strlencmp) and `resort_in_source_is_unconditional` fails when that shape is lost; _GD_UpdateCode itself (how the new name is built) is not modelled",
    "every other clause is judged on the real library after every call of random edit sequences (successful or failed): gd_nentries == length of gd_entry_list for 12 types x 4 flag combinations at top level and under every parent, names unique and look-up-able, the visible list == the full list minus gd_hidden names, value lists aligned with name lists, D->entry[] sorted, reference field an existing RAW field, every field validates or fails with a GetData error, and the sanitizers stay silent (no later call touches a removed entry)",
]
CHECKER_CMD = "cd /verif/lean && lake build GdModel.Props.C15 && lake env lean <generated #print axioms file>"
MODULES = ["GdModel.Props.C15"]
NAMECH = "abAB09_xyzXYZ"


def rname(rng):
    n = rng.choice([1, 1, 2, 2, 3, 5])
    s = "".join(rng.choice(NAMECH) for _ in range(n))
    if s[0] in "0123456789" or s in ("INDEX",):
        s = "q" + s
    return s


def table_script(rng):
    """adds / deletes / renames of short colliding names; returns script and the model ops"""
    L = ["reset", "file format " + hx("/VERSION 10\n"), "open rdwr"]
    M = ["names reset", "-", "names add " + "INDEX".encode().hex()]
    live = []
    for _ in range(rng.randint(10, 45)):
        r = rng.random()
        if r < 0.55 or not live:
            nm = rname(rng)
            kind = rng.choice(["CONST UINT8 1", "STRING x", "CARRAY UINT8 1 2", "RAW UINT8 1", "PHASE INDEX 1"])
            L.append("addspec 0 " + hx("%s %s" % (nm, kind)))
            M.append("names add " + nm.encode().hex())
            if nm not in live:
                live.append(nm)
        elif r < 0.7:
            nm = rng.choice(live)
            sub = rname(rng)
            L.append("maddspec %s %s" % (nm, hx("%s CONST UINT8 2" % sub)))
            M.append("names add " + ("%s/%s" % (nm, sub)).encode().hex())
        elif r < 0.85:
            nm = rng.choice(live + [rname(rng)])
            L.append("delete %s 9" % nm)          # GD_DEL_META | GD_DEL_FORCE
            M.append("names delmeta " + nm.encode().hex())
            if nm in live:
                live.remove(nm)
        else:
            nm = rng.choice(live)
            new = rname(rng)
            L.append("rename %s %s 0" % (nm, new))
            M.append("names rename %s %s" % (nm.encode().hex(), new.encode().hex()))
            if new not in live and nm in live:
                live[live.index(nm)] = new
        L.append("etable")
        M.append("names show")
    return L, M


def run(ctx):
    ok, lr, infos = F.lean_obligations(ctx, MODULES, [lambda: x8_resort.main(C.REPO)])
    gdmodel = C.build_gdmodel()
    try:
        harness = C.build_harness("gdh", ["gdh.c"])
    except RuntimeError as e:
        raise F.C_BuildError(str(e))
    rng = ctx.rng
    # ---- stream A: the sorted table against the model ------------------------
    chunks, models = [], []
    for i in range(120 if ctx.thorough() else 30):
        L, M = table_script(rng)
        chunks.append(L)
        models.append(M)
    resA = streams.run_chunks(harness, chunks, "c15a")
    ntab = 0
    for ci, (lines, out, crashed, err) in enumerate(resA):
        if crashed:
            ctx.fail("input", "library aborted at '%s': %s" % (lines[min(len(out), len(lines) - 1)], err[-300:]),
                     {"script": lines[:len(out) + 1], "stderr": err[-2500:]}, sig={"class": "crash", "op": lines[min(len(out), len(lines) - 1)].split()[0]})
            continue
        # replay the model ops that the library accepted (python keeps the table of names; the Lean model orders it)
        names = [b"INDEX"]
        mops = ["names reset", "names add " + b"INDEX".hex()]
        checks = []
        for i, l in enumerate(lines):
            t = l.split()
            okc = i < len(out) and " e=0" in out[i]
            m = models[ci][i].split() if i < len(models[ci]) else []
            if t[0] in ("addspec", "maddspec") and okc:
                mops.append("names add " + m[2])
                names.append(bytes.fromhex(m[2]))
            elif t[0] == "delete" and okc:
                base = bytes.fromhex(m[2])
                for n in [x for x in names if x == base or x.startswith(base + b"/")]:
                    mops.append("names del " + n.hex())
                    names.remove(n)
            elif t[0] == "rename" and okc:
                old, new = bytes.fromhex(m[2]), bytes.fromhex(m[3])
                for n in [x for x in names if x == old or x.startswith(old + b"/")]:
                    mops.append("names del " + n.hex())
                    names.remove(n)
                    nn = new + n[len(old):]
                    mops.append("names add " + nn.hex())
                    names.append(nn)
            elif t[0] == "etable":
                mops.append("names show")
                checks.append((i, len(mops) - 1))
        mo, _, _ = streams.run_model(gdmodel, mops)
        for (i, j) in checks:
            a = streams.strip_rl(out[i])[0]
            ctx.evaluations += 1
            ntab += 1
            ctx.distinct.add(("table", len(a.split())))
            if a != mo[j]:
                ctx.fail("input", "D->entry[] after '%s': %s ; model table: %s" % (lines[i - 1][:60], a[:200], mo[j][:200]),
                         {"script": lines[:i + 1], "expected": mo[j], "observed": a}, sig={"class": "table-order"})
                break
    # ---- stream B: consistency after every call -----------------------------
    chunks = []
    nseq = 260 if ctx.thorough() else 70
    for i in range(nseq):
        enc, L = template(rng)
        L.append("open rdwr")
        st = {"n": 0, "added_vec": [], "added_sca": [], "nfrag": 2}
        if i % 2:
            # root names of the same lengths as the affixed names of the sub-fragment (P_x_S, P_kk_S), placed so that a change of
            # affix of unchanged length carries the sub-fragment's names across them in the length-then-bytes order
            for nm in ("G_m_S", "R_m_S", "G_mm_S", "R_mm_S", "P_x_G", "P_x_Y"):
                L.append("addspec 0 " + hx("%s CONST UINT8 1" % nm))
        for _ in range(rng.randint(3, 16)):
            r = rng.random()
            if i % 2 == 0 and r < 0.08:
                # hiddenness changed by a call other than gd_hide / gd_unhide (gd_alter_spec and the gd_alter_<type> calls clear it)
                nm, spec = rng.choice([("k", "k CONST UINT16 3"), ("ph", "ph PHASE a 2"), ("l1", "l1 LINCOM 1 a 2 1"), ("ca", "ca CARRAY UINT8 1 2 3 4 5")])
                L += ["hide " + nm, "lists", "alterspec 0 " + hx(spec)]
            elif i % 2 and r < 0.12:
                L.append("affixes 1 %s %s" % (rng.choice(["A_", "Z_", "P_", "H_", "-", "Zz_"]), rng.choice(["_S", "_T", "_B", "_Z", "-"])))
            elif r < 0.55:
                L.append(c07.mutation(rng, st))
            elif r < 0.7:
                tgt = rng.choice(["a", "b", "c", "k", "ki", "ca", "s", "sa", "l1", "l2", "ph", "bt", "mu", "rc", "po", "wi", "mp", "ind", "lt", "al", "al2",
                                  "a/m", "a/ms", "P_x_S", "P_y_S", "P_kk_S"] + st["added_vec"] + st["added_sca"])
                L.append("dumpmeta")           # lets the check see who uses the field about to be deleted
                L.append("delete %s %d" % (tgt, rng.choice([0, 0, 1, 4, 8, 9, 12, 13])))
            elif r < 0.78:
                tgt = rng.choice(["a", "b", "c", "l1", "k", "ca", "ph", "al", "P_x_S", "a/msa", "a/mca", "a/m", "sa", "lut.txt"] + st["added_vec"] + st["added_sca"])
                L.append("dumpmeta")           # who uses the field about to be renamed
                newn = "r%d%s" % (st["n"], rng.choice(["", "x", "_long_name"]))
                if rng.random() < 0.2:
                    # a name that is taken: by a field, by an alias, by a dangling alias (must be refused as a duplicate every time)
                    newn = rng.choice(["b", "k", "al", "al2"] + st.setdefault("aliases", []))
                L.append("rename %s %s %d" % (tgt, newn, rng.choice([0, 2, 2, 4, 6])))
                L.append("dumpmeta")
                st["n"] += 1
            elif r < 0.84:
                L.append("move %s %d 0" % (rng.choice(["l1", "k", "ph", "ca", "s", "al", "a/m", "P_y_S"] + st["added_vec"]), rng.choice([0, 1, 2])))
            elif r < 0.9:
                L.append("uninclude %d %d" % (rng.choice([1, 1, 2, 3]), rng.choice([0, 0, 1])))
            elif r < 0.95:
                L.append("namespace %d %s" % (rng.choice([1, 2]), rng.choice(["-", "nsA", "nsB.sub"])))
            else:
                L.append("alias z%d %s 0" % (st["n"], rng.choice(["al", "al2", "nosuch", "nosuch", "z%d" % st["n"]])))
                st.setdefault("aliases", []).append("z%d" % st["n"])
                st["n"] += 1
            L.append("lists")
        L += ["dumpmeta", "validateall", "nframes", "close"]
        chunks.append(L)
    resB = streams.run_chunks(harness, chunks, "c15b")
    opstat = {}
    nlists = 0
    for ci, (lines, out, crashed, err) in enumerate(resB):
        if crashed:
            bad = lines[min(len(out), len(lines) - 1)]
            prev = [l for l in lines[:len(out)] if l.split()[0] not in ("lists", "reset", "file", "open")][-1:]
            ctx.fail("input", "library aborted at '%s' (after '%s'): %s" % (bad, prev[0] if prev else "", err[-400:]),
                     {"script": lines[:len(out) + 1], "stderr": err[-3000:]}, sig={"class": "crash", "op": (prev[0] if prev else bad).split()[0]})
        lastop = None
        for i, l in enumerate(lines):
            if i >= len(out):
                break
            t = l.split()[0]
            if t == "lists":
                nlists += 1
                ctx.evaluations += 1
                a = streams.strip_rl(out[i])[0]
                ctx.distinct.add(("lists", lastop.split()[0] if lastop else ""))
                if not a.startswith("lists ok"):
                    opn = lastop.split()[0] if lastop else ""
                    why = a
                    cls = "lists"
                    ctx.fail("input", "after '%s' (%s): %s" % (lastop[:70] if lastop else "", streams.strip_rl(out[i - 1])[0][:40], why[:200]),
                             {"script": lines[:i + 1]}, sig={"class": cls, "op": opn, "what": re.sub(r'[0-9]+', 'N', why.split("=")[0])[:40]})
                    break
            elif t not in ("reset", "file", "open", "dumpmeta", "validateall", "nframes", "close"):
                lastop = l
                if t == "delete" and i > 0 and lines[i - 1] == "dumpmeta":
                    name, fl = l.split()[1], int(l.split()[2])
                    users = [it.split()[1] for it in out[i - 1].split("|")
                             if it.startswith("E ") and re.search(r' in2?="%s(\.[a-z])?"' % re.escape(name), it)]
                    ctx.evaluations += 1
                    if users and not (fl & 8) and " e=0" in out[i]:
                        # GD_DEL_FORCE not given and the field is an input of another field: must be refused
                        ctx.fail("input", "%s succeeded although %s use(s) it as an input and GD_DEL_FORCE was not given" % (l, ",".join(users[:3])),
                                 {"script": lines[:i + 1]}, sig={"class": "delete-not-refused"})
                        break
                if t == "rename" and i > 0 and lines[i - 1] == "dumpmeta" and i + 1 < len(out) and lines[i + 1] == "dumpmeta" and " e=0" in out[i]:
                    oldn, newn, fl = l.split()[1], l.split()[2], int(l.split()[3])
                    newfull = (oldn.split("/")[0] + "/" + newn) if "/" in oldn else newn
                    if fl & 2 and newfull != oldn:        # GD_REN_UPDB: every use of the old name follows the rename
                        def uses(dump, name):
                            u = []
                            for it in dump.split("|"):
                                # (an alias is shown with its target's parameters: it has no uses of its own)
                                if it.startswith("E ") and " ALIAS-OF=" not in it and re.search(r'(?: in2?=|<)"%s(\.[a-z])?"' % re.escape(name), it):
                                    u.append(it.split()[1].strip('"'))
                            return u
                        before = [x for x in uses(out[i - 1], oldn) if x != oldn and not x.startswith(oldn + "/")]
                        stale = uses(out[i + 1], oldn)
                        after = uses(out[i + 1], newfull)
                        ctx.evaluations += 1
                        ctx.distinct.add(("rename-updb", bool(before), "/" in oldn))
                        missing = [x for x in before if x not in after]
                        if stale or missing:
                            ctx.fail("input", "%s (GD_REN_UPDB) succeeded but %s still refer(s) to the old name / %s not updated to %s" % (l, stale[:3], missing[:3], newfull),
                                     {"script": lines[:i + 2]}, sig={"class": "rename-not-propagated"})
                            break
                key = t + (" ok" if " e=0" in out[i] else " refused")
                opstat[key] = opstat.get(key, 0) + 1
            elif t == "validateall":
                a = out[i]
                if "crash" in a or "BAD" in a:
                    ctx.fail("input", "validation: %s" % a[:200], {"script": lines[:i + 1]}, sig={"class": "validate"})
    ctx.coverage.update({
        "rule": "A: 30/120 scripts of 10-45 adds (five field kinds), metafield adds, forced deletes with metafields and renames over short colliding names; D->entry[] compared with the Lean table after every call. "
                "B: 70/260 template dirfiles x 3-16 calls drawn from all metadata mutators (C07 pool) plus delete with every flag combination, rename with UPDB/DANGLE, move, uninclude (with and without deleting), "
                "namespace changes, alias chains and dangling aliases; the list-consistency audit runs after every call",
        "table_comparisons": ntab, "list_audits": nlists, "calls": opstat,
    })
    if resB and resB[0][1]:
        ctx.sample({"ops": [l[:70] for l in resB[0][0] if l.split()[0] not in ("reset", "file", "lists")][:8]})
    if not ok and not any(f.kind == "input" for f in ctx.failures):
        names = [o[0] for o in ctx.obligations if not o[1]]
        ctx.fail("obligation", "Lean obligations no longer check: " + "; ".join(names)[:300] + " :: " + lr.errors[-500:],
                 {"theorem": names, "lean_errors": lr.errors[-3000:]}, has_input=False)


def replay(ctx, obj):
    harness = C.build_harness("gdh", ["gdh.c"])
    lines = obj.get("script", [])
    out, rc, err = streams.run_gdh(harness, lines, "replay")
    for l, a in list(zip(lines, out))[-4:]:
        print(l[:100], "\n  library:", a[:300])
    if rc or len(out) < len(lines):
        print("library aborted:", err[-600:])
        return 1
    return 0 if out[-1].startswith(("lists ok", "etable")) else 1
