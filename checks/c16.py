"""C16 — reported extents agree with what can be read."""
import os, sys
import struct
from vlib import common as C
from vlib import framework as F
from vlib import gen, streams
from checks.c01 import split_flags, same_mod_junk

ASSUMPTIONS = [
    "field model as in C01 (complex fields, MPLEX, SINDIR outside); sizes of encoded files come from the library's codec size methods and are compared with the sample count of the generated data",
    "(double)ds1/spf1 > (double)ds/spf in _GD_GetBOF modelled with exact integers (exact for 32-bit operands)",
    "appends through the same handle are judged by the library-only relation (count = min(n, max(0, gd_eof - s)), gd_eof = highest sample written + 1)",
]
CHECKER_CMD = "cd /verif/lean && lake build GdModel.Props.C16 && lake env lean <generated #print axioms file>"
MODULES = ["GdModel.Props.C16"]
ENCS = ['none', 'none', 'text', 'sie', 'gzip', 'bzip2', 'lzma']


def phase1(df, rng):
    L = df.script()
    for nm in df.vector_names():
        L += ["eof " + nm, "bof " + nm, "spf " + nm]
    L.append("nframes")
    return L


def add_subframe_pair(df, rng, i):
    """two inputs of different rates, each delayed by a negative PHASE shift that is not a whole number of frames, so
    that both begin inside the same frame: gd_bof of a field on both must pick the one that starts later *in time*
    (sub-frame offsets compared as fractions of a frame, not as sample counts)"""
    sa, sb = rng.choice([(4, 16), (2, 8), (3, 5), (16, 4), (5, 2), (2, 3)])
    nfr = rng.randint(3, 6)
    ty = rng.choice(["f64", "i32", "u16"])
    a = df.add_raw("qa%d" % i, ty, sa, nsamp=sa * nfr)
    b = df.add_raw("qb%d" % i, ty, sb, nsamp=sb * nfr)
    fr = rng.choice([0, 0, 1])
    ka = fr * sa + rng.randint(1, sa - 1)
    kb = fr * sb + rng.randint(1, sb - 1)
    for (nm, src, k) in (("qpa%d" % i, a, ka), ("qpb%d" % i, b, kb)):
        df.fields.append(dict(kind="phase", name=nm, text="%s PHASE %s %d" % (nm, src["name"], -k), deff="phase %s %s %d" % (nm, src["name"], -k),
                              depth=1, inputs=[src["name"]]))
    one, zero = gen.f64hex(1.0), gen.f64hex(0.0)
    pa, pb = "qpa%d" % i, "qpb%d" % i
    df.fields.append(dict(kind="lincom", name="qlab%d" % i, text="qlab%d LINCOM 2 %s 1 0 %s 1 0" % (i, pa, pb),
                          deff="lincom qlab%d %s %s %s %s %s %s" % (i, pa, one, zero, pb, one, zero), depth=2, inputs=[pa, pb]))
    df.fields.append(dict(kind="lincom", name="qlba%d" % i, text="qlba%d LINCOM 2 %s 1 0 %s 1 0" % (i, pb, pa),
                          deff="lincom qlba%d %s %s %s %s %s %s" % (i, pb, one, zero, pa, one, zero), depth=2, inputs=[pb, pa]))
    df.fields.append(dict(kind="multiply", name="qmab%d" % i, text="qmab%d MULTIPLY %s %s" % (i, pa, pb), deff="multiply qmab%d %s %s" % (i, pa, pb), depth=2, inputs=[pa, pb]))
    df.fields.append(dict(kind="divide", name="qdba%d" % i, text="qdba%d DIVIDE %s %s" % (i, pb, pa), deff="divide qdba%d %s %s" % (i, pb, pa), depth=2, inputs=[pb, pa]))


def parse_val(line):
    # 'eof 12 e=0 rl=0' -> (12, 0)
    t = line.split()
    try:
        return int(t[1]), int(t[2].split("=")[1])
    except Exception:
        return None, None


def run(ctx):
    ok, lr, infos = F.lean_obligations(ctx, MODULES, [])
    gdmodel = C.build_gdmodel()
    try:
        harness = C.build_harness("gdh", ["gdh.c"])
    except RuntimeError as e:
        raise F.C_BuildError(str(e))
    rng = ctx.rng
    ndf = 1500 if ctx.thorough() else 330
    dfs = []
    for i in range(ndf):
        enc = ENCS[i % len(ENCS)]
        df = gen.Dirfile(rng, regime='exact', enc=enc, depth=4, max_fields=7,
                         allow=('lincom', 'lincom', 'lincom', 'linterp', 'bit', 'multiply', 'divide', 'recip', 'phase', 'phase',
                                'phase', 'polynom', 'window'))
        if i % 5 == 3:
            add_subframe_pair(df, rng, i)
        dfs.append(df)
    p1 = [phase1(df, rng) for df in dfs]
    res1 = streams.run_chunks(harness, p1, "c16a")
    chunks = []
    for ci, df in enumerate(dfs):
        lines, out, crashed, err = res1[ci] if ci < len(res1) else (p1[ci], [], True, "")
        L = list(p1[ci])
        vals = {}
        for i, l in enumerate(lines):
            if i < len(out) and l.split()[0] in ("eof", "bof"):
                vals[(l.split()[0], l.split()[1])] = parse_val(out[i])
        for nm in df.vector_names():
            E, ee = vals.get(("eof", nm), (None, None))
            B, be = vals.get(("bof", nm), (None, None))
            starts = set()
            if B is not None and be == 0:
                starts |= {B - 2, B - 1, B, B + 1, B + 2}
            if E is not None and ee == 0:
                starts |= {E - 3, E - 2, E - 1, E, E + 1, E + 2}
            starts |= {0, rng.randint(0, 30)}
            for s in sorted(x for x in starts if x >= 0):
                for n in rng.sample([0, 1, 2, 5, 1000], 2):
                    L.append("get %s 0 %d 0 %d f64" % (nm, s, n))
        chunks.append(L)
    res = streams.run_chunks(harness, chunks, "c16b")
    flat = [l for c in chunks for l in c]
    mo, _, merr = streams.run_model(gdmodel, flat)
    so, _, _ = streams.run_model(gdmodel, flat, spec=True)
    if len(mo) != len(flat) or len(so) != len(flat):
        ctx.fail("correspondence", "Lean driver line count mismatch: " + merr[-300:], {"correspondence": "gen_extents"}, has_input=False)
        return
    k = 0
    hist = {}
    def script_of(lines, l):
        return [x for x in lines if x.split()[0] in ("reset", "file", "def", "open")] + [l]
    reported = set()
    for ci, (lines, out, crashed, err) in enumerate(res):
        df = dfs[ci]
        if crashed:
            bad = lines[min(len(out), len(lines) - 1)]
            ctx.fail("input", "library aborted at op '%s': %s" % (bad, err[-300:]),
                     {"script": lines[:len(out) + 1], "stderr": err[-2500:]}, sig={"class": "crash"})
        eofs = {}
        for i, l in enumerate(lines):
            if i >= len(out):
                break
            t = l.split()
            op = t[0]
            if op not in ("get", "eof", "bof", "nframes", "spf"):
                continue
            a, rl = streams.strip_rl(out[i])
            m, al, here = split_flags(mo[k + i])
            s, _, _ = split_flags(so[k + i])
            if m.startswith("unsupported"):
                continue
            ctx.evaluations += 1
            hist[op] = hist.get(op, 0) + 1
            if rl not in (None, 0):
                ctx.fail("input", "recursion counter is %d after '%s'" % (rl, l), {"script": script_of(lines, l)}, sig={"class": "recurse_level"})
            if op == "eof":
                eofs[t[1]] = parse_val(a)
                ctx.distinct.add(("eof", df.enc, a == s))
                if a != s:
                    cls = "eof-clamp" if a == m else "eof"
                    if (cls, "x") not in reported or cls == "eof":
                        reported.add((cls, "x"))
                        ctx.fail("input", "%s [%s]: gd_eof reports '%s', the pointwise end-of-field is '%s'" % (l, df.enc, a, s),
                                 {"script": script_of(lines, l), "expected": s, "observed": a, "format": df.format_text()}, sig={"class": cls})
                    else:
                        ctx.failures.append(F.Failure("input", "", {}, {"class": cls}, True))
            elif op == "bof":
                ctx.distinct.add(("bof", a == s))
                if a != s:
                    cls = "bof-floor" if a == m else "bof"
                    if (cls, "x") not in reported or cls == "bof":
                        reported.add((cls, "x"))
                        ctx.fail("input", "%s: gd_bof reports '%s', the first data sample is '%s'" % (l, a, s),
                                 {"script": script_of(lines, l), "expected": s, "observed": a, "format": df.format_text()}, sig={"class": cls})
                    else:
                        ctx.failures.append(F.Failure("input", "", {}, {"class": cls}, True))
            elif op == "nframes":
                ctx.distinct.add(("nframes", df.enc))
                if a != s:
                    ctx.fail("input", "gd_nframes [%s] reports '%s', the reference field holds '%s'" % (df.enc, a, s),
                             {"script": script_of(lines, l), "expected": s, "observed": a, "format": df.format_text()}, sig={"class": "nframes"})
            elif op == "get":
                # the property, on the library alone: count = min(n, max(0, gd_eof - s))
                E, ee = eofs.get(t[1], (None, None))
                s0, n = int(t[3]), int(t[5])
                got_n = int(a.split()[1].split("=")[1]) if a.startswith("get n=") else -1
                if ee == 0:
                    want_n = min(n, max(0, E - s0))
                elif ee == -12:
                    want_n = n
                else:
                    want_n = None
                ctx.distinct.add(("get", al, here, got_n == 0, got_n == n, df.enc))
                if want_n is not None and got_n != want_n:
                    cls = "here" if here else ("unaligned" if not al else ("eof-clamp" if a == m and a == s else "count"))
                    if (cls, "c") not in reported or cls == "count":
                        reported.add((cls, "c"))
                        ctx.fail("input", "%s [%s]: returns %d samples, but gd_eof=%s promises min(n, max(0, eof-s)) = %d [%s]" % (
                            l, df.enc, got_n, E, want_n, cls),
                            {"script": script_of(lines, "eof " + t[1]) + [l], "expected": want_n, "observed": got_n,
                             "format": df.format_text()}, sig={"class": cls})
                    else:
                        ctx.failures.append(F.Failure("input", "", {}, {"class": cls}, True))
            # correspondence with the impl model
            if not here and not same_mod_junk(a, m, al):
                if len([f for f in ctx.failures if f.kind == "correspondence"]) < 3:
                    ctx.fail("correspondence", "impl model and library differ on '%s' [%s]: model '%s', library '%s'" % (l, df.enc, m[:100], a[:100]),
                             {"correspondence": "gen_extents", "script": script_of(lines, l), "model": m, "observed": a}, has_input=False)
        k += len(lines)
    # ---- stream R: the reference field lives in an included fragment with its own frame offset; extents right after a write ----
    rchunks, rmeta = [], []
    for i in range(60 if ctx.thorough() else 18):
        enc = rng.choice(['none', 'text', 'sie', 'gzip'])
        ty = rng.choice(['u8', 'u16', 'i32', 'f64'])
        spf = rng.choice([1, 2, 3, 5])
        fo0, fo1 = rng.choice([0, 2, 7]), rng.choice([0, 1, 3, 5])
        n = rng.choice([0, 1, spf, 3 * spf + rng.randint(0, spf - 1), 17])
        vals = [rng.randint(0, 9) for _ in range(n)]
        how = rng.choice(["explicit", "implicit", "root"])
        root = ["/VERSION 10", "/ENCODING " + enc] + (["/FRAMEOFFSET %d" % fo0] if fo0 else [])
        # (always spelled out: an included fragment without /FRAMEOFFSET inherits its parent's — C09)
        sub = ["/VERSION 10", "/ENCODING " + enc, "/FRAMEOFFSET %d" % fo1, "r RAW %s %d" % (gen.GDNAME[ty], spf)]
        if how == "root":
            root += ["r RAW %s %d" % (gen.GDNAME[ty], spf), "k CONST UINT8 1"]
            sub = sub[:-1] + ["q CONST UINT8 2"]
            fo, path = fo0, "r"
        else:
            root += ["/INCLUDE sub/inc"] + (["/REFERENCE r"] if how == "explicit" else []) + ["k CONST UINT8 1"]
            fo, path = fo1, "sub/r"
        if how == "root":
            root.insert(len(root) - 2, "/INCLUDE sub/inc")
        raw = gen.encode_samples(ty, 'le', vals)
        L = ["reset", "file format " + ("\n".join(root) + "\n").encode().hex(), "file sub/inc " + ("\n".join(sub) + "\n").encode().hex(),
             "file %s%s %s" % (path, gen.ENC_EXT[enc], gen.file_encode(enc, ty, 'le', vals, raw).hex()),
             "open rdwr", "nframes", "eof r"]
        k = rng.randint(1, 2 * spf + 1)
        L += ["put r 0 %d %s %s" % (fo * spf + n, ty, ",".join("%x" % (v if ty != 'f64' else struct.unpack('<Q', struct.pack('<d', float(v)))[0]) for v in range(1, k + 1))),
              "eof r", "nframes", "get r 0 0 0 100000 f64"]
        rchunks.append(L)
        rmeta.append((enc, ty, spf, fo, n, k, how))
    for ci, (lines, out, crashed, err) in enumerate(streams.run_chunks(harness, rchunks, "c16r")):
        enc, ty, spf, fo, n, k, how = rmeta[ci]
        if crashed or len(out) < len(lines):
            ctx.fail("input", "library aborted in the reference-fragment stream: %s" % err[-300:], {"script": lines[:len(out) + 1], "stderr": err[-2500:]}, sig={"class": "crash"})
            continue
        ans = [streams.strip_rl(o)[0] for o in out]
        ctx.evaluations += 4
        ctx.distinct.add(("ref-fragment", enc, how))
        exp = [("nframes", 5, "nframes %d e=0" % (fo + n // spf)), ("eof r", 6, "eof %d e=0" % (fo * spf + n)),
               ("eof r after the write", 8, "eof %d e=0" % (fo * spf + n + k)), ("nframes after the write", 9, "nframes %d e=0" % (fo + (n + k) // spf))]
        for what, idx, e in exp:
            if ans[idx] != e:
                ctx.fail("input", "%s [%s, reference field %s, frame offset %d, %d + %d samples at %d per frame]: library '%s', the field holds '%s'" % (
                    what, enc, how, fo, n, k, spf, ans[idx], e), {"script": lines[:idx + 1], "expected": e, "observed": ans[idx]},
                    sig={"class": "nframes" if what.startswith("nframes") else "eof"})
                break
        else:
            got = ans[10].split(" d=")[0]
            if got != "get n=%d e=0" % (fo * spf + n + k):
                ctx.fail("input", "get r after the write returns '%s', the field holds %d samples" % (got, fo * spf + n + k), {"script": lines}, sig={"class": "count"})
    ctx.coverage.update({
        "rule": "random dirfiles as in C01 biased to PHASE shifts (both directions, larger than the field), unequal lengths and rates, partial trailing frames and samples, "
                "encodings none/text/sie/gzip/bzip2/lzma; per field gd_eof, gd_bof, gd_spf and gets straddling both ends (s in bof-2..bof+2, eof-3..eof+2; n in {0,1,2,5,1000}); "
                "each get count checked against the library's own gd_eof (the property), every answer against the impl model and the spec",
        "dirfiles": ndf, "ops": hist,
        "reference_fragment_stream": "%d dirfiles: reference field explicit / implicit in an included fragment with its own /FRAMEOFFSET, or in the root; gd_nframes and gd_eof before and immediately after an append through the same handle (none, text, sie, gzip)" % len(rchunks),
    })
    if res:
        lines, out, _, _ = res[0]
        for i, l in enumerate(lines):
            if l.split()[0] in ("eof", "bof", "get") and i < len(out) and len(ctx.samples) < 5:
                ctx.sample({"op": l, "impl": out[i][:120], "model": mo[i][:120], "spec": so[i][:120]})
    if not ok and not any(f.kind == "input" and f.sig.get("class") in ("count", "eof", "bof", "nframes") for f in ctx.failures):
        names = [o[0] for o in ctx.obligations if not o[1]]
        ctx.fail("obligation", "Lean obligations no longer check: " + "; ".join(names)[:300] + " :: " + lr.errors[-500:],
                 {"theorem": names, "lean_errors": lr.errors[-3000:]}, has_input=False)


def replay(ctx, obj):
    gdmodel = C.build_gdmodel()
    harness = C.build_harness("gdh", ["gdh.c"])
    lines = obj.get("script", [])
    out, rc, err = streams.run_gdh(harness, lines, "replay")
    so, _, _ = streams.run_model(gdmodel, lines, spec=True)
    bad = 0
    for i, l in enumerate(lines):
        if l.split()[0] in ("get", "eof", "bof", "nframes"):
            a = streams.strip_rl(out[i])[0] if i < len(out) else "?"
            s = split_flags(so[i])[0]
            print(l, "\n  library:", a, "\n  spec:   ", s)
            if a != s:
                bad = 1
    return bad
