"""C17 — sequential access with I/O pointers equals random access."""
from vlib import common as C
from vlib import framework as F
from vlib import history
from checks import c02

ASSUMPTIONS = [
    "pointer model GdModel.Field.IOPos: single-rate field trees, read mode; the write-side pointer of out-of-place encodings (file[1]) is exercised by the C03 stream",
    "oracles on the real library: after a successful absolute read of c samples at s, gd_tell = s+c for that field; gd_seek(SET, p) with bof<=p<=eof returns p; a GD_HERE read returns the slice at the position gd_tell reported; a failed gd_tell is followed by a failing GD_HERE read",
    "with an open-file limit active any call may auto-close (rewind) another RAW file, so pointer oracles are suspended while gd_open_limit > 0 (absolute reads are still judged by C02)",
    "PHASE fields follow the code's sign convention (known finding 5.30, pinned by test/seek_phase.c)",
]
CHECKER_CMD = "cd /verif/lean && lake build GdModel.Props.C17 && lake env lean <generated #print axioms file>"
MODULES = ["GdModel.Props.C17"]


def run(ctx):
    ok, lr, infos = F.lean_obligations(ctx, MODULES, [])
    built, res, allbad, tot = c02.run_streams(ctx, "c17", judge_tell=True)
    ctx.coverage.update({
        "rule": "the C02 history stream (six encodings, small H1 buffers, RAW + derived + PHASE + MPLEX, absolute and GD_HERE reads, seeks SET/CUR/END, raw_close, flush, open_limit) "
                "with pointer oracles: tell after every read, seek result, GD_HERE read = slice at tell; distinct = (encoding, field kind, GD_HERE?, empty?, short?)",
        "scripts": len(built), "op_histogram": tot, "small_buffers": history.SMALL_BUF_DEFINES,
    })
    if res:
        lines, out, _, _ = res[0]
        n = 0
        for i, l in enumerate(lines):
            if l.startswith(("tell", "seek")) and i > len(lines) // 2 and i < len(out) and n < 5:
                ctx.sample({"op": l, "library": out[i][:140]})
                n += 1
    # purity failures belong to C02; here only pointer classes and crashes
    mine = [b for b in allbad if b[0][0] in ("tell", "seek", "phase-sign", "here-guess", "recurse_level", "fail-accepted")]
    c02.report(ctx, mine, ())
    if not ok and not any(f.kind == "input" for f in ctx.failures):
        names = [o[0] for o in ctx.obligations if not o[1]]
        ctx.fail("obligation", "Lean obligations no longer check: " + "; ".join(names)[:300] + " :: " + lr.errors[-500:],
                 {"theorem": names, "lean_errors": lr.errors[-3000:]}, has_input=False)


replay = c02.replay
