"""C18 — a dirfile being appended to can be read concurrently and consistently."""
import re, struct
from vlib import common as C
from vlib import framework as F
from vlib import streams, gen
from checks.c10 import hx

ASSUMPTIONS = [
    "the reader's view is modelled as a function of the bytes it finds (frame count = offset + floor(floor(bytes/size)/spf), samples = decoded whole-sample prefix) and proved monotone and prefix-faithful for every append history, partial trailing samples included; publication by rename reuses the C12 crash theorem (Props/C18)",
    "the writer and the readers are handles in one process: a long-lived read-only handle, a fresh handle after every writer step, and - for the moments in between the writer's system calls - a fresh handle on a copy of the directory taken before each interposed call of the flush (the same device as C12/C14)",
    "a writer caught in the middle of a write(2) is emulated for the unencoded and text encodings by appending the first bytes of the next sample / line to the data file before the writer writes it",
]
CHECKER_CMD = "cd /verif/lean && lake build GdModel.Props.C18 && lake env lean <generated #print axioms file>"
MODULES = ["GdModel.Props.C18"]
ENCS = ['none', 'text', 'sie', 'gzip', 'bzip2', 'lzma']


def f64(v):
    return "%x" % struct.unpack('<Q', struct.pack('<d', float(v)))[0]


def scenario(rng, enc):
    ty = rng.choice(['u16', 'i32', 'f64', 'u8'])
    spf = rng.choice([1, 2, 3])
    foff = rng.choice([0, 0, 2])
    n0 = rng.choice([0, 1, 4]) * spf
    vals = [rng.randint(0, 200) for _ in range(n0)]
    fmt = ["/VERSION 10", "/ENDIAN little", "/ENCODING " + enc] + (["/FRAMEOFFSET %d" % foff] if foff else []) + ["t RAW %s %d" % (gen.GDNAME[ty], spf), "u RAW UINT8 1"]
    raw = gen.encode_samples(ty, 'le', vals)
    L = ["reset", "file format " + hx("\n".join(fmt) + "\n"),
         "file t%s %s" % (gen.ENC_EXT[enc], gen.file_encode(enc, ty, 'le', vals, raw).hex()),
         "file u%s %s" % (gen.ENC_EXT[enc], gen.file_encode(enc, 'u8', 'le', [1] * (n0 // spf), bytes([1] * (n0 // spf))).hex()),
         "open rdonly", "nframes", "swap", "open rdwr"]
    steps = []      # (index of line, kind, info)
    written = list(vals)
    for r in range(rng.randint(2, 6)):
        k = rng.randint(1, 3) * spf + rng.choice([0, 0, 1 if spf > 1 else 0])     # sometimes a partial frame
        new = [rng.randint(0, 200) for _ in range(k)]
        if enc in ('none', 'text') and rng.random() < 0.5:
            # the writer is caught in the middle of writing the next sample
            if enc == 'none':
                b = gen.encode_samples(ty, 'le', [new[0]])
                cut = rng.randint(1, max(1, len(b) - 1)) if len(b) > 1 else 0
                part = b[:cut]
            else:
                part = str(new[0]).encode()[:1]
            if part:
                L.append("append t%s %s" % (gen.ENC_EXT[enc], part.hex()))
                L += ["swap", "nframes", "get t 0 0 100000 0 f64", "swap", "snapnf live t"]
                steps.append((len(L) - 5, "partial", list(written)))
                if enc == 'text':
                    # the writer then completes its line: emulate by appending the rest and a newline, and skip this sample in the put
                    L.append("append t.txt %s" % (str(new[0]).encode()[1:] + b"\n").hex())
                    written.append(new[0])
                    new = new[1:]
        if new:
            pos = foff * spf + len(written)
            L.append("put t 0 %d f64 %s" % (pos, ",".join(f64(v) for v in new)))
            written += new
        how = rng.choice(["flush t", "sync t", "flush", "rawclose t"])
        oop = enc in ('gzip', 'bzip2', 'lzma')
        if oop:
            L += ["fault arm", "fault snap all", how if how != "sync t" else "flush t", "fault log", "fault off"]
            steps.append((len(L) - 3, "oopflush", list(written)))
        else:
            L.append(how)
        L += ["swap", "nframes", "get t 0 0 100000 0 f64", "swap", "snapnf live t"]
        steps.append((len(L) - 5, "after", list(written)))
    info = {"enc": enc, "ty": ty, "spf": spf, "foff": foff}
    return L, steps, info


def run(ctx):
    ok, lr, infos = F.lean_obligations(ctx, MODULES, [])
    try:
        harness = C.build_harness("gdh", ["gdh.c"])
    except RuntimeError as e:
        raise F.C_BuildError(str(e))
    rng = ctx.rng
    reps = 8 if ctx.thorough() else 2
    scen = [scenario(rng, enc) for _ in range(reps) for enc in ENCS]
    res = streams.run_chunks(harness, [s[0] for s in scen], "c18a")
    # second pass: inspect the snapshots of the out-of-place flushes
    chunks2, meta2 = [], []
    stats = {"reader_checks": 0, "fresh_checks": 0, "snapshot_checks": 0, "partial_states": 0}

    def expect(info, written):
        return info["foff"] + len(written) // info["spf"]

    def check_reader(tag, info, written, nf, data, lines, i, prev, partial=False):
        exp = expect(info, written)
        pre = [float('nan')] * 0
        problems = []
        if nf < prev:
            problems.append("gd_nframes went down from %d to %d" % (prev, nf))
        if nf > exp:
            problems.append("gd_nframes %d exceeds the %d frames the writer has completed" % (nf, exp))
        if data is not None:
            lead = info["foff"] * info["spf"]
            got = data[lead:]
            want = [f64(v) for v in written[:len(got)]]
            if got != want:
                j = next((x for x in range(min(len(got), len(want))) if got[x] != want[x]), min(len(got), len(want)))
                problems.append("sample %d below the reported count is %s, the writer wrote %s" % (j, got[j] if j < len(got) else None, want[j] if j < len(want) else None))
            if len(data) < max(0, nf) * info["spf"] - 0 and nf * info["spf"] - len(data) > 0:
                problems.append("%d frames reported but only %d samples returned" % (nf, len(data)))
        if problems:
            cls = "reader"
            if info["enc"] == "text" and partial and len(problems) <= 2 and all(("exceeds" in p or "the writer wrote None" in p) for p in problems):
                cls = "text-partial-line-reported"
            elif info["enc"] in ("gzip", "bzip2", "lzma") and tag.startswith("long") and len(problems) == 1 and "samples returned" in problems[0]:
                cls = "long-lived-reader-keeps-replaced-file"
            ctx.fail("input", "%s reader [%s %s spf=%d foff=%d]: %s" % (tag, info["enc"], info["ty"], info["spf"], info["foff"], "; ".join(problems)[:400]),
                     {"script": lines[:i + 5]}, sig={"class": cls, "enc": info["enc"], "tag": tag.split()[0]} if cls == "reader" else {"class": cls})
            return False
        return True

    for si, (lines, out, crashed, err) in enumerate(res):
        L, steps, info = scen[si]
        if crashed or len(out) < len(lines):
            ctx.fail("input", "library aborted [%s]: %s" % (info, err[-300:]), {"script": lines[:len(out) + 1], "stderr": err[-2000:]}, sig={"class": "crash", "enc": info["enc"]})
            continue
        prev_long = int(out[5].split()[1])
        prev_fresh = prev_long
        skip_long = False
        for (i, kind, written) in steps:
            if kind == "oopflush":
                m = re.match(r'faultlog n=(\d+)', out[i + 1])
                n = int(m.group(1)) if m else 0
                if n:
                    S = L[:i + 1] + ["fault off"] + ["snapnf %d t" % k for k in range(1, n + 1)]
                    chunks2.append(S)
                    meta2.append((si, i, n, written, prev_fresh))
                continue
            # lines: i = swap, i+1 = nframes, i+2 = get, i+3 = swap, i+4 = snapnf live
            if kind == "partial":
                stats["partial_states"] += 1
            a = streams.strip_rl(out[i + 1])[0].split()
            nf, e = int(a[1]), a[2]
            g = streams.strip_rl(out[i + 2])[0]
            ctx.evaluations += 1
            stats["reader_checks"] += 1
            ctx.distinct.add((info["enc"], kind, "long"))
            if e != "e=0" or " e=0" not in g:
                ctx.fail("input", "long-lived reader fails after a writer step [%s]: nframes '%s', getdata '%s'" % (info["enc"], " ".join(a), g[:60]),
                         {"script": lines[:i + 4]}, sig={"class": "reader-error", "enc": info["enc"], "tag": "long"})
                break
            data = g.split("d=")[1].split(",") if "d=" in g and g.split("d=")[1] else []
            if not skip_long and not check_reader("long-lived", info, written, nf, data, lines, i, prev_long, kind == "partial"):
                if info["enc"] in ("gzip", "bzip2", "lzma"):
                    skip_long = True        # reported once; the fresh and mid-flush readers are still to be judged
                else:
                    break
            prev_long = max(prev_long, nf)
            fr = out[i + 4]
            m = re.match(r'snapnf open=(-?\d+) nf=(-?\d+) e=(-?\d+)(?: n=(\d+) ge=(-?\d+) d=(.*))?$', fr)
            stats["fresh_checks"] += 1
            ctx.evaluations += 1
            ctx.distinct.add((info["enc"], kind, "fresh"))
            if not m or m.group(1) != "0" or m.group(3) != "0" or (m.group(5) not in (None, "0")):
                ctx.fail("input", "fresh reader fails after a writer step [%s]: %s" % (info["enc"], fr[:80]), {"script": lines[:i + 5]},
                         sig={"class": "reader-error", "enc": info["enc"], "tag": "fresh"})
                break
            fdata = m.group(6).split(",") if m.group(6) else []
            if not check_reader("fresh", info, written, int(m.group(2)), fdata, lines, i, prev_fresh, kind == "partial"):
                break
            prev_fresh = int(m.group(2))
            if kind == "after" and int(m.group(2)) != expect(info, written):
                ctx.fail("input", "fresh reader after a completed %s sees %d frames, the writer has flushed %d [%s]" % (lines[i - 1], int(m.group(2)), expect(info, written), info["enc"]),
                         {"script": lines[:i + 5]}, sig={"class": "not-published", "enc": info["enc"]})
                break
    res2 = streams.run_chunks(harness, chunks2, "c18b") if chunks2 else []
    for ci, (lines, out, crashed, err) in enumerate(res2):
        si, i, n, written, prev = meta2[ci]
        L, steps, info = scen[si]
        if crashed or len(out) < len(lines):
            continue
        for k in range(1, n + 1):
            fr = out[i + 1 + k]
            m = re.match(r'snapnf open=(-?\d+) nf=(-?\d+) e=(-?\d+)(?: n=(\d+) ge=(-?\d+) d=(.*))?$', fr)
            stats["snapshot_checks"] += 1
            ctx.evaluations += 1
            ctx.distinct.add((info["enc"], "snapshot"))
            if not m or m.group(1) != "0" or m.group(3) != "0" or (m.group(5) not in (None, "0")):
                ctx.fail("input", "a reader arriving before call %d of the writer's flush fails [%s]: %s" % (k, info["enc"], fr[:90]),
                         {"script": lines[:i + 2] + ["snapnf %d t" % k]}, sig={"class": "reader-error", "enc": info["enc"], "tag": "snapshot"})
                break
            fdata = m.group(6).split(",") if m.group(6) else []
            if not check_reader("mid-flush (before call %d)" % k, info, written, int(m.group(2)), fdata, lines, i, prev):
                break
    # ---- 64-bit frame offsets across a metadata rewrite --------------------------------------
    # the writer appends, changes some metadata and flushes it; a reader that opens the dirfile afresh at each point
    # must never see fewer frames than a reader saw before, and exactly the frames written
    bchunks, bmeta = [], []
    for rep in range(8 if ctx.thorough() else 4):
        F0 = rng.choice([2 ** 32 + 123, 5000000123, 2 ** 40 + 7, 2 ** 31 + 5])
        spf = rng.choice([1, 2])
        more, files = "", []
        if rep % 2:
            # the reference field is implicit (the first RAW field in the file) and neither the alphabetically first nor the
            # last RAW field; the other RAW fields have other lengths.  Rewriting the metadata must not change which field counts.
            F0 = rng.choice([0, 3, 2 ** 32 + 9])
            more = "adc RAW UINT8 1\nzz RAW UINT8 1\n" + rng.choice(["", "m RAW UINT8 1\n"])
            files = ["file adc 01", "file zz " + "07" * 40, "file m 0102"]
        L = ["reset", "file format " + hx("/VERSION 10\n/ENDIAN little\n/ENCODING none\n/FRAMEOFFSET %d\nt RAW UINT8 %d\n%sk CONST UINT8 1\n%s" % (
            F0, spf, more, "q RAW UINT8 1\n" if (more and rng.random() < 0.5) else "")), "file t "] + files + ["file q 01020304"]
        points = []
        nwritten = 0
        for st in range(rng.randint(3, 6)):
            k = rng.randint(1, 3) * spf
            L += ["open rdwr", "put t %d %d f64 %s" % (F0 + nwritten // spf, nwritten % spf, ",".join(f64(v) for v in range(1, k + 1)))]
            nwritten += k
            if st % 2 == 1:
                L += [rng.choice(["putconst k f64 %s" % f64(st), "addspec 0 " + hx("n%d CONST UINT8 %d" % (st, st))]), rng.choice(["metaflush", "flush", "rewrite -1"])]
            L += ["close", "open rdonly", "nframes"]
            points.append((len(L) - 1, F0 + nwritten // spf))
            L.append("get t %d 0 1 0 u8" % F0)
        bchunks.append(L)
        bmeta.append((F0, spf, points))
    bres = streams.run_chunks(harness, bchunks, "c18b")
    for bi, (lines, out, crashed, err) in enumerate(bres):
        F0, spf, points = bmeta[bi]
        if crashed:
            ctx.fail("input", "library aborted in the 64-bit frame offset stream: %s" % err[-300:], {"script": lines[:len(out) + 1], "stderr": err[-2000:]}, sig={"class": "crash", "enc": "none"})
            continue
        prev = 0
        for (i, exp) in points:
            m = re.match(r"nframes (-?\d+)", out[i])
            nf = int(m.group(1)) if m else -1
            ctx.evaluations += 1
            stats["fresh_checks"] += 1
            ctx.distinct.add(("bigoffset", F0 > 2 ** 32, spf))
            if nf < prev or nf != exp:
                ctx.fail("input", "fresh reader [/FRAMEOFFSET %d]: gd_nframes is %d after the writer completed %d frames (a reader saw %d before)" % (F0, nf, exp, prev),
                         {"script": lines[:i + 1]}, sig={"class": "reader", "enc": "none", "tag": "fresh"})
                break
            prev = nf
    ctx.coverage.update({
        "rule": "2/8 scenarios per encoding (6 encodings): reference field of 4 types, spf 1-3, frame offsets; 2-6 writer rounds (append of whole and partial frames, then gd_flush / gd_sync / gd_raw_close); "
                "after every writer step a long-lived read-only handle and a fresh handle report gd_nframes and read every frame below it; for gzip/bzip2/lzma a fresh reader is also run on a copy of the "
                "directory taken before each interposed call of the flush; for none/text the writer is additionally caught with a partial sample / line in the file",
        **stats,
    })
    if res and res[0][1]:
        ctx.sample({"ops": [l[:60] for l in res[0][0][8:16]]})
    if not ok and not any(f.kind == "input" for f in ctx.failures):
        names = [o[0] for o in ctx.obligations if not o[1]]
        ctx.fail("obligation", "Lean obligations no longer check: " + "; ".join(names)[:300] + " :: " + lr.errors[-500:],
                 {"theorem": names, "lean_errors": lr.errors[-3000:]}, has_input=False)


def replay(ctx, obj):
    harness = C.build_harness("gdh", ["gdh.c"])
    lines = obj.get("script", [])
    out, rc, err = streams.run_gdh(harness, lines, "replay")
    for l, a in list(zip(lines, out))[-8:]:
        print(l[:100], "\n  library:", a[:300])
    return 1
