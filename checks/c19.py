"""C19 — gd_framenum inverts any monotonic field."""
import struct
from vlib import common as C
from vlib import framework as F
from vlib import streams, gen, history
from checks.c01 import split_flags
from checks.c02 import parse_get

ASSUMPTIONS = [
    "the Lean model GdModel.Index.Model transcribes _GD_GetIndex/_GD_Extrapolate statement by statement; the driver instantiates it with IEEE doubles in the C operation order and reads samples through the field model (C01/C16), so library and model must agree bit for bit",
    "independently of the model, every answer on a strictly monotonic range is judged against the property's own words (exact k/spf on a hit, strictly inside the segment otherwise, linear extrapolation outside, an error for constant or empty ranges) from a whole-field gd_getdata",
    "fields: RAW of eight native types with spf 1..3 and frame offsets, LINCOM (positive and negative scale), PHASE; unencoded and gzip data",
]
CHECKER_CMD = "cd /verif/lean && lake build GdModel.Props.C19 && lake env lean <generated #print axioms file>"
MODULES = ["GdModel.Props.C19"]
TYPES = ['u8', 'i16', 'u16', 'i32', 'u32', 'i64', 'f32', 'f64']


def f64bits(x):
    return "%x" % struct.unpack('<Q', struct.pack('<d', x))[0]


def bits_f64(h):
    if h == "nan":
        return float('nan')
    return struct.unpack('<d', struct.pack('<Q', int(h, 16)))[0]


def build(rng, kind):
    ty = rng.choice(TYPES)
    spf = rng.choice([1, 1, 2, 3, 4])
    foff = rng.choice([0, 0, 0, 1, 3])
    order = rng.choice(list(gen.ORDERS))
    enc = rng.choice(['none', 'none', 'none', 'gzip'])
    n = rng.choice([0, 1, 2, 3, 5, 8, 17, 32, 33, 64, 100])
    if kind == "const":
        vals = [7] * n
    else:
        lo = 0 if ty[0] == 'u' else -50
        step_max = 3 if ty in ('u8',) else 9
        vals, cur = [], lo + rng.randint(0, 5)
        for _ in range(n):
            vals.append(cur)
            cur += rng.randint(1, step_max)
            if ty == 'u8' and cur > 250:
                break
        if kind == "desc" and ty[0] != 'u':
            vals = [-v for v in vals]
        elif kind == "desc":
            vals = vals[::-1]
        if kind == "plateau" and len(vals) > 4:      # not strictly monotonic: only model agreement is judged
            j = rng.randint(1, len(vals) - 2)
            vals[j] = vals[j - 1]
    if ty[0] == 'f':
        vals = [v + rng.choice([0.0, 0.25, 0.5]) if kind not in ("const", "plateau") else float(v) for v in vals]
        if kind == "desc":
            vals = sorted(set(vals), reverse=True)
        elif kind == "asc":
            vals = sorted(set(vals))
    n = len(vals)
    raw = gen.encode_samples(ty, order, vals)
    fmt = ["/VERSION 10", "/ENDIAN " + gen.ORDERS[order], "/ENCODING " + enc]
    if foff:
        fmt.append("/FRAMEOFFSET %d" % foff)
    a = rng.choice([2.0, -0.5, 1.0, -3.0])
    b = rng.choice([0.0, 10.0, -7.5])
    sh = rng.choice([1, 2, 3])   # negative shifts reach sample -1 = GD_HERE (known finding 5.16, property C01)
    fmt += ["r RAW %s %d" % (gen.GDNAME[ty], spf), "l LINCOM 1 r %s %s" % (gen.fnum(a), gen.fnum(b)), "p PHASE r %d" % sh]
    L = ["reset", "file format " + ("\n".join(fmt) + "\n").encode().hex(),
         "file r%s %s" % (gen.ENC_EXT[enc], gen.file_encode(enc, ty, order, vals, raw).hex()),
         "def raw r %s %d %d %s %s" % (ty, spf, foff, order, raw.hex()),
         "def lincom l r %s %s" % (gen.f64hex(a), gen.f64hex(b)), "def phase p r %d" % sh, "open rdonly", "nframes"]
    fields = {"r": lambda x: float(x), "l": lambda x: float(x) * a + b, "p": None}
    queries = []
    nfr = (n // spf) + foff
    for fld in ("r", "l", "p"):
        L.append("get %s 0 0 0 100000 f64" % fld)
        gi = len(L) - 1
        tr = fields[fld] or (lambda x: float(x))
        cand = []
        fv = [tr(v) for v in vals]
        for _ in range(10 if n else 2):
            r = rng.random()
            if fv and r < 0.35:
                cand.append(rng.choice(fv))                               # exact hit
            elif len(fv) > 1 and r < 0.7:
                j = rng.randint(0, len(fv) - 2)
                cand.append(fv[j] + (fv[j + 1] - fv[j]) * rng.choice([0.5, 0.25, 0.125, 0.75]))   # inside a segment
            elif fv:
                cand.append(rng.choice([min(fv) - rng.randint(1, 20), max(fv) + rng.randint(1, 20)]))  # outside
            else:
                cand.append(float(rng.randint(-5, 5)))
        for v in cand:
            r = rng.random()
            if r < 0.5:
                st, en = 0, 0
            elif r < 0.7:
                st, en = rng.randint(foff, max(foff, nfr)), 0
            elif r < 0.9:
                st = rng.randint(0, max(0, nfr))
                en = rng.randint(st, nfr + 3)
            else:
                st, en = 0, nfr + rng.randint(1, 200)
            L.append("framenum %s %s %d %d" % (fld, f64bits(v), st, en))
            queries.append((len(L) - 1, gi, fld, v, st, en))
    info = {"ty": ty, "spf": spf, "foff": foff, "n": n, "kind": kind, "enc": enc, "nfr": nfr}
    return L, queries, info


def judge(arr, spf, foff, nframes, v, st, en, res_hex, err):
    """the property's own words; returns None (fine / not decidable) or a complaint"""
    fs = foff * spf if st == 0 else st * spf
    fe = ((nframes + 1) * spf - 1) if en == 0 else ((en + 1) * spf - 1)
    if fe - fs < 2:
        return None if err in (-28, -8) else "empty range answered (e=%d)" % err
    eof = len(arr)
    last = min(fe - 1, eof - 1)
    seg = arr[fs:last + 1] if fs <= last else []
    if any(x != x for x in seg):
        return None
    if len(seg) < 2:
        return None if err in (-28, -8) else "range with %d samples answered (e=%d)" % (len(seg), err)
    if all(x == seg[0] for x in seg):
        return None if err in (-28, -8) else "constant range answered %s (e=%d)" % (res_hex, err)
    asc = all(seg[i] < seg[i + 1] for i in range(len(seg) - 1))
    desc = all(seg[i] > seg[i + 1] for i in range(len(seg) - 1))
    if not (asc or desc):
        return None
    if err != 0:
        return "strictly monotonic range of %d samples refused with e=%d" % (len(seg), err)
    f = bits_f64(res_hex)
    if f != f:
        return "answer is NaN without an error"
    sgn = 1 if asc else -1
    for i, x in enumerate(seg):
        if x == v:
            k = fs + i
            return None if f == float(k) / spf else "value equals sample %d: expected exactly %r, got %r" % (k, float(k) / spf, f)
    for i in range(len(seg) - 1):
        if sgn * seg[i] < sgn * v < sgn * seg[i + 1]:
            k = fs + i
            if not (float(k) / spf < f < float(k + 1) / spf):
                return "value strictly between samples %d and %d: answer %r is not strictly inside (%r, %r)" % (k, k + 1, f, float(k) / spf, float(k + 1) / spf)
            s = f * spf - k
            back = seg[i] + (seg[i + 1] - seg[i]) * s
            if abs(back - v) > 1e-9 * max(1.0, abs(v), abs(seg[i]), abs(seg[i + 1])):
                return "interpolating the field at %r gives %r, not %r" % (f, back, v)
            return None
    if sgn * v < sgn * seg[0]:
        exp = (fs + (v - seg[0]) / (seg[1] - seg[0])) / spf
    else:
        exp = (last + (v - seg[-1]) / (seg[-1] - seg[-2])) / spf
    if abs(exp - f) > 1e-9 * max(1.0, abs(exp)):
        return "value outside the range: expected the linear extrapolation %r, got %r" % (exp, f)
    return None


def run(ctx):
    ok, lr, infos = F.lean_obligations(ctx, MODULES, [])
    gdmodel = C.build_gdmodel()
    try:
        harness = C.build_harness("gdh", ["gdh.c"], defines=history.SMALL_BUF_DEFINES)
    except RuntimeError as e:
        raise F.C_BuildError(str(e))
    rng = ctx.rng
    chunks, metas = [], []
    ndf = 600 if ctx.thorough() else 140
    for i in range(ndf):
        kind = rng.choice(["asc", "asc", "desc", "desc", "const", "plateau"])
        L, q, info = build(rng, kind)
        chunks.append(L)
        metas.append((q, info))
    res = streams.run_chunks(harness, chunks, "c19")
    flat = [l for c in chunks for l in c]
    mo, _, _ = streams.run_model(gdmodel, flat)
    k = 0
    nq = 0
    classes = {}
    for ci, (lines, out, crashed, err) in enumerate(res):
        q, info = metas[ci]
        if crashed:
            bad = lines[min(len(out), len(lines) - 1)]
            ctx.fail("input", "library aborted or hung (3 s alarm) at '%s' [%s]: %s" % (bad, info, err[-200:]),
                     {"script": lines[:len(out) + 1], "stderr": err[-2000:], "info": info}, sig={"class": "hang-or-crash"})
        nfl = None
        for (qi, gi, fld, v, st, en) in q:
            if qi >= len(out):
                break
            a, rl = streams.strip_rl(out[qi])
            m = mo[k + qi]
            nq += 1
            ctx.evaluations += 1
            if rl not in (None, 0):
                ctx.fail("input", "recursion counter %d after '%s'" % (rl, lines[qi]), {"script": lines[:qi + 1]}, sig={"class": "recurse_level"})
            t = a.split()
            res_hex, e = t[1], int(t[2][2:])
            g = parse_get(streams.strip_rl(out[gi])[0])
            nfr = int(out[7].split()[1]) if out[7].startswith("nframes") else info["nfr"]
            why = None
            if g is not None and g[1] == 0:
                arr = [bits_f64(x) for x in g[2]]
                why = judge(arr, info["spf"], info["foff"], nfr, v, st, en, res_hex, e)
            cls = ("hit" if e == 0 else "err%d" % e)
            ctx.distinct.add((info["kind"], info["spf"], fld, cls, st == 0, en == 0))
            classes[cls] = classes.get(cls, 0) + 1
            if why:
                ctx.fail("input", "%s [%s spf=%d foff=%d n=%d %s]: %s" % (lines[qi], info["ty"], info["spf"], info["foff"], info["n"], info["kind"], why),
                         {"script": lines[:8] + [lines[gi], lines[qi]], "observed": a, "model": m, "info": info}, sig={"class": "spec", "kind": info["kind"]})
            elif not m.startswith("unsupported") and a != m and len(ctx.failures) < 12:
                ctx.fail("input", "%s [%s spf=%d foff=%d n=%d %s]: library '%s', model '%s'" % (lines[qi], info["ty"], info["spf"], info["foff"], info["n"], info["kind"], a, m),
                         {"script": lines[:8] + [lines[gi], lines[qi]], "observed": a, "model": m, "info": info}, sig={"class": "model", "kind": info["kind"]})
        k += len(lines)
    ctx.coverage.update({
        "rule": "dirfiles with a strictly increasing / decreasing / constant / plateau RAW field (8 types, spf 1-4, frame offsets, unencoded or gzip) and LINCOM / PHASE over it; "
                "per field 10 look-ups (exact sample values, values inside a segment, values outside) with default limits, start only, both limits, end far past the end of field; "
                "each answer compared bit for bit with the Lean model and judged against the property text from a whole-field read",
        "dirfiles": ndf, "lookups": nq, "answers": classes,
    })
    if res and res[0][1]:
        lines, out, _, _ = res[0]
        for i, l in enumerate(lines):
            if l.startswith("framenum") and i < len(out) and len(ctx.samples) < 4:
                ctx.sample({"op": l, "library": out[i], "model": mo[i]})
    if not ok and not any(f.kind == "input" for f in ctx.failures):
        names = [o[0] for o in ctx.obligations if not o[1]]
        ctx.fail("obligation", "Lean obligations no longer check: " + "; ".join(names)[:300] + " :: " + lr.errors[-500:],
                 {"theorem": names, "lean_errors": lr.errors[-3000:]}, has_input=False)


def replay(ctx, obj):
    harness = C.build_harness("gdh", ["gdh.c"], defines=history.SMALL_BUF_DEFINES)
    gdmodel = C.build_gdmodel()
    lines = obj.get("script", [])
    out, rc, err = streams.run_gdh(harness, lines, "replay")
    mo, _, _ = streams.run_model(gdmodel, lines)
    bad = 0
    for l, a, m in list(zip(lines, out, mo))[-3:]:
        print(l[:100], "\n  library:", a[:200], "\n  model:  ", m[:200])
    if rc or len(out) < len(lines):
        print("library aborted/hung:", err[-300:])
        bad = 1
    elif streams.strip_rl(out[-1])[0] != mo[-1]:
        bad = 1
    return bad
