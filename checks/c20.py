"""C20 — the C++ binding and the command-line tools show exactly what the C library holds."""
import hashlib, os, re, shutil, struct, sys
from concurrent.futures import ThreadPoolExecutor
from vlib import common as C
from vlib import framework as F
from vlib import streams
from checks.c10 import hx

sys.path.insert(0, os.path.join(C.VERIF, "extract"))
import x7_cxxfwd

ASSUMPTIONS = [
    "PARTIAL: the forwarding theorems (Props/C20) are about the table X7 extracts from bindings/cxx/*.cpp on every run (method, C callee, what each argument is); their reading of the source is a regex-level translation, itself tied by the twin run: every modelled method is called through the C++ binding on dirfile A and through the C API on an identical copy B with the same generated arguments, and return values, error codes, output buffers, the object's getters and finally the two directory trees are compared",
    "dirfile2ascii: the row/column arithmetic is modelled in GdModel.Cxx.Ascii (theorems column_is_the_data, column_skipping, prev_in_frame); the tool's output is compared cell by cell with the values gd_getdata returns (read through the harness), taken at the sample indices the executable model gives; interpolated cells are recomputed with the tool's documented formula in double arithmetic",
    "checkdirfile: its report is compared with the library's own answers (callback count of gd_cbopen, gd_validate of every entry, dangling aliases), following the decision table proved in checkdirfile_reports_iff",
    "not covered: C++ object lifetime and exception safety, the other bindings, getters defined inline in the headers beyond those the twin run reads",
]
CHECKER_CMD = "cd /verif/lean && lake build GdModel.Props.C20 && lake env lean <generated #print axioms file>"
MODULES = ["GdModel.Props.C20"]

FORMAT = """/VERSION 10
/ENDIAN little
/ENCODING none
r8 RAW UINT8 2
r16 RAW INT16 1
f64 RAW FLOAT64 4
lin LINCOM 2 r8 1.5 0 r16 2 1
lt LINTERP r8 table.lut
bt BIT r16 3 4
sb SBIT r16 1 5
mu MULTIPLY r8 f64
rc RECIP f64 2.5
ph PHASE r8 -3
po POLYNOM r16 1 2 3
wi WINDOW r8 r16 GT 3
mp MPLEX r8 r16 1 4
cl LINCOM 2 r8 1;2 3.5;4.5 r16 5.5;6.5 7.5;8.5
cp POLYNOM r16 1;1 2;2 3
cr RECIP f64 2;1
k CONST FLOAT64 3.5
ki CONST INT32 -7
ca CARRAY UINT8 1 2 3 4 5 6
s STRING "hello"
sa SARRAY a b c d
r8/m CONST UINT8 1
r8/ms STRING x
/ALIAS al lin
/ALIAS al2 al
/HIDDEN bt
/INCLUDE sub P_ _S
"""
SUB = """x RAW UINT8 1
y LINCOM 1 x 2 0
"""
ALIAS_T = -1          # GD_ALIAS_ENTRIES
VEC = ["r8", "r16", "f64", "lin", "cl", "cp", "cr", "lt", "bt", "sb", "mu", "rc", "ph", "po", "wi", "mp", "al", "al2", "P_x_S", "P_y_S", "INDEX"]
ALLN = VEC + ["k", "ki", "ca", "s", "sa", "r8/m", "r8/ms", "nosuch"]


def base_files(rng, nfr):
    files = {"format": FORMAT.encode(), "sub": SUB.encode(), "table.lut": b"0 0\n10 100\n20 150\n200 1e3\n"}
    files["r8"] = bytes((i * 7 + 3) % 251 for i in range(2 * nfr))
    files["r16"] = b"".join(struct.pack("<h", (i * 37) % 200 - 100) for i in range(nfr))
    files["f64"] = b"".join(struct.pack("<d", i * 0.25 - 3) for i in range(4 * nfr))
    files["x"] = bytes(i % 200 for i in range(nfr))
    return files


def twin_script(rng):
    L = ["open 1"]          # GD_RDWR
    n = rng.randint(20, 45)
    newn = 0
    for _ in range(n):
        r = rng.random()
        v = rng.choice(VEC)
        a = rng.choice(ALLN)
        if r < 0.12:
            L.append("getdata %s %d %d %d %d %s" % (a, rng.choice([0, 1, 3]), rng.choice([0, 1, 2]), rng.choice([0, 1, 2]), rng.choice([0, 1, 5]), rng.choice(["u8", "f64", "i64", "c128", "u16"])))
        elif r < 0.16:
            L.append("putdata %s %d %d %s" % (rng.choice(["r8", "r16", "f64", "ph", "lin", "P_x_S", "k"]), rng.choice([0, 2, 9]), rng.choice([0, 1]), ",".join(str(rng.randint(0, 90)) for _ in range(rng.randint(1, 5)))))
        elif r < 0.22:
            L.append(rng.choice(["nframes", "eof " + a, "bof " + a, "spf " + a, "ntype " + a, "tell " + v, "validate " + a, "fragindex " + a, "hidden " + a]))
        elif r < 0.26:
            L.append("seek %s %d %d %d" % (v, rng.choice([0, 2, 7]), rng.choice([0, 1]), rng.choice([0, 1, 2, 4])))
        elif r < 0.29:
            L.append("framenum %s %s %d %d" % (rng.choice(["P_x_S", "INDEX", "r8", "lin"]), rng.choice(["3.5", "10", "-2", "150"]), rng.choice([0, 1]), rng.choice([0, 5])))
        elif r < 0.35:
            newn += 1
            spec = rng.choice(["n%d RAW UINT8 1", "n%d LINCOM 1 r8 2 1", "n%d CONST FLOAT64 4.5", "n%d PHASE r16 2", "n%d STRING word", "n%d CARRAY INT16 5 6 7", "r8 RAW UINT8 1", "n%d BOGUS 1"])
            spec = spec % newn if "%d" in spec else spec
            L.append("addspec %d %s" % (rng.choice([0, 0, 1, 5]), spec.replace(" ", "\x01")))
        elif r < 0.38:
            newn += 1
            L.append("maddspec %s %s" % (rng.choice(["r8", "lin", "k", "nosuch"]), ("mm%d CONST UINT8 %d" % (newn, newn)).replace(" ", "\x01")))
        elif r < 0.42:
            L.append("alterspec %d %s" % (rng.choice([0, 1]), rng.choice(["ph PHASE r8 5", "lin LINCOM 1 r16 3 4", "k CONST UINT16 9", "r16 RAW INT16 2", "nosuch PHASE r8 1"]).replace(" ", "\x01")))
        elif r < 0.44:
            L.append("malterspec r8 0 %s" % rng.choice(["m CONST UINT16 7", "zz CONST UINT8 1"]).replace(" ", "\x01"))
        elif r < 0.48:
            L.append("delete %s %d" % (rng.choice(["ph", "k", "al2", "wi", "r8/m", "nosuch", "sa"]), rng.choice([0, 0, 8, 9])))
        elif r < 0.52:
            L.append(rng.choice(["hide ", "unhide "]) + rng.choice(["lin", "bt", "k", "nosuch"]))
        elif r < 0.56:
            newn += 1
            L.append(rng.choice(["addalias a%d %s 0" % (newn, rng.choice(["r8", "al", "missing"])), "maddalias r8 ma%d %s" % (newn, rng.choice(["k", "lin"])),
                                 "aliastarget " + rng.choice(["al", "al2", "r8", "nosuch"]), "aliases " + rng.choice(["lin", "al", "r8", "nosuch"])]))
        elif r < 0.60:
            newn += 1
            L.append(rng.choice(["include inc%d 0 %d" % (newn, 0x04), "includeaffix inc%d 0 Q%d - %d" % (newn, newn, 0x04), "includeaffix inc%d 1 - z%d %d" % (newn, newn, 0x04),
                                 "includens inc%d 0 ns%d %d" % (newn, newn, 0x04), "uninclude %d %d" % (rng.choice([1, 2, 3, 9]), rng.choice([0, 1]))]))
        elif r < 0.66:
            L.append(rng.choice(["lists", "entrylist - 0 0", "entrylist - %d %d" % (rng.choice([1, 2, 16, 241, 242, 243]), rng.choice([0, 1, 2, 4, 7])), "entrylist r8 0 1", "mlists r8", "mlists lin", "mlists nosuch", "constants"]))
        elif r < 0.72:
            L.append(rng.choice(["getconstant %s %s" % (rng.choice(["k", "ki", "ca", "r8/m", "r8", "nosuch"]), rng.choice(["f64", "u8", "i64", "c128"])),
                                 "putconstant %s %s" % (rng.choice(["k", "ki", "r8/m", "s"]), rng.choice(["1.5", "-3", "300"])),
                                 "getcarray %s %d %d" % (rng.choice(["ca", "k", "r8"]), rng.choice([0, 2, 5]), rng.choice([0, 0, 1, 3, 9])),
                                 "putcarray ca %d %d %s" % (rng.choice([0, 1, 4]), rng.choice([0, 2, 3]), ",".join(str(rng.randint(0, 200)) for _ in range(6)))]))
        elif r < 0.77:
            L.append(rng.choice(["getstring " + rng.choice(["s", "r8/ms", "k", "nosuch"]), "putstring %s %s" % (rng.choice(["s", "r8/ms", "k"]), rng.choice(["abc", "x_y", "Z"])),
                                 "getsarray %s %d %d" % (rng.choice(["sa", "s"]), rng.choice([0, 1, 3]), rng.choice([0, 0, 1, 2, 7])),
                                 "putsarray sa %d %d %s" % (rng.choice([0, 1]), rng.choice([0, 2]), rng.choice(["p,q,r,s", "u,v"]))]))
        elif r < 0.82:
            L.append(rng.choice(["flush -", "flush r8", "sync -", "sync r16", "rawclose -", "rawclose r8", "metaflush", "standards %d" % rng.choice([0, 5, 9, 10, 99, -1]),
                                 "lookback %d" % rng.choice([0, 1, 10, -1]), "flags %d %d" % (rng.choice([0, 0x100]), rng.choice([0, 0x100])), "reference -", "reference r16", "reference lin", "tablename lt", "tablename r8"]))
        elif r < 0.88:
            i = rng.choice([0, 0, 1, 1, 2, 7])
            L.append(rng.choice(["fragment %d" % i, "fragset %d endianness %d 0" % (i, rng.choice([4, 8, 0x2008])), "fragset %d frameoffset %d %d" % (i, rng.choice([0, 1, 3]), rng.choice([0, 1])),
                                 "fragset %d protection %d" % (i, rng.choice([0, 1, 2, 3])), "fragset %d prefix %s" % (i, rng.choice(["-", "A_", "P_"])), "fragset %d suffix %s" % (i, rng.choice(["-", "_S", "_T"])),
                                 "fragset %d namespace %s" % (i, rng.choice(["-", "nn"])), "fragset %d rewrite 0" % i, "fragset %d encoding %d %d" % (i, rng.choice([0x01000000, 0x02000000]), rng.choice([0, 1]))]))
        elif r < 0.93:
            L.append("entry " + a)
        else:
            L.append(rng.choice(["entryset r16 spf %d" % rng.choice([1, 2, 3]), "entryset ph shift %d" % rng.choice([0, 5, -9]), "entryset bt bit %d" % rng.choice([0, 2, 70]), "entryset bt nbits %d" % rng.choice([1, 3, 5]),
                                 "entryset sb bit 2", "entryset lin scale 2.5 %d" % rng.choice([0, 1, 2]), "entryset lin offset -1 %d" % rng.choice([0, 1]), "entryset rc dividend 8", "entryset cl scale 9 %d" % rng.choice([0, 1]), "entryset cl offset 2 %d" % rng.choice([0, 1]), "entryset cp coeff 5 %d" % rng.choice([0, 1, 2]), "entryset cr dividend 3", "entryset po coeff 4 %d" % rng.choice([0, 2, 5]),
                                 "entryset mp countval 3", "entryset mp period 0", "entryset ph input r16", "entryset mu input r16 %d" % rng.choice([0, 1, 2]), "entryset lt table other.lut", "entryset k consttype u16",
                                 "entryset ca arraylen %d" % rng.choice([2, 9, 12]), "entryset ph rename ph%d %d" % (newn, rng.choice([0, 4])), "entryset r8/m rename mr%d 0" % newn, "entryset k move %d 0" % rng.choice([0, 5]),
                                 "entryset nosuch shift 1"]))
    L += ["lists", "entry lin", "entry ph", "metaflush", "close"]
    return L


def tree_digest(root):
    out = []
    for d, _, fs in os.walk(root):
        for f in sorted(fs):
            p = os.path.join(d, f)
            data = open(p, "rb").read()
            if f.startswith("format") or f in ("sub",) or f.startswith("inc"):
                data = b"\n".join(l for l in data.split(b"\n") if not l.startswith(b"# Written on") and b"/B/" not in l and b"/A/" not in l)
            out.append((os.path.relpath(p, root), hashlib.sha1(data).hexdigest()[:12], len(data)))
    return sorted(out)


def run_twin(drv, idx, files, script):
    wd = os.path.join(C.scratch(), "tw%05d" % idx)
    shutil.rmtree(wd, ignore_errors=True)
    for sub in ("A", "B"):
        for rel, data in files.items():
            p = os.path.join(wd, sub, rel)
            os.makedirs(os.path.dirname(p), exist_ok=True)
            open(p, "wb").write(data)
    inp = "\n".join(script) + "\n"      # blanks inside a specification line travel as \x01; the driver turns them back
    p = C.run([drv, wd], inp=inp.encode(), env=C.SAN_ENV, timeout=300)
    out = p.stdout.decode(errors="replace").split("\n")
    ta, tb = tree_digest(os.path.join(wd, "A")), tree_digest(os.path.join(wd, "B"))
    shutil.rmtree(wd, ignore_errors=True)
    return out, p.returncode, p.stderr.decode(errors="replace"), ta, tb


def d2a_expected(gdmodel, fields, data, nread, nf, skip, zero, prec):
    """rows the tool must print, from the model's indices and the library's data.
    fields: list of (name, conv, spf); data[name]: list of python numbers (float/int) of length nf*spf (padded)"""
    maxspf = max(f[2] for f in fields)
    skipping = skip > 0
    sk = skip if skip >= 1 else 1
    cols = []
    for ci, (name, conv, spf) in enumerate(fields):
        mo, _, _ = streams.run_model(gdmodel, ["d2a %d %d %d %d %d" % (nf, sk, maxspf, 1 if skipping else 0, spf)])
        cells = [tuple(int(x) for x in t.split(":")) for t in mo[0].split()[1:]]
        col = []
        d = data[ci]
        for (k, j, idx) in cells:
            direct = spf == maxspf or skipping
            if zero is not None and idx >= nread[ci]:
                col.append(zero)
                continue
            if direct:
                val = d[idx]
            else:
                prev = idx - k * spf
                nxt = prev + 1
                step = maxspf // spf
                diff = (float(prev) + float(j % step) / float(step)) - float(prev)
                off = 1 if (k == nf - 1 and nxt == spf) else 0
                slope = (float(d[k * spf + nxt - off]) - float(d[k * spf + prev - off])) / (float(nxt) - float(prev))
                val = float(d[k * spf + prev]) + diff * slope
                if conv in "iux":
                    val = int(val)
            fmt = "%" + prec + {"f": "f", "e": "e", "g": "g", "i": "d", "u": "d", "x": "x"}[conv]
            col.append(fmt % (val if conv in "iux" else float(val)))
        cols.append(col)
    return [list(r) for r in zip(*cols)]


def run(ctx):
    ok, lr, infos = F.lean_obligations(ctx, MODULES, [lambda: x7_cxxfwd.main(C.REPO)])
    gdmodel = C.build_gdmodel()
    try:
        harness = C.build_harness("gdh", ["gdh.c"])
        drv = C.build_cxx_harness()
        ar, inc = C.build_lib((), False)
        tools = {}
        for t in ("dirfile2ascii", "checkdirfile"):
            out = os.path.join(C.scratch(), t)
            C.run(["gcc", "-O1", "-w", "-DHAVE_CONFIG_H", "-I", inc, os.path.join(C.REPO, "util", t + ".c"), ar] + C.LINK_LIBS + ["-o", out], check=True)
            tools[t] = out
    except RuntimeError as e:
        raise F.C_BuildError(str(e))
    rng = ctx.rng
    # ---- twin run ----------------------------------------------------------------
    ntw = 160 if ctx.thorough() else 40
    jobs = []
    for i in range(ntw):
        files = base_files(rng, rng.choice([6, 11, 20]))
        script = twin_script(rng)
        jobs.append((i, files, script))

    def go(j):
        i, files, script = j
        return run_twin(drv, i, files, script)
    with ThreadPoolExecutor(C.NCPU) as ex:
        res = list(ex.map(go, jobs))
    opstat = {}
    for (i, files, script), (out, rc, err, ta, tb) in zip(jobs, res):
        rep = {"script": list(script), "nframes": len(files["r16"]) // 2}
        if rc != 0:
            k = len([l for l in out if l.startswith("X")])
            ctx.fail("input", "twin driver aborted at '%s': %s" % (script[min(k, len(script) - 1)].replace("\x01", " "), err[-300:]), dict(rep, stderr=err[-2500:]),
                     sig={"class": "crash", "op": script[min(k, len(script) - 1)].split()[0]})
            continue
        xs = [l for l in out if l.startswith("X")]
        cs = [l for l in out if l.startswith("C")]
        bad = None
        for n, (x, c) in enumerate(zip(xs, cs)):
            ctx.evaluations += 1
            opn = script[n].split()[0] if n < len(script) else "?"
            sub = script[n].split()[2] if opn in ("entryset", "fragset") and len(script[n].split()) > 2 else ""
            opstat[opn + ("." + sub if sub else "")] = opstat.get(opn + ("." + sub if sub else ""), 0) + 1
            ctx.distinct.add((opn, sub, " e=0" in c))
            if x[1:] != c[1:]:
                bad = (n, x, c)
                break
        if bad:
            n, x, c = bad
            opl = script[n].replace("\x01", " ")
            ctx.fail("input", "C++ method and C function disagree on '%s': C++ %s | C %s" % (opl, x[1:260], c[1:260]), dict(rep, script=rep["script"][:n + 1], cxx=x, c=c),
                     sig={"class": "twin", "op": opl.split()[0], "sub": opl.split()[2] if opl.split()[0] in ("entryset", "fragset") and len(opl.split()) > 2 else ""})
            continue
        if ta != tb:
            d = [a for a in ta if a not in tb][:3] + [b for b in tb if b not in ta][:3]
            ctx.fail("input", "after the same calls the two directories differ: %s" % (d,), rep, sig={"class": "twin-tree"})
    # ---- dirfile2ascii -------------------------------------------------------------
    nd = 160 if ctx.thorough() else 45
    d2a_stats = {"runs": 0, "cells": 0, "interpolated_runs": 0, "skipping": 0, "short": 0, "failing_exit": 0}
    for i in range(nd):
        nfr = rng.choice([4, 7, 12])
        files = base_files(rng, nfr)
        if rng.random() < 0.3:
            files["f64"] = files["f64"][: 8 * rng.randint(1, 4 * nfr - 1)]        # a field shorter than the others
            d2a_stats["short"] += 1
        cand = [("r8", 2), ("r16", 1), ("f64", 4), ("lin", 2), ("ph", 2), ("po", 1), ("INDEX", 1), ("P_x_S", 1), ("mu", 2)]
        fields = []
        for _ in range(rng.randint(1, 4)):
            nm, spf = rng.choice(cand)
            conv = rng.choice(["f", "f", "e", "g", "i", "u", "x"])
            if conv in "ux" and nm not in ("r8", "INDEX", "P_x_S"):
                conv = "i"          # negative values through an unsigned conversion are undefined in C; not judged
            fields.append((nm, conv, spf))
        bogus = rng.random() < 0.08
        if bogus:
            fields.append(("nosuch", "f", 1))
        ff = rng.choice([0, 0, 1, 2])
        nf = rng.choice([0, 1, 2, 3, nfr - ff])
        skip = rng.choice([0, 0, 0, 1, 2, 3])
        zero = rng.choice([None, None, "ZZ"])
        prec = rng.choice(["", ".3", "12.4", "-8.1"])
        wd = os.path.join(C.scratch(), "d2a%04d" % i)
        shutil.rmtree(wd, ignore_errors=True)
        for rel, data in files.items():
            p = os.path.join(wd, rel)
            os.makedirs(os.path.dirname(p), exist_ok=True)
            open(p, "wb").write(data)
        args = [tools["dirfile2ascii"], "-f", str(ff)]
        if nf:
            args += ["-n", str(nf)]
        if skip:
            args += ["-s", str(skip)]
        if zero:
            args += ["-z", zero]
        if prec:
            args += ["-p", prec]
        args += ["-d", "|", wd]
        for (nm, conv, spf) in fields:
            args += (["-" + conv, nm] if conv != "f" else [nm])      # %f is the default conversion (-f is --first-frame)
        p = C.run(args, timeout=60)
        got = p.stdout.decode(errors="replace").split("\n")
        if got and got[-1] == "":
            got.pop()
        rep = {"argv": args[1:], "files": {k: v.hex() for k, v in files.items() if len(v) < 4000}}
        shutil.rmtree(wd, ignore_errors=True)
        ctx.evaluations += 1
        d2a_stats["runs"] += 1
        if bogus:
            d2a_stats["failing_exit"] += 1
            ctx.distinct.add(("d2a", "bad-field"))
            if p.returncode == 0:
                ctx.fail("input", "dirfile2ascii exits 0 although the library fails on field 'nosuch'", rep, sig={"class": "d2a-exit"})
            continue
        # what the library returns
        L = ["reset"] + ["file %s %s" % (rel, data.hex()) for rel, data in files.items()] + ["open rdonly", "nframes"]
        nf_eff = nf
        for (nm, conv, spf) in fields:
            L.append("get %s %d 0 %d 0 %s" % (nm, ff, 10 ** 6 if nf == 0 else nf, {"f": "f64", "e": "f64", "g": "f64", "i": "i64", "u": "u64", "x": "u64"}[conv]))
        o, rc, err = streams.run_gdh(harness, L, "d2a")
        nfr_lib = int(re.search(r"nframes (-?\d+)", o[len(files) + 2]).group(1)) if re.search(r"nframes (-?\d+)", o[len(files) + 2]) else 0
        if nf == 0:
            nf_eff = nfr_lib - ff
        if nf_eff <= 0:
            continue
        maxspf = max(f[2] for f in fields)
        minspf = min(f[2] for f in fields)
        if len({f[2] for f in fields}) > 1 and nf_eff == 1 and minspf == 1:
            continue            # the tool refuses: interpolation needs two samples
        data, nread = {}, {}
        okd = True
        for n, (nm, conv, spf) in enumerate(fields):
            m = re.match(r"get n=(\d+) e=(-?\d+) d=(.*?)(?: rl=\d+)?$", o[len(files) + 3 + n])
            if not m or m.group(2) != "0":
                okd = False
                break
            vals = [v for v in m.group(3).split(",") if v][: nf_eff * spf]
            if conv in "feg":
                nums = [struct.unpack("<d", struct.pack("<Q", int(v, 16)))[0] for v in vals]
                pad = float("nan")
            elif conv == "i":
                nums = [int(v, 16) - (1 << 64) if int(v, 16) >= (1 << 63) else int(v, 16) for v in vals]
                pad = 0
            else:
                nums = [int(v, 16) for v in vals]
                pad = 0
            nread[n] = len(nums)
            data[n] = nums + [pad] * (nf_eff * spf - len(nums) + spf)
        if not okd:
            if p.returncode == 0:
                ctx.fail("input", "dirfile2ascii exits 0 although gd_getdata fails on one of the fields", rep, sig={"class": "d2a-exit"})
            continue
        if p.returncode != 0:
            ctx.fail("input", "dirfile2ascii fails (exit %d: %s) although the library reads every field" % (p.returncode, p.stderr.decode(errors="replace")[:120]), rep, sig={"class": "d2a-exit"})
            continue
        exp = d2a_expected(gdmodel, fields, data, nread, nf_eff, skip, zero, prec)
        d2a_stats["interpolated_runs"] += int(len({f[2] for f in fields}) > 1 and not skip)
        d2a_stats["skipping"] += int(skip > 0)
        ctx.distinct.add(("d2a", len(fields), len({f[2] for f in fields}) > 1, skip > 0, zero is not None, prec))
        gotrows = [r.split("|") for r in got]
        bad = None
        if len(gotrows) != len(exp):
            bad = "prints %d rows, %d expected" % (len(gotrows), len(exp))
        else:
            for rn, (g, e) in enumerate(zip(gotrows, exp)):
                for cn, (gc, ec) in enumerate(zip(g, e)):
                    d2a_stats["cells"] += 1
                    if gc.strip().lower().replace("-nan", "nan") != ec.strip().lower().replace("-nan", "nan"):
                        bad = "row %d column %d (%s): prints '%s', gd_getdata gives '%s'" % (rn, cn, fields[cn][0], gc, ec)
                        break
                if bad:
                    break
        if bad:
            ctx.fail("input", "dirfile2ascii " + bad, dict(rep, expected=exp[:6], got=gotrows[:6]),
                     sig={"class": "d2a", "interp": len({f[2] for f in fields}) > 1 and not skip, "zero": zero is not None, "skip": skip > 0})
    # ---- checkdirfile --------------------------------------------------------------
    nc = 80 if ctx.thorough() else 24
    cstat = {"clean": 0, "syntax": 0, "field_problems": 0}
    for i in range(nc):
        files = base_files(rng, 5)
        txt = files["format"].decode()
        kind = rng.choice(["clean", "syntax", "dangling", "alias", "both", "hidden", "hidden"])
        if kind in ("syntax", "both"):
            lines = txt.split("\n")
            for _ in range(rng.randint(1, 3)):
                lines.insert(rng.randrange(3, len(lines)), rng.choice(["bad line here", "q RAW UINT8", "w LINCOM 3 a", "/ENDIAN sideways", "e BIT r16 99 1"]))
            txt = "\n".join(lines)
        if kind in ("dangling", "both"):
            txt += "d1 PHASE missing 1\nd2 LINCOM 1 nothere 1 0\nd3 MULTIPLY r8 gone\n"
        if kind == "alias":
            txt += "/ALIAS da gone\n/ALIAS r8/dm gone2\n"
        if kind == "hidden":
            # problems that only a listing with GD_ENTRIES_HIDDEN reaches, at top level and under a parent
            parts = ["/META r8 hm PHASE missing 1\n/HIDDEN r8/hm\n", "hd PHASE missing2 1\n/HIDDEN hd\n", "/META r8 vm PHASE missing3 1\n",
                     "/ALIAS ha gone\n/HIDDEN ha\n", "/ALIAS r8/hma gone3\n/HIDDEN r8/hma\n", "/META r8 okm CONST UINT8 1\n/HIDDEN r8/okm\n"]
            rng.shuffle(parts)
            txt += "".join(parts[:rng.randint(1, len(parts))])
        files["format"] = txt.encode()
        wd = os.path.join(C.scratch(), "chk%04d" % i)
        shutil.rmtree(wd, ignore_errors=True)
        for rel, data in files.items():
            pth = os.path.join(wd, rel)
            os.makedirs(os.path.dirname(pth), exist_ok=True)
            open(pth, "wb").write(data)
        p = C.run([tools["checkdirfile"], wd], timeout=60)
        outp = p.stdout.decode(errors="replace")
        shutil.rmtree(wd, ignore_errors=True)
        L = ["reset"] + ["file %s %s" % (rel, data.hex()) for rel, data in files.items()] + ["opencb ignore rdonly", "names - 0 3", "names - %d 1" % ALIAS_T]
        o, rc, err = streams.run_gdh(harness, L, "chk")
        ncb = int(re.search(r"ncb=(\d+)", o[len(files) + 1]).group(1))
        names = streams.strip_rl(o[len(files) + 2])[0].split()[1:]
        aliases = streams.strip_rl(o[len(files) + 3])[0].split()[1:]
        L2 = L + ["validate " + n for n in names] + ["names %s 0 3" % n for n in names] + ["ntype " + a for a in aliases]
        o2, rc, err = streams.run_gdh(harness, L2, "chk2")
        base = len(L)
        nprob = sum(1 for k in range(len(names)) if " e=0" not in o2[base + k])
        metas = []
        for k, n in enumerate(names):
            for mname in streams.strip_rl(o2[base + len(names) + k])[0].split()[1:]:
                metas.append(n + "/" + mname)
        nprob += sum(1 for k in range(len(aliases)) if "e=-3" in o2[base + 2 * len(names) + k])
        L3 = L + ["validate " + m for m in metas] + ["names %s %d 1" % (n, ALIAS_T) for n in names]
        o3, rc, err = streams.run_gdh(harness, L3, "chk3")
        nprob += sum(1 for k in range(len(metas)) if " e=0" not in o3[len(L) + k])
        malias = []
        for k, n in enumerate(names):
            for mname in streams.strip_rl(o3[len(L) + len(metas) + k])[0].split()[1:]:
                malias.append(n + "/" + mname)
        if malias:
            o4, rc, err = streams.run_gdh(harness, L + ["ntype " + m for m in malias], "chk4")
            nprob += sum(1 for k in range(len(malias)) if "e=-3" in o4[len(L) + k])
        ctx.evaluations += 1
        ctx.distinct.add(("checkdirfile", kind, ncb > 0, nprob > 0))
        rep = {"format": txt, "tool_output": outp[-1500:]}
        m1 = re.search(r"Found (\d+) lines? with syntax errors", outp)
        tool_syn = int(m1.group(1)) if m1 else (0 if "Syntax OK" in outp else -1)
        m2 = re.search(r"Found (\d+) problems? in", outp)
        tool_prob = int(m2.group(1)) if m2 else (0 if "No problems found" in outp else -1)
        cstat["clean" if not (ncb or nprob) else ("syntax" if ncb else "field_problems")] += 1
        if tool_syn != ncb:
            ctx.fail("input", "checkdirfile reports %d lines with syntax errors, gd_cbopen's callback was called %d times" % (tool_syn, ncb), rep, sig={"class": "checkdirfile-syntax"})
        elif tool_prob != nprob:
            ctx.fail("input", "checkdirfile reports %d field problems, the library reports %d (gd_validate failures + dangling aliases)" % (tool_prob, nprob), rep, sig={"class": "checkdirfile-fields"})
        elif p.returncode != 0:
            ctx.fail("input", "checkdirfile exits %d on a dirfile the library opens" % p.returncode, rep, sig={"class": "checkdirfile-exit"})
    ctx.coverage.update({
        "rule": "twin: %d scripts of 20-45 calls over 70 op kinds (reads, writes, seeks, adds, alters, deletes, aliases, includes with affixes/namespaces, every list function, scalars, strings, flush/sync/close, "
                "Fragment getters and setters, Entry getters of all field types and 19 Entry setters incl. Rename/Move), results, error codes, buffers, object state and final directory trees compared; "
                "dirfile2ascii: %d runs (1-4 fields of rates 1/2/4 incl. derived, affixed and INDEX, conversions f e g i u x, -f/-n/-s/-z/-p/-d, a short field, a missing field), every cell compared with gd_getdata at the model's index; "
                "checkdirfile: %d dirfiles (clean, syntax errors, dangling inputs, dangling aliases)" % (ntw, nd, nc),
        "twin_calls": opstat, "dirfile2ascii": d2a_stats, "checkdirfile": cstat, "extracted_methods": (infos[0].get("methods") if infos else None),
    })
    if res:
        ctx.sample({"script": [l.replace("\x01", " ") for l in jobs[0][2][:6]], "out": res[0][0][:4]})
    if not ok and not any(f.kind == "input" for f in ctx.failures):
        names = [o[0] for o in ctx.obligations if not o[1]]
        ctx.fail("obligation", "Lean obligations no longer check: " + "; ".join(names)[:300] + " :: " + lr.errors[-500:],
                 {"theorem": names, "lean_errors": lr.errors[-3000:]}, has_input=False)


def replay(ctx, obj):
    if "script" in obj:
        drv = C.build_cxx_harness()
        files = base_files(None, obj.get("nframes", 6))
        out, rc, err, ta, tb = run_twin(drv, 0, files, [l for l in obj["script"]])
        for l in out[-6:]:
            print(l[:400])
        print(err[-800:])
        xs = [l for l in out if l.startswith("X")]
        cs = [l for l in out if l.startswith("C")]
        return 1 if rc or any(x[1:] != c[1:] for x, c in zip(xs, cs)) or ta != tb else 0
    print(obj.get("what"))
    return 1
