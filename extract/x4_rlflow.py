#!/usr/bin/env python3
"""X4: regenerate GdModel/Generated/RlFlow.lean from the C source.

For every function in /repo/src/*.c that touches `D->recurse_level`, walk the
clang-14 JSON AST of its body and emit a `GdModel.Flow.Stmt`: conditions become
nondeterministic choice, `++D->recurse_level` / `D->recurse_level--` become
`inc` / `dec`, `do { … } while (0)` (the GD_*RETURN* macros) is straight-line,
`switch` fall-through is followed, `goto label` inlines the (return-terminated)
code after the label.  Anything not understood that could matter makes the
function `unknown`, which no theorem accepts (fail closed).  The number of
counter updates found in the AST must equal the number found textually.
"""
import json, os, re, subprocess, sys
from concurrent.futures import ThreadPoolExecutor

CLANG = "clang-14"


class Unknown(Exception):
    pass


def strip_casts(n):
    while n.get("kind") in ("ParenExpr", "ImplicitCastExpr", "CStyleCastExpr", "ConstantExpr") and n.get("inner"):
        n = n["inner"][-1]
    return n


def is_rl(n):
    n = strip_casts(n)
    return n.get("kind") == "MemberExpr" and n.get("name") == "recurse_level"


def mentions_rl(n):
    if n.get("kind") == "MemberExpr" and n.get("name") == "recurse_level":
        return True
    return any(mentions_rl(c) for c in n.get("inner", []) if isinstance(c, dict))


CONTROL = {"ReturnStmt", "BreakStmt", "ContinueStmt", "GotoStmt", "IfStmt", "SwitchStmt", "WhileStmt",
           "ForStmt", "DoStmt", "LabelStmt", "CaseStmt", "DefaultStmt", "IndirectGotoStmt"}


def has_control(n):
    if n.get("kind") in CONTROL:
        return True
    return any(has_control(c) for c in n.get("inner", []) if isinstance(c, dict))


def seq(xs):
    xs = [x for x in xs if x != ".skip"]
    if not xs:
        return ".skip"
    out = xs[-1]
    for x in reversed(xs[:-1]):
        out = "(.seq %s %s)" % (x, out)
    return out


def choice(xs):
    out = xs[-1]
    for x in reversed(xs[:-1]):
        out = "(.choice %s %s)" % (x, out)
    return out


class Tr:
    def __init__(self, body):
        self.labels = {}
        self.n_events = 0
        self.seen = set()
        kids = [c for c in body.get("inner", []) if isinstance(c, dict)]
        for j, c in enumerate(kids):
            if c.get("kind") == "LabelStmt":
                self.labels[c.get("name")] = [c["inner"][0]] + kids[j + 1:]
        self.body = body

    # expressions -> events
    def ev(self, n):
        if not isinstance(n, dict):
            return ".skip"
        k = n.get("kind")
        if not mentions_rl(n):
            if k == "StmtExpr" or has_control(n):
                # statement expression or something exotic: translate as statement
                if k == "StmtExpr":
                    return self.st(n["inner"][0])
            return ".skip"
        if k == "UnaryOperator" and n.get("opcode") in ("++", "--") and is_rl(n["inner"][0]):
            if n.get("id") not in self.seen:     # goto inlining revisits the label code
                self.seen.add(n.get("id"))
                self.n_events += 1
            return ".inc" if n["opcode"] == "++" else ".dec"
        if k in ("BinaryOperator", "CompoundAssignOperator"):
            op = n.get("opcode")
            l, r = n["inner"][0], n["inner"][1]
            if op in ("=", "+=", "-=", "*=", "/=", "|=", "&=", "^=", "<<=", ">>=", "%=") and is_rl(l):
                raise Unknown("assignment to recurse_level")
            if op in ("&&", "||"):
                return seq([self.ev(l), choice([".skip", self.ev(r)])])
            return seq([self.ev(l), self.ev(r)])
        if k == "ConditionalOperator":
            c, t, f = n["inner"][0], n["inner"][1], n["inner"][2]
            return seq([self.ev(c), choice([self.ev(t), self.ev(f)])])
        if k == "UnaryOperator" and n.get("opcode") == "&" and is_rl(n["inner"][0]):
            raise Unknown("address of recurse_level taken")
        if k == "StmtExpr":
            return self.st(n["inner"][0])
        if k == "MemberExpr" and n.get("name") == "recurse_level":
            return ".skip"      # a plain read
        return seq([self.ev(c) for c in n.get("inner", []) if isinstance(c, dict)])

    def is_zero(self, n):
        n = strip_casts(n)
        return n.get("kind") == "IntegerLiteral" and n.get("value") == "0"

    # statements
    def st(self, n):
        if not isinstance(n, dict):
            return ".skip"
        k = n.get("kind")
        inner = [c for c in n.get("inner", []) if isinstance(c, dict)]
        if k == "CompoundStmt":
            return seq([self.st(c) for c in inner])
        if k == "NullStmt":
            return ".skip"
        if k == "ReturnStmt":
            return seq([self.ev(c) for c in inner] + [".ret"])
        if k == "BreakStmt":
            return ".brk"
        if k == "ContinueStmt":
            return ".cont"
        if k == "IfStmt":
            # [cond, then, else?]   (C: no init-statement)
            cond, then = inner[0], inner[1]
            els = inner[2] if len(inner) > 2 else None
            return seq([self.ev(cond), choice([self.st(then), self.st(els) if els is not None else ".skip"])])
        if k == "WhileStmt":
            cond, body = inner[0], inner[-1]
            e = self.ev(cond)
            return seq(["(.loop %s)" % seq([e, self.st(body)]), e])
        if k == "DoStmt":
            body, cond = inner[0], inner[1]
            if self.is_zero(cond):
                if self.direct_continue(body):
                    raise Unknown("continue inside do{}while(0)")
                return "(.sw %s)" % self.st(body)
            return "(.loop %s)" % seq([self.st(body), self.ev(cond)])
        if k == "ForStmt":
            # clang: [init, condvar, cond, inc, body] with {} for absent ones
            raw = n.get("inner", [])
            init, cond, inc, body = raw[0], raw[2], raw[3], raw[4]
            ei = self.ev(inc) if inc else ".skip"
            if ei != ".skip":
                raise Unknown("counter update in a for-increment")
            return seq([self.st(init) if init else ".skip",
                        "(.loop %s)" % seq([self.ev(cond) if cond else ".skip", self.st(body)]),
                        self.ev(cond) if cond else ".skip"])
        if k == "SwitchStmt":
            cond, body = inner[0], inner[-1]
            items = []          # (labelled?, is_default, stmt)
            has_default = False
            for c in [x for x in body.get("inner", []) if isinstance(x, dict)]:
                lab = False
                while c.get("kind") in ("CaseStmt", "DefaultStmt"):
                    lab = True
                    if c["kind"] == "DefaultStmt":
                        has_default = True
                    c = [x for x in c["inner"] if isinstance(x, dict)][-1]
                items.append((lab, c))
            alts = []
            for i, (lab, c) in enumerate(items):
                if lab:
                    alts.append(seq([self.st(x[1]) for x in items[i:]]))
            if not has_default:
                alts.append(".skip")
            if not alts:
                alts = [".skip"]
            # identical alternatives are merged to keep the term small
            uniq = []
            for a in alts:
                if a not in uniq:
                    uniq.append(a)
            return seq([self.ev(cond), "(.sw %s)" % choice(uniq)])
        if k == "LabelStmt":
            return self.st(inner[0])
        if k == "GotoStmt":
            # clang JSON gives targetLabelDeclId; map through the LabelStmt names by declId
            tgt = n.get("targetLabelDeclId")
            name = self.label_name(tgt)
            if name is None or name not in self.labels:
                raise Unknown("goto to an unknown label")
            code = self.labels[name]
            if not code or code[-1].get("kind") != "ReturnStmt":
                raise Unknown("code after a goto label does not end in return")
            return seq([self.st(c) for c in code])
        if k == "DeclStmt":
            return seq([self.ev(c) for c in inner])
        if k in ("CaseStmt", "DefaultStmt"):
            raise Unknown("case label outside a switch body")
        if k in ("AttributedStmt",):
            return seq([self.st(c) for c in inner])
        # expression statement
        if has_control(n) and k != "StmtExpr" and not k.endswith("Operator") and not k.endswith("Expr"):
            raise Unknown("unhandled statement kind " + str(k))
        return self.ev(n)

    def direct_continue(self, n):
        if n.get("kind") == "ContinueStmt":
            return True
        if n.get("kind") in ("WhileStmt", "ForStmt", "DoStmt"):
            return False
        return any(self.direct_continue(c) for c in n.get("inner", []) if isinstance(c, dict))

    def label_name(self, decl_id):
        def find(n):
            if n.get("kind") == "LabelStmt" and n.get("declId") == decl_id:
                return n.get("name")
            for c in n.get("inner", []):
                if isinstance(c, dict):
                    r = find(c)
                    if r:
                        return r
            return None
        return find(self.body)


def strip_comments(s):
    return re.sub(r"/\*.*?\*/", lambda m: re.sub(r"[^\n]", " ", m.group(0)), s, flags=re.S)


def functions_touching(src_text):
    """names of functions whose definitions contain a recurse_level update (textual)"""
    text = strip_comments(src_text)
    names = []
    # function definitions start at column 0: 'type name(' ... '{' at column 0 later
    for m in re.finditer(r"^[A-Za-z_][\w \*]*?\b(\w+)\s*\([^;{]*?\)\s*(?:gd_nothrow\s*)?\n?\{", text, re.M):
        start = m.end()
        depth = 1
        i = start
        while i < len(text) and depth:
            if text[i] == "{":
                depth += 1
            elif text[i] == "}":
                depth -= 1
            i += 1
        body = text[start:i]
        n = len(re.findall(r"\+\+\s*D->recurse_level|D->recurse_level\s*\+\+|--\s*D->recurse_level|D->recurse_level\s*--", body))
        other = len(re.findall(r"recurse_level", body)) - n
        if n or "recurse_level" in body:
            names.append((m.group(1), n, other))
    return names


def ast_of(srcdir, fname, func):
    p = subprocess.run([CLANG, "-Xclang", "-ast-dump=json", "-Xclang", "-ast-dump-filter=" + func, "-fsyntax-only",
                        "-DHAVE_CONFIG_H", "-DGD_VERIF_HOOKS", "-I", srcdir, "-w", os.path.join(srcdir, fname)],
                       stdout=subprocess.PIPE, stderr=subprocess.PIPE)
    raw = p.stdout.decode()
    dec = json.JSONDecoder()
    i = 0
    objs = []
    while i < len(raw):
        while i < len(raw) and raw[i].isspace():
            i += 1
        if i >= len(raw):
            break
        o, j = dec.raw_decode(raw, i)
        objs.append(o)
        i = j
    for o in objs:
        if o.get("kind") == "FunctionDecl" and o.get("name") == func:
            for c in o.get("inner", []):
                if c.get("kind") == "CompoundStmt":
                    return c
    return None


def emit(repo, outdir):
    srcdir = os.path.join(repo, "src")
    jobs = []
    total_text = 0
    for f in sorted(os.listdir(srcdir)):
        if not f.endswith(".c"):
            continue
        txt = open(os.path.join(srcdir, f), errors="replace").read()
        if "recurse_level" not in txt:
            continue
        for (name, n, other) in functions_touching(txt):
            jobs.append((f, name, n, other))
        total_text += len(re.findall(r"\+\+\s*D->recurse_level|D->recurse_level\s*\+\+|--\s*D->recurse_level|D->recurse_level\s*--", strip_comments(txt)))

    def work(job):
        f, name, n, other = job
        body = ast_of(srcdir, f, name)
        if body is None:
            return (f, name, ".unknown_missing", 0, "no AST for function")
        tr = Tr(body)
        try:
            term = tr.st(body)
            if tr.n_events != n:
                return (f, name, None, tr.n_events, "AST has %d counter updates, source text has %d" % (tr.n_events, n))
            return (f, name, term, tr.n_events, None)
        except Unknown as e:
            return (f, name, None, tr.n_events, str(e))
        except Exception as e:   # malformed AST etc.
            return (f, name, None, 0, "translator error: %r" % (e,))
    with ThreadPoolExecutor(8) as ex:
        res = list(ex.map(work, jobs))
    L = ["/- GENERATED by /verif/extract/x4_rlflow.py from src/*.c (clang AST) — do not edit. -/",
         "import GdModel.Flow.IR", "namespace GdModel.Generated", "open GdModel.Flow", ""]
    unknown = []
    names = []
    found_events = 0
    for (f, name, term, nev, err) in res:
        found_events += nev
        ident = "rl_" + re.sub(r"\W", "_", name)
        if term is None or err:
            unknown.append("%s:%s (%s)" % (f, name, err))
            # a body no checker accepts: a bare increment
            L.append("/-- %s:%s — NOT UNDERSTOOD: %s -/" % (f, name, err))
            L.append("def %s : Stmt := .inc" % ident)
        else:
            L.append("/-- %s:%s -/" % (f, name))
            L.append("def %s : Stmt :=\n  %s" % (ident, term))
        names.append((name, ident, f))
        L.append("")
    L.append("def rlFuncs : List (String × Stmt) := [")
    L.append(",\n".join('  ("%s", %s)' % (n, i) for n, i, _ in names))
    L.append("]")
    L.append("")
    err = None
    if found_events != total_text:
        err = "counter updates in ASTs (%d) != counter updates in the source text (%d): some update is outside the analysed functions" % (found_events, total_text)
        L.append("/-- %s -/" % err)
        L.append('def rlFuncs_incomplete : Unit := ()')
        L.append("def rlComplete : Bool := false")
    else:
        L.append("def rlComplete : Bool := true")
    L += ["", "end GdModel.Generated", ""]
    out = os.path.join(outdir, "RlFlow.lean")
    txt = "\n".join(L)
    if not os.path.exists(out) or open(out).read() != txt:
        open(out, "w").write(txt)
    return {"file": out, "unknown": unknown or None, "error": err,
            "functions": ["%s:%s" % (f, n) for n, _, f in names], "events": found_events}


if __name__ == "__main__":
    repo = sys.argv[1] if len(sys.argv) > 1 else "/repo"
    outdir = os.path.join(os.path.dirname(os.path.abspath(__file__)), "..", "lean", "GdModel", "Generated")
    print(json.dumps(emit(repo, outdir), indent=1))
