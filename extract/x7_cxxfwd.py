#!/usr/bin/env python3
"""X7: regenerate GdModel/Generated/CxxFwd.lean from bindings/cxx/*.cpp.

For every method definition `Ret Class::Name(params) [const] { body }` of the
C++ binding it records the calls to the C API made in the body: the callee and,
per argument, what it is — the dirfile handle (`D`, `D->D`), the i-th method
parameter (casts stripped), the entry structure (`&E`, `&entry.E`), a member of
the entry structure, or something else (kept verbatim, which no theorem treats
as a parameter).  It also records, per Entry-class setter/getter, the
`gd_entry_t` member paths written and read.  Nothing is guessed: a method
whose text cannot be parsed is emitted with `parsed := false`.

The arity of every callee is taken from the prototypes in src/getdata.h.
"""
import os, re, sys, json, glob


def strip_comments(s):
    s = re.sub(r"/\*.*?\*/", lambda m: re.sub(r"[^\n]", " ", m.group(0)), s, flags=re.S)
    s = re.sub(r"//[^\n]*", "", s)
    return s


def split_top(s, sep=","):
    out, depth, cur = [], 0, ""
    for ch in s:
        if ch in "([{<" and not (ch == "<" and False):
            depth += ch in "([{"
        if ch in ")]}":
            depth -= 1
        if ch == sep and depth == 0:
            out.append(cur)
            cur = ""
        else:
            cur += ch
    if cur.strip():
        out.append(cur)
    return [x.strip() for x in out]


def match_paren(s, i):
    """index of the parenthesis matching s[i] == '(' or '{'"""
    o = s[i]
    c = ")" if o == "(" else "}"
    d = 0
    for j in range(i, len(s)):
        if s[j] == o:
            d += 1
        elif s[j] == c:
            d -= 1
            if d == 0:
                return j
    return -1


def param_name(p):
    p = re.sub(r"=.*$", "", p).strip()            # default values
    p = re.sub(r"__gd_unused", "", p)
    m = re.search(r"(\w+)\s*(\[\s*\])?$", p)
    return m.group(1) if m else None


def norm_arg(a, params):
    a = a.strip()
    # strip C-style casts and reinterpret casts of a single identifier
    prev = None
    while prev != a:
        prev = a
        a = re.sub(r"^\(\s*(?:const\s+)?[\w:]+(?:\s*\*+)?\s*\)\s*", "", a)
        m = re.fullmatch(r"(?:reinterpret_cast|static_cast|const_cast)\s*<[^>]*>\s*\((.*)\)", a)
        if m:
            a = m.group(1).strip()
    if a in ("D", "D->D", "this->D"):
        return "D"
    if a in params:
        return "P%d" % params.index(a)
    if a in ("&E", "&entry.E", "&(entry.E)"):
        return "ENTRY"
    m = re.fullmatch(r"&?E\.(\w+(?:\.\w+|\[\w+\])*)", a)
    if m:
        return "E." + m.group(1)
    return "X:" + re.sub(r"\s+", " ", a)[:60]


def c_prototypes(header):
    txt = strip_comments(open(header).read())
    protos = {}
    for m in re.finditer(r"\b(gd_\w+)\s*\(([^;{}]*?)\)\s*(?:gd_nothrow|gd_nonnull|gd_deprecated|__attribute|;)", txt, re.S):
        name, args = m.group(1), m.group(2)
        if name in protos:
            continue
        al = [] if args.strip() in ("", "void") else split_top(re.sub(r"\s+", " ", args))
        protos[name] = len(al)
    return protos


def extract(repo):
    srcs = sorted(glob.glob(os.path.join(repo, "bindings/cxx/*.cpp")))
    protos = c_prototypes(os.path.join(repo, "src/getdata.h"))
    methods = []
    for path in srcs:
        txt = strip_comments(open(path).read())
        for m in re.finditer(r"(?m)^([\w:\*&<> ]*?)\b(\w+)::(~?\w+)\s*\(", txt):
            cls, name = m.group(2), m.group(3)
            i = txt.index("(", m.end() - 1)
            j = match_paren(txt, i)
            if j < 0:
                continue
            rest = txt[j + 1:j + 200]
            mm = re.match(r"\s*(const)?\s*(:[^{]*)?\{", rest, re.S)
            if not mm:
                continue
            b0 = j + 1 + mm.end() - 1
            b1 = match_paren(txt, b0)
            if b1 < 0:
                methods.append({"cls": cls, "name": name, "file": os.path.basename(path), "parsed": False, "params": [], "calls": []})
                continue
            plist = txt[i + 1:j].strip()
            params = [] if plist in ("", "void") else [param_name(p) for p in split_top(plist)]
            body = txt[b0 + 1:b1]
            calls = []
            for c in re.finditer(r"\b(gd_\w+)\s*\(", body):
                k = body.index("(", c.end() - 1)
                e = match_paren(body, k)
                args = split_top(body[k + 1:e]) if e > k + 1 else []
                calls.append({"callee": c.group(1), "args": [norm_arg(a, params) for a in args],
                              "arity_ok": protos.get(c.group(1)) == len(args) if c.group(1) in protos else None})
            # gd_entry_t members assigned / returned (Entry classes)
            writes = sorted(set(re.findall(r"\bE\.((?:u\.)?\w+(?:\.\w+)*)(?:\[\w+\])?\s*=[^=]", body)))
            reads = sorted(set(re.findall(r"return\s+(?:\([\w:\s\*]+\)\s*)?E\.((?:u\.)?\w+(?:\.\w+)*)", body)))
            methods.append({"cls": cls, "name": name, "file": os.path.basename(path), "parsed": True, "params": params,
                            "calls": calls, "writes": writes, "reads": reads,
                            "line": txt[:m.start()].count("\n") + 1})
    return methods


def lean_str(s):
    return '"' + s.replace("\\", "\\\\").replace('"', '\\"') + '"'


def main(repo="/repo", out=None):
    here = os.path.dirname(os.path.dirname(os.path.abspath(__file__)))
    out = out or os.path.join(here, "lean", "GdModel", "Generated", "CxxFwd.lean")
    info = {"file": out}
    try:
        methods = extract(repo)
    except Exception as e:          # never guess
        open(out, "w").write("/- generated by extract/x7_cxxfwd.py: EXTRACTION FAILED -/\nnamespace GdModel.Generated\ndef cxxfwd_extraction_failed : Unit := ()\nend GdModel.Generated\n")
        info["error"] = repr(e)
        return info
    L = ["/- generated by extract/x7_cxxfwd.py from /repo/bindings/cxx — do not edit -/", "namespace GdModel.Generated",
         "/-- one call of the C API inside a C++ method: callee, arguments (D = the handle, P<i> = i-th method parameter,",
         "    ENTRY = the gd_entry_t of the object, E.<path> = a member of it, X:<text> = anything else), and whether the",
         "    number of arguments equals the arity of the prototype in getdata.h -/",
         "structure CCall where", "  callee : String", "  args : List String", "  arityOk : Bool", "  deriving DecidableEq, Repr",
         "/-- `entryClass`: the class is one of the XxxEntry classes; `setter`: the method name starts with Set;",
         "    `writes`: gd_entry_t member paths assigned in the body, split at the dots -/",
         "structure CxxMethod where", "  cls : String", "  name : String", "  nparams : Nat", "  calls : List CCall",
         "  entryClass : Bool", "  setter : Bool",
         "  writes : List (List String)", "  deriving DecidableEq, Repr", "def cxxMethods : List CxxMethod := ["]
    rows = []
    for m in methods:
        if not m["parsed"]:
            info.setdefault("unknown", []).append("%s::%s" % (m["cls"], m["name"]))
            continue
        calls = ", ".join("⟨%s, [%s], %s⟩" % (lean_str(c["callee"]), ", ".join(lean_str(a) for a in c["args"]),
                                             "true" if c["arity_ok"] is not False else "false") for c in m["calls"])
        ec = m["cls"].endswith("Entry") and m["cls"] != "Entry"
        rows.append("  ⟨%s, %s, %d, [%s], %s, %s, [%s]⟩" % (lean_str(m["cls"]), lean_str(m["name"]), len(m["params"]), calls,
                                                         "true" if ec else "false", "true" if m["name"].startswith("Set") else "false",
                                                         ", ".join("[" + ", ".join(lean_str(x) for x in w.split(".")) + "]" for w in m.get("writes", []))))
    L.append(",\n".join(rows))
    L += ["]", "end GdModel.Generated", ""]
    new = "\n".join(L)
    if not os.path.exists(out) or open(out).read() != new:
        open(out, "w").write(new)
    json.dump(methods, open(out[:-5] + ".json", "w"), indent=1)
    info["methods"] = len(rows)
    return info


if __name__ == "__main__":
    print(main(*(sys.argv[1:2])))
