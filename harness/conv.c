/* conv: correspondence harness for C06.  Reads lines
 *   conv <src> <dst> <hex re> <hex im>
 * calls the real _GD_ConvertType on one sample with those bit patterns and
 * prints the destination bit pattern(s) in hex (NaNs as the class "nan"). */
#include "internal.h"
#include <stdio.h>
#include <string.h>
#include <inttypes.h>

static const struct { const char *n; gd_type_t t; int w; int cplx; int flt; } T[] = {
  {"i8", GD_INT8, 1, 0, 0}, {"u8", GD_UINT8, 1, 0, 0}, {"i16", GD_INT16, 2, 0, 0},
  {"u16", GD_UINT16, 2, 0, 0}, {"i32", GD_INT32, 4, 0, 0}, {"u32", GD_UINT32, 4, 0, 0},
  {"i64", GD_INT64, 8, 0, 0}, {"u64", GD_UINT64, 8, 0, 0}, {"f32", GD_FLOAT32, 4, 0, 1},
  {"f64", GD_FLOAT64, 8, 0, 1}, {"c64", GD_COMPLEX64, 4, 1, 1}, {"c128", GD_COMPLEX128, 8, 1, 1},
};
static int find(const char *s) {
  for (int i = 0; i < 12; i++) if (!strcmp(T[i].n, s)) return i;
  return -1;
}
static void put(unsigned char *b, int w, uint64_t v) { memcpy(b, &v, w); }
static uint64_t get(const unsigned char *b, int w) { uint64_t v = 0; memcpy(&v, b, w); return v; }
static void show(int flt, int w, uint64_t v) {
  if (flt) {
    if (w == 4 && (v & 0x7f800000u) == 0x7f800000u && (v & 0x7fffffu)) { fputs("nan", stdout); return; }
    if (w == 8 && (v & 0x7ff0000000000000ull) == 0x7ff0000000000000ull && (v & 0xfffffffffffffull)) { fputs("nan", stdout); return; }
  }
  printf("%" PRIx64, v);
}
int main(void) {
  char line[256], s[16], d[16];
  uint64_t re, im;
  DIRFILE *D = gd_invalid_dirfile();
  /* canaries around the output to catch writes of the wrong width */
  unsigned char in[16], outbuf[16 + 32];
  while (fgets(line, sizeof line, stdin)) {
    if (sscanf(line, "conv %15s %15s %" SCNx64 " %" SCNx64, s, d, &re, &im) != 4) { puts("bad-op"); continue; }
    int si = find(s), di = find(d);
    if (si < 0 || di < 0) { puts("bad-op"); continue; }
    memset(in, 0, sizeof in); memset(outbuf, 0xA5, sizeof outbuf);
    put(in, T[si].w, re); if (T[si].cplx) put(in + T[si].w, T[si].w, im);
    unsigned char *out = outbuf + 16;
    _GD_ConvertType(D, in, T[si].t, out, T[di].t, 1);
    int osz = T[di].w * (T[di].cplx ? 2 : 1), bad = 0;
    for (int i = 0; i < 16; i++) if (outbuf[i] != 0xA5) bad = 1;
    for (int i = 16 + osz; i < 48; i++) if (outbuf[i] != 0xA5) bad = 1;
    if (bad) { puts("overrun"); continue; }
    show(T[di].flt, T[di].w, get(out, T[di].w));
    if (T[di].cplx) { putchar(' '); show(1, T[di].w, get(out + T[di].w, T[di].w)); }
    putchar('\n');
  }
  gd_discard(D);
  return 0;
}
