/* fault.c — call interposition for gdh (included by gdh.c).
 *
 * Calls the library makes to the functions below are counted while the layer
 * is armed.  At a chosen call index the layer either
 *   - takes a snapshot (recursive copy) of the dirfile directory BEFORE the
 *     call is carried out: the state a process killed at that point leaves
 *     behind, or
 *   - makes the call fail with a chosen errno (nothing is done), once.
 * Ops:  fault arm | fault off | fault log | fault fail <k> <errno> | fault snap <k>|all
 *       snapmeta <k>  : gd_open the k-th snapshot read-only, print its dumpmeta
 *       snapget <k> <field> : whole-field read of <field> from the snapshot
 *       snapls <k>
 */
#include <dlfcn.h>
#include <stdarg.h>

static int f_armed = 0, f_count = 0, f_fail_at = 0, f_fail_errno = 0, f_snap_at = 0, f_snap_all = 0, f_nsnap = 0, f_fired = 0;
static char f_log[16384]; static size_t f_loglen = 0;
static int f_busy = 0;   /* re-entrancy guard: the snapshot copier uses stdio itself */

static void f_note(const char *name) {
  size_t n = strlen(name);
  if (f_loglen + n + 2 < sizeof f_log) { if (f_loglen) f_log[f_loglen++] = ','; memcpy(f_log + f_loglen, name, n); f_loglen += n; f_log[f_loglen] = 0; }
}

static void f_copytree(const char *src, const char *dst) {
  char cmd[9000];
  snprintf(cmd, sizeof cmd, "rm -rf '%s' && cp -a '%s' '%s'", dst, src, dst);
  if (system(cmd)) {}
}

/* returns 1 if this call must fail (errno set) */
static int f_gate(const char *name) {
  if (!f_armed || f_busy) return 0;
  f_busy = 1;
  f_count++;
  f_note(name);
  if (f_snap_all || f_snap_at == f_count) {
    char dst[4300]; snprintf(dst, sizeof dst, "%s_snap%d", workdir, f_snap_all ? f_count : f_snap_at);
    f_copytree(workdir, dst); f_nsnap++;
  }
  f_busy = 0;
  if (f_fail_at == f_count) { errno = f_fail_errno; f_fired = 1; return 1; }
  return 0;
}

#define REAL(ret, name, ...) static ret (*real_##name)(__VA_ARGS__) = NULL; if (!real_##name) real_##name = dlsym(RTLD_NEXT, #name)

static int f_is_std(FILE *s) { return s == stdout || s == stderr || s == stdin; }
/* a stdio call that really fails leaves the stream's error indicator set (what ferror() reports): glibc _IO_ERR_SEEN */
static void f_seterr(FILE *s) { s->_flags |= 0x20; }

int rename(const char *a, const char *b) { REAL(int, rename, const char *, const char *); if (f_gate("rename")) return -1; return real_rename(a, b); }
int renameat(int d1, const char *a, int d2, const char *b) { REAL(int, renameat, int, const char *, int, const char *); if (f_gate("renameat")) return -1; return real_renameat(d1, a, d2, b); }
int unlink(const char *a) { REAL(int, unlink, const char *); if (f_gate("unlink")) return -1; return real_unlink(a); }
int unlinkat(int d, const char *a, int fl) { REAL(int, unlinkat, int, const char *, int); if (f_gate("unlinkat")) return -1; return real_unlinkat(d, a, fl); }
int fchmod(int fd, mode_t m) { REAL(int, fchmod, int, mode_t); if (f_gate("fchmod")) return -1; return real_fchmod(fd, m); }
int fsync(int fd) { REAL(int, fsync, int); if (f_gate("fsync")) return -1; return real_fsync(fd); }
int ftruncate(int fd, off_t l) { REAL(int, ftruncate, int, off_t); if (f_gate("ftruncate")) return -1; return real_ftruncate(fd, l); }
ssize_t write(int fd, const void *b, size_t n) { REAL(ssize_t, write, int, const void *, size_t); if (fd > 2 && f_gate("write")) return -1; return real_write(fd, b, n); }
int fclose(FILE *s) {
  REAL(int, fclose, FILE *);
  /* closing a stream opened read-only writes nothing and is not a failure point */
  if (!f_is_std(s) && (fcntl(fileno(s), F_GETFL) & O_ACCMODE) != O_RDONLY && f_gate("fclose")) {
    real_fclose(s); errno = f_fail_errno; return EOF;   /* the descriptor is gone either way, as after a failed flush */
  }
  return real_fclose(s);
}
int fflush(FILE *s) { REAL(int, fflush, FILE *); if (s && !f_is_std(s) && f_gate("fflush")) { f_seterr(s); return EOF; } return real_fflush(s); }
int fputs(const char *str, FILE *s) { REAL(int, fputs, const char *, FILE *); if (!f_is_std(s) && f_gate("fputs")) { f_seterr(s); return EOF; } return real_fputs(str, s); }
int fputc(int c, FILE *s) { REAL(int, fputc, int, FILE *); if (!f_is_std(s) && f_gate("fputc")) { f_seterr(s); return EOF; } return real_fputc(c, s); }
size_t fwrite(const void *p, size_t sz, size_t n, FILE *s) { REAL(size_t, fwrite, const void *, size_t, size_t, FILE *); if (!f_is_std(s) && f_gate("fwrite")) { f_seterr(s); return 0; } return real_fwrite(p, sz, n, s); }
int fprintf(FILE *s, const char *fmt, ...) {
  va_list ap; int r;
  if (!f_is_std(s) && f_gate("fprintf")) { f_seterr(s); return -1; }
  va_start(ap, fmt); r = vfprintf(s, fmt, ap); va_end(ap);
  return r;
}

static int fault_op(int nt, char **tok) {
  const char *op = tok[0];
  if (!strcmp(op, "fault") && nt >= 2) {
    if (!strcmp(tok[1], "arm")) { f_armed = 1; f_count = 0; f_loglen = 0; f_log[0] = 0; f_fired = 0; f_nsnap = 0; puts("-"); }
    else if (!strcmp(tok[1], "off")) { f_armed = 0; f_fail_at = 0; f_snap_at = 0; f_snap_all = 0; puts("-"); }
    else if (!strcmp(tok[1], "log")) { printf("faultlog n=%d fired=%d snaps=%d %s\n", f_count, f_fired, f_nsnap, f_log); }
    else if (!strcmp(tok[1], "fail") && nt >= 4) { f_fail_at = atoi(tok[2]); f_fail_errno = atoi(tok[3]); puts("-"); }
    else if (!strcmp(tok[1], "snap") && nt >= 3) { if (!strcmp(tok[2], "all")) f_snap_all = 1; else f_snap_at = atoi(tok[2]); puts("-"); }
    else puts("bad-op");
    fflush(stdout); return 1;
  }
  if (!strcmp(op, "snaplsr") && nt >= 2) {
    /* recursive listing with content hashes of the k-th snapshot */
    char savewd[4096]; strcpy(savewd, workdir);
    int was = f_armed; f_armed = 0;
    snprintf(workdir, sizeof workdir, "%s_snap%s", savewd, tok[1]);
    printf("snaplsr"); build_dirhash(1); putchar('\n'); fflush(stdout);
    strcpy(workdir, savewd); f_armed = was; return 1;
  }
  if (!strcmp(op, "swap")) {
    /* second handle slot: swap the current handle with the parked one */
    static DIRFILE *parked = NULL;
    DIRFILE *t = D; D = parked; parked = t;
    puts("-"); fflush(stdout); return 1;
  }
  if (!strcmp(op, "snapnf") && nt >= 2) {
    /* a fresh reader on the k-th snapshot: gd_nframes and every frame of <field> below it */
    char dir[4300];
    if (!strcmp(tok[1], "live")) snprintf(dir, sizeof dir, "%s", workdir); else snprintf(dir, sizeof dir, "%s_snap%s", workdir, tok[1]);
    int was = f_armed; f_armed = 0;
    DIRFILE *R = gd_open(dir, GD_RDONLY);
    int eo = gd_error(R);
    long long nf = gd_nframes64(R); int en = gd_error(R);
    printf("snapnf open=%d nf=%lld e=%d", eo, nf, en);
    if (nt >= 3 && !eo && !en) {
      unsigned spf = gd_spf(R, tok[2]);
      size_t want = (size_t)(nf > 0 ? nf : 0) * spf, cap = want ? want : 1;
      double *buf = malloc(cap * sizeof(double));
      size_t n = gd_getdata64(R, tok[2], 0, 0, (size_t)(nf > 0 ? nf : 0), 0, GD_FLOAT64, buf);
      printf(" n=%zu ge=%d d=", n, gd_error(R));
      for (size_t i = 0; i < n; i++) { uint64_t b; memcpy(&b, buf + i, 8); if (buf[i] != buf[i]) printf("%snan", i ? "," : ""); else printf("%s%" PRIx64, i ? "," : "", b); }
      free(buf);
    }
    putchar('\n'); fflush(stdout);
    gd_discard(R); f_armed = was; return 1;
  }
  if ((!strcmp(op, "snapmeta") || !strcmp(op, "snapget") || !strcmp(op, "snapls")) && nt >= 2) {
    char dir[4300]; snprintf(dir, sizeof dir, "%s_snap%s", workdir, tok[1]);
    int was = f_armed; f_armed = 0;
    if (!strcmp(op, "snapls")) {
      struct dirent **nl; int n = scandir(dir, &nl, NULL, alphasort);
      fputs("snapls", stdout);
      for (int i = 0; i < n; i++) { if (strcmp(nl[i]->d_name, ".") && strcmp(nl[i]->d_name, "..")) printf(" %s", nl[i]->d_name); free(nl[i]); }
      if (n >= 0) free(nl); else fputs(" absent", stdout);
      putchar('\n'); fflush(stdout); f_armed = was; return 1;
    }
    if (0) {}
    DIRFILE *save = D; char savewd[4096]; strcpy(savewd, workdir);
    D = gd_open(dir, GD_RDONLY);
    if (gd_error(D)) { printf("%s open-error %d\n", op, gd_error(D)); }
    else if (!strcmp(op, "snapmeta")) { strcpy(workdir, dir); build_dump(); strcpy(workdir, savewd); fputs("snapmeta ", stdout); fputs(dump_buf, stdout); putchar('\n'); }
    else if (nt >= 3) {
      size_t cap = 100000; double *buf = malloc(cap * sizeof(double));
      size_t n = gd_getdata64(D, tok[2], 0, 0, 0, cap, GD_FLOAT64, buf);
      printf("snapget n=%zu e=%d d=", n, gd_error(D));
      for (size_t i = 0; i < n; i++) { uint64_t b; memcpy(&b, buf + i, 8); if (buf[i] != buf[i]) printf("%snan", i ? "," : ""); else printf("%s%" PRIx64, i ? "," : "", b); }
      putchar('\n'); free(buf);
    }
    gd_discard(D); D = save; fflush(stdout); f_armed = was; return 1;
  }
  return 0;
}
