/* gdh: op-script interpreter driving the real GetData library.
 *
 * usage: gdh <workdir> < script
 * One result line per script line.  Lines starting with "def" (model-side
 * definitions) and "#" are answered with "-".
 * See DESIGN.md 1.5 for the op vocabulary.
 */
#include "internal.h"
#include <stdio.h>
#include <string.h>
#include <stdlib.h>
#include <inttypes.h>
#include <sys/stat.h>
#include <dirent.h>
#include <signal.h>
#include <unistd.h>
#include <errno.h>
#include <stdarg.h>
#include <complex.h>

static DIRFILE *D = NULL;
static char workdir[4096];

static const struct { const char *n; gd_type_t t; int w; int cplx; int flt; } T[] = {
  {"i8", GD_INT8, 1, 0, 0}, {"u8", GD_UINT8, 1, 0, 0}, {"i16", GD_INT16, 2, 0, 0},
  {"u16", GD_UINT16, 2, 0, 0}, {"i32", GD_INT32, 4, 0, 0}, {"u32", GD_UINT32, 4, 0, 0},
  {"i64", GD_INT64, 8, 0, 0}, {"u64", GD_UINT64, 8, 0, 0}, {"f32", GD_FLOAT32, 4, 0, 1},
  {"f64", GD_FLOAT64, 8, 0, 1}, {"c64", GD_COMPLEX64, 4, 1, 1}, {"c128", GD_COMPLEX128, 8, 1, 1},
  {"null", GD_NULL, 0, 0, 0},
};
#define NT 13
static int tfind(const char *s) {
  for (int i = 0; i < NT; i++) if (!strcmp(T[i].n, s)) return i;
  return -1;
}
static int tfind_t(gd_type_t t) {
  for (int i = 0; i < NT; i++) if (T[i].t == t) return i;
  return -1;
}

static int hexv(int c) {
  if (c >= '0' && c <= '9') return c - '0';
  if (c >= 'a' && c <= 'f') return c - 'a' + 10;
  if (c >= 'A' && c <= 'F') return c - 'A' + 10;
  return -1;
}
/* decode hex string into malloc'd buffer */
static unsigned char *unhex(const char *s, size_t *len) {
  size_t n = strlen(s) / 2;
  unsigned char *b = malloc(n + 1);
  for (size_t i = 0; i < n; i++) b[i] = (unsigned char)(hexv(s[2 * i]) * 16 + hexv(s[2 * i + 1]));
  b[n] = 0;
  *len = n;
  return b;
}
static void mkparents(char *path) {
  for (char *p = path + 1; *p; p++)
    if (*p == '/') { *p = 0; mkdir(path, 0777); *p = '/'; }
}
static void show_elem(int ti, const unsigned char *p) {
  int w = T[ti].w;
  for (int c = 0; c < (T[ti].cplx ? 2 : 1); c++) {
    uint64_t v = 0;
    memcpy(&v, p + c * w, w);
    if (c) putchar(';');
    if (T[ti].flt) {
      if (w == 4 && (v & 0x7f800000u) == 0x7f800000u && (v & 0x7fffffu)) { fputs("nan", stdout); continue; }
      if (w == 8 && (v & 0x7ff0000000000000ull) == 0x7ff0000000000000ull && (v & 0xfffffffffffffull)) { fputs("nan", stdout); continue; }
    }
    printf("%" PRIx64, v);
  }
}
static void tail(void) {
  if (D) printf(" rl=%d", D->recurse_level);
  putchar('\n');
  fflush(stdout);
}
static long long parse_ll(const char *s) {
  if (!strcmp(s, "here")) return GD_HERE;
  return strtoll(s, NULL, 0);
}
static int cb_n = 0, cb_action = GD_SYNTAX_IGNORE;
static char cb_log[8192];
static int verif_cb(gd_parser_data_t *pd, void *extra) {
  (void)extra;
  size_t l = strlen(cb_log);
  if (l + 64 < sizeof cb_log) {
    const char *fn = pd->filename ? strrchr(pd->filename, '/') : NULL;
    snprintf(cb_log + l, sizeof cb_log - l, " %s:%d:%d", fn ? fn + 1 : "?", pd->linenum, pd->suberror);
  }
  cb_n++;
  return cb_action;
}
static unsigned long parse_flags(char **tok, int n) {
  unsigned long f = 0;
  for (int i = 0; i < n; i++) {
    const char *s = tok[i];
    if (!strcmp(s, "rdonly")) f |= GD_RDONLY;
    else if (!strcmp(s, "rdwr")) f |= GD_RDWR;
    else if (!strcmp(s, "creat")) f |= GD_CREAT;
    else if (!strcmp(s, "excl")) f |= GD_EXCL;
    else if (!strcmp(s, "trunc")) f |= GD_TRUNC;
    else if (!strcmp(s, "pedantic")) f |= GD_PEDANTIC;
    else if (!strcmp(s, "permissive")) f |= GD_PERMISSIVE;
    else if (!strcmp(s, "pretty")) f |= GD_PRETTY_PRINT;
    else if (!strcmp(s, "verbose")) f |= GD_VERBOSE;
    else if (!strcmp(s, "ignore_dups")) f |= GD_IGNORE_DUPS;
    else if (!strcmp(s, "big")) f |= GD_BIG_ENDIAN;
    else if (!strcmp(s, "little")) f |= GD_LITTLE_ENDIAN;
    else if (!strcmp(s, "arm")) f |= GD_ARM_ENDIAN;
    else if (!strcmp(s, "notarm")) f |= GD_NOT_ARM_ENDIAN;
    else if (!strcmp(s, "enc_none")) f |= GD_UNENCODED;
    else if (!strcmp(s, "enc_text")) f |= GD_TEXT_ENCODED;
    else if (!strcmp(s, "enc_sie")) f |= GD_SIE_ENCODED;
    else if (!strcmp(s, "enc_gzip")) f |= GD_GZIP_ENCODED;
    else if (!strcmp(s, "enc_bzip2")) f |= GD_BZIP2_ENCODED;
    else if (!strcmp(s, "enc_lzma")) f |= GD_LZMA_ENCODED;
    else if (!strcmp(s, "truncsub")) f |= GD_TRUNCSUB;
    else f |= strtoul(s, NULL, 0);
  }
  return f;
}

#include "gdh_meta.c"
#include "fault.c"

static void alarm_handler(int sig) {
  (void)sig;
  const char m[] = "HANG\n";
  if (write(1, m, 5)) {}
  _exit(97);
}

#define MAXTOK 64
int main(int argc, char **argv) {
  static char line[1 << 22];
  if (argc < 2) { fprintf(stderr, "usage: gdh <workdir>\n"); return 2; }
  snprintf(workdir, sizeof workdir, "%s", argv[1]);
  mkdir(workdir, 0777);
  signal(SIGALRM, alarm_handler);
  while (fgets(line, sizeof line, stdin)) {
    char *tok[MAXTOK];
    int nt = 0;
    size_t L = strlen(line);
    while (L && (line[L - 1] == '\n' || line[L - 1] == '\r')) line[--L] = 0;
    for (char *p = strtok(line, " "); p && nt < MAXTOK; p = strtok(NULL, " ")) tok[nt++] = p;
    if (nt == 0 || tok[0][0] == '#' || !strcmp(tok[0], "def")) { puts("-"); fflush(stdout); continue; }
    const char *op = tok[0];
    alarm(20);
    if (!strcmp(op, "tok") && nt >= 3) {
      /* tok <v6:0|1> <want> [hex of the string] : call _GD_Tokenise itself */
      static DIRFILE *TD = NULL;
      struct parser_state p;
      size_t n = 0; unsigned char *b = unhex(nt >= 4 ? tok[3] : "", &n);
      char *outstring = NULL; const char *pos = NULL; char *in_cols[MAX_IN_COLS + 1];
      int want = atoi(tok[2]);
      if (!TD) TD = gd_invalid_dirfile();
      TD->error = 0; TD->suberror = 0; TD->flags &= ~GD_INVALID;
      _GD_SimpleParserInit(TD, "tok", &p);
      if (tok[1][0] == '0') { p.pedantic = 1; p.standards = 5; }
      else { p.pedantic = 0; p.standards = GD_DIRFILE_STANDARDS_VERSION; }
      if (want > MAX_IN_COLS) want = MAX_IN_COLS;
      /* exactly-sized copy so ASan sees over-reads */
      char *str = malloc(n + 1); memcpy(str, b, n); str[n] = 0;
      int nc = _GD_Tokenise(TD, &p, str, &outstring, &pos, want, in_cols);
      printf("tok n=%d e=%s pos=%ld t=", nc,
          TD->error == 0 ? "ok" : (TD->suberror == GD_E_FORMAT_CHARACTER ? "character" :
            (TD->suberror == GD_E_FORMAT_UNTERM ? "unterminated" : "other")), (long)(pos - str));
      if (outstring) for (int i = 0; i < nc; i++) {
        if (i) putchar(',');
        for (const unsigned char *q = (const unsigned char *)in_cols[i]; *q; q++) printf("%02x", *q);
      }
      putchar('\n'); fflush(stdout);
      free(outstring); free(str); free(b);
    } else if (!strcmp(op, "reset")) {
      /* start a fresh dirfile directory */
      static int counter = 0;
      if (D) { gd_discard(D); D = NULL; }
      snprintf(workdir, sizeof workdir, "%s/df%d", argv[1], counter++);
      mkdir(workdir, 0777);
      puts("-"); fflush(stdout);
    } else if (!strcmp(op, "file") && nt >= 2) {
      /* file <relpath> [hex] : create/overwrite a file under the dirfile */
      char path[8192]; size_t n = 0; unsigned char *b;
      snprintf(path, sizeof path, "%s/%s", workdir, tok[1]);
      mkparents(path);
      b = unhex(nt >= 3 ? tok[2] : "", &n);
      FILE *f = fopen(path, "wb");
      if (!f) { printf("file-error %d\n", errno); free(b); continue; }
      fwrite(b, 1, n, f); fclose(f); free(b);
      puts("-"); fflush(stdout);
    } else if (!strcmp(op, "append") && nt >= 3) {
      char path[8192]; size_t n = 0; unsigned char *b;
      snprintf(path, sizeof path, "%s/%s", workdir, tok[1]);
      b = unhex(tok[2], &n);
      FILE *f = fopen(path, "ab");
      if (!f) { printf("file-error %d\n", errno); free(b); continue; }
      fwrite(b, 1, n, f); fclose(f); free(b);
      puts("-"); fflush(stdout);
    } else if (!strcmp(op, "dump") && nt >= 2) {
      char path[8192];
      snprintf(path, sizeof path, "%s/%s", workdir, tok[1]);
      FILE *f = fopen(path, "rb");
      if (!f) { puts("dump absent"); fflush(stdout); continue; }
      int c; fputs("dump ", stdout);
      while ((c = fgetc(f)) != EOF) printf("%02x", c);
      fclose(f); putchar('\n'); fflush(stdout);
    } else if (!strcmp(op, "ls")) {
      /* sorted listing of the top-level directory */
      struct dirent **nl; int n = scandir(workdir, &nl, NULL, alphasort);
      fputs("ls", stdout);
      for (int i = 0; i < n; i++) {
        if (strcmp(nl[i]->d_name, ".") && strcmp(nl[i]->d_name, "..")) printf(" %s", nl[i]->d_name);
        free(nl[i]);
      }
      if (n >= 0) free(nl);
      putchar('\n'); fflush(stdout);
    } else if (fault_op(nt, tok)) {
      /* handled in fault.c */
    } else if (!strcmp(op, "open")) {
      if (D) gd_discard(D);
      D = gd_open(workdir, parse_flags(tok + 1, nt - 1));
      printf("open e=%d", gd_error(D)); tail();
    } else if (!strcmp(op, "opencb") && nt >= 2) {
      /* opencb ignore|continue|abort <flags...> : gd_cbopen with a syntax-error callback; prints the callbacks */
      if (D) gd_discard(D);
      cb_n = 0; cb_log[0] = 0;
      cb_action = !strcmp(tok[1], "ignore") ? GD_SYNTAX_IGNORE : !strcmp(tok[1], "continue") ? GD_SYNTAX_CONTINUE : GD_SYNTAX_ABORT;
      D = gd_cbopen(workdir, parse_flags(tok + 2, nt - 2), verif_cb, NULL);
      printf("opencb e=%d ncb=%d%s", gd_error(D), cb_n, cb_log); tail();
    } else if (!D) {
      puts("no-dirfile"); fflush(stdout);
    } else if (!strcmp(op, "get") && nt >= 7) {
      /* get <code> <first_frame> <first_samp> <nframes> <nsamp> <rtype> */
      int ti = tfind(tok[6]);
      long long ff = parse_ll(tok[2]), fs = parse_ll(tok[3]);
      size_t nf = strtoull(tok[4], NULL, 0), ns = strtoull(tok[5], NULL, 0);
      unsigned spf = gd_spf(D, tok[1]);
      size_t want = nf * (spf ? spf : 1) + ns, cap = want;
      if (cap > (1u << 24)) cap = 1u << 24;   /* harness allocation bound */
      size_t esz = T[ti].w * (T[ti].cplx ? 2 : 1);
      /* exactly the documented size, so that ASan sees any overrun */
      unsigned char *buf = malloc(cap * esz ? cap * esz : 1);
      memset(buf, 0xA5, cap * esz ? cap * esz : 1);
      size_t n;
      if (want > cap) { /* huge requests: only legal to pass if library clamps; use exact-size guard */
        n = gd_getdata64(D, tok[1], ff, fs, 0, cap, T[ti].t, buf);
      } else
        n = gd_getdata64(D, tok[1], ff, fs, nf, ns, T[ti].t, buf);
      printf("get n=%zu e=%d d=", n, gd_error(D));
      for (size_t i = 0; i < n && i < cap && esz; i++) { if (i) putchar(','); show_elem(ti, buf + i * esz); }
      free(buf); tail();
    } else if (!strcmp(op, "put") && nt >= 6) {
      /* put <code> <first_frame> <first_samp> <type> <v0,v1,...>  (values: hex bit patterns; complex re;im) */
      int ti = tfind(tok[4]);
      long long ff = parse_ll(tok[2]), fs = parse_ll(tok[3]);
      size_t esz = T[ti].w * (T[ti].cplx ? 2 : 1), n = 0, capn = 16;
      unsigned char *buf = malloc(capn * esz);
      char *sv = NULL;
      for (char *p = strtok_r(tok[5], ",", &sv); p; p = strtok_r(NULL, ",", &sv)) {
        if (!strcmp(p, "-")) break;
        if (n == capn) { capn *= 2; buf = realloc(buf, capn * esz); }
        uint64_t re = strtoull(p, NULL, 16), im = 0;
        char *sc = strchr(p, ';');
        if (sc) im = strtoull(sc + 1, NULL, 16);
        memcpy(buf + n * esz, &re, T[ti].w);
        if (T[ti].cplx) memcpy(buf + n * esz + T[ti].w, &im, T[ti].w);
        n++;
      }
      size_t r = gd_putdata64(D, tok[1], ff, fs, 0, n, T[ti].t, buf);
      printf("put n=%zu e=%d", r, gd_error(D));
      free(buf); tail();
    } else if (!strcmp(op, "errstr")) {
      char buf[512]; gd_error_string(D, buf, sizeof buf);
      printf("errstr %s\n", buf); fflush(stdout);
    } else if (!strcmp(op, "getenc")) {
      unsigned long e = gd_encoding(D, nt >= 2 ? atoi(tok[1]) : 0);
      const char *n = e == GD_UNENCODED ? "none" : e == GD_TEXT_ENCODED ? "text" : e == GD_SIE_ENCODED ? "sie" :
        e == GD_GZIP_ENCODED ? "gzip" : e == GD_BZIP2_ENCODED ? "bzip2" : e == GD_LZMA_ENCODED ? "lzma" :
        e == GD_SLIM_ENCODED ? "slim" : e == GD_ZZIP_ENCODED ? "zzip" : e == GD_ZZSLIM_ENCODED ? "zzslim" :
        e == GD_FLAC_ENCODED ? "flac" : e == GD_AUTO_ENCODED ? "auto" : "unsupported";
      printf("getenc %s e=%d", n, gd_error(D)); tail();
    } else if (!strcmp(op, "eof") && nt >= 2) {
      long long r = gd_eof64(D, tok[1]);
      printf("eof %lld e=%d", r, gd_error(D)); tail();
    } else if (!strcmp(op, "bof") && nt >= 2) {
      long long r = gd_bof64(D, tok[1]);
      printf("bof %lld e=%d", r, gd_error(D)); tail();
    } else if (!strcmp(op, "nframes")) {
      long long r = gd_nframes64(D);
      printf("nframes %lld e=%d", r, gd_error(D)); tail();
    } else if (!strcmp(op, "spf") && nt >= 2) {
      unsigned r = gd_spf(D, tok[1]);
      printf("spf %u e=%d", r, gd_error(D)); tail();
    } else if (!strcmp(op, "ntype") && nt >= 2) {
      gd_type_t r = gd_native_type(D, tok[1]);
      int ti = tfind_t(r);
      printf("ntype %s e=%d", ti >= 0 ? T[ti].n : "unknown", gd_error(D)); tail();
    } else if (!strcmp(op, "seek") && nt >= 5) {
      /* seek <code> <frame> <samp> <set|cur|end>[+write] */
      int wh = 0;
      if (strstr(tok[4], "set")) wh = GD_SEEK_SET; else if (strstr(tok[4], "cur")) wh = GD_SEEK_CUR; else wh = GD_SEEK_END;
      if (strstr(tok[4], "write")) wh |= GD_SEEK_WRITE;
      long long r = gd_seek64(D, tok[1], parse_ll(tok[2]), parse_ll(tok[3]), wh);
      printf("seek %lld e=%d", r, gd_error(D)); tail();
    } else if (!strcmp(op, "tell") && nt >= 2) {
      long long r = gd_tell64(D, tok[1]);
      printf("tell %lld e=%d", r, gd_error(D)); tail();
    } else if (!strcmp(op, "flush")) {
      int r = gd_flush(D, nt >= 2 ? tok[1] : NULL);
      printf("flush %d e=%d", r, gd_error(D)); tail();
    } else if (!strcmp(op, "sync")) {
      int r = gd_sync(D, nt >= 2 ? tok[1] : NULL);
      printf("sync %d e=%d", r, gd_error(D)); tail();
    } else if (!strcmp(op, "rawclose")) {
      int r = gd_raw_close(D, nt >= 2 ? tok[1] : NULL);
      printf("rawclose %d e=%d", r, gd_error(D)); tail();
    } else if (!strcmp(op, "metaflush")) {
      int r = gd_metaflush(D);
      printf("metaflush %d e=%d", r, gd_error(D)); tail();
    } else if (!strcmp(op, "close")) {
      int r = gd_close(D);
      if (r == 0) D = NULL;
      printf("close %d\n", r); fflush(stdout);
    } else if (!strcmp(op, "discard")) {
      int r = gd_discard(D); D = NULL;
      printf("discard %d\n", r); fflush(stdout);
    } else if (!strcmp(op, "openlimit") && nt >= 2) {
      long r = gd_open_limit(D, strtol(tok[1], NULL, 0));
      printf("openlimit %ld e=%d", r, gd_error(D)); tail();
    } else if (!strcmp(op, "lookback") && nt >= 2) {
      gd_mplex_lookback(D, !strcmp(tok[1], "all") ? GD_LOOKBACK_ALL : (int)strtol(tok[1], NULL, 0));
      printf("lookback e=%d", gd_error(D)); tail();
    } else if (!strcmp(op, "framenum") && nt >= 5) {
      /* framenum <code> <value f64 bits hex> <start> <end> */
      uint64_t vb = strtoull(tok[2], NULL, 16); double v; memcpy(&v, &vb, 8);
      alarm(3);
      double r = gd_framenum_subset64(D, tok[1], v, parse_ll(tok[3]), parse_ll(tok[4]));
      uint64_t rb; memcpy(&rb, &r, 8);
      printf("framenum ");
      if (r != r) fputs("nan", stdout); else printf("%" PRIx64, rb);
      printf(" e=%d", gd_error(D)); tail();
    } else if (!strcmp(op, "addspec") && nt >= 3) {
      size_t n; unsigned char *b = unhex(tok[2], &n);
      int r = gd_add_spec(D, (char *)b, atoi(tok[1]));
      printf("addspec %d e=%d", r, gd_error(D)); free(b); tail();
    } else if (!strcmp(op, "putconst") && nt >= 4) {
      /* putconst <code> <type> <hexbits> */
      int ti = tfind(tok[2]); unsigned char v[16] = {0};
      uint64_t re = strtoull(tok[3], NULL, 16); memcpy(v, &re, T[ti].w);
      int r = gd_put_constant(D, tok[1], T[ti].t, v);
      printf("putconst %d e=%d", r, gd_error(D)); tail();
    } else if (!strcmp(op, "getcarray") && nt >= 3) {
      /* getcarray <code> <type> : whole CONST/CARRAY as <type> */
      int ti = tfind(tok[2]);
      size_t len = gd_array_len(D, tok[1]);
      size_t esz = T[ti].w * (T[ti].cplx ? 2 : 1);
      unsigned char *buf = malloc(len * esz ? len * esz : 1);
      int r = gd_get_carray(D, tok[1], T[ti].t, buf);
      printf("getcarray %d e=%d d=", r, gd_error(D));
      if (r == 0) for (size_t i = 0; i < len; i++) { if (i) putchar(','); show_elem(ti, buf + i * esz); }
      free(buf); tail();
    } else if (meta_op(nt, tok)) {
      /* handled in gdh_meta.c */
    } else if (!strcmp(op, "rl")) {
      printf("rl"); tail();
    } else if (!strcmp(op, "validate") && nt >= 2) {
      int r = gd_validate(D, tok[1]);
      printf("validate %d e=%d", r, gd_error(D)); tail();
    } else {
      puts("bad-op"); fflush(stdout);
    }
    alarm(0);
  }
  if (D) gd_discard(D);
  return 0;
}
