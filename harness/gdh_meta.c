/* gdh_meta.c — metadata ops, dumps and snapshots for gdh (included by gdh.c).
 *
 * dumpmeta            canonical one-line text of everything observable about
 *                     the metadata (fragments, entries with all parameters,
 *                     aliases, hidden flags, reference, scalars' values)
 * snap                hashes of dumpmeta and of the directory tree contents
 * lists               every list/count function for the top level and every
 *                     parent: consistency is checked here, result "lists ok"
 * mutators: addspec, maddspec, alterspec, malterspec, delete, rename, move,
 *   hide, unhide, alias, malias, include, uninclude, affixes, namespace,
 *   encoding, endianness, frameoffset, protect, putconst, putcarray (slice),
 *   putstring, putsarray, standards, flags, rewrite, reference, altertable
 */
#include <ftw.h>

static char *dump_buf = NULL;
static size_t dump_len = 0, dump_cap = 0;

static void dput(const char *fmt, ...) {
  va_list ap; char tmp[4096];
  va_start(ap, fmt);
  int n = vsnprintf(tmp, sizeof tmp, fmt, ap);
  va_end(ap);
  if (n < 0) return;
  if ((size_t)n >= sizeof tmp) n = sizeof tmp - 1;
  if (dump_len + n + 1 > dump_cap) { dump_cap = (dump_cap + n + 1) * 2; dump_buf = realloc(dump_buf, dump_cap); }
  memcpy(dump_buf + dump_len, tmp, n); dump_len += n; dump_buf[dump_len] = 0;
}
static void dput_str(const char *s) {     /* bytes as hex so that any byte is visible and the line stays one line */
  if (!s) { dput("(null)"); return; }
  dput("\"");
  for (const unsigned char *p = (const unsigned char *)s; *p; p++) {
    if (*p > 32 && *p < 127 && *p != '"' && *p != '\\' && *p != '|') dput("%c", *p); else dput("\\x%02x", *p);
  }
  dput("\"");
}
static void dput_dbl(double v) { uint64_t b; memcpy(&b, &v, 8); if (v != v) dput("nan"); else dput("%" PRIx64, b); }
static void dput_scalar(gd_entry_t *E, int i) {
  if (E->scalar[i]) { dput("<"); dput_str(E->scalar[i]); dput(":%d>", E->scalar_ind[i]); }
}

static void dump_entry(const char *name) {
  gd_entry_t E;
  memset(&E, 0, sizeof E);
  if (gd_entry(D, name, &E)) { dput("|E "); dput_str(name); dput(" err=%d", gd_error(D)); return; }
  dput("|E "); dput_str(name); dput(" as="); dput_str(E.field); dput(" t=%x f=%d fl=%x", E.field_type, E.fragment_index, E.flags & ~0x1u /* drop CALC */);
  int i;
  switch (E.field_type) {
    case GD_RAW_ENTRY: dput(" spf=%u", E.EN(raw,spf)); dput_scalar(&E, 0); dput(" ty=%x", E.EN(raw,data_type)); break;
    case GD_LINCOM_ENTRY:
      dput(" n=%d", E.EN(lincom,n_fields));
      for (i = 0; i < E.EN(lincom,n_fields) && i < GD_MAX_LINCOM; i++) {
        dput(" in="); dput_str(E.in_fields[i]);
        dput(" m="); dput_dbl(creal(E.EN(lincom,cm)[i])); dput(";"); dput_dbl(cimag(E.EN(lincom,cm)[i])); dput_scalar(&E, i);
        dput(" b="); dput_dbl(creal(E.EN(lincom,cb)[i])); dput(";"); dput_dbl(cimag(E.EN(lincom,cb)[i])); dput_scalar(&E, i + GD_MAX_LINCOM);
      }
      break;
    case GD_LINTERP_ENTRY: dput(" in="); dput_str(E.in_fields[0]); dput(" tab="); dput_str(E.EN(linterp,table)); break;
    case GD_BIT_ENTRY: case GD_SBIT_ENTRY:
      dput(" in="); dput_str(E.in_fields[0]); dput(" bn=%d", E.EN(bit,bitnum)); dput_scalar(&E, 0);
      dput(" nb=%d", E.EN(bit,numbits)); dput_scalar(&E, 1); break;
    case GD_MULTIPLY_ENTRY: case GD_DIVIDE_ENTRY: case GD_INDIR_ENTRY: case GD_SINDIR_ENTRY:
      dput(" in="); dput_str(E.in_fields[0]); dput(" in2="); dput_str(E.in_fields[1]); break;
    case GD_RECIP_ENTRY:
      dput(" in="); dput_str(E.in_fields[0]); dput(" d="); dput_dbl(creal(E.EN(recip,cdividend))); dput(";");
      dput_dbl(cimag(E.EN(recip,cdividend))); dput_scalar(&E, 0); break;
    case GD_PHASE_ENTRY: dput(" in="); dput_str(E.in_fields[0]); dput(" sh=%lld", (long long)E.EN(phase,shift)); dput_scalar(&E, 0); break;
    case GD_POLYNOM_ENTRY:
      dput(" in="); dput_str(E.in_fields[0]); dput(" po=%d", E.EN(polynom,poly_ord));
      for (i = 0; i <= E.EN(polynom,poly_ord) && i <= GD_MAX_POLYORD; i++) {
        dput(" a="); dput_dbl(creal(E.EN(polynom,ca)[i])); dput(";"); dput_dbl(cimag(E.EN(polynom,ca)[i])); dput_scalar(&E, i);
      }
      break;
    case GD_WINDOW_ENTRY:
      dput(" in="); dput_str(E.in_fields[0]); dput(" in2="); dput_str(E.in_fields[1]); dput(" op=%d thr=", E.EN(window,windop));
      switch (E.EN(window,windop)) {
        case GD_WINDOP_EQ: case GD_WINDOP_NE: dput("%lld", (long long)E.EN(window,threshold).i); break;
        case GD_WINDOP_SET: case GD_WINDOP_CLR: dput("%llu", (unsigned long long)E.EN(window,threshold).u); break;
        default: dput_dbl(E.EN(window,threshold).r);
      }
      dput_scalar(&E, 0); break;
    case GD_MPLEX_ENTRY:
      dput(" in="); dput_str(E.in_fields[0]); dput(" in2="); dput_str(E.in_fields[1]);
      dput(" cv=%d", E.EN(mplex,count_val)); dput_scalar(&E, 0); dput(" per=%d", E.EN(mplex,period)); dput_scalar(&E, 1); break;
    case GD_CONST_ENTRY: case GD_CARRAY_ENTRY: {
      dput(" ty=%x len=%zu v=", E.EN(scalar,const_type), E.field_type == GD_CONST_ENTRY ? (size_t)1 : E.EN(scalar,array_len));
      size_t len = E.field_type == GD_CONST_ENTRY ? 1 : E.EN(scalar,array_len);
      if (len > 4096) len = 4096;
      double *v = malloc(2 * len * sizeof(double) + 16);
      if (gd_get_carray_slice(D, name, 0, len, GD_COMPLEX128, v) == 0)
        for (size_t k = 0; k < len; k++) { if (k) dput(","); dput_dbl(v[2 * k]); dput(";"); dput_dbl(v[2 * k + 1]); }
      else dput("err%d", gd_error(D));
      /* integer storage: also as INT64/UINT64 so 64-bit values are not rounded */
      if (!(E.EN(scalar,const_type) & (GD_IEEE754 | GD_COMPLEX))) {
        uint64_t *u = (uint64_t *)v; dput(" iv=");
        if (gd_get_carray_slice(D, name, 0, len, (E.EN(scalar,const_type) & GD_SIGNED) ? GD_INT64 : GD_UINT64, u) == 0)
          for (size_t k = 0; k < len; k++) { if (k) dput(","); dput("%" PRIx64, u[k]); }
      }
      free(v); break; }
    case GD_STRING_ENTRY: case GD_SARRAY_ENTRY: {
      size_t len = E.field_type == GD_STRING_ENTRY ? 1 : E.EN(scalar,array_len);
      dput(" len=%zu v=", len);
      if (len > 4096) len = 4096;
      const char **v = malloc((len + 1) * sizeof(char *));
      if (gd_get_sarray_slice(D, name, 0, len, v) == 0) for (size_t k = 0; k < len; k++) { if (k) dput(","); dput_str(v[k]); }
      else dput("err%d", gd_error(D));
      free(v); break; }
    case GD_ALIAS_ENTRY: dput(" target="); dput_str(gd_alias_target(D, name)); break;
    default: break;
  }
  { const char *tg = gd_alias_target(D, name); if (tg) { dput(" ALIAS-OF="); dput_str(tg); dput(" afrag=%d ", gd_fragment_index(D, name)); } else gd_error(D); }
  dput(" hid=%d", gd_hidden(D, name));
  gd_free_entry_strings(&E);
}

static int cmpstr(const void *a, const void *b) { return strcmp(*(const char *const *)a, *(const char *const *)b); }

static void build_dump(void) {
  dump_len = 0; if (dump_buf) dump_buf[0] = 0;
  int nf = gd_nfragments(D);
  dput("meta nfrag=%d", nf);
  for (int i = 0; i < nf; i++) {
    char *px = NULL, *sx = NULL;
    dput("|F%d name=", i); const char *fn = gd_fragmentname(D, i);
    dput_str(fn ? fn + strlen(workdir) : NULL);
    dput(" enc=%lu end=%lx fo=%lld prot=%d par=%d", gd_encoding(D, i), gd_endianness(D, i), (long long)gd_frameoffset64(D, i),
         gd_protection(D, i), i ? gd_parent_fragment(D, i) : -1);
    gd_fragment_affixes(D, i, &px, &sx);
    dput(" px="); dput_str(px); dput(" sx="); dput_str(sx); free(px); free(sx);
    dput(" ns="); dput_str(gd_fragment_namespace(D, i, NULL));
  }
  dput("|ref="); dput_str(gd_reference(D, NULL));
  unsigned n = gd_nentries(D, NULL, GD_ALL_ENTRIES, GD_ENTRIES_HIDDEN);
  const char **l = gd_entry_list(D, NULL, GD_ALL_ENTRIES, GD_ENTRIES_HIDDEN);
  dput("|n=%u", n);
  if (l) {
    const char **names = malloc((n + 1) * sizeof(char *)); unsigned k;
    for (k = 0; k < n && l[k]; k++) names[k] = strdup(l[k]);
    n = k;
    qsort(names, n, sizeof(char *), cmpstr);
    for (k = 0; k < n; k++) {
      dump_entry(names[k]);
      /* metafields */
      unsigned nm = gd_nentries(D, names[k], GD_ALL_ENTRIES, GD_ENTRIES_HIDDEN);
      if (gd_error(D) == 0 && nm > 0) {
        const char **ml = gd_entry_list(D, names[k], GD_ALL_ENTRIES, GD_ENTRIES_HIDDEN);
        if (ml) {
          const char **mn = malloc((nm + 1) * sizeof(char *)); unsigned j, c = 0;
          for (j = 0; j < nm && ml[j]; j++) { mn[c] = malloc(strlen(names[k]) + strlen(ml[j]) + 2); sprintf((char *)mn[c], "%s/%s", names[k], ml[j]); c++; }
          qsort(mn, c, sizeof(char *), cmpstr);
          for (j = 0; j < c; j++) { dump_entry(mn[j]); free((void *)mn[j]); }
          free(mn);
        }
      }
    }
    for (k = 0; k < n; k++) free((void *)names[k]);
    free(names);
  }
}

static uint64_t fnv(const unsigned char *p, size_t n, uint64_t h) {
  for (size_t i = 0; i < n; i++) { h ^= p[i]; h *= 1099511628211ull; }
  return h;
}
static uint64_t dir_hash;
static char **dir_lines = NULL; static int dir_n = 0, dir_cap = 0;
static int ftw_cb(const char *path, const struct stat *sb, int flag, struct FTW *f) {
  (void)f;
  char line[8300]; uint64_t h = 1469598103934665603ull;
  if (flag == FTW_F) {
    FILE *fp = fopen(path, "rb");
    if (fp) {
      unsigned char b[65536]; size_t n;
      if (strstr(path, "format")) {
        /* format fragments carry a "# Written on <date>" comment: hash everything but that line */
        char ln[65536];
        while (fgets(ln, sizeof ln, fp)) if (strncmp(ln, "# Written on ", 13)) h = fnv((unsigned char *)ln, strlen(ln), h);
      } else
        while ((n = fread(b, 1, sizeof b, fp)) > 0) h = fnv(b, n, h);
      fclose(fp);
    }
    snprintf(line, sizeof line, "f %s %lld %llx", path + strlen(workdir), (long long)sb->st_size, (unsigned long long)h);
  } else if (flag == FTW_SL) {
    char tgt[4096]; ssize_t n = readlink(path, tgt, sizeof tgt - 1); if (n < 0) n = 0; tgt[n] = 0;
    snprintf(line, sizeof line, "l %s %s", path + strlen(workdir), tgt);
  } else snprintf(line, sizeof line, "d %s", path + strlen(workdir));
  if (dir_n == dir_cap) { dir_cap = dir_cap * 2 + 16; dir_lines = realloc(dir_lines, dir_cap * sizeof(char *)); }
  dir_lines[dir_n++] = strdup(line);
  return 0;
}
static void build_dirhash(int print) {
  for (int i = 0; i < dir_n; i++) free(dir_lines[i]);
  dir_n = 0;
  nftw(workdir, ftw_cb, 16, FTW_PHYS);
  qsort(dir_lines, dir_n, sizeof(char *), cmpstr);
  dir_hash = 1469598103934665603ull;
  for (int i = 0; i < dir_n; i++) { dir_hash = fnv((unsigned char *)dir_lines[i], strlen(dir_lines[i]) + 1, dir_hash); if (print) printf(" [%s]", dir_lines[i]); }
}

static unsigned long parse_enc(const char *s) {
  if (!strcmp(s, "none")) return GD_UNENCODED; if (!strcmp(s, "text")) return GD_TEXT_ENCODED;
  if (!strcmp(s, "sie")) return GD_SIE_ENCODED; if (!strcmp(s, "gzip")) return GD_GZIP_ENCODED;
  if (!strcmp(s, "bzip2")) return GD_BZIP2_ENCODED; if (!strcmp(s, "lzma")) return GD_LZMA_ENCODED;
  return strtoul(s, NULL, 0);
}
static char *unhex_str(const char *h) { size_t n; return (char *)unhex(h, &n); }
static unsigned parse_uflags(const char *s) {
  unsigned f = 0;
  if (strstr(s, "meta")) f |= GD_DEL_META; if (strstr(s, "data")) f |= GD_DEL_DATA;   /* == GD_REN_DATA */
  if (strstr(s, "deref")) f |= GD_DEL_DEREF; if (strstr(s, "force")) f |= GD_DEL_FORCE;
  if (strstr(s, "updb")) f |= GD_REN_UPDB; if (strstr(s, "dangle")) f |= GD_REN_DANGLE;
  if (s[0] >= '0' && s[0] <= '9') f |= strtoul(s, NULL, 0);
  return f;
}

/* returns 1 if the op was handled */
static int meta_op(int nt, char **tok) {
  const char *op = tok[0];
  int r = 0;
#define DONE(name) do { printf("%s %d e=%d", name, r, gd_error(D)); tail(); return 1; } while (0)
  if (!strcmp(op, "dumpmeta")) { build_dump(); fputs(dump_buf, stdout); tail(); return 1; }
  if (!strcmp(op, "snap")) {
    build_dump(); build_dirhash(0);
    printf("snap meta=%llx dir=%llx", (unsigned long long)fnv((unsigned char *)dump_buf, dump_len, 1469598103934665603ull),
           (unsigned long long)dir_hash); tail(); return 1;
  }
  if (!strcmp(op, "lsr")) { printf("lsr"); build_dirhash(1); putchar('\n'); fflush(stdout); return 1; }
  if (!strcmp(op, "maddspec") && nt >= 3) { char *l = unhex_str(tok[2]); r = gd_madd_spec(D, l, tok[1]); free(l); DONE("maddspec"); }
  if (!strcmp(op, "alterspec") && nt >= 3) { char *l = unhex_str(tok[2]); r = gd_alter_spec(D, l, atoi(tok[1])); free(l); DONE("alterspec"); }
  if (!strcmp(op, "malterspec") && nt >= 4) { char *l = unhex_str(tok[3]); r = gd_malter_spec(D, l, tok[1], atoi(tok[2])); free(l); DONE("malterspec"); }
  if (!strcmp(op, "delete") && nt >= 3) { r = gd_delete(D, tok[1], parse_uflags(tok[2])); DONE("delete"); }
  if (!strcmp(op, "rename") && nt >= 4) { r = gd_rename(D, tok[1], tok[2], parse_uflags(tok[3])); DONE("rename"); }
  if (!strcmp(op, "move") && nt >= 4) { r = gd_move(D, tok[1], atoi(tok[2]), parse_uflags(tok[3])); DONE("move"); }
  if (!strcmp(op, "hide") && nt >= 2) { r = gd_hide(D, tok[1]); DONE("hide"); }
  if (!strcmp(op, "unhide") && nt >= 2) { r = gd_unhide(D, tok[1]); DONE("unhide"); }
  if (!strcmp(op, "alias") && nt >= 4) { r = gd_add_alias(D, tok[1], tok[2], atoi(tok[3])); DONE("alias"); }
  if (!strcmp(op, "malias") && nt >= 4) { r = gd_madd_alias(D, tok[1], tok[2], tok[3]); DONE("malias"); }
  if (!strcmp(op, "include") && nt >= 4) {
    /* include <file> <parent> <flags...> [px=..] [sx=..] [ns=..] */
    const char *px = NULL, *sx = NULL, *ns = NULL; unsigned long fl = 0;
    for (int i = 3; i < nt; i++) {
      if (!strncmp(tok[i], "px=", 3)) px = tok[i] + 3; else if (!strncmp(tok[i], "sx=", 3)) sx = tok[i] + 3;
      else if (!strncmp(tok[i], "ns=", 3)) ns = tok[i] + 3; else fl |= parse_flags(tok + i, 1);
    }
    if (ns) r = gd_include_ns(D, tok[1], atoi(tok[2]), ns, fl);
    else r = gd_include_affix(D, tok[1], atoi(tok[2]), px, sx, fl);
    DONE("include");
  }
  if (!strcmp(op, "uninclude") && nt >= 3) { r = gd_uninclude(D, atoi(tok[1]), atoi(tok[2])); DONE("uninclude"); }
  if (!strcmp(op, "affixes") && nt >= 4) { r = gd_alter_affixes(D, atoi(tok[1]), strcmp(tok[2], "-") ? tok[2] : "", strcmp(tok[3], "-") ? tok[3] : ""); DONE("affixes"); }
  if (!strcmp(op, "namespace") && nt >= 3) { const char *x = gd_fragment_namespace(D, atoi(tok[1]), strcmp(tok[2], "-") ? tok[2] : ""); r = x ? 0 : -1; DONE("namespace"); }
  if (!strcmp(op, "encoding") && nt >= 4) { r = gd_alter_encoding(D, parse_enc(tok[1]), atoi(tok[2]), atoi(tok[3])); DONE("encoding"); }
  if (!strcmp(op, "endianness") && nt >= 4) { r = gd_alter_endianness(D, parse_flags(tok + 1, 1), atoi(tok[2]), atoi(tok[3])); DONE("endianness"); }
  if (!strcmp(op, "frameoffset") && nt >= 4) { r = gd_alter_frameoffset64(D, strtoll(tok[1], NULL, 0), atoi(tok[2]), atoi(tok[3])); DONE("frameoffset"); }
  if (!strcmp(op, "protect") && nt >= 3) { r = gd_alter_protection(D, atoi(tok[1]), atoi(tok[2])); DONE("protect"); }
  if (!strcmp(op, "putcarray") && nt >= 5) {
    /* putcarray <code> <start> <type> <v0,v1,..>   (n = number of values; "all" as start = gd_put_carray) */
    int ti = tfind(tok[3]); if (ti < 0 || T[ti].w == 0) { puts("bad-op"); fflush(stdout); return 1; }
    size_t esz = T[ti].w * (T[ti].cplx ? 2 : 1), n = 0, cap = 16; unsigned char *buf = malloc(cap * esz); char *sv = NULL;
    for (char *p = strtok_r(tok[4], ",", &sv); p; p = strtok_r(NULL, ",", &sv)) {
      if (n == cap) { cap *= 2; buf = realloc(buf, cap * esz); }
      uint64_t re = strtoull(p, NULL, 16), im = 0; char *sc = strchr(p, ';'); if (sc) im = strtoull(sc + 1, NULL, 16);
      memcpy(buf + n * esz, &re, T[ti].w); if (T[ti].cplx) memcpy(buf + n * esz + T[ti].w, &im, T[ti].w); n++;
    }
    if (!strcmp(tok[2], "all")) r = gd_put_carray(D, tok[1], T[ti].t, buf);
    else r = gd_put_carray_slice(D, tok[1], strtoul(tok[2], NULL, 0), nt >= 6 ? strtoull(tok[5], NULL, 0) : n, T[ti].t, buf);
    free(buf); DONE("putcarray");
  }
  if (!strcmp(op, "cslice") && nt >= 5) {
    /* cslice <code> <start> <n> <type> : gd_get_carray_slice into an exactly-sized buffer (n clipped to 1<<20 for allocation only if huge) */
    int ti = tfind(tok[4]); if (ti < 0 || T[ti].w == 0) { puts("bad-op"); fflush(stdout); return 1; }
    size_t esz = T[ti].w * (T[ti].cplx ? 2 : 1);
    unsigned long start = strtoul(tok[2], NULL, 0); size_t n = strtoull(tok[3], NULL, 0);
    size_t len = gd_array_len(D, tok[1]); size_t alloc = (n <= len) ? n : len;   /* documented size: n elements when the call is valid */
    unsigned char *buf = malloc(alloc * esz ? alloc * esz : 1);
    r = gd_get_carray_slice(D, tok[1], start, n, T[ti].t, buf);
    printf("cslice %d e=%d d=", r, gd_error(D));
    if (r == 0) for (size_t i = 0; i < n && i < alloc; i++) { if (i) putchar(','); show_elem(ti, buf + i * esz); }
    free(buf); tail(); return 1;
  }
  if (!strcmp(op, "putstring") && nt >= 3) { char *v = unhex_str(tok[2]); r = gd_put_string(D, tok[1], v); free(v); DONE("putstring"); }
  if (!strcmp(op, "putsarray") && nt >= 4) {
    /* putsarray <code> <start> <hex,hex,...> [n] */
    const char *v[64]; char *own[64]; int n = 0; char *sv = NULL;
    for (char *p = strtok_r(tok[3], ",", &sv); p && n < 64; p = strtok_r(NULL, ",", &sv)) { own[n] = unhex_str(strcmp(p, "-") ? p : ""); v[n] = own[n]; n++; }
    r = gd_put_sarray_slice(D, tok[1], strtoul(tok[2], NULL, 0), nt >= 5 ? strtoull(tok[4], NULL, 0) : (size_t)n, v);
    for (int i = 0; i < n; i++) free(own[i]);
    DONE("putsarray");
  }
  if (!strcmp(op, "sslice") && nt >= 4) {
    unsigned long start = strtoul(tok[2], NULL, 0); size_t n = strtoull(tok[3], NULL, 0);
    size_t len = gd_array_len(D, tok[1]); size_t alloc = (n <= len) ? n : len;
    const char **v = malloc((alloc + 1) * sizeof(char *));
    r = gd_get_sarray_slice(D, tok[1], start, n, v);
    printf("sslice %d e=%d", r, gd_error(D)); free(v); tail(); return 1;
  }
  if (!strcmp(op, "standards") && nt >= 2) { r = gd_dirfile_standards(D, !strcmp(tok[1], "cur") ? GD_VERSION_CURRENT : (!strcmp(tok[1], "latest") ? GD_VERSION_LATEST : (!strcmp(tok[1], "earliest") ? GD_VERSION_EARLIEST : atoi(tok[1])))); DONE("standards"); }
  if (!strcmp(op, "gdflags") && nt >= 3) { unsigned long x = gd_flags(D, parse_flags(tok + 1, 1), parse_flags(tok + 2, 1)); printf("gdflags %lx e=%d", x, gd_error(D)); tail(); return 1; }
  if (!strcmp(op, "rewrite") && nt >= 2) { r = gd_rewrite_fragment(D, atoi(tok[1])); DONE("rewrite"); }
  if (!strcmp(op, "reference") && nt >= 2) { const char *x = gd_reference(D, tok[1]); r = x ? 0 : -1; DONE("reference"); }
  if (!strcmp(op, "altertable") && nt >= 4) { r = gd_alter_linterp(D, tok[1], strcmp(tok[2], "-") ? tok[2] : NULL, strcmp(tok[3], "-") ? tok[3] : NULL, nt >= 5 ? atoi(tok[4]) : 0); DONE("altertable"); }
  if (!strcmp(op, "alterraw") && nt >= 5) { int ti = tfind(tok[2]); r = gd_alter_raw(D, tok[1], ti >= 0 ? T[ti].t : GD_NULL, atoi(tok[3]), atoi(tok[4])); DONE("alterraw"); }
  if (!strcmp(op, "validate") && nt >= 2) { r = gd_validate(D, tok[1]); DONE("validate"); }
  if (!strcmp(op, "validateall")) {
    /* gd_validate and a short read of every field, top level and metafields: each must answer with success or a GetData error */
    unsigned n = gd_nentries(D, NULL, GD_ALL_ENTRIES, GD_ENTRIES_HIDDEN), bad = 0, okc = 0;
    const char **l = gd_entry_list(D, NULL, GD_ALL_ENTRIES, GD_ENTRIES_HIDDEN);
    char **names = malloc((n + 1) * sizeof(char *)); unsigned k = 0;
    for (; l && k < n && l[k]; k++) names[k] = strdup(l[k]);
    for (unsigned i = 0; i < k; i++) {
      int v = gd_validate(D, names[i]);
      if (v == 0) okc++; else if (v > 0 || v < -40) bad++;
      double buf[8]; gd_getdata(D, names[i], 0, 0, 0, 4, GD_FLOAT64, buf);
      unsigned nm = gd_nentries(D, names[i], GD_ALL_ENTRIES, GD_ENTRIES_HIDDEN);
      if (gd_error(D) == 0 && nm > 0) {
        const char **ml = gd_entry_list(D, names[i], GD_ALL_ENTRIES, GD_ENTRIES_HIDDEN);
        for (unsigned j = 0; ml && j < nm && ml[j]; j++) { char full[8192]; snprintf(full, sizeof full, "%s/%s", names[i], ml[j]); gd_validate(D, full); }
      }
      free(names[i]);
    }
    free(names);
    printf("validateall n=%u ok=%u %s", k, okc, bad ? "BAD" : "fine"); tail(); return 1;
  }
  if (!strcmp(op, "rawfiles")) {
    /* every RAW field with the path of its data file relative to the dirfile */
    unsigned n = gd_nentries(D, NULL, GD_RAW_ENTRY, GD_ENTRIES_HIDDEN | GD_ENTRIES_NOALIAS);
    const char **l = gd_entry_list(D, NULL, GD_RAW_ENTRY, GD_ENTRIES_HIDDEN | GD_ENTRIES_NOALIAS);
    char **names = malloc((n + 1) * sizeof(char *)); unsigned k = 0;
    for (; l && k < n && l[k]; k++) names[k] = strdup(l[k]);
    fputs("rawfiles", stdout);
    for (unsigned i = 0; i < k; i++) {
      char *fn = gd_raw_filename(D, names[i]);
      printf(" %s=%s", names[i], fn ? fn + strlen(workdir) : "?");
      free(fn); free(names[i]);
    }
    free(names); tail(); return 1;
  }
  if (!strcmp(op, "names") && nt >= 4) {
    /* names <parent|-> <type> <flags> : gd_entry_list verbatim */
    const char *par = strcmp(tok[1], "-") ? tok[1] : NULL;
    const char **l = gd_entry_list(D, par, atoi(tok[2]), strtoul(tok[3], NULL, 0));
    fputs("names", stdout);
    for (unsigned i = 0; l && l[i]; i++) printf(" %s", l[i]);
    tail(); return 1;
  }
  if (!strcmp(op, "etable")) {
    /* D->entry[] in table order, names in hex (internal invariant of the bisection) */
    fputs("etable", stdout);
    for (unsigned i = 0; i < D->n_entries; i++) {
      putchar(' ');
      for (const unsigned char *q = (const unsigned char *)D->entry[i]->field; *q; q++) printf("%02x", *q);
    }
    tail(); return 1;
  }
  if (!strcmp(op, "lists")) {
    /* consistency of list/count functions: gd_nentries == length of gd_entry_list for type x flags, top level and every parent */
    static const int types[] = { GD_ALL_ENTRIES, GD_VECTOR_ENTRIES, GD_SCALAR_ENTRIES, GD_ALIAS_ENTRIES, GD_RAW_ENTRY, GD_LINCOM_ENTRY,
      GD_CONST_ENTRY, GD_CARRAY_ENTRY, GD_STRING_ENTRY, GD_SARRAY_ENTRY, GD_PHASE_ENTRY, GD_BIT_ENTRY };
    static const unsigned fl[] = { 0, GD_ENTRIES_HIDDEN, GD_ENTRIES_NOALIAS, GD_ENTRIES_HIDDEN | GD_ENTRIES_NOALIAS };
    int bad = 0; char why[512] = "";
    unsigned ntop = gd_nentries(D, NULL, GD_ALL_ENTRIES, GD_ENTRIES_HIDDEN);
    const char **top0 = gd_entry_list(D, NULL, GD_ALL_ENTRIES, GD_ENTRIES_HIDDEN);
    char **parents = malloc((ntop + 2) * sizeof(char *)); unsigned np = 0;
    parents[np++] = NULL;
    for (unsigned k = 0; top0 && k < ntop && top0[k]; k++) parents[np++] = strdup(top0[k]);
    for (unsigned p = 0; p < np && !bad; p++) {
      for (unsigned a = 0; a < sizeof types / sizeof types[0] && !bad; a++) for (unsigned b = 0; b < 4 && !bad; b++) {
        unsigned n = gd_nentries(D, parents[p], types[a], fl[b]);
        if (gd_error(D)) { if (p == 0) { bad = 1; snprintf(why, sizeof why, "nentries error %d", gd_error(D)); } continue; }
        const char **l = gd_entry_list(D, parents[p], types[a], fl[b]);
        unsigned c = 0; while (l && l[c]) c++;
        if (c != n) { bad = 1; snprintf(why, sizeof why, "nentries=%u list=%u parent=%s type=%x flags=%x", n, c, parents[p] ? parents[p] : "-", types[a], fl[b]); break; }
        for (unsigned i = 0; i < c && !bad; i++) {
          /* unique and can be looked up */
          for (unsigned j = i + 1; j < c; j++) if (!strcmp(l[i], l[j])) { bad = 1; snprintf(why, sizeof why, "duplicate %s", l[i]); break; }
          char full[8192]; if (parents[p]) snprintf(full, sizeof full, "%s/%s", parents[p], l[i]); else snprintf(full, sizeof full, "%s", l[i]);
          /* a listed name is a field, or an alias that is reported dangling (gd_alias_target still names its target) */
          if (!bad && gd_entry_type(D, full) == GD_NO_ENTRY && gd_alias_target(D, full) == NULL) { bad = 1; snprintf(why, sizeof why, "listed name cannot be looked up: %s", full); }
        }
      }
      /* value lists line up with name lists */
      if (!bad) {
        unsigned nc = gd_nentries(D, parents[p], GD_CONST_ENTRY, 0), ns = gd_nentries(D, parents[p], GD_STRING_ENTRY, 0);
        if (!gd_error(D)) {
          const char **sl = parents[p] ? gd_mstrings(D, parents[p]) : gd_strings(D);
          unsigned c = 0; while (sl && sl[c]) c++;
          if (c != ns) { bad = 1; snprintf(why, sizeof why, "strings list %u != %u", c, ns); }
          const double *cv = parents[p] ? gd_mconstants(D, parents[p], GD_FLOAT64) : gd_constants(D, GD_FLOAT64);
          const char **cl = gd_entry_list(D, parents[p], GD_CONST_ENTRY, 0);
          for (unsigned i = 0; !bad && cv && cl && i < nc; i++) {
            char full[8192]; double v; if (parents[p]) snprintf(full, sizeof full, "%s/%s", parents[p], cl[i]); else snprintf(full, sizeof full, "%s", cl[i]);
            if (gd_get_constant(D, full, GD_FLOAT64, &v) == 0 && !(v == cv[i] || (v != v && cv[i] != cv[i]))) { bad = 1; snprintf(why, sizeof why, "constants list misaligned at %s", full); }
          }
        }
      }
    }
    /* the unfiltered-by-type list without GD_ENTRIES_HIDDEN is exactly the full list minus the hidden names
       (catches caches left stale by gd_hide / gd_unhide) */
    for (unsigned p = 0; p < np && !bad; p++) {
      const char **full = gd_entry_list(D, parents[p], GD_ALL_ENTRIES, GD_ENTRIES_HIDDEN);
      unsigned nfull = 0; while (full && full[nfull]) nfull++;
      char **fc = malloc((nfull + 1) * sizeof(char *));
      for (unsigned i = 0; i < nfull; i++) fc[i] = strdup(full[i]);
      const char **vis = gd_entry_list(D, parents[p], GD_ALL_ENTRIES, 0);
      unsigned nvis = 0; while (vis && vis[nvis]) nvis++;
      unsigned want = 0;
      for (unsigned i = 0; i < nfull && !bad; i++) {
        char nm[8192]; if (parents[p]) snprintf(nm, sizeof nm, "%s/%s", parents[p], fc[i]); else snprintf(nm, sizeof nm, "%s", fc[i]);
        int hid = gd_hidden(D, nm);
        if (hid < 0) continue;
        int listed = 0; for (unsigned j = 0; j < nvis; j++) if (!strcmp(vis[j], fc[i])) listed = 1;
        if (!hid) want++;
        if (hid && listed) { bad = 1; snprintf(why, sizeof why, "hidden field %s is in the list without GD_ENTRIES_HIDDEN", nm); }
        if (!hid && !listed) { bad = 1; snprintf(why, sizeof why, "visible field %s is missing from the list", nm); }
      }
      for (unsigned i = 0; i < nfull; i++) free(fc[i]);
      free(fc);
    }
    /* aliases resolve or dangle; reference is a RAW */
    const char *ref = gd_reference(D, NULL);
    if (!bad && ref && gd_entry_type(D, ref) != GD_RAW_ENTRY) { bad = 1; snprintf(why, sizeof why, "reference %s is not RAW", ref); }
    /* D->entry[] sorted (internal invariant the bisection relies on) */
    for (unsigned i = 1; !bad && i < D->n_entries; i++) {
      size_t la = strlen(D->entry[i - 1]->field), lb = strlen(D->entry[i]->field);
      if (la > lb || (la == lb && strcmp(D->entry[i - 1]->field, D->entry[i]->field) >= 0)) { bad = 1; snprintf(why, sizeof why, "entry table not sorted at %u: %s / %s", i, D->entry[i - 1]->field, D->entry[i]->field); }
    }
    for (unsigned p = 1; p < np; p++) free(parents[p]);
    free(parents);
    gd_error(D);
    if (bad) printf("lists BAD %s", why); else printf("lists ok n=%u", ntop);
    tail(); return 1;
  }
  return 0;
#undef DONE
}
