/* gdhxx.cpp — C20 twin driver: every op is performed through the C++ binding on
 * dirfile <work>/A and through the C API on the identical copy <work>/B; one
 * result line each ("X ..." and "C ..."), which must be equal.  The caller
 * compares the two directory trees afterwards.
 *
 *   gdhxx <work>         ops on stdin, one per line, tokens separated by blanks
 */
#include <getdata/dirfile.h>
extern "C" {
#include <getdata.h>
}
#include <cstdio>
#include <cstdlib>
#include <cstring>
#include <cinttypes>
#include <string>
#include <vector>
#include <complex>
#include <cstdarg>
#define GD_SIZE(t) ((unsigned)(t) & 0x1f)

using namespace GetData;

static Dirfile *X;
static DIRFILE *Cd;
static std::string outx, outc;

static void ap(std::string &o, const char *fmt, ...) {
  char b[8192]; va_list a; va_start(a, fmt); vsnprintf(b, sizeof b, fmt, a); va_end(a); o += b;
}
static void hex(std::string &o, const void *p, size_t n) { const unsigned char *q = (const unsigned char *)p; for (size_t i = 0; i < n; i++) ap(o, "%02x", q[i]); }
static void strlist(std::string &o, const char **l) { if (!l) { o += " (null)"; return; } for (int i = 0; l[i]; i++) { o += " ["; o += l[i]; o += "]"; } }
static const char *S(const char *t) { return strcmp(t, "-") ? t : NULL; }
static const char *E0(const char *t) { return strcmp(t, "-") ? t : ""; }

static gd_type_t ty(const char *s) {
  if (!strcmp(s, "u8")) return GD_UINT8; if (!strcmp(s, "i16")) return GD_INT16; if (!strcmp(s, "u16")) return GD_UINT16;
  if (!strcmp(s, "i32")) return GD_INT32; if (!strcmp(s, "i64")) return GD_INT64; if (!strcmp(s, "u64")) return GD_UINT64;
  if (!strcmp(s, "f32")) return GD_FLOAT32; if (!strcmp(s, "f64")) return GD_FLOAT64; if (!strcmp(s, "c128")) return GD_COMPLEX128;
  return GD_NULL;
}

static void dbl(std::string &o, double v) { if (v != v) o += "nan"; else { uint64_t b; memcpy(&b, &v, 8); ap(o, "%" PRIx64, b); } }

/* the entry as seen through the C API */
static void dump_c(std::string &o, const char *code) {
  gd_entry_t E; memset(&E, 0, sizeof E);
  if (gd_entry(Cd, code, &E)) { ap(o, " noentry"); return; }
  ap(o, " name=%s type=%d frag=%d", E.field, E.field_type, E.fragment_index);
  int nin = 0;
  switch (E.field_type) {
    case GD_RAW_ENTRY: ap(o, " spf=%u rt=%d", E.u.raw.spf, E.u.raw.data_type); break;
    case GD_LINCOM_ENTRY: nin = E.u.lincom.n_fields; ap(o, " n=%d cs=%d", nin, !!(E.flags & GD_EN_COMPSCAL));
      for (int i = 0; i < nin; i++) { o += " m="; dbl(o, E.u.lincom.m[i]); o += ","; dbl(o, E.u.lincom.cm[i][0]); o += ","; dbl(o, E.u.lincom.cm[i][1]);
        o += " b="; dbl(o, E.u.lincom.b[i]); o += ","; dbl(o, E.u.lincom.cb[i][0]); o += ","; dbl(o, E.u.lincom.cb[i][1]); } break;
    case GD_LINTERP_ENTRY: nin = 1; ap(o, " table=%s", E.u.linterp.table); break;
    case GD_BIT_ENTRY: case GD_SBIT_ENTRY: nin = 1; ap(o, " bit=%d nb=%d", E.u.bit.bitnum, E.u.bit.numbits); break;
    case GD_MULTIPLY_ENTRY: case GD_DIVIDE_ENTRY: case GD_INDIR_ENTRY: case GD_SINDIR_ENTRY: nin = 2; break;
    case GD_RECIP_ENTRY: nin = 1; o += " div="; dbl(o, E.u.recip.dividend); o += ","; dbl(o, E.u.recip.cdividend[0]); o += ","; dbl(o, E.u.recip.cdividend[1]); break;
    case GD_PHASE_ENTRY: nin = 1; ap(o, " shift=%lld", (long long)E.u.phase.shift); break;
    case GD_POLYNOM_ENTRY: nin = 1; ap(o, " ord=%d", E.u.polynom.poly_ord);
      for (int i = 0; i <= E.u.polynom.poly_ord; i++) { o += " a="; dbl(o, E.u.polynom.a[i]); o += ","; dbl(o, E.u.polynom.ca[i][0]); o += ","; dbl(o, E.u.polynom.ca[i][1]); } break;
    case GD_WINDOW_ENTRY: nin = 2; ap(o, " op=%d thr=%llx", E.u.window.windop, (unsigned long long)E.u.window.threshold.u); break;
    case GD_MPLEX_ENTRY: nin = 2; ap(o, " cv=%d per=%d", E.u.mplex.count_val, E.u.mplex.period); break;
    case GD_CONST_ENTRY: ap(o, " ct=%d", E.u.scalar.const_type); break;
    case GD_CARRAY_ENTRY: ap(o, " ct=%d len=%zu", E.u.scalar.const_type, E.u.scalar.array_len); break;
    case GD_SARRAY_ENTRY: ap(o, " len=%zu", E.u.scalar.array_len); break;
    default: break;
  }
  for (int i = 0; i < nin; i++) ap(o, " in=%s", E.in_fields[i] ? E.in_fields[i] : "(null)");
  for (int i = 0; i < 2 * GD_MAX_LINCOM; i++) if (E.scalar[i]) ap(o, " sc%d=%s<%d>", i, E.scalar[i], E.scalar_ind[i]);
  gd_free_entry_strings(&E);
}

/* the same entry as seen through the getters of the C++ Entry classes */
static void dump_x(std::string &o, Entry *e) {
  if (e == NULL) { ap(o, " noentry"); return; }
  ap(o, " name=%s type=%d frag=%d", e->Name(), (int)e->Type(), e->FragmentIndex());
  int nin = 0;
  switch ((int)e->Type()) {
    case GD_RAW_ENTRY: ap(o, " spf=%u rt=%d", e->SamplesPerFrame(), (int)e->RawType()); break;
    case GD_LINCOM_ENTRY: nin = e->NFields(); ap(o, " n=%d cs=%d", nin, e->ComplexScalars());
      for (int i = 0; i < nin; i++) { o += " m="; dbl(o, e->Scale(i)); o += ","; dbl(o, e->CScale(i).real()); o += ","; dbl(o, e->CScale(i).imag());
        o += " b="; dbl(o, e->Offset(i)); o += ","; dbl(o, e->COffset(i).real()); o += ","; dbl(o, e->COffset(i).imag()); } break;
    case GD_LINTERP_ENTRY: nin = 1; ap(o, " table=%s", e->Table()); break;
    case GD_BIT_ENTRY: case GD_SBIT_ENTRY: nin = 1; ap(o, " bit=%d nb=%d", e->FirstBit(), e->NumBits()); break;
    case GD_MULTIPLY_ENTRY: case GD_DIVIDE_ENTRY: case GD_INDIR_ENTRY: case GD_SINDIR_ENTRY: nin = 2; break;
    case GD_RECIP_ENTRY: nin = 1; o += " div="; dbl(o, e->Dividend()); o += ","; dbl(o, e->CDividend().real()); o += ","; dbl(o, e->CDividend().imag()); break;
    case GD_PHASE_ENTRY: nin = 1; ap(o, " shift=%lld", (long long)e->Shift()); break;
    case GD_POLYNOM_ENTRY: nin = 1; ap(o, " ord=%d", e->PolyOrd());
      for (int i = 0; i <= e->PolyOrd(); i++) { o += " a="; dbl(o, e->Coefficient(i)); o += ","; dbl(o, e->CCoefficient(i).real()); o += ","; dbl(o, e->CCoefficient(i).imag()); } break;
    case GD_WINDOW_ENTRY: nin = 2; ap(o, " op=%d thr=%llx", (int)e->WindOp(), (unsigned long long)e->Threshold().u); break;
    case GD_MPLEX_ENTRY: nin = 2; ap(o, " cv=%d per=%d", e->CountVal(), e->Period()); break;
    case GD_CONST_ENTRY: ap(o, " ct=%d", (int)e->ConstType()); break;
    case GD_CARRAY_ENTRY: ap(o, " ct=%d len=%zu", (int)e->ConstType(), e->ArrayLen()); break;
    case GD_SARRAY_ENTRY: ap(o, " len=%zu", e->ArrayLen()); break;
    default: break;
  }
  for (int i = 0; i < nin; i++) ap(o, " in=%s", e->Input(i) ? e->Input(i) : "(null)");
  for (int i = 0; i < 2 * GD_MAX_LINCOM; i++) if (e->Scalar(i)) ap(o, " sc%d=%s<%d>", i, e->Scalar(i), e->ScalarIndex(i));
}

#define OP(name, n) else if (!strcmp(op, name) && nt > (n))
#define DONE() do { ap(outx, " e=%d", X->Error()); ap(outc, " e=%d", gd_error(Cd)); } while (0)

int main(int argc, char **argv) {
  if (argc < 2) return 2;
  std::string a = std::string(argv[1]) + "/A", b = std::string(argv[1]) + "/B";
  char line[1 << 16];
  X = NULL; Cd = NULL;
  while (fgets(line, sizeof line, stdin)) {
    char *tok[16]; int nt = 0; char *sv = NULL;
    for (char *p = strtok_r(line, " \n", &sv); p && nt < 16; p = strtok_r(NULL, " \n", &sv)) { for (char *q = p; *q; q++) if (*q == 1) *q = ' '; tok[nt++] = p; }
    if (!nt) continue;
    const char *op = tok[0];
    outx = "X"; outc = "C";
    if (!strcmp(op, "open") && nt > 1) {
      unsigned long fl = strtoul(tok[1], NULL, 0);
      if (X) { delete X; X = NULL; } if (Cd) { gd_discard(Cd); Cd = NULL; }
      X = new Dirfile(a.c_str(), fl); Cd = gd_open(b.c_str(), fl);
      DONE();
    } else if (!X || !Cd) { outx += " closed"; outc += " closed"; }
    OP("getdata", 6) {
      gd_type_t t = ty(tok[6]); size_t cap = 4096; unsigned char *bx = (unsigned char *)calloc(cap, 16), *bc = (unsigned char *)calloc(cap, 16);
      size_t nx = X->GetData(tok[1], atoll(tok[2]), atoll(tok[3]), strtoul(tok[4], 0, 0), strtoul(tok[5], 0, 0), (DataType)t, bx);
      size_t nc = gd_getdata64(Cd, tok[1], atoll(tok[2]), atoll(tok[3]), strtoul(tok[4], 0, 0), strtoul(tok[5], 0, 0), t, bc);
      ap(outx, " n=%zu d=", nx); hex(outx, bx, nx * GD_SIZE(t)); ap(outc, " n=%zu d=", nc); hex(outc, bc, nc * GD_SIZE(t)); free(bx); free(bc); DONE();
    }
    OP("putdata", 4) {
      double v[64]; int n = 0; char *s2 = NULL; for (char *p = strtok_r(tok[4], ",", &s2); p && n < 64; p = strtok_r(NULL, ",", &s2)) v[n++] = atof(p);
      size_t nx = X->PutData(tok[1], atoll(tok[2]), atoll(tok[3]), 0, n, Float64, v);
      size_t nc = gd_putdata64(Cd, tok[1], atoll(tok[2]), atoll(tok[3]), 0, n, GD_FLOAT64, v);
      ap(outx, " n=%zu", nx); ap(outc, " n=%zu", nc); DONE();
    }
    OP("nframes", 0) { ap(outx, " %lld", (long long)X->NFrames()); ap(outc, " %lld", (long long)gd_nframes64(Cd)); DONE(); }
    OP("eof", 1) { ap(outx, " %lld", (long long)X->EoF(tok[1])); ap(outc, " %lld", (long long)gd_eof64(Cd, tok[1])); DONE(); }
    OP("bof", 1) { ap(outx, " %lld", (long long)X->BoF(tok[1])); ap(outc, " %lld", (long long)gd_bof64(Cd, tok[1])); DONE(); }
    OP("spf", 1) { ap(outx, " %u", X->SamplesPerFrame(tok[1])); ap(outc, " %u", gd_spf(Cd, tok[1])); DONE(); }
    OP("ntype", 1) { ap(outx, " %d", (int)X->NativeType(tok[1])); ap(outc, " %d", (int)gd_native_type(Cd, tok[1])); DONE(); }
    OP("seek", 4) { ap(outx, " %lld", (long long)X->Seek(tok[1], atoll(tok[2]), atoll(tok[3]), atoi(tok[4]))); ap(outc, " %lld", (long long)gd_seek64(Cd, tok[1], atoll(tok[2]), atoll(tok[3]), atoi(tok[4]))); DONE(); }
    OP("tell", 1) { ap(outx, " %lld", (long long)X->Tell(tok[1])); ap(outc, " %lld", (long long)gd_tell64(Cd, tok[1])); DONE(); }
    OP("framenum", 4) { dbl(outx, X->FrameNum(tok[1], atof(tok[2]), atoll(tok[3]), atoll(tok[4]))); dbl(outc, gd_framenum_subset64(Cd, tok[1], atof(tok[2]), atoll(tok[3]), atoll(tok[4]))); DONE(); }
    OP("addspec", 2) { ap(outx, " %d", X->AddSpec(tok[2], atoi(tok[1]))); ap(outc, " %d", gd_add_spec(Cd, tok[2], atoi(tok[1]))); DONE(); }
    OP("maddspec", 2) { ap(outx, " %d", X->MAddSpec(tok[2], tok[1])); ap(outc, " %d", gd_madd_spec(Cd, tok[2], tok[1])); DONE(); }
    OP("alterspec", 2) { ap(outx, " %d", X->AlterSpec(tok[2], atoi(tok[1]))); ap(outc, " %d", gd_alter_spec(Cd, tok[2], atoi(tok[1]))); DONE(); }
    OP("malterspec", 3) { ap(outx, " %d", X->MAlterSpec(tok[3], tok[1], atoi(tok[2]))); ap(outc, " %d", gd_malter_spec(Cd, tok[3], tok[1], atoi(tok[2]))); DONE(); }
    OP("delete", 2) { ap(outx, " %d", X->Delete(tok[1], atoi(tok[2]))); ap(outc, " %d", gd_delete(Cd, tok[1], atoi(tok[2]))); DONE(); }
    OP("hide", 1) { ap(outx, " %d", X->Hide(tok[1])); ap(outc, " %d", gd_hide(Cd, tok[1])); DONE(); }
    OP("unhide", 1) { ap(outx, " %d", X->UnHide(tok[1])); ap(outc, " %d", gd_unhide(Cd, tok[1])); DONE(); }
    OP("hidden", 1) { ap(outx, " %d", X->Hidden(tok[1])); ap(outc, " %d", gd_hidden(Cd, tok[1])); DONE(); }
    OP("addalias", 3) { ap(outx, " %d", X->AddAlias(tok[1], tok[2], atoi(tok[3]))); ap(outc, " %d", gd_add_alias(Cd, tok[1], tok[2], atoi(tok[3]))); DONE(); }
    OP("maddalias", 3) { ap(outx, " %d", X->MAddAlias(tok[1], tok[2], tok[3])); ap(outc, " %d", gd_madd_alias(Cd, tok[1], tok[2], tok[3])); DONE(); }
    OP("aliastarget", 1) { const char *x = X->AliasTarget(tok[1]), *c = gd_alias_target(Cd, tok[1]); ap(outx, " %s", x ? x : "(null)"); ap(outc, " %s", c ? c : "(null)"); DONE(); }
    OP("aliases", 1) { ap(outx, " %d", X->NAliases(tok[1])); ap(outc, " %d", (int)gd_naliases(Cd, tok[1])); strlist(outx, X->Aliases(tok[1])); strlist(outc, gd_aliases(Cd, tok[1])); DONE(); }
    OP("include", 3) { ap(outx, " %d", X->Include(tok[1], atoi(tok[2]), strtoul(tok[3], 0, 0))); ap(outc, " %d", gd_include(Cd, tok[1], atoi(tok[2]), strtoul(tok[3], 0, 0))); DONE(); }
    OP("includeaffix", 5) { ap(outx, " %d", X->IncludeAffix(tok[1], atoi(tok[2]), S(tok[3]), S(tok[4]), strtoul(tok[5], 0, 0))); ap(outc, " %d", gd_include_affix(Cd, tok[1], atoi(tok[2]), S(tok[3]), S(tok[4]), strtoul(tok[5], 0, 0))); DONE(); }
    OP("includens", 4) { ap(outx, " %d", X->IncludeNS(tok[1], atoi(tok[2]), S(tok[3]), strtoul(tok[4], 0, 0))); ap(outc, " %d", gd_include_ns(Cd, tok[1], atoi(tok[2]), S(tok[3]), strtoul(tok[4], 0, 0))); DONE(); }
    OP("uninclude", 2) { ap(outx, " %d", X->UnInclude(atoi(tok[1]), atoi(tok[2]))); ap(outc, " %d", gd_uninclude(Cd, atoi(tok[1]), atoi(tok[2]))); DONE(); }
    OP("lists", 0) {
      ap(outx, " nf=%u nv=%u", X->NFields(), X->NVectors()); ap(outc, " nf=%u nv=%u", gd_nfields(Cd), gd_nvectors(Cd));
      strlist(outx, X->FieldList()); strlist(outc, gd_field_list(Cd)); strlist(outx, X->VectorList()); strlist(outc, gd_vector_list(Cd));
      strlist(outx, X->Strings()); strlist(outc, gd_strings(Cd));
      static const int tys[] = { GD_RAW_ENTRY, GD_LINCOM_ENTRY, GD_CONST_ENTRY, GD_STRING_ENTRY, GD_CARRAY_ENTRY, GD_PHASE_ENTRY };
      for (unsigned i = 0; i < sizeof tys / sizeof tys[0]; i++) {
        ap(outx, " t%d=%u", tys[i], X->NFieldsByType((EntryType)tys[i])); ap(outc, " t%d=%u", tys[i], gd_nfields_by_type(Cd, (gd_entype_t)tys[i]));
        strlist(outx, X->FieldListByType((EntryType)tys[i])); strlist(outc, gd_field_list_by_type(Cd, (gd_entype_t)tys[i]));
      }
      DONE();
    }
    OP("entrylist", 3) {
      ap(outx, " %u", X->NEntries(S(tok[1]), atoi(tok[2]), strtoul(tok[3], 0, 0))); ap(outc, " %u", gd_nentries(Cd, S(tok[1]), atoi(tok[2]), strtoul(tok[3], 0, 0)));
      strlist(outx, X->EntryList(S(tok[1]), atoi(tok[2]), strtoul(tok[3], 0, 0))); strlist(outc, gd_entry_list(Cd, S(tok[1]), atoi(tok[2]), strtoul(tok[3], 0, 0))); DONE();
    }
    OP("mlists", 1) {
      ap(outx, " %u %u", X->NMFields(tok[1]), X->NMVectors(tok[1])); ap(outc, " %u %u", gd_nmfields(Cd, tok[1]), gd_nmvectors(Cd, tok[1]));
      strlist(outx, X->MFieldList(tok[1])); strlist(outc, gd_mfield_list(Cd, tok[1])); strlist(outx, X->MVectorList(tok[1])); strlist(outc, gd_mvector_list(Cd, tok[1]));
      strlist(outx, X->MStrings(tok[1])); strlist(outc, gd_mstrings(Cd, tok[1]));
      ap(outx, " %u", X->NMFieldsByType(tok[1], ConstEntryType)); ap(outc, " %u", gd_nmfields_by_type(Cd, tok[1], GD_CONST_ENTRY));
      strlist(outx, X->MFieldListByType(tok[1], ConstEntryType)); strlist(outc, gd_mfield_list_by_type(Cd, tok[1], GD_CONST_ENTRY)); DONE();
    }
    OP("constants", 0) {
      unsigned n = gd_nfields_by_type(Cd, GD_CONST_ENTRY); const double *x = (const double *)X->Constants(Float64), *c = (const double *)gd_constants(Cd, GD_FLOAT64);
      for (unsigned i = 0; i < n; i++) { if (x) { outx += " "; dbl(outx, x[i]); } if (c) { outc += " "; dbl(outc, c[i]); } } DONE();
    }
    OP("getconstant", 2) { double x[2] = {0, 0}, c[2] = {0, 0}; ap(outx, " %d ", X->GetConstant(tok[1], (DataType)ty(tok[2]), x)); ap(outc, " %d ", gd_get_constant(Cd, tok[1], ty(tok[2]), c)); hex(outx, x, 16); hex(outc, c, 16); DONE(); }
    OP("putconstant", 2) { double v = atof(tok[2]); ap(outx, " %d", X->PutConstant(tok[1], Float64, &v)); ap(outc, " %d", gd_put_constant(Cd, tok[1], GD_FLOAT64, &v)); DONE(); }
    OP("getcarray", 3) {
      double x[64], c[64]; memset(x, 0, sizeof x); memset(c, 0, sizeof c); unsigned st = atoi(tok[2]); size_t len = atoi(tok[3]); if (len > 60) len = 60;
      ap(outx, " %d ", X->GetCarray(tok[1], Float64, x, st, len)); ap(outc, " %d ", len ? gd_get_carray_slice(Cd, tok[1], st, len, GD_FLOAT64, c) : gd_get_carray(Cd, tok[1], GD_FLOAT64, c));
      hex(outx, x, sizeof x); hex(outc, c, sizeof c); ap(outx, " len=%zu", X->ArrayLen(tok[1])); ap(outc, " len=%zu", gd_array_len(Cd, tok[1])); DONE();
    }
    OP("putcarray", 4) {
      double v[64]; int n = 0; char *s2 = NULL; memset(v, 0, sizeof v); for (char *p = strtok_r(tok[4], ",", &s2); p && n < 16; p = strtok_r(NULL, ",", &s2)) v[n++] = atof(p);
      unsigned st = atoi(tok[2]); size_t len = atoi(tok[3]);
      ap(outx, " %d", X->PutCarray(tok[1], Float64, v, st, len)); ap(outc, " %d", len ? gd_put_carray_slice(Cd, tok[1], st, len, GD_FLOAT64, v) : gd_put_carray(Cd, tok[1], GD_FLOAT64, v)); DONE();
    }
    OP("getstring", 1) { char x[256] = "", c[256] = ""; ap(outx, " %zu", X->GetString(tok[1], 255, x)); ap(outc, " %zu", gd_get_string(Cd, tok[1], 255, c)); ap(outx, " [%s]", x); ap(outc, " [%s]", c); DONE(); }
    OP("putstring", 2) { ap(outx, " %d", X->PutString(tok[1], tok[2])); ap(outc, " %d", gd_put_string(Cd, tok[1], tok[2])); DONE(); }
    OP("getsarray", 3) {
      const char *x[64], *c[64]; memset(x, 0, sizeof x); memset(c, 0, sizeof c); unsigned st = atoi(tok[2]); size_t len = atoi(tok[3]); if (len > 60) len = 60;
      ap(outx, " %d", X->GetSarray(tok[1], x, st, len)); ap(outc, " %d", len ? gd_get_sarray_slice(Cd, tok[1], st, len, c) : gd_get_sarray(Cd, tok[1], c));
      if (X->Error() == 0) for (int i = 0; i < 60 && x[i]; i++) ap(outx, " [%s]", x[i]); if (gd_error(Cd) == 0) for (int i = 0; i < 60 && c[i]; i++) ap(outc, " [%s]", c[i]); DONE();
    }
    OP("putsarray", 4) {
      const char *v[64]; int n = 0; char *s2 = NULL; for (char *p = strtok_r(tok[4], ",", &s2); p && n < 16; p = strtok_r(NULL, ",", &s2)) v[n++] = p;
      for (; n < 64; n++) v[n] = "fill";       /* gd_put_sarray reads array_len strings */
      unsigned st = atoi(tok[2]); size_t len = atoi(tok[3]);
      ap(outx, " %d", X->PutSarray(tok[1], v, st, len)); ap(outc, " %d", len ? gd_put_sarray_slice(Cd, tok[1], st, len, v) : gd_put_sarray(Cd, tok[1], v)); DONE();
    }
    OP("flush", 1) { ap(outx, " %d", X->Flush(S(tok[1]))); ap(outc, " %d", gd_flush(Cd, S(tok[1]))); DONE(); }
    OP("sync", 1) { ap(outx, " %d", X->Sync(S(tok[1]))); ap(outc, " %d", gd_sync(Cd, S(tok[1]))); DONE(); }
    OP("rawclose", 1) { ap(outx, " %d", X->RawClose(S(tok[1]))); ap(outc, " %d", gd_raw_close(Cd, S(tok[1]))); DONE(); }
    OP("metaflush", 0) { ap(outx, " %d", X->MetaFlush()); ap(outc, " %d", gd_metaflush(Cd)); DONE(); }
    OP("validate", 1) { ap(outx, " %d", X->Validate(tok[1])); ap(outc, " %d", gd_validate(Cd, tok[1])); DONE(); }
    OP("fragindex", 1) { ap(outx, " %d", X->FragmentIndex(tok[1])); ap(outc, " %d", gd_fragment_index(Cd, tok[1])); DONE(); }
    OP("standards", 1) { ap(outx, " %d", X->Standards(atoi(tok[1]))); ap(outc, " %d", gd_dirfile_standards(Cd, atoi(tok[1]))); DONE(); }
    OP("lookback", 1) { X->MplexLookback(atoi(tok[1])); gd_mplex_lookback(Cd, atoi(tok[1])); DONE(); }
    OP("flags", 2) { ap(outx, " %lx", X->Flags(strtoul(tok[1], 0, 0), strtoul(tok[2], 0, 0))); ap(outc, " %lx", gd_flags(Cd, strtoul(tok[1], 0, 0), strtoul(tok[2], 0, 0))); DONE(); }
    OP("reference", 1) {
      RawEntry *r = X->Reference(S(tok[1])); const char *c = gd_reference(Cd, S(tok[1]));
      ap(outx, " %s e=%d", r ? r->Name() : "(null)", X->Error()); ap(outc, " %s e=%d", c ? c : "(null)", gd_error(Cd)); delete r;
      const char *rf = X->ReferenceFilename(); const char *c2 = gd_reference(Cd, NULL); char *cf = c2 ? gd_raw_filename(Cd, c2) : NULL;
      ap(outx, " %s", rf ? rf + a.size() : "(null)"); ap(outc, " %s", cf ? cf + b.size() : "(null)"); free(cf); DONE();
    }
    OP("tablename", 1) { char *x = X->LinterpTableName(tok[1]), *c = gd_linterp_tablename(Cd, tok[1]); ap(outx, " %s", x ? x + a.size() : "(null)"); ap(outc, " %s", c ? c + b.size() : "(null)"); free(x); free(c); DONE(); }
    OP("fragment", 1) {
      int i = atoi(tok[1]); Fragment *f = X->Fragment(i);
      if (f) { ap(outx, " enc=%d end=%lx fo=%lld prot=%d par=%d name=%s px=%s sx=%s ns=%s", (int)f->Encoding(), f->Endianness(), (long long)f->FrameOffset(), f->Protection(), i ? f->Parent() : -1,
            f->Name() ? f->Name() + a.size() : "(null)", f->Prefix() ? f->Prefix() : "(null)", f->Suffix() ? f->Suffix() : "(null)", f->Namespace() ? f->Namespace() : "(null)"); delete f; }
      else outx += " nofragment";
      if (i >= 0 && i < gd_nfragments(Cd)) { char *px = NULL, *sx = NULL; gd_fragment_affixes(Cd, i, &px, &sx); const char *fn = gd_fragmentname(Cd, i);
        unsigned long enc = gd_encoding(Cd, i); int ev = enc == GD_UNENCODED ? 1 : enc == GD_TEXT_ENCODED ? 2 : enc == GD_SLIM_ENCODED ? 3 : enc == GD_GZIP_ENCODED ? 4 : enc == GD_BZIP2_ENCODED ? 5 : enc == GD_LZMA_ENCODED ? 6 : enc == GD_SIE_ENCODED ? 7 : enc == GD_ZZIP_ENCODED ? 8 : enc == GD_ZZSLIM_ENCODED ? 9 : enc == GD_FLAC_ENCODED ? 10 : enc == GD_AUTO_ENCODED ? 0 : 11;
        (void)ev;
        ap(outc, " enc=%d end=%lx fo=%lld prot=%d par=%d name=%s px=%s sx=%s ns=%s", (int)enc, gd_endianness(Cd, i), (long long)gd_frameoffset64(Cd, i), gd_protection(Cd, i), i ? gd_parent_fragment(Cd, i) : -1,
            fn ? fn + b.size() : "(null)", px ? px : "(null)", sx ? sx : "(null)", gd_fragment_namespace(Cd, i, NULL) ? gd_fragment_namespace(Cd, i, NULL) : "(null)"); free(px); free(sx); }
      else outc += " nofragment";
      ap(outx, " n=%d", X->NFragments()); ap(outc, " n=%d", gd_nfragments(Cd)); DONE();
    }
    OP("fragset", 3) {
      /* fragset <index> <what> <value> [recode] */
      int i = atoi(tok[1]); Fragment *f = X->Fragment(i); int rc = nt > 4 ? atoi(tok[4]) : 0; int rx = -99, rcc = -99;
      if (f) {
        if (!strcmp(tok[2], "encoding")) { rx = f->SetEncoding((EncodingScheme)strtoul(tok[3], 0, 0), rc); rcc = gd_alter_encoding(Cd, strtoul(tok[3], 0, 0), i, rc); }
        else if (!strcmp(tok[2], "endianness")) { rx = f->SetEndianness(strtoul(tok[3], 0, 0), rc); rcc = gd_alter_endianness(Cd, strtoul(tok[3], 0, 0), i, rc); }
        else if (!strcmp(tok[2], "frameoffset")) { rx = f->SetFrameOffset(atoll(tok[3]), rc); rcc = gd_alter_frameoffset64(Cd, atoll(tok[3]), i, rc); }
        else if (!strcmp(tok[2], "protection")) { rx = f->SetProtection(atoi(tok[3])); rcc = gd_alter_protection(Cd, atoi(tok[3]), i); }
        else if (!strcmp(tok[2], "prefix")) { char *px = NULL, *sx = NULL; gd_fragment_affixes(Cd, i, &px, &sx); rx = f->SetPrefix(E0(tok[3])); rcc = gd_alter_affixes(Cd, i, E0(tok[3]), sx); free(px); free(sx); }
        else if (!strcmp(tok[2], "suffix")) { char *px = NULL, *sx = NULL; gd_fragment_affixes(Cd, i, &px, &sx); rx = f->SetSuffix(E0(tok[3])); rcc = gd_alter_affixes(Cd, i, px, E0(tok[3])); free(px); free(sx); }
        else if (!strcmp(tok[2], "namespace")) { rx = f->SetNamespace(E0(tok[3])); rcc = gd_fragment_namespace(Cd, i, E0(tok[3])) ? 0 : gd_error(Cd); }
        else if (!strcmp(tok[2], "rewrite")) { rx = f->ReWrite(); rcc = gd_rewrite_fragment(Cd, i); }
        ap(outx, " %d e=%d", rx, X->Error()); ap(outc, " %d e=%d", rcc, gd_error(Cd));
        /* the object's own view after the call against the library's */
        char *px = NULL, *sx = NULL; gd_fragment_affixes(Cd, i, &px, &sx);
        ap(outx, " end=%lx fo=%lld prot=%d px=%s sx=%s", f->Endianness(), (long long)f->FrameOffset(), f->Protection(), f->Prefix() ? f->Prefix() : "(null)", f->Suffix() ? f->Suffix() : "(null)");
        ap(outc, " end=%lx fo=%lld prot=%d px=%s sx=%s", gd_endianness(Cd, i), (long long)gd_frameoffset64(Cd, i), gd_protection(Cd, i), px ? px : "(null)", sx ? sx : "(null)");
        free(px); free(sx); delete f;
      } else { outx += " nofragment"; outc += (i >= 0 && i < gd_nfragments(Cd)) ? " fragment" : " nofragment"; }
    }
    OP("entry", 1) { Entry *e = X->Entry(tok[1]); dump_x(outx, e); delete e; dump_c(outc, tok[1]); }
    OP("entryset", 3) {
      /* entryset <code> <what> <value> [index]: a setter of the C++ entry object against gd_alter_spec-free editing of the C entry */
      Entry *e = X->Entry(tok[1]); gd_entry_t E; memset(&E, 0, sizeof E); int have = !gd_entry(Cd, tok[1], &E); int rx = -99, rc = -99; int idx = nt > 4 ? atoi(tok[4]) : 0;
      const char *w = tok[2];
      if (e && have) {
        int t = E.field_type;
        if (!strcmp(w, "spf") && t == GD_RAW_ENTRY) { rx = ((RawEntry *)e)->SetSamplesPerFrame((unsigned)atoi(tok[3]), 0); E.u.raw.spf = atoi(tok[3]); rc = gd_alter_entry(Cd, tok[1], &E, 0); }
        else if (!strcmp(w, "shift") && t == GD_PHASE_ENTRY) { rx = ((PhaseEntry *)e)->SetShift((gd_int64_t)atoll(tok[3])); E.u.phase.shift = atoll(tok[3]); rc = gd_alter_entry(Cd, tok[1], &E, 0); }
        else if (!strcmp(w, "bit") && t == GD_BIT_ENTRY) { rx = ((BitEntry *)e)->SetFirstBit(atoi(tok[3])); E.u.bit.bitnum = atoi(tok[3]); rc = gd_alter_entry(Cd, tok[1], &E, 0); }
        else if (!strcmp(w, "nbits") && t == GD_BIT_ENTRY) { rx = ((BitEntry *)e)->SetNumBits(atoi(tok[3])); E.u.bit.numbits = atoi(tok[3]); rc = gd_alter_entry(Cd, tok[1], &E, 0); }
        else if (!strcmp(w, "bit") && t == GD_SBIT_ENTRY) { rx = ((SBitEntry *)e)->SetFirstBit(atoi(tok[3])); E.u.bit.bitnum = atoi(tok[3]); rc = gd_alter_entry(Cd, tok[1], &E, 0); }
        else if (!strcmp(w, "scale") && t == GD_LINCOM_ENTRY) { rx = ((LincomEntry *)e)->SetScale(atof(tok[3]), idx); if (idx >= 0 && idx < E.u.lincom.n_fields) { E.u.lincom.m[idx] = atof(tok[3]); E.u.lincom.cm[idx][0] = atof(tok[3]); E.u.lincom.cm[idx][1] = 0; free(E.scalar[idx]); E.scalar[idx] = NULL; } rc = gd_alter_entry(Cd, tok[1], &E, 0); }
        else if (!strcmp(w, "offset") && t == GD_LINCOM_ENTRY) { rx = ((LincomEntry *)e)->SetOffset(atof(tok[3]), idx); if (idx >= 0 && idx < E.u.lincom.n_fields) { E.u.lincom.b[idx] = atof(tok[3]); E.u.lincom.cb[idx][0] = atof(tok[3]); E.u.lincom.cb[idx][1] = 0; free(E.scalar[idx + GD_MAX_LINCOM]); E.scalar[idx + GD_MAX_LINCOM] = NULL; } rc = gd_alter_entry(Cd, tok[1], &E, 0); }
        else if (!strcmp(w, "dividend") && t == GD_RECIP_ENTRY) { rx = ((RecipEntry *)e)->SetDividend(atof(tok[3])); E.u.recip.dividend = atof(tok[3]); E.u.recip.cdividend[0] = atof(tok[3]); E.u.recip.cdividend[1] = 0; free(E.scalar[0]); E.scalar[0] = NULL; rc = gd_alter_entry(Cd, tok[1], &E, 0); }
        else if (!strcmp(w, "coeff") && t == GD_POLYNOM_ENTRY) { rx = ((PolynomEntry *)e)->SetCoefficient(atof(tok[3]), idx); if (idx >= 0 && idx <= E.u.polynom.poly_ord) { E.u.polynom.a[idx] = atof(tok[3]); E.u.polynom.ca[idx][0] = atof(tok[3]); E.u.polynom.ca[idx][1] = 0; free(E.scalar[idx]); E.scalar[idx] = NULL; } rc = gd_alter_entry(Cd, tok[1], &E, 0); }
        else if (!strcmp(w, "countval") && t == GD_MPLEX_ENTRY) { rx = ((MplexEntry *)e)->SetCountVal(atoi(tok[3])); E.u.mplex.count_val = atoi(tok[3]); free(E.scalar[0]); E.scalar[0] = NULL; rc = gd_alter_entry(Cd, tok[1], &E, 0); }
        else if (!strcmp(w, "period") && t == GD_MPLEX_ENTRY) { rx = ((MplexEntry *)e)->SetPeriod(atoi(tok[3])); E.u.mplex.period = atoi(tok[3]); free(E.scalar[1]); E.scalar[1] = NULL; rc = gd_alter_entry(Cd, tok[1], &E, 0); }
        else if (!strcmp(w, "input") && (t == GD_PHASE_ENTRY)) { rx = ((PhaseEntry *)e)->SetInput(tok[3]); free(E.in_fields[0]); E.in_fields[0] = strdup(tok[3]); rc = gd_alter_entry(Cd, tok[1], &E, 0); }
        else if (!strcmp(w, "input") && (t == GD_MULTIPLY_ENTRY)) { rx = ((MultiplyEntry *)e)->SetInput(tok[3], idx); if (idx == 0 || idx == 1) { free(E.in_fields[idx]); E.in_fields[idx] = strdup(tok[3]); } rc = (idx == 0 || idx == 1) ? gd_alter_entry(Cd, tok[1], &E, 0) : rx; }
        else if (!strcmp(w, "table") && t == GD_LINTERP_ENTRY) { rx = ((LinterpEntry *)e)->SetTable(tok[3], 0); free(E.u.linterp.table); E.u.linterp.table = strdup(tok[3]); rc = gd_alter_entry(Cd, tok[1], &E, 0); }
        else if (!strcmp(w, "consttype") && t == GD_CONST_ENTRY) { rx = ((ConstEntry *)e)->SetType((DataType)ty(tok[3])); E.u.scalar.const_type = ty(tok[3]); rc = gd_alter_entry(Cd, tok[1], &E, 0); }
        else if (!strcmp(w, "arraylen") && t == GD_CARRAY_ENTRY) { rx = ((CarrayEntry *)e)->SetArrayLen(atoi(tok[3])); E.u.scalar.array_len = atoi(tok[3]); rc = gd_alter_entry(Cd, tok[1], &E, 0); }
        else if (!strcmp(w, "rename")) { rx = e->Rename(tok[3], idx); rc = gd_rename(Cd, tok[1], tok[3], idx); }
        else if (!strcmp(w, "move")) { rx = e->Move(atoi(tok[3]), idx); rc = gd_move(Cd, tok[1], atoi(tok[3]), idx); }
        else { outx += " skipped"; outc += " skipped"; }
        ap(outx, " %d e=%d", rx, X->Error()); ap(outc, " %d e=%d", rc, gd_error(Cd));
        /* the object after the call, against a fresh look at the library under the name the library now has */
        const char *now = (!strcmp(w, "rename") && rc == 0) ? tok[3] : tok[1];
        std::string full = now;
        if (!strcmp(w, "rename") && rc == 0 && strchr(tok[1], '/')) { full = std::string(tok[1], strchr(tok[1], '/') - tok[1] + 1) + tok[3]; }
        /* (after a refused call the object keeps what the caller put into it; only the codes are compared then) */
        if (rc == 0 && rx == 0) { outx += " |obj:"; dump_x(outx, e); outc += " |obj:"; dump_c(outc, full.c_str()); }
      } else { ap(outx, " have=%d", e != NULL); ap(outc, " have=%d", have); }
      if (have) gd_free_entry_strings(&E);
      delete e;
    }
    OP("close", 0) { int rx = X->Close(), rc = gd_close(Cd); ap(outx, " %d", rx); ap(outc, " %d", rc); if (rc == 0) Cd = NULL; if (rx == 0) { delete X; X = NULL; } }
    OP("discard", 0) { int rx = X->Discard(), rc = gd_discard(Cd); ap(outx, " %d", rx); ap(outc, " %d", rc); if (rc == 0) Cd = NULL; if (rx == 0) { delete X; X = NULL; } }
    else { outx += " bad-op"; outc += " bad-op"; }
    puts(outx.c_str()); puts(outc.c_str()); fflush(stdout);
  }
  if (X) delete X;
  if (Cd) gd_discard(Cd);
  return 0;
}
