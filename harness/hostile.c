/* hostile.c — C05 driver: open a (possibly hostile) dirfile and call every
 * read-side API on everything the parser accepted, then close or discard.
 *
 *   gdhost <dirfile> <cb: none|ignore|continue|abort> <close|discard> [open flags ...]
 *
 * Built with ASan+UBSan(+LSan): a sanitizer report is the result.  Every error
 * code seen must be a GetData error code and never GD_E_INTERNAL_ERROR; a call
 * that does not return within the alarm is reported as HANG by the caller.
 * Output: one line "host open=<e> nfrag=<n> nfields=<n> calls=<n> errs=<n> codes=<sorted set> [BAD ...]".
 */
#include "internal.h"
#include <signal.h>
#include <inttypes.h>

static DIRFILE *D;
static long ncalls = 0, nerrs = 0;
static unsigned char seen[GD_N_ERROR_CODES + 2];
static char bad[512];
static const char *current = "";

static void note(const char *what) {
  int e = gd_error(D);
  ncalls++;
  if (e) nerrs++;
  if (D->recurse_level != 0 && !bad[0]) snprintf(bad, sizeof bad, "recurse-level-leak:%d after %s:%s", D->recurse_level, what, current);
  if (e > 0 || -e >= GD_N_ERROR_CODES) { if (!bad[0]) snprintf(bad, sizeof bad, "not-a-getdata-error:%d:%s:%s", e, what, current); }
  else {
    seen[-e] = 1;
    if (e == GD_E_INTERNAL_ERROR && !bad[0]) snprintf(bad, sizeof bad, "internal-error:%s:%s", what, current);
  }
}

static int cb_action = GD_SYNTAX_IGNORE, cb_n = 0;
static int cb(gd_parser_data_t *pd, void *x) { (void)x; (void)pd; cb_n++; if (pd->suberror < 0 || pd->suberror > 64) snprintf(bad, sizeof bad, "suberror:%d", pd->suberror); return cb_action; }

static void on_alarm(int s) { (void)s; static const char m[] = "HANG\n"; if (write(1, m, 5)) {} if (write(1, current, strlen(current))) {} _exit(97); }

static const gd_type_t RT[] = { GD_UINT8, GD_FLOAT64, GD_COMPLEX128, GD_INT64, GD_UINT16, GD_FLOAT32, GD_NULL };

static void exercise(const char *name) {
  gd_entry_t E;
  current = name;
  memset(&E, 0, sizeof E);
  if (gd_entry(D, name, &E) == 0) gd_free_entry_strings(&E);
  note("entry");
  gd_entype_t t = gd_entry_type(D, name); note("entry_type");
  gd_fragment_index(D, name); note("fragment_index");
  gd_hidden(D, name); note("hidden");
  gd_alias_target(D, name); note("alias_target");
  unsigned na = gd_naliases(D, name); note("naliases");
  const char **al = gd_aliases(D, name); note("aliases");
  if (al) for (unsigned i = 0; i < na && al[i]; i++) if (strlen(al[i]) > 100000) snprintf(bad, sizeof bad, "alias-name-garbage");
  gd_validate(D, name); note("validate");
  gd_type_t nt = gd_native_type(D, name); note("native_type"); (void)nt;
  char *fn = gd_raw_filename(D, name); note("raw_filename"); free(fn);
  { char *tn = gd_linterp_tablename(D, name); note("linterp_tablename"); free(tn); }
  if (t == GD_CONST_ENTRY || t == GD_CARRAY_ENTRY) {
    size_t len = gd_array_len(D, name); note("array_len");
    if (len > 0 && len < (1u << 20)) {
      double *v = malloc(len * 16);
      gd_get_carray(D, name, GD_COMPLEX128, v); note("get_carray");
      gd_get_carray_slice(D, name, len / 2, len - len / 2, GD_INT64, v); note("get_carray_slice");
      gd_get_carray_slice(D, name, len, 1, GD_UINT8, v); note("get_carray_slice_end");
      gd_get_constant(D, name, GD_FLOAT64, v); note("get_constant");
      free(v);
    }
    return;
  }
  if (t == GD_STRING_ENTRY || t == GD_SARRAY_ENTRY) {
    size_t len = gd_array_len(D, name); note("array_len");
    if (len > 0 && len < (1u << 20)) {
      const char **v = malloc((len + 1) * sizeof *v);
      gd_get_sarray(D, name, v); note("get_sarray");
      if (gd_error(D) == 0) for (size_t i = 0; i < len; i++) if (v[i] && strlen(v[i]) > (1u << 24)) snprintf(bad, sizeof bad, "string-garbage");
      gd_get_sarray_slice(D, name, len - 1, 1, v); note("get_sarray_slice");
      free(v);
    }
    { const char *sp = NULL; gd_get_string(D, name, 0, (char *)&sp); note("get_string"); }
    return;
  }
  if (t == GD_NO_ENTRY) return;
  /* vector (or alias of anything) */
  unsigned spf = gd_spf(D, name); note("spf");
  off64_t eof = gd_eof64(D, name); note("eof");
  off64_t bof = gd_bof64(D, name); note("bof");
  unsigned real_spf = spf;
  if (spf > 4096) spf = 4096;
  size_t cap = (size_t)spf * 2 + 16;
  unsigned char *buf = malloc(cap * 16);
  off64_t starts[6]; int ns = 0;
  starts[ns++] = 0; starts[ns++] = 1; starts[ns++] = 1000000;
  if (eof > 2) starts[ns++] = eof - 2;
  if (bof > 0) starts[ns++] = bof - 1;
  if (eof > 0) starts[ns++] = eof;
  for (int r = 0; r < (int)(sizeof RT / sizeof RT[0]); r++) {
    for (int k = 0; k < ns; k++) {
      if (r > 2 && k > 1) continue;
      memset(buf, 0xA5, cap * 16);
      size_t n = gd_getdata64(D, name, 0, starts[k], 0, (k == 1) ? 0 : 5, RT[r], buf); note("getdata");
      if (n > 5) snprintf(bad, sizeof bad, "getdata returned %zu > 5 requested:%s", n, name);
    }
    /* whole frames only when two of them fit the buffer */
    if (r < 2 && real_spf <= 4096) { size_t n = gd_getdata64(D, name, 0, 0, 2, 3, RT[r], buf); note("getdata_frames"); if (n > cap) snprintf(bad, sizeof bad, "getdata overrun:%s", name); }
  }
  gd_seek64(D, name, 0, 3, GD_SEEK_SET); note("seek");
  gd_tell64(D, name); note("tell");
  gd_getdata64(D, name, GD_HERE, 0, 0, 4, GD_FLOAT64, buf); note("getdata_here");
  gd_seek64(D, name, 0, -1, GD_SEEK_END); note("seek_end");
  gd_seek64(D, name, 0, 0, GD_SEEK_CUR); note("seek_cur");
  gd_framenum_subset64(D, name, 1.5, 0, 0); note("framenum");
  gd_framenum_subset64(D, name, -1e300, 1, 7); note("framenum2");
  free(buf);
}

int main(int argc, char **argv) {
  if (argc < 4) return 2;
  unsigned long flags = GD_RDONLY;
  for (int i = 4; i < argc; i++) {
    if (!strcmp(argv[i], "pedantic")) flags |= GD_PEDANTIC;
    else if (!strcmp(argv[i], "permissive")) flags |= GD_PERMISSIVE;
    else if (!strcmp(argv[i], "ignore_dups")) flags |= GD_IGNORE_DUPS;
    else if (!strcmp(argv[i], "ignore_refs")) flags |= GD_IGNORE_REFS;
    else if (!strcmp(argv[i], "big")) flags |= GD_BIG_ENDIAN;
    else if (!strcmp(argv[i], "rdwr")) flags = (flags & ~GD_ACCMODE) | GD_RDWR;
    else flags |= strtoul(argv[i], NULL, 0);
  }
  signal(SIGALRM, on_alarm);
  alarm(20);
  current = "gd_open";
  if (!strcmp(argv[2], "none")) D = gd_open(argv[1], flags);
  else {
    cb_action = !strcmp(argv[2], "ignore") ? GD_SYNTAX_IGNORE : !strcmp(argv[2], "continue") ? GD_SYNTAX_CONTINUE : GD_SYNTAX_ABORT;
    D = gd_cbopen(argv[1], flags, cb, NULL);
  }
  if (D == NULL) { puts("host BAD gd_open returned NULL"); return 3; }
  int oe = gd_error(D);
  note("open");
  int nfrag = gd_nfragments(D); note("nfragments");
  unsigned nfields = 0;
  if (oe == 0) {
    for (int i = 0; i < nfrag; i++) {
      char *px = NULL, *sx = NULL;
      gd_encoding(D, i); note("encoding"); gd_endianness(D, i); note("endianness"); gd_frameoffset64(D, i); note("frameoffset");
      gd_protection(D, i); note("protection"); gd_fragmentname(D, i); note("fragmentname");
      if (i) { gd_parent_fragment(D, i); note("parent_fragment"); }
      gd_fragment_affixes(D, i, &px, &sx); note("fragment_affixes"); free(px); free(sx);
      gd_fragment_namespace(D, i, NULL); note("fragment_namespace");
    }
    gd_nframes64(D); note("nframes");
    gd_reference(D, NULL); note("reference");
    gd_dirfilename(D); gd_flags(D, 0, 0); gd_dirfile_standards(D, GD_VERSION_CURRENT); note("standards");
    gd_dirfile_standards(D, GD_VERSION_EARLIEST); note("standards_earliest");
    /* list functions */
    gd_field_list(D); note("field_list"); gd_vector_list(D); note("vector_list"); gd_strings(D); note("strings");
    gd_constants(D, GD_FLOAT64); note("constants"); gd_carrays(D, GD_INT32); note("carrays"); gd_sarrays(D); note("sarrays");
    static const unsigned tys[] = { GD_ALL_ENTRIES, GD_VECTOR_ENTRIES, GD_SCALAR_ENTRIES, GD_RAW_ENTRY, GD_ALIAS_ENTRIES, GD_LINTERP_ENTRY };
    for (unsigned a = 0; a < sizeof tys / sizeof tys[0]; a++) { gd_nentries(D, NULL, tys[a], GD_ENTRIES_HIDDEN); note("nentries"); gd_entry_list(D, NULL, tys[a], GD_ENTRIES_NOALIAS); note("entry_list"); }
    unsigned n = gd_nentries(D, NULL, GD_ALL_ENTRIES, GD_ENTRIES_HIDDEN); note("nentries");
    const char **l = gd_entry_list(D, NULL, GD_ALL_ENTRIES, GD_ENTRIES_HIDDEN); note("entry_list");
    char **names = calloc(n + 1, sizeof *names); unsigned k = 0;
    for (; l && k < n && l[k]; k++) names[k] = strdup(l[k]);
    nfields = k;
    unsigned limit = k > 400 ? 400 : k;            /* bound the work on huge tables */
    for (unsigned i = 0; i < limit; i++) {
      exercise(names[i]);
      unsigned nm = gd_nentries(D, names[i], GD_ALL_ENTRIES, GD_ENTRIES_HIDDEN); note("nmentries");
      if (gd_error(D) == 0 && nm > 0) {
        const char **ml = gd_entry_list(D, names[i], GD_ALL_ENTRIES, GD_ENTRIES_HIDDEN); note("mentry_list");
        char **mn = calloc(nm + 1, sizeof *mn); unsigned c = 0;
        for (unsigned j = 0; ml && j < nm && ml[j]; j++) { mn[c] = malloc(strlen(names[i]) + strlen(ml[j]) + 2); sprintf(mn[c], "%s/%s", names[i], ml[j]); c++; }
        gd_mconstants(D, names[i], GD_UINT8); note("mconstants"); gd_mstrings(D, names[i]); note("mstrings");
        gd_mcarrays(D, names[i], GD_FLOAT32); note("mcarrays"); gd_mvector_list(D, names[i]); note("mvector_list");
        for (unsigned j = 0; j < c && j < 20; j++) { exercise(mn[j]); free(mn[j]); }
        free(mn);
      }
    }
    /* codes that name nothing, odd representations */
    exercise("no such field"); exercise(""); exercise("INDEX"); exercise("INDEX.r");
    if (k) { char tmp[8192]; snprintf(tmp, sizeof tmp, "%s.z", names[0]); exercise(tmp); snprintf(tmp, sizeof tmp, "%s.m", names[k - 1]); exercise(tmp); snprintf(tmp, sizeof tmp, "%s/x", names[0]); exercise(tmp); }
    for (unsigned i = 0; i < k; i++) free(names[i]);
    free(names);
  } else {
    /* an invalid dirfile: every call must answer GD_E_BAD_DIRFILE (or the open error), never crash */
    gd_nframes64(D); note("nframes@bad"); gd_field_list(D); note("field_list@bad");
    { char b[64]; gd_getdata64(D, "INDEX", 0, 0, 0, 2, GD_UINT8, b); note("getdata@bad"); }
    { char es[256]; gd_error_string(D, es, sizeof es); }
  }
  current = "close";
  int r = !strcmp(argv[3], "discard") ? gd_discard(D) : gd_close(D);
  if (r) { /* a read-only handle: close must succeed */ snprintf(bad, sizeof bad, "close-failed:%d", r); }
  printf("host open=%d nfrag=%d nfields=%u cb=%d calls=%ld errs=%ld codes=", oe, nfrag, nfields, cb_n, ncalls, nerrs);
  for (int i = 0; i < GD_N_ERROR_CODES; i++) if (seen[i]) printf("%d,", -i);
  if (bad[0]) printf(" BAD %s", bad);
  putchar('\n');
  return 0;
}
