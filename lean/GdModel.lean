import GdModel.Num.Types
import GdModel.Num.Cast
import GdModel.Num.Chain
import GdModel.Generated.ConvTable
