/-
  Round-trip lemmas for the byte-order layer (src/endian.c).
-/
import GdModel.Bytes.Order

namespace GdModel.Bytes
open GdModel.Num

theorem leBytes_length : ∀ (w v : Nat), (leBytes w v).length = w
  | 0, _ => rfl
  | w + 1, v => by simp [leBytes, leBytes_length w]

theorem leVal_leBytes : ∀ (w v : Nat), v < 256 ^ w → leVal (leBytes w v) = v
  | 0, v, h => by simp at h; simp [leBytes, leVal, h]
  | w + 1, v, h => by
      have hv : v / 256 < 256 ^ w := by
        rw [Nat.div_lt_iff_lt_mul (by decide)]
        rw [Nat.pow_succ] at h; exact h
      simp only [leBytes, leVal, leVal_leBytes w (v / 256) hv]
      omega

theorem armSwap_armSwap (bs : List Nat) (h : bs.length = 8) : armSwap (armSwap bs) = bs := by
  match bs, h with
  | [a, b, c, d, e, f, g, i], _ => rfl

theorem armSwap_reverse (bs : List Nat) (h : bs.length = 8) :
    armSwap (bs.reverse) = (armSwap bs).reverse := by
  match bs, h with
  | [a, b, c, d, e, f, g, i], _ => rfl

theorem armSwap_length (bs : List Nat) (h : bs.length = 8) : (armSwap bs).length = 8 := by
  match bs, h with
  | [a, b, c, d, e, f, g, i], _ => rfl

/-- **Byte-order round trip, one component**: for every byte order (little,
    big, and the ARM middle-endian variants) and every component type, decoding
    the encoded bytes gives the value back. -/
theorem decode_encode_comp (o : Order) (t : CT) (v : Nat) (hv : v < 2 ^ t.width) :
    decodeComp o t (encodeComp o t v) = v := by
  have hw : 256 ^ (t.width / 8) = 2 ^ t.width := by cases t <;> decide
  have hlen := leBytes_length (t.width / 8) v
  have hval := leVal_leBytes (t.width / 8) v (by rw [hw]; exact hv)
  unfold decodeComp encodeComp
  by_cases harm : armApplies o t = true
  · have ht : t = .f64 := by
      unfold armApplies at harm
      simp only [Bool.and_eq_true, beq_iff_eq] at harm; exact harm.2
    subst ht
    have h8 : (leBytes (CT.f64.width / 8) v).length = 8 := hlen
    simp only [harm, if_true]
    cases hb : o.big
    · simp only [Bool.false_eq_true, if_false]
      rw [armSwap_armSwap _ h8]; exact hval
    · simp only [if_true]
      have h8r : (leBytes (CT.f64.width / 8) v).reverse.length = 8 := by simpa using h8
      rw [armSwap_armSwap _ h8r, List.reverse_reverse]; exact hval
  · simp only [harm, Bool.false_eq_true, if_false]
    cases hb : o.big
    · simp only [Bool.false_eq_true, if_false]; exact hval
    · simp only [if_true, List.reverse_reverse]; exact hval

theorem encodeComp_length (o : Order) (t : CT) (v : Nat) : (encodeComp o t v).length = t.width / 8 := by
  unfold encodeComp
  have hlen := leBytes_length (t.width / 8) v
  by_cases harm : armApplies o t = true
  · have ht : t = .f64 := by
      unfold armApplies at harm
      simp only [Bool.and_eq_true, beq_iff_eq] at harm; exact harm.2
    subst ht
    have h8 : (leBytes (CT.f64.width / 8) v).length = 8 := hlen
    simp only [harm, if_true]
    cases o.big <;> simp only [Bool.false_eq_true, if_false, if_true]
    · exact armSwap_length _ h8
    · exact armSwap_length _ (by simpa using h8)
  · simp only [harm, Bool.false_eq_true, if_false]
    cases o.big <;> simp [hlen]

end GdModel.Bytes
