/-
  GdModel.Bytes.Order — byte order of RAW data on disk (src/endian.c:167-310):
  little/big endian, and the ARM "middle-endian" layout of 8-byte floating
  components (the two 4-byte halves exchanged).  A component of width `w`
  bytes is a `Nat < 256^w`; bytes are `Nat < 256`.  Core Lean only.
-/
import GdModel.Num.Cast
namespace GdModel.Bytes
open GdModel.Num

structure Order where
  big : Bool
  arm : Bool
  deriving DecidableEq, Repr, Inhabited

/-- little-endian value of a byte list -/
def leVal : List Nat → Nat
  | [] => 0
  | b :: bs => b + 256 * leVal bs

/-- little-endian bytes of a value, `w` of them -/
def leBytes : Nat → Nat → List Nat
  | 0, _ => []
  | w + 1, v => v % 256 :: leBytes w (v / 256)

/-- exchange the two halves of an 8-byte group (`_GD_ArmEndianise`) -/
def armSwap (bs : List Nat) : List Nat := bs.drop 4 ++ bs.take 4

/-- does the ARM flag apply to this component type?  Only 8-byte floating
    components (FLOAT64, COMPLEX128). -/
def armApplies (o : Order) (t : CT) : Bool := o.arm && t == .f64

/-- file bytes of one component → value (`_GD_FixEndianness` file→native on a
    little-endian host: ARM half-swap first, then byte reversal if big). -/
def decodeComp (o : Order) (t : CT) (bs : List Nat) : Nat :=
  let b1 := if armApplies o t then armSwap bs else bs
  let b2 := if o.big then b1.reverse else b1
  leVal b2

/-- value → file bytes of one component (native→file: reversal, then half-swap;
    the two operations commute, and each is an involution). -/
def encodeComp (o : Order) (t : CT) (v : Nat) : List Nat :=
  let b0 := leBytes (t.width / 8) v
  let b1 := if o.big then b0.reverse else b0
  if armApplies o t then armSwap b1 else b1

/-- split a byte list into samples of type `ty`; a trailing partial sample is
    dropped (file sizes are rounded down to whole samples, src/raw.c:149-165) -/
def decodeSamples (o : Order) (ty : Ty) (bs : List Nat) : List Sample :=
  let w := ty.comp.width / 8
  let sz := ty.size
  let n := bs.length / sz
  (List.range n).map fun i =>
    let chunk := (bs.drop (i * sz)).take sz
    if ty.isComplex then
      ⟨decodeComp o ty.comp (chunk.take w), decodeComp o ty.comp (chunk.drop w)⟩
    else ⟨decodeComp o ty.comp chunk, 0⟩

def encodeSample (o : Order) (ty : Ty) (x : Sample) : List Nat :=
  if ty.isComplex then encodeComp o ty.comp x.re ++ encodeComp o ty.comp x.im
  else encodeComp o ty.comp x.re

def encodeSamples (o : Order) (ty : Ty) (xs : List Sample) : List Nat :=
  xs.flatMap (encodeSample o ty)

end GdModel.Bytes
