/-
  GdModel.Codec.Disk — what a RAW data file looks like on disk (man/dirfile-encoding.5,
  src/raw.c, src/ascii.c, src/sie.c):

  * bare array: the samples' bytes in the fragment's byte order, back to back
    (this is also the payload the gzip / bzip2 / xz containers carry);
  * text: one decimal number per line;
  * sie: records of an 8-byte last-sample-index (fragment byte order, never
    ARM-swapped) followed by one sample, strictly increasing indices.

  Every decoder here is total: a trailing partial unit is dropped, as the
  library does (src/raw.c:149-165 rounds sizes down).  Core Lean only.
-/
import GdModel.Bytes.Order
import GdModel.Codec.Flat
namespace GdModel.Codec.Disk
open GdModel.Num GdModel.Bytes

/-- cut `bs` into consecutive units of `sz` bytes, decode each; drop a trailing partial unit -/
def chunkMap {β} (sz : Nat) (f : List Nat → β) (bs : List Nat) : List β :=
  (List.range (bs.length / sz)).map fun i => f ((bs.drop (i * sz)).take sz)

/-- decode one sample's bytes -/
def decodeOne (o : Order) (ty : Ty) (chunk : List Nat) : Sample :=
  let w := ty.comp.width / 8
  if ty.isComplex then
    ⟨decodeComp o ty.comp (chunk.take w), decodeComp o ty.comp (chunk.drop w)⟩
  else ⟨decodeComp o ty.comp chunk, 0⟩

/-! ### text: decimal integers, one per line -/

def digitChar (d : Nat) : Nat := 48 + d      -- '0' + d

/-- decimal digits of `n`, most significant first, with fuel `n + 1` -/
def decDigitsAux : Nat → Nat → List Nat → List Nat
  | 0, _, acc => acc
  | fuel + 1, n, acc =>
    if n < 10 then digitChar n :: acc
    else decDigitsAux fuel (n / 10) (digitChar (n % 10) :: acc)

def printNat (n : Nat) : List Nat := decDigitsAux (n + 1) n []

def parseNatAux : List Nat → Nat → Option Nat
  | [], acc => some acc
  | c :: cs, acc => if 48 ≤ c ∧ c ≤ 57 then parseNatAux cs (acc * 10 + (c - 48)) else none

def parseNat? (cs : List Nat) : Option Nat :=
  match cs with
  | [] => none
  | _ => parseNatAux cs 0

def printInt (z : Int) : List Nat :=
  if z < 0 then 45 :: printNat z.natAbs else printNat z.toNat   -- '-' = 45

def parseInt? (cs : List Nat) : Option Int :=
  match cs with
  | 45 :: rest => (parseNat? rest).map fun n => -(n : Int)
  | _ => (parseNat? cs).map fun n => (n : Int)

/-- a text data file: each value followed by a newline (10) -/
def printLines (zs : List Int) : List Nat := zs.flatMap fun z => printInt z ++ [10]

/-- split at newlines; text after the last newline (an unterminated line) is dropped -/
def splitLinesAux : List Nat → List Nat → List (List Nat)
  | [], _ => []
  | c :: cs, cur => if c = 10 then cur.reverse :: splitLinesAux cs [] else splitLinesAux cs (c :: cur)

def parseLines (bs : List Nat) : List (Option Int) := (splitLinesAux bs []).map parseInt?

/-! ### sie records -/

/-- the 8 index bytes: fragment byte order, but never the ARM half-swap (src/sie.c FIXSEX) -/
def encodeIdx (o : Order) (i : Nat) : List Nat :=
  let b := leBytes 8 i
  if o.big then b.reverse else b

def decodeIdx (o : Order) (bs : List Nat) : Nat :=
  leVal (if o.big then bs.reverse else bs)

def encodeRec (o : Order) (ty : Ty) (r : Sie.Rec Sample) : List Nat :=
  encodeIdx o r.1 ++ encodeSample o ty r.2

def decodeRec (o : Order) (ty : Ty) (bs : List Nat) : Sie.Rec Sample :=
  (decodeIdx o (bs.take 8), decodeOne o ty (bs.drop 8))

def encodeSie (o : Order) (ty : Ty) (rs : List (Sie.Rec Sample)) : List Nat :=
  rs.flatMap (encodeRec o ty)

def decodeSie (o : Order) (ty : Ty) (bs : List Nat) : List (Sie.Rec Sample) :=
  chunkMap (8 + ty.size) (decodeRec o ty) bs

/-- strictly increasing record ends, as a Bool for the driver -/
def sieIncreasing : List (Sie.Rec Sample) → Bool
  | [] => true
  | [_] => true
  | a :: b :: rest => decide (a.1 < b.1) && sieIncreasing (b :: rest)

end GdModel.Codec.Disk
