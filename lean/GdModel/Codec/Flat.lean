/-
  GdModel.Codec.Flat — what a RAW field *is*: a flat array of samples.
  `put` is the specification of gd_putdata on a RAW field (samples counted
  from the start of the data file, i.e. after the frame offset): writing `xs`
  at `k` overwrites/extends, and a write past the end fills the gap with the
  zero sample.
  `Sie.expand` / `Sie.compress` relate the array to the sample-index encoding
  (dirfile-encoding(5)): records (last sample index of the run, value).
-/
namespace GdModel.Codec

variable {α : Type}

def Flat.put (zero : α) (a : List α) (k : Nat) (xs : List α) : List α :=
  match xs with
  | [] => a            -- nothing to write: nothing happens (no padding either)
  | _ => (a ++ List.replicate (k - a.length) zero).take k ++ xs ++ a.drop (k + xs.length)

/-- the array after a history of writes -/
def Flat.run (zero : α) (a : List α) (ops : List (Nat × List α)) : List α :=
  ops.foldl (fun acc op => Flat.put zero acc op.1 op.2) a

/-- the value the property promises at index `i` after the history `ops`
    (latest write covering `i` wins; never-written indices below the end read
    as zero; `none` at and beyond the end) -/
def Flat.valueAt (zero : α) (a : List α) : List (Nat × List α) → Nat → Option α
  | [], i => a[i]?
  | op :: ops, i =>
      -- the value after the remaining ops, computed from the state after this op
      Flat.valueAt zero (Flat.put zero a op.1 op.2) ops i

namespace Sie

/-- records: (index of the last sample of the run, value) -/
abbrev Rec (α : Type) := Nat × α

/-- expand records into the flat array; `start` = index of the first sample
    the next record covers -/
def expandFrom : Nat → List (Rec α) → List α
  | _, [] => []
  | start, (last, v) :: rs => List.replicate (last + 1 - start) v ++ expandFrom (last + 1) rs

def expand (rs : List (Rec α)) : List α := expandFrom 0 rs

/-- run-length compress from sample index `start` -/
def compressFrom [DecidableEq α] : Nat → List α → List (Rec α)
  | _, [] => []
  | start, x :: xs =>
      match compressFrom (start + 1) xs with
      | (last, v) :: rs => if v = x then (last, v) :: rs else (start, x) :: (last, v) :: rs
      | [] => [(start, x)]

def compress [DecidableEq α] (xs : List α) : List (Rec α) := compressFrom 0 xs

/-- well-formed record list starting at `start`: strictly increasing indices, each ≥ start -/
def WF : Nat → List (Rec α) → Prop
  | _, [] => True
  | start, (last, _) :: rs => start ≤ last ∧ WF (last + 1) rs

end Sie

end GdModel.Codec
