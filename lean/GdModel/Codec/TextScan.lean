/-
  GdModel.Codec.TextScan — how the text encoding reads a data file (src/ascii.c):
  `_GD_AsciiRead` calls `fscanf(stream, fmt, …)` once per sample with the format
  `_GD_ScanFormat` gives for the type, and stops at the first sample for which
  fewer conversions succeed than the type needs (2 for a complex type, 1 otherwise).
  The formats are regenerated from the source by extractor X9 as directive lists
  (`num` a numeric conversion, `lit c` a literal byte, `ws` white space).
  Numbers are modelled as  [sign] digits [ '.' digits ]  (what the library itself
  writes for finite values and what the padding lines contain); core Lean only.
-/
import GdModel.Generated.AsciiPad
namespace GdModel.Codec.TextScan
open GdModel.Generated

def isWs (c : Nat) : Bool := c == 32 || (9 ≤ c && c ≤ 13)
def isDigit (c : Nat) : Bool := 48 ≤ c && c ≤ 57

def skipWs : List Nat → List Nat
  | [] => []
  | c :: cs => if isWs c then skipWs cs else c :: cs

def dropDigits : List Nat → List Nat
  | [] => []
  | c :: cs => if isDigit c then dropDigits cs else c :: cs

/-- one numeric conversion: leading white space, optional sign, at least one digit,
    optional fraction; `none` is a matching failure -/
def scanNum (s : List Nat) : Option (List Nat) :=
  let s1 := skipWs s
  let s2 := match s1 with
    | 45 :: r => r
    | 43 :: r => r
    | _ => s1
  match s2 with
  | [] => none
  | c :: r =>
    if isDigit c then
      let r1 := dropDigits r
      match r1 with
      | 46 :: f => some (dropDigits f)
      | _ => some r1
    else none

/-- `fscanf`: the number of successful conversions and the unread rest of the stream -/
def scan : List ScanDir → List Nat → Nat × List Nat
  | [], s => (0, s)
  | .num :: ds, s =>
    match scanNum s with
    | none => (0, s)
    | some r => ((scan ds r).1 + 1, (scan ds r).2)
  | .ws :: ds, s => scan ds (skipWs s)
  | .lit c :: ds, s =>
    match s with
    | [] => (0, s)
    | x :: r => if x = c then scan ds r else (0, s)

/-- `_GD_AsciiRead` asked for arbitrarily many samples: how many it returns -/
def readAll (dirs : List ScanDir) (need : Nat) : Nat → List Nat → Nat
  | 0, _ => 0
  | fuel + 1, s =>
    if s = [] then 0
    else if (scan dirs s).1 < need then 0
    else readAll dirs need fuel (scan dirs s).2 + 1

/-- the padding `_GD_AsciiSeek` writes for a gap of `n` samples -/
def padFile (pad : List Nat) (n : Nat) : List Nat := (List.replicate n pad).flatten

def needOf (cplx : Bool) : Nat := if cplx then asciiNeedComplex else asciiNeedOther
def padOf (cplx : Bool) : List Nat := if cplx then asciiPadComplex else asciiPadOther

end GdModel.Codec.TextScan
