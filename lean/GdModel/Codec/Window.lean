/-
  GdModel.Codec.Window — the forward-only decompression window of the bzip2
  reader (src/bzip.c `_GD_Bzip2Read`, `_GD_Bzip2Seek`; the lzma reader has the
  same shape): the codec can only produce the next `B` bytes of the
  decompressed stream `D`; the reader keeps one window `D[base, base+len)`, a
  cursor `pos` into it, a `streamEnd` flag, and the sample position the
  framework sees (`filePos`, here in bytes).  A backward seek to before the
  window restarts decompression.
  Core Lean only.
-/
namespace GdModel.Codec

structure Win where
  base : Nat := 0
  pos : Nat := 0
  len : Nat := 0          -- `end` in the C
  streamEnd : Bool := false
  filePos : Nat := 0
  deriving Repr, DecidableEq

variable (D : List Nat) (B : Nat)

/-- `BZ2_bzRead` into the window: the next at most `B` bytes; the end of the
    stream is reported with the read that reaches it. -/
def Win.refill (w : Win) : Win :=
  let start := w.base + w.len
  let n := min B (D.length - start)
  { w with base := start, pos := 0, len := n, streamEnd := decide (start + n = D.length) }

/-- the bytes currently available at the cursor -/
def Win.avail (w : Win) : List Nat := (D.drop (w.base + w.pos)).take (w.len - w.pos)

/-- `_GD_Bzip2Read` for `n` bytes: returns the bytes delivered and the new state.
    `fuel` bounds the refill loop. -/
def Win.read : Nat → Win → Nat → List Nat × Win
  | 0, w, _ => ([], w)
  | fuel + 1, w, n =>
    if n ≤ w.len - w.pos then
      -- enough in the window
      ((D.drop (w.base + w.pos)).take n, { w with pos := w.pos + n, filePos := w.base + w.pos + n })
    else
      let got := Win.avail D w
      let w1 := { w with pos := w.len }
      if w.streamEnd then
        (got, { w1 with filePos := w1.base + w1.pos })
      else
        let w2 := Win.refill D B w1
        let (rest, w3) := Win.read fuel w2 (n - got.length)
        (got ++ rest, w3)

/-- `_GD_Bzip2Seek` (read mode) to byte offset `k` -/
def Win.seekFwd : Nat → Win → Nat → Win
  | 0, w, _ => w
  | fuel + 1, w, k =>
    if w.base + w.len < k ∧ !w.streamEnd then Win.seekFwd fuel (Win.refill D B w) k else w

def Win.seek (w : Win) (k : Nat) : Win :=
  if w.filePos = k then w          -- "nothing to do"
  else
    let w0 := if k < w.base then ({ } : Win) else w     -- restart before the window
    let w1 := Win.seekFwd D B (D.length + 2) w0 k
    let p := if w1.streamEnd ∧ k ≥ w1.base + w1.len then w1.len else k - w1.base
    { w1 with pos := p, filePos := w1.base + p }

/-- structural invariant of the window -/
def Win.Inv0 (w : Win) : Prop :=
  w.base + w.len ≤ D.length ∧ w.pos ≤ w.len ∧ (w.streamEnd = true → w.base + w.len = D.length)

/-- the reader's invariant between calls: the framework's position is where the cursor is -/
def Win.Inv (w : Win) : Prop := Win.Inv0 D w ∧ w.filePos = w.base + w.pos

end GdModel.Codec
