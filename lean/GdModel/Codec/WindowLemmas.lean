/-
  The window reader returns exactly the requested slice of the decompressed
  stream after any seek, from any reachable state: purity of reads through
  bzip2-style codecs (C02).
-/
import GdModel.Codec.Window
namespace GdModel.Codec
variable (D : List Nat) (B : Nat)

theorem take_drop_split (l : List Nat) (a m n : Nat) (hm : m ≤ n) :
    (l.drop a).take n = (l.drop a).take m ++ (l.drop (a + m)).take (n - m) := by
  have h := List.take_append_drop m ((l.drop a).take n)
  rw [← h, List.take_take, Nat.min_eq_left hm, List.drop_take, List.drop_drop]

theorem refill_inv0 (w : Win) (hi : Win.Inv0 D w) : Win.Inv0 D (Win.refill D B w) := by
  obtain ⟨h1, h2, h3⟩ := hi
  unfold Win.refill Win.Inv0
  simp only
  refine ⟨by omega, by omega, ?_⟩
  intro h; simp only [decide_eq_true_eq] at h; exact h

theorem refill_progress (hB : 0 < B) (w : Win) (hi : Win.Inv0 D w) (hne : w.base + w.len < D.length) :
    D.length - ((Win.refill D B w).base + (Win.refill D B w).len) < D.length - (w.base + w.len) := by
  unfold Win.refill; simp only; omega

/-- refills still needed before the stream end is known, plus one -/
def needFuel (w : Win) : Nat := if w.streamEnd then 1 else D.length - (w.base + w.len) + 2

theorem needFuel_refill (hB : 0 < B) (w : Win) (hi : Win.Inv0 D w) (hs : w.streamEnd = false) :
    needFuel D (Win.refill D B w) + 1 ≤ needFuel D w := by
  unfold needFuel
  rw [hs]
  simp only [Bool.false_eq_true, if_false]
  unfold Win.refill
  simp only
  obtain ⟨h1, _, _⟩ := hi
  split
  · omega
  · rename_i hne
    simp only [decide_eq_true_eq] at hne
    omega

/-- what `read` returns and where it leaves the reader -/
theorem read_spec (hB : 0 < B) : ∀ (fuel : Nat) (w : Win) (n : Nat), Win.Inv0 D w →
    needFuel D w ≤ fuel →
    (Win.read D B fuel w n).1 = (D.drop (w.base + w.pos)).take n ∧
    Win.Inv D (Win.read D B fuel w n).2 ∧
    (Win.read D B fuel w n).2.filePos = min (w.base + w.pos + n) D.length := by
  intro fuel
  induction fuel with
  | zero => intro w n _ h; unfold needFuel at h; split at h <;> omega
  | succ fuel ih =>
    intro w n hi hf
    obtain ⟨h1, h2, h3⟩ := hi
    unfold Win.read
    by_cases hn : n ≤ w.len - w.pos
    · rw [if_pos hn]
      refine ⟨rfl, ⟨⟨h1, by simp only; omega, h3⟩, by simp only; omega⟩, ?_⟩
      simp only; omega
    · rw [if_neg hn]
      by_cases hs : w.streamEnd = true
      · simp only [hs, if_true]
        have hend := h3 hs
        refine ⟨?_, ⟨⟨h1, Nat.le_refl _, fun _ => hend⟩, rfl⟩, ?_⟩
        · -- everything that is left
          unfold Win.avail
          have hlen : (D.drop (w.base + w.pos)).length = w.len - w.pos := by
            rw [List.length_drop]; omega
          rw [List.take_of_length_le (by omega), List.take_of_length_le (by omega)]
        · show w.base + w.len = min (w.base + w.pos + n) D.length
          omega
      · simp only [hs, Bool.false_eq_true, if_false]
        have hs' : w.streamEnd = false := by cases h : w.streamEnd <;> simp_all
        -- after delivering what the window holds, refill and continue
        let w1 : Win := { w with pos := w.len }
        have hi1 : Win.Inv0 D w1 := ⟨h1, Nat.le_refl _, h3⟩
        have hi2 := refill_inv0 D B w1 hi1
        have hgot : (Win.avail D w).length = w.len - w.pos := by
          unfold Win.avail; rw [List.length_take, List.length_drop]; omega
        have hnf := needFuel_refill D B hB w1 hi1 hs'
        have hnf1 : needFuel D w1 = needFuel D w := rfl
        obtain ⟨r1, r2, r3⟩ := ih (Win.refill D B w1) (n - (Win.avail D w).length) hi2 (by omega)
        refine ⟨?_, r2, ?_⟩
        · show Win.avail D w ++ (Win.read D B fuel (Win.refill D B w1) (n - (Win.avail D w).length)).1 = _
          rw [r1, hgot]
          have e1 : (Win.refill D B w1).base + (Win.refill D B w1).pos = w.base + w.pos + (w.len - w.pos) := by
            unfold Win.refill; simp only [w1]; omega
          rw [e1]
          unfold Win.avail
          exact (take_drop_split D (w.base + w.pos) (w.len - w.pos) n (by omega)).symm
        · show (Win.read D B fuel (Win.refill D B w1) (n - (Win.avail D w).length)).2.filePos = _
          rw [r3, hgot]
          have e1 : (Win.refill D B w1).base + (Win.refill D B w1).pos = w.base + w.len := by
            unfold Win.refill; simp only [w1]; omega
          rw [e1]; omega


theorem needFuel_le (w : Win) (hi : Win.Inv0 D w) : needFuel D w ≤ D.length + 2 := by
  unfold needFuel; split <;> omega

theorem seekFwd_spec (hB : 0 < B) (k : Nat) : ∀ (fuel : Nat) (w : Win), Win.Inv0 D w → w.base ≤ k →
    needFuel D w ≤ fuel →
    Win.Inv0 D (Win.seekFwd D B fuel w k) ∧ (Win.seekFwd D B fuel w k).base ≤ k ∧
    ((Win.seekFwd D B fuel w k).streamEnd = true ∨ k ≤ (Win.seekFwd D B fuel w k).base + (Win.seekFwd D B fuel w k).len) := by
  intro fuel
  induction fuel with
  | zero => intro w _ _ h; unfold needFuel at h; split at h <;> omega
  | succ fuel ih =>
    intro w hi hk hf
    unfold Win.seekFwd
    by_cases hc : w.base + w.len < k ∧ (!w.streamEnd) = true
    · rw [if_pos hc]
      have hs : w.streamEnd = false := by
        have := hc.2; cases h : w.streamEnd <;> simp_all
      have hnf := needFuel_refill D B hB w hi hs
      apply ih (Win.refill D B w) (refill_inv0 D B w hi)
      · unfold Win.refill; simp only; omega
      · omega
    · rw [if_neg hc]
      refine ⟨hi, hk, ?_⟩
      by_cases hs : w.streamEnd = true
      · exact Or.inl hs
      · right
        have hs' : (!w.streamEnd) = true := by cases h : w.streamEnd <;> simp_all
        by_cases hlt : w.base + w.len < k
        · exact absurd ⟨hlt, hs'⟩ hc
        · omega

/-- after a seek the reader is consistent and stands at byte `min k |D|` -/
theorem seek_spec (hB : 0 < B) (w : Win) (k : Nat) (hi : Win.Inv D w) (hk : k ≤ D.length ∨ True) :
    Win.Inv D (Win.seek D B w k) ∧
    (Win.seek D B w k).base + (Win.seek D B w k).pos = min k D.length := by
  obtain ⟨hi0, hfp⟩ := hi
  unfold Win.seek
  by_cases hsc : w.filePos = k
  · rw [if_pos hsc]
    refine ⟨⟨hi0, hfp⟩, ?_⟩
    obtain ⟨h1, h2, _⟩ := hi0
    omega
  · rw [if_neg hsc]
    simp only
    have hinit : Win.Inv0 D ({} : Win) := ⟨by simp, by simp, by intro h; cases h⟩
    have hw0 : Win.Inv0 D (if k < w.base then ({} : Win) else w) ∧ (if k < w.base then ({} : Win) else w).base ≤ k := by
      split
      · exact ⟨hinit, Nat.zero_le _⟩
      · exact ⟨hi0, by omega⟩
    generalize (if k < w.base then ({} : Win) else w) = w0 at hw0
    obtain ⟨hw0i, hw0k⟩ := hw0
    obtain ⟨s1, s2, s3⟩ := seekFwd_spec D B hB k (D.length + 2) w0 hw0i hw0k (needFuel_le D w0 hw0i)
    generalize Win.seekFwd D B (D.length + 2) w0 k = w1 at s1 s2 s3
    obtain ⟨a1, a2, a3⟩ := s1
    by_cases hp : w1.streamEnd = true ∧ k ≥ w1.base + w1.len
    · rw [if_pos hp]
      have := a3 hp.1
      refine ⟨⟨⟨a1, Nat.le_refl _, a3⟩, rfl⟩, ?_⟩
      show w1.base + w1.len = min k D.length
      omega
    · rw [if_neg hp]
      have hle : k ≤ w1.base + w1.len := by
        rcases s3 with h | h
        · by_cases hk2 : k ≥ w1.base + w1.len
          · exact absurd ⟨h, hk2⟩ hp
          · omega
        · exact h
      refine ⟨⟨⟨a1, by show k - w1.base ≤ w1.len; omega, a3⟩, rfl⟩, ?_⟩
      show w1.base + (k - w1.base) = min k D.length
      omega

/-- **Purity of reads through the window codec (C02).**  From any consistent
    reader state — whatever was read, sought or refilled before — seeking to
    byte `k` and reading `n` bytes returns exactly bytes `k … k+n` of the
    decompressed stream (short at its end), and leaves a consistent state
    positioned after them. -/
theorem seek_read_pure (hB : 0 < B) (w : Win) (k n : Nat) (hi : Win.Inv D w) :
    (Win.read D B (D.length + 2) (Win.seek D B w k) n).1 = (D.drop k).take n ∧
    Win.Inv D (Win.read D B (D.length + 2) (Win.seek D B w k) n).2 ∧
    (Win.read D B (D.length + 2) (Win.seek D B w k) n).2.filePos = min (k + n) D.length := by
  obtain ⟨hs1, hs2⟩ := seek_spec D B hB w k hi (Or.inr trivial)
  obtain ⟨r1, r2, r3⟩ := read_spec D B hB (D.length + 2) (Win.seek D B w k) n hs1.1
    (needFuel_le D _ hs1.1)
  refine ⟨?_, r2, ?_⟩
  · rw [r1, hs2]
    by_cases hk : k ≤ D.length
    · rw [Nat.min_eq_left hk]
    · rw [Nat.min_eq_right (by omega), List.drop_of_length_le (Nat.le_refl _),
        List.drop_of_length_le (by omega)]
  · rw [r3, hs2]; omega

end GdModel.Codec
