/-
  dirfile2ascii (util/dirfile2ascii.c): the row/column arithmetic of its print
  loop, and checkdirfile's exit decision.
-/
namespace GdModel.Cxx

/-- the (k, j) pairs of the print loop:
    `for (k = 0; k < nf; k += skip) for (j = 0; j < (skipping ? 1 : max_spf); j++)` -/
def rowIdx (nf skip maxSpf : Nat) (skipping : Bool) : List (Nat × Nat) :=
  ((List.range nf).filter (fun k => k % skip = 0)).flatMap fun k =>
    (List.range (if skipping then 1 else maxSpf)).map fun j => (k, j)

/-- the sample a field printed directly (spf = max_spf, or skipping) shows in row (k, j) -/
def directIndex (spf k j : Nat) : Nat := k * spf + j

/-- the lower sample an interpolated field (spf < max_spf) starts from in row (k, j):
    `prev_samp = floor(j * spf / max_spf)` -/
def prevIndex (spf maxSpf k j : Nat) : Nat := k * spf + j * spf / maxSpf

/-- one column of output for a field printed directly, as sample indices -/
def column (spf nf skip maxSpf : Nat) (skipping : Bool) : List Nat :=
  (rowIdx nf skip maxSpf skipping).map fun (k, j) => directIndex spf k j

/-- checkdirfile: a problem is reported (non-zero exit) exactly when gd_open
    raised an error, the syntax-error callback was called, or some field fails gd_validate -/
def checkdirfileProblem (openErr : Bool) (nSyntax : Nat) (validate : List Bool) : Bool :=
  openErr || decide (nSyntax > 0) || validate.any (fun ok => !ok)

end GdModel.Cxx
