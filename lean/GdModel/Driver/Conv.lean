import GdModel.Driver.Util
import GdModel.Generated.ConvTable
namespace GdModel.Driver
open GdModel.Num GdModel.Generated

/-- canonical output of a sample of type `d`: NaNs as a class -/
def showComp (t : CT) (x : Nat) : String :=
  if t.isFloat then
    match t.fmt.decode x with
    | .nan _ _ => "nan"
    | _ => toHex x
  else toHex x

def showSample (d : Ty) (r : Option Sample) : String :=
  match r with
  | none => "undef"
  | some v => if d.isComplex then showComp d.comp v.re ++ " " ++ showComp d.comp v.im
              else showComp d.comp v.re

/-- `conv <src> <dst> <hex re> <hex im>` → table semantics; `convspec …` → spec. -/
def handleConv (spec : Bool) (args : List String) : String :=
  match args with
  | [s, d, re, im] =>
    match Ty.ofName? s, Ty.ofName? d, parseHex? re, parseHex? im with
    | some s, some d, some re, some im =>
      let x : Sample := ⟨re, im⟩
      showSample d (if spec then specConv s d x else (convTable s d).sem x)
    | _, _, _, _ => "bad-op"
  | _ => "bad-op"

end GdModel.Driver
