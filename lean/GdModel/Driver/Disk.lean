/- Driver ops for the on-disk format model (GdModel.Codec.Disk). -/
import GdModel.Driver.Field
import GdModel.Codec.Disk
namespace GdModel.Driver
open GdModel.Num GdModel.Bytes GdModel.Codec GdModel.Codec.Disk

def hexByte (b : Nat) : String :=
  String.ofList [hexDigit (b / 16 % 16), hexDigit (b % 16)]

def showBytes (bs : List Nat) : String := String.join (bs.map hexByte)

def showSamples (xs : List Sample) : String :=
  ",".intercalate (xs.map fun x => toHex x.re ++ ";" ++ toHex x.im)

/-- `bytes <code>`: the bare array the model holds for a RAW field -/
def handleBytes (db : DB) (args : List String) : String :=
  match args with
  | [code] =>
    match db.lookup code with
    | some (.raw _ _ _ _ bytes) => "bytes " ++ showBytes bytes
    | _ => "unsupported bytes"
  | _ => "bad-op"

/-- `baredecode <ty> <order> <hex>` -/
def handleBareDecode (args : List String) : String :=
  match args with
  | [ty, o, hex] =>
    match Ty.ofName? ty, parseOrder? o with
    | some ty, some o => "samples " ++ showSamples (decodeSamples o ty (hexBytes hex))
    | _, _ => "bad-op"
  | [ty, o] =>
    match Ty.ofName? ty, parseOrder? o with
    | some _, some _ => "samples "
    | _, _ => "bad-op"
  | _ => "bad-op"

/-- `siedecode <ty> <order> <hex>`: records → strictly-increasing flag, whole-record flag, expansion -/
def handleSieDecode (args : List String) : String :=
  match args with
  | ty :: o :: rest =>
    match Ty.ofName? ty, parseOrder? o with
    | some ty, some o =>
      let bs := hexBytes (rest.headD "")
      let rs := decodeSie o ty bs
      let whole := bs.length % (8 + ty.size) == 0
      s!"sie inc={if sieIncreasing rs then 1 else 0} whole={if whole then 1 else 0} nrec={rs.length} " ++
        "samples " ++ showSamples (Sie.expand rs)
    | _, _ => "bad-op"
  | _ => "bad-op"

/-- `textdecode <hex>`: integer lines -/
def handleTextDecode (args : List String) : String :=
  let bs := hexBytes (args.headD "")
  let ls := parseLines bs
  "lines " ++ ",".intercalate (ls.map fun
    | some z => toString z
    | none => "bad")

/-- `textencode <int> <int> ...` → hex of the file the model prints -/
def handleTextEncode (args : List String) : String :=
  match allSome (args.map String.toInt?) with
  | some zs => "text " ++ showBytes (printLines zs)
  | none => "bad-op"

end GdModel.Driver
