/-
  Driver for the field-evaluation model: parses `def …` lines into a small
  database, resolves a field code to a `Fld Float` tree (depth-limited like
  GD_MAX_RECURSE_LEVEL) and evaluates `Impl.read` / `Spec.sample`.
  Floating arithmetic mirrors the C operation order of the kernels.
-/
import GdModel.Driver.Util
import GdModel.Driver.Conv
import GdModel.Field.Basic
import GdModel.Field.Extents
import GdModel.Codec.Flat
import GdModel.Bytes.Order
namespace GdModel.Driver
open GdModel.Num GdModel.Field GdModel.Bytes

inductive Def where
  | raw (ty : Ty) (spf : Nat) (foff : Nat) (o : Order) (bytes : List Nat)
  | lincom (ins : List (String × Float × Float))
  | linterp (inp : String) (tab : List (Float × Float))
  | bit (inp : String) (bitnum numbits : Nat) (signed : Bool)
  | multiply (a b : String)
  | divide (a b : String)
  | recip (inp : String) (dividend : Float)
  | phase (inp : String) (shift : Int)
  | polynom (inp : String) (co : List Float)
  | window (inp chk : String) (op : String) (thr : String)
  | mplex (inp cnt : String) (val : Int) (period : Nat)
  | indir (idx : String) (carr : String)
  | carray (ty : Ty) (vals : List Nat)
  deriving Inhabited

abbrev DB := List (String × Def)

def DB.lookup (db : DB) (n : String) : Option Def := (List.find? (fun p => p.1 == n) db).map (·.2)

def fOfBits (n : Nat) : Float := Float.ofBits (UInt64.ofNat n)
def fBits (x : Float) : Nat := x.toBits.toNat
def parseF? (s : String) : Option Float := (parseHex? s).map fOfBits

def hexBytes (s : String) : List Nat :=
  let rec go : List Char → List Nat → List Nat
    | a :: b :: rest, acc =>
      match hexVal? a, hexVal? b with
      | some x, some y => go rest ((x * 16 + y) :: acc)
      | _, _ => acc
    | _, acc => acc
  (go s.toList []).reverse

def parseOrder? (s : String) : Option Order :=
  match s with
  | "le" => some ⟨false, false⟩ | "be" => some ⟨true, false⟩
  | "lea" => some ⟨false, true⟩ | "bea" => some ⟨true, true⟩
  | _ => none

def allSome {β} (l : List (Option β)) : Option (List β) :=
  l.foldr (fun o acc => match o, acc with | some x, some xs => some (x :: xs) | _, _ => none) (some [])

def pairs {β} : List β → List (β × β)
  | a :: b :: r => (a, b) :: pairs r
  | _ => []

def parseDef (toks : List String) : Option (String × Def) :=
  match toks with
  | ["raw", name, ty, spf, foff, ord, hex] =>
    match Ty.ofName? ty, spf.toNat?, foff.toNat?, parseOrder? ord with
    | some ty, some spf, some foff, some o => some (name, .raw ty spf foff o (hexBytes hex))
    | _, _, _, _ => none
  | ["raw", name, ty, spf, foff, ord] =>
    match Ty.ofName? ty, spf.toNat?, foff.toNat?, parseOrder? ord with
    | some ty, some spf, some foff, some o => some (name, .raw ty spf foff o [])
    | _, _, _, _ => none
  | "lincom" :: name :: rest =>
    let rec go : List String → Option (List (String × Float × Float))
      | [] => some []
      | i :: m :: b :: r =>
        match parseF? m, parseF? b, go r with
        | some m, some b, some t => some ((i, m, b) :: t)
        | _, _, _ => none
      | _ => none
    (go rest).map fun l => (name, .lincom l)
  | "linterp" :: name :: inp :: rest =>
    (allSome (rest.map parseF?)).map fun l => (name, .linterp inp (pairs l))
  | ["bit", name, inp, bn, nb] =>
    match bn.toNat?, nb.toNat? with
    | some bn, some nb => some (name, .bit inp bn nb false)
    | _, _ => none
  | ["sbit", name, inp, bn, nb] =>
    match bn.toNat?, nb.toNat? with
    | some bn, some nb => some (name, .bit inp bn nb true)
    | _, _ => none
  | ["multiply", name, a, b] => some (name, .multiply a b)
  | ["divide", name, a, b] => some (name, .divide a b)
  | ["recip", name, inp, d] => (parseF? d).map fun d => (name, .recip inp d)
  | ["phase", name, inp, sh] => sh.toInt?.map fun sh => (name, .phase inp sh)
  | "polynom" :: name :: inp :: rest =>
    (allSome (rest.map parseF?)).map fun l => (name, .polynom inp l)
  | ["window", name, inp, chk, op, thr] => some (name, .window inp chk op thr)
  | ["mplex", name, inp, cnt, v, p] =>
    match v.toInt?, p.toNat? with
    | some v, some p => some (name, .mplex inp cnt v p)
    | _, _ => none
  | ["indir", name, idx, carr] => some (name, .indir idx carr)
  | "carray" :: name :: ty :: rest =>
    match Ty.ofName? ty, allSome (rest.map parseHex?) with
    | some ty, some l => some (name, .carray ty l)
    | _, _ => none
  | _ => none

/-- native sample → double (the conversion `_GD_DoRaw` asks `_GD_ConvertType` for) -/
def toF64 (ty : Ty) (x : Sample) : Float :=
  match specConv ty .f64 x with
  | some r => fOfBits r.re
  | none => fOfBits 0x7ff8000000000000

def nanF : Float := fOfBits 0x7ff8000000000000

def rawPad (ty : Ty) : Float := if ty.comp.isFloat then nanF else 0.0

/-- LINTERP kernel (`_GD_GetIndex` from guess 0 + RLINTERP) -/
def lutIndex (x : Float) (lut : Array (Float × Float)) : Nat := Id.run do
  let n := lut.size
  let mut idx := 0
  for _ in [0:n] do
    if idx + 2 < n && x > (lut[idx]!).1 then idx := idx + 1 else break
  for _ in [0:n] do
    if idx > 0 && x < (lut[idx]!).1 then idx := idx - 1 else break
  return idx

def linterpF (lut : Array (Float × Float)) (x : Float) : Float :=
  let i := lutIndex x lut
  let (x0, y0) := lut[i]!
  let (x1, y1) := lut[i + 1]!
  y0 + (y1 - y0) / (x1 - x0) * (x - x0)

/-- POLYNOMn macro: terms x^k·a[k] with x multiplied out left to right, summed
    from the highest order down (src/getdata.c POLYNOM2…5). -/
def polyF (co : List Float) (x : Float) : Float :=
  let term (k : Nat) (a : Float) : Float :=
    if k = 0 then a else ((List.replicate (k - 1) x).foldl (· * ·) x) * a
  let n := co.length
  match (List.range n).reverse with
  | [] => 0.0
  | k :: ks => ks.foldl (fun acc j => acc + term j (co.getD j 0.0)) (term k (co.getD k 0.0))

def bitExtract (x : Nat) (bitnum numbits : Nat) (signed : Bool) : Int :=
  let mask := if numbits ≥ 64 then 2 ^ 64 - 1 else 2 ^ numbits - 1
  let v : Nat := ((x / 2 ^ bitnum) % 2 ^ 64) &&& mask
  if signed && numbits ≥ 1 && v ≥ 2 ^ (numbits - 1) then (v : Int) - 2 ^ numbits else v

def i64ToF (v : Int) : Float :=
  toF64 .i64 ⟨CT.i64.ofInt v, 0⟩

def windowG (op thr : String) : Float → Float → Float :=
  let thrF := (parseF? thr).getD 0.0
  let thrI : Int := thr.toInt?.getD 0
  let thrU : Nat := thr.toNat?.getD 0
  fun a b =>
    let bi : Int := if b < 0.0 then -((-b).toUInt64.toNat : Int) else (b.toUInt64.toNat : Int)
    let bu : Nat := CT.u64.ofInt bi
    let ok : Bool :=
      match op with
      | "eq" => bi == thrI
      | "ne" => bi != thrI
      | "ge" => b >= thrF
      | "gt" => b > thrF
      | "le" => b <= thrF
      | "lt" => b < thrF
      | "set" => (bu &&& thrU) != 0
      | "clr" => (((2 ^ 64 - 1) - bu) &&& thrU) != 0
      | _ => false
    if ok then a else nanF

/-- strip a representation suffix when the full code is not itself a field -/
def splitRepr (db : DB) (code : String) : String × String :=
  if (db.lookup code).isSome || code == "INDEX" then (code, "")
  else
    let cs := code.toList
    match cs.reverse with
    | r :: '.' :: rest =>
      if r == 'r' || r == 'i' || r == 'm' || r == 'a' || r == 'z' then
        (String.ofList rest.reverse, String.singleton r)
      else (code, "")
    | _ => (code, "")

inductive RErr where
  | badCode | recurse | unsupported (why : String)
  deriving Repr, Inhabited

/-- native-integer view of a field (for BIT/SBIT inputs): RAW integers and
    BIT/SBIT over them, as UINT64 patterns (src/getdata.c:1235-1285 reads its
    input with return type UINT64/INT64). -/
partial def u64View (db : DB) (fuel : Nat) (code : String) :
    Except RErr (Nat × Nat × List Nat) :=   -- spf, off(samples), u64 patterns
  match fuel with
  | 0 => .error .recurse
  | fuel + 1 =>
    let (base, rp) := splitRepr db code
    if rp != "" && rp != "r" && rp != "z" then .error (.unsupported "repr under BIT") else
    match db.lookup base with
    | some (.raw ty spf foff o bytes) =>
      if ty.comp.isFloat then .error (.unsupported "BIT over floating RAW") else
      let xs := decodeSamples o ty bytes
      .ok (spf, spf * foff, xs.map fun x => ((specConv ty .u64 x).map (·.re)).getD 0)
    | some (.bit inp bn nb sg) =>
      match u64View db fuel inp with
      | .ok (spf, off, xs) => .ok (spf, off, xs.map fun x => CT.u64.ofInt (bitExtract x bn nb sg))
      | .error e => .error e
    | some _ => .error (.unsupported "BIT over derived field")
    | none => .error .badCode

partial def resolve (db : DB) (fuel : Nat) (code : String) : Except RErr (Fld Float) :=
  match fuel with
  | 0 => .error .recurse
  | fuel + 1 => do
    let (base, rp) := splitRepr db code
    let inner : Fld Float ←
      if base == "INDEX" then pure (Fld.index (fun k => i64ToF k)) else
      match db.lookup base with
      | none => throw .badCode
      | some (.raw ty spf foff o bytes) =>
        if ty.isComplex then throw (.unsupported "complex RAW") else
        let xs := decodeSamples o ty bytes
        pure (Fld.raw spf (spf * foff) (rawPad ty) (xs.map (toF64 ty)))
      | some (.lincom ins) =>
        match ins with
        | [(i0, m0, b0)] => do
          let x ← resolve db fuel i0
          if m0 == 1.0 && b0 == 0.0 then pure (Fld.map1 id x)
          else pure (Fld.map1 (fun a => a * m0 + b0) x)
        | [(i0, m0, b0), (i1, m1, b1)] => do
          let x ← resolve db fuel i0
          let y ← resolve db fuel i1
          pure (Fld.map2 (fun a b => a * m0 + (b * m1 + b0 + b1)) x y)
        | [(i0, m0, b0), (i1, m1, b1), (i2, m2, b2)] => do
          let x ← resolve db fuel i0
          let y ← resolve db fuel i1
          let z ← resolve db fuel i2
          pure (Fld.map3 (fun a b c => a * m0 + (b * m1 + c * m2 + b0 + b1 + b2)) x y z)
        | _ => throw (.unsupported "lincom arity")
      | some (.linterp inp tab) => do
        let x ← resolve db fuel inp
        let lut := tab.toArray
        if lut.size < 2 then throw (.unsupported "short LUT") else
        pure (Fld.map1 (linterpF lut) x)
      | some (.bit inp bn nb sg) =>
        match u64View db fuel inp with
        | .ok (spf, off, xs) =>
          -- padding before the frame offset is 0 in the integer type; 0 >> k & mask = 0
          pure (Fld.raw spf off (i64ToF (bitExtract 0 bn nb sg))
            (xs.map fun x =>
              let v := bitExtract x bn nb sg
              if sg then i64ToF v else toF64 .u64 ⟨CT.u64.ofInt v, 0⟩))
        | .error e => throw e
      | some (.multiply a b) => do
        let x ← resolve db fuel a
        let y ← resolve db fuel b
        pure (Fld.map2 (fun p q => p * q) x y)
      | some (.divide a b) => do
        let x ← resolve db fuel a
        let y ← resolve db fuel b
        pure (Fld.map2 (fun p q => p / q) x y)
      | some (.recip inp d) => do
        let x ← resolve db fuel inp
        pure (Fld.map1 (fun a => d / a) x)
      | some (.phase inp sh) => do
        let x ← resolve db fuel inp
        pure (Fld.phase sh x)
      | some (.polynom inp co) => do
        let x ← resolve db fuel inp
        pure (Fld.map1 (polyF co) x)
      | some (.window inp chk op thr) => do
        let x ← resolve db fuel inp
        let y ← resolve db fuel chk
        pure (Fld.map2 (windowG op thr) x y)
      | some (.indir idx carr) => do
        let x ← resolve db fuel idx
        match db.lookup carr with
        | some (.carray ty vals) =>
          let arr := (vals.map fun v => toF64 ty ⟨v, 0⟩).toArray
          pure (Fld.map1 (fun a =>
            -- index field read as INT64; out-of-range index → zero of the CARRAY's storage type
            let i : Int := if a < 0.0 then -((-a).toUInt64.toNat : Int) else (a.toUInt64.toNat : Int)
            if i < 0 || i ≥ arr.size then 0.0 else arr[i.toNat]!) x)
        | _ => throw .badCode
      | some (.mplex ..) => throw (.unsupported "mplex (stateful; modelled separately)")
      | some (.carray ..) => throw (.unsupported "scalar")
    match rp with
    | "" | "r" | "z" => pure inner
    | "i" => pure (Fld.map1 (fun _ => 0.0) inner)
    | "m" => pure (Fld.map1 Float.abs inner)
    | "a" => pure (Fld.map1 (fun a => if a < 0.0 then fOfBits 0x400921fb54442d18 else 0.0) inner)
    | _ => throw (.unsupported "repr")

def showF (x : Float) : String := if x.isNaN then "nan" else toHex (fBits x)

def showList (xs : List Float) : String := ",".intercalate (xs.map showF)

def recurseLimit : Nat := 32

/-- `get <code> <first_frame> <first_samp> <nframes> <nsamp> f64` -/
def handleGet (spec : Bool) (db : DB) (args : List String) : String :=
  match args with
  | [code, ff, fs, nf, ns, "f64"] =>
    match ff.toInt?, fs.toInt?, nf.toNat?, ns.toNat? with
    | some ff, some fs, some nf, some ns =>
      match resolve db recurseLimit code with
      | .error .badCode => "get n=0 e=-3 d="
      | .error .recurse => "get n=0 e=-10 d="
      | .error (.unsupported w) => "unsupported " ++ w
      | .ok f =>
        let spf := f.spf
        let s : Int := ff * spf + fs
        let n : Nat := nf * spf + ns
        if s < 0 then "get n=0 e=-8 d=" else
        let out :=
          if spec then
            let rec go (fuel : Nat) (k : Int) (acc : List Float) : List Float :=
              match fuel with
              | 0 => acc.reverse
              | fuel + 1 =>
                match Spec.sample f k with
                | some v => go fuel (k + 1) (v :: acc)
                | none => acc.reverse
            go n s []
          else Impl.read nanF f s n
        let al := if Aligned f s then 1 else 0
        let here := if Impl.touchesHere f s n then 1 else 0
        s!"get n={out.length} e=0 d={showList out} al={al} here={here}"
    | _, _, _, _ => "bad-op"
  | _ => "unsupported rtype"

def handleEof (spec : Bool) (db : DB) (args : List String) : String :=
  match args with
  | [code] =>
    if let some (.raw ty spf foff _ bytes) := db.lookup code then
      s!"eof {spf * foff + bytes.length / ty.size} e=0" else
    match resolve db recurseLimit code with
    | .error .badCode => "eof -3 e=-3"
    | .error .recurse => "eof -10 e=-10"
    | .error (.unsupported w) => "unsupported " ++ w
    | .ok f =>
      -- gd_eof reports max 0 of the pointwise end-of-field; INDEX-only fields have none
      match (if spec then (Spec.eof f).map (max 0) else Impl.eof f) with
      | some e => s!"eof {e} e=0"
      | none => "eof -12 e=-12"
  | _ => "bad-op"

def handleBof (spec : Bool) (db : DB) (args : List String) : String :=
  match args with
  | [code] =>
    match resolve db recurseLimit code with
    | .error .badCode => "bof -3 e=-3"
    | .error .recurse => "bof -10 e=-10"
    | .error (.unsupported w) => "unsupported " ++ w
    | .ok f => s!"bof {if spec then Spec.bof f else Impl.bof f} e=0"
  | _ => "bad-op"

/-- `nframes`: the reference field is the first RAW field defined -/
def handleNframes (db : DB) : String :=
  match db.find? (fun p => match p.2 with | .raw .. => true | _ => false) with
  | some (_, .raw ty spf foff _ bytes) => s!"nframes {Spec.nframes spf foff (bytes.length / ty.size)} e=0"
  | _ => "nframes 0 e=0"

def handleSpf (db : DB) (args : List String) : String :=
  match args with
  | [code] =>
    match resolve db recurseLimit code with
    | .ok f => s!"spf {f.spf} e=0"
    | .error .badCode => "spf 0 e=-3"
    | .error .recurse => "spf 0 e=-10"
    | .error (.unsupported w) => "unsupported " ++ w
  | _ => "bad-op"


/-! ### writes -/

/-- samples per frame by following first inputs only (works for complex RAW too) -/
partial def spfOf (db : DB) (fuel : Nat) (code : String) : Except RErr Nat :=
  match fuel with
  | 0 => .error .recurse
  | fuel + 1 =>
    let (base, _) := splitRepr db code
    if base == "INDEX" then .ok 1 else
    match db.lookup base with
    | none => .error .badCode
    | some (.raw _ spf ..) => .ok spf
    | some (.lincom ((i0, _, _) :: _)) => spfOf db fuel i0
    | some (.lincom []) => .error (.unsupported "lincom arity")
    | some (.linterp i ..) | some (.bit i ..) | some (.recip i ..) | some (.phase i ..)
    | some (.polynom i ..) | some (.window i ..) | some (.mplex i ..) | some (.multiply i ..)
    | some (.divide i ..) | some (.indir i ..) => spfOf db fuel i
    | some (.carray ..) => .error (.unsupported "scalar")

def parseSamples (s : String) : List Sample :=
  if s == "-" then [] else
  (s.splitOn ",").filterMap fun tok =>
    match tok.splitOn ";" with
    | [re] => (parseHex? re).map fun r => ⟨r, 0⟩
    | [re, im] => match parseHex? re, parseHex? im with
      | some r, some i => some ⟨r, i⟩
      | _, _ => none
    | _ => none

def DB.update (db : DB) (name : String) (d : Def) : DB :=
  db.map fun p => if p.1 == name then (name, d) else p

/-- write `xs` (samples of caller type `cty`) to field `code` starting at
    absolute sample `s`; returns the new database and the count written, or an
    error code -/
partial def putModel (db : DB) (fuel : Nat) (code : String) (s : Int) (cty : Ty) (xs : List Sample) :
    Except Int (DB × Nat) :=
  match fuel with
  | 0 => .error (-10)
  | fuel + 1 =>
    match db.lookup code with
    | none => .error (-3)
    | some (.raw ty spf foff o bytes) =>
      let off : Int := spf * foff
      if s < off then .error (-8) else
      let k := (s - off).toNat
      let conv := xs.map fun x => (specConv cty ty x).getD ⟨0, 0⟩
      let cur := decodeSamples o ty bytes
      let new := GdModel.Codec.Flat.put (⟨0, 0⟩ : Sample) cur k conv
      .ok (db.update code (.raw ty spf foff o (encodeSamples o ty new)), xs.length)
    | some (.phase inp sh) => putModel db fuel inp (s + sh) cty xs
    | some (.bit inp bn nb _) =>
      -- read-modify-write of the input as UINT64 (src/putdata.c _GD_DoBitOut)
      match u64View db recurseLimit inp with
      | .error _ => .error (-12)
      | .ok (_, off, cur) =>
        let vals := xs.map fun x => ((specConv cty .u64 x).map (·.re)).getD 0
        let mask := if nb ≥ 64 then 2 ^ 64 - 1 else 2 ^ nb - 1
        let olds := (List.range vals.length).map fun (i : Nat) =>
          let idx : Int := s + (i : Int) - (off : Int)
          if idx < 0 then 0 else cur.getD idx.toNat 0
        let news := (olds.zip vals).map fun (o, v) =>
          ((o &&& ((2 ^ 64 - 1) - ((mask * 2 ^ bn) % 2 ^ 64))) ||| (((v &&& mask) * 2 ^ bn) % 2 ^ 64))
        putModel db fuel inp s .u64 (news.map fun n => ⟨n, 0⟩)
    | some (.lincom [(i0, m0, b0)]) =>
      if cty != .f64 then .error (-100) else
      let m := 1.0 / m0
      let b := -b0 / m0
      putModel db fuel i0 s .f64 (xs.map fun x => ⟨fBits (fOfBits x.re * m + b), 0⟩)
    | some _ => .error (-100)

def handlePut (db : DB) (args : List String) : DB × String :=
  match args with
  | [code, ff, fs, ty, vals] =>
    match ff.toInt?, fs.toInt?, Ty.ofName? ty with
    | some ff, some fs, some cty =>
      match spfOf db recurseLimit code with
      | .error .badCode => (db, "put n=0 e=-3")
      | .error .recurse => (db, "put n=0 e=-10")
      | .error (.unsupported w) => (db, "unsupported " ++ w)
      | .ok spf =>
        let s : Int := ff * spf + fs
        match putModel db recurseLimit code s cty (parseSamples vals) with
        | .ok (db', n) => (db', s!"put n={n} e=0")
        | .error (-100) => (db, "unsupported put through this field type")
        | .error e => (db, s!"put n=0 e={e}")
    | _, _, _ => (db, "unsupported here")
  | _ => (db, "bad-op")

/-- `get` of a RAW field in any return type (the glue path of C06) -/
def handleGetRaw (db : DB) (args : List String) : Option String :=
  match args with
  | [code, ff, fs, nf, ns, rty] =>
    match db.lookup code, Ty.ofName? rty, ff.toInt?, fs.toInt?, nf.toNat?, ns.toNat? with
    | some (.raw ty spf foff o bytes), some rt, some ff, some fs, some nf, some ns =>
      if rty == "f64" && !ty.isComplex then none else
      let s : Int := ff * spf + fs
      let n := nf * spf + ns
      if s < 0 then some "get n=0 e=-8 d=" else
      let xs := decodeSamples o ty bytes
      let off := spf * foff
      let padS : Sample := if ty.comp.isFloat then ⟨(if ty.comp.width == 32 then 0x7fc00000 else 0x7ff8000000000000),
        (if ty.isComplex then (if ty.comp.width == 32 then 0x7fc00000 else 0x7ff8000000000000) else 0)⟩ else ⟨0, 0⟩
      let out := Impl.readRaw off padS xs s n
      let conv := out.map fun x => showSample rt (specConv ty rt x)
      some s!"get n={out.length} e=0 d={",".intercalate (conv.map fun c => c.replace " " ";")}"
    | _, _, _, _, _, _ => none
  | _ => none

end GdModel.Driver
