/- Driver op for the gd_framenum model (GdModel.Index.Model) over Float data. -/
import GdModel.Driver.Field
import GdModel.Index.Model
namespace GdModel.Driver
open GdModel.Num GdModel.Field GdModel.Index

def fltLt (a b : Float) : Bool := a < b
def fltEq (a b : Float) : Bool := a == b

/-- `framenum <code> <value f64 hex> <start> <end>` -/
def handleFramenum (db : DB) (args : List String) : String :=
  match args with
  | [code, vhex, st, en] =>
    match parseF? vhex, st.toInt?, en.toInt? with
    | some value, some st, some en =>
      match resolve db recurseLimit code with
      | .error .badCode => "framenum nan e=-3"
      | .error .recurse => "framenum nan e=-10"
      | .error (.unsupported w) => "unsupported " ++ w
      | .ok f =>
        let spf : Int := f.spf
        let (foff, nframes) : Int × Int :=
          match db.find? (fun p => match p.2 with | .raw .. => true | _ => false) with
          | some (_, .raw ty rspf rfoff _ bytes) => ((rfoff : Int), (Spec.nframes rspf rfoff (bytes.length / ty.size) : Int))
          | _ => (0, 0)
        match limits spf foff nframes st en with
        | none => "framenum nan e=-28"
        | some (fs, fe) =>
          let get : Int → Option Float := fun i =>
            if i < 0 then none else (Impl.read nanF f i 1).head?
          match getIndex fltLt fltEq get value 200 fs fe with
          | .hit c => s!"framenum {showF (Float.ofInt c / Float.ofInt spf)} e=0"
          | .interp low lv hv =>
            s!"framenum {showF ((Float.ofInt low + (value - lv) / (hv - lv)) / Float.ofInt spf)} e=0"
          | .extrap limit eof d0 d1 =>
            s!"framenum {showF ((Float.ofInt limit + (value - (if eof then d1 else d0)) / (d1 - d0)) / Float.ofInt spf)} e=0"
          | .errDomain => "framenum nan e=-28"
          | .errRange => "framenum nan e=-8"
          | .fuel => "framenum hang"
    | _, _, _ => "bad-op"
  | _ => "bad-op"

end GdModel.Driver
