/- Driver ops for the name-table model (GdModel.Names.Table). -/
import GdModel.Driver.Tok
import GdModel.Names.Table
namespace GdModel.Driver
open GdModel.Names

/-- `names add <hex>` / `names del <hex>` / `names show` / `names reset` / `names find <hex>` -/
def handleNames (tab : List Key) (args : List String) : List Key × String :=
  match args with
  | ["reset"] => ([], "-")
  | ["add", h] =>
    let (t, ok) := add tab (hexBytes h)
    (t, if ok then "names added" else "names duplicate")
  | ["del", h] =>
    let (t, ok) := delete tab (hexBytes h)
    (t, if ok then "names deleted" else "names absent")
  | ["find", h] =>
    match find tab (hexBytes h) with
    | .at_ i => (tab, s!"names at {i}")
    | .missing u => (tab, s!"names missing {u}")
  | ["show"] => (tab, "etable" ++ String.join (tab.map fun k => " " ++ showTok k))
  | _ => (tab, "bad-op")

end GdModel.Driver
