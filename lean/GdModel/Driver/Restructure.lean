/- Driver ops applying the restructuring model to the field database. -/
import GdModel.Driver.Field
import GdModel.Restructure.Model
namespace GdModel.Driver
open GdModel.Num GdModel.Bytes GdModel.Restructure

def renameIn (old new : String) (s : String) : String :=
  -- a field code may carry a representation suffix
  if s == old then new
  else if s.startsWith (old ++ ".") && (s.drop (old.length + 1)).length == 1 then new ++ s.drop old.length
  else s

def Def.rename (old new : String) : Def → Def
  | .lincom ins => .lincom (ins.map fun (i, m, b) => (renameIn old new i, m, b))
  | .linterp i t => .linterp (renameIn old new i) t
  | .bit i a b c => .bit (renameIn old new i) a b c
  | .multiply a b => .multiply (renameIn old new a) (renameIn old new b)
  | .divide a b => .divide (renameIn old new a) (renameIn old new b)
  | .recip i d => .recip (renameIn old new i) d
  | .phase i s => .phase (renameIn old new i) s
  | .polynom i c => .polynom (renameIn old new i) c
  | .window i c o t => .window (renameIn old new i) (renameIn old new c) o t
  | .mplex i c v p => .mplex (renameIn old new i) (renameIn old new c) v p
  | .indir i c => .indir (renameIn old new i) (renameIn old new c)
  | d => d

def handleRestructure (db : DB) (op : String) (args : List String) : DB × String :=
  match op, args with
  | "m_shift", [code, nf] =>
    match db.lookup code, nf.toNat? with
    | some (.raw ty spf foff o bytes), some foff' =>
      let xs := decodeSamples o ty bytes
      (db.update code (.raw ty spf foff' o (encodeSamples o ty (shift (⟨0, 0⟩ : Sample) spf foff foff' xs))), "-")
    | _, _ => (db, "bad-op")
  | "m_respf", [code, ns] =>
    match db.lookup code, ns.toNat? with
    | some (.raw ty spf foff o bytes), some spf' =>
      let xs := decodeSamples o ty bytes
      (db.update code (.raw ty spf' foff o (encodeSamples o ty (respf spf spf' xs))), "-")
    | _, _ => (db, "bad-op")
  | "m_retype", [code, nt] =>
    match db.lookup code, Ty.ofName? nt with
    | some (.raw ty spf foff o bytes), some ty' =>
      let xs := decodeSamples o ty bytes
      let ys := xs.map fun x => specConv ty ty' x
      if ys.any Option.isNone then (db, "undef") else
      (db.update code (.raw ty' spf foff o (encodeSamples o ty' (ys.map fun y => y.getD ⟨0, 0⟩))), "-")
    | _, _ => (db, "bad-op")
  | "m_order", [code, no] =>
    match db.lookup code, parseOrder? no with
    | some (.raw ty spf foff o bytes), some o' =>
      (db.update code (.raw ty spf foff o' (encodeSamples o' ty (decodeSamples o ty bytes))), "-")
    | _, _ => (db, "bad-op")
  | "m_rename", [old, new, updb] =>
    let db1 := db.map fun (n, d) => (if n == old then new else n, if updb == "1" then d.rename old new else d)
    (db1, "-")
  | _, _ => (db, "bad-op")

end GdModel.Driver
