/- Driver ops for the scope and alias models (GdModel.Scope). -/
import GdModel.Driver.Tok
import GdModel.Driver.Field
import GdModel.Scope.Model
import GdModel.Scope.Alias
import GdModel.Cxx.Ascii
namespace GdModel.Driver
open GdModel.Scope

def hexName (s : String) : Name := if s = "-" then [] else hexBytes s
def showName (n : Name) : String := if n = [] then "-" else showTok n

def attrOf? : String → Option Attr
  | "enc" => some .enc | "endian" => some .endian | "offset" => some .offset | "protect" => some .protect
  | _ => none

instance : Inhabited Items := ⟨.nil⟩

/-- tokens -> Items; `E` closes an include.  Returns the items and the unread tokens. -/
partial def parseItems (toks : List String) : Items × List String :=
  match toks with
  | [] => (.nil, [])
  | "E" :: rest => (.nil, rest)
  | t :: rest =>
    let f := t.splitOn ":"
    match f with
    | ["I", ns, px, sx] =>
      let (body, rest1) := parseItems rest
      let (more, rest2) := parseItems rest1
      (.cons (.inc (hexName ns) (hexName px) (hexName sx) body) more, rest2)
    | _ =>
      let it : Option Item :=
        match f with
        | ["S", a, v] => (attrOf? a).bind fun a => v.toNat?.map fun v => Item.set a v
        | ["V", v] => v.toNat?.map Item.version
        | ["R", c] => some (.reference (hexName c))
        | ["N", n] => some (.nspace (hexName n))
        | ["W", n, m] => m.toNat?.map fun m => Item.raw (hexName n) m
        | ["O", n, m] => m.toNat?.map fun m => Item.other (hexName n) m
        | _ => none
      let (more, rest2) := parseItems rest
      match it with
      | some i => (.cons i more, rest2)
      | none => (more, rest2)

def showFrag (f : Frag) : String :=
  s!"F{f.idx} par={f.parent} enc={f.attrs.enc} end={f.attrs.endian} fo={f.attrs.offset} prot={f.attrs.protect} ns={showName f.ns} px={showName f.px} sx={showName f.sx}"

/-- `scope <perm> <ped> <enc> <endian> <offset> <protect> <tokens...>` -/
def handleScope (args : List String) : String :=
  match args with
  | perm :: ped :: e :: en :: o :: pr :: toks =>
    match e.toNat?, en.toNat?, o.toNat?, pr.toNat? with
    | some e, some en, some o, some pr =>
      let (its, _) := parseItems toks
      let r := parse (perm = "1") (ped = "1") ⟨e, en, o, pr⟩ its
      if r.err then "scope recurse-error" else
      "scope " ++ " | ".intercalate (r.frags.map showFrag) ++ " || " ++
        " ".intercalate (r.names.map fun (n, f) => s!"{showName n}@{f}") ++ " || ref=" ++
        (match r.reference with | some n => showName n | none => "-")
    | _, _, _, _ => "bad-op"
  | _ => "bad-op"

/-- the declarative answer for the scoped directives only -/
def handleScopeSpec (args : List String) : String :=
  match args with
  | _ :: _ :: e :: en :: o :: pr :: toks =>
    match e.toNat?, en.toNat?, o.toNat?, pr.toNat? with
    | some e, some en, some o, some pr =>
      let (its, _) := parseItems toks
      "scopespec " ++ " | ".intercalate ((Spec.frags ⟨e, en, o, pr⟩ its).map fun a =>
        s!"enc={a.enc} end={a.endian} fo={a.offset} prot={a.protect}")
    | _, _, _, _ => "bad-op"
  | _ => "bad-op"

def showOpt : Option Nat → String
  | some i => toString i
  | none => "-"

/-- `alias name:target name:- ...` (hex names; `-` target = real field): ultimate
    targets by the C-shaped resolver and by the specification -/
def handleAlias (args : List String) : String :=
  let tab : Alias.Table := args.filterMap fun a =>
    match a.splitOn ":" with
    | [n, t] => some { name := hexName n, target := if t = "-" then none else some (hexName t) }
    | _ => none
  let lk := Alias.Impl.update tab
  "alias impl=" ++ ",".intercalate (lk.ult.map showOpt) ++ " spec=" ++
    ",".intercalate ((List.range tab.length).map fun i => showOpt (Alias.Spec.ultimate tab i))

/-- `d2a <nf> <skip> <maxSpf> <skipping 0|1> <spf>`: the rows of dirfile2ascii's print loop with,
    per row, the sample index a field of rate `spf` starts from -/
def handleD2a (args : List String) : String :=
  match args.map String.toNat? with
  | [some nf, some skip, some maxSpf, some sk, some spf] =>
    let skipping := sk != 0
    "d2a" ++ String.join ((GdModel.Cxx.rowIdx nf skip maxSpf skipping).map fun (k, j) =>
      let idx := if spf == maxSpf || skipping then GdModel.Cxx.directIndex spf k j else GdModel.Cxx.prevIndex spf maxSpf k j
      s!" {k}:{j}:{idx}")
  | _ => "bad-op"

end GdModel.Driver
