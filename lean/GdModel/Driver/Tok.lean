import GdModel.Driver.Util
import GdModel.Driver.Field
import GdModel.Token.Spec
import GdModel.Token.Escape
namespace GdModel.Driver
open GdModel.Token

def hex2 (b : Nat) : String := String.ofList [hexDigit (b / 16), hexDigit (b % 16)]
def showTok (t : List Nat) : String := String.join (t.map hex2)
def showErr : Option Err → String
  | none => "ok"
  | some .character => "character"
  | some .unterminated => "unterminated"

/-- `tok <v6> <want> <hex>` -/
def handleTok (spec : Bool) (args : List String) : String :=
  match args with
  | v6 :: want :: rest =>
    let input := hexBytes (rest.headD "")
    let v6 := v6 != "0"
    let want := want.toNat?.getD 1
    if spec then
      let r := Spec.tokenise v6 input
      s!"tok e={showErr r.err} t={",".intercalate (r.tokens.map showTok)}"
    else
      let r := Impl.tokenise v6 want input
      s!"tok n={r.tokens.length} e={showErr r.err} pos={r.consumed} t={",".intercalate (r.tokens.map showTok)}"
  | _ => "bad-op"

/-- `escape <hex>` → the token as gd_metaflush writes it; `escape -` = the empty string -/
def handleEscape (args : List String) : String :=
  let s := if args.headD "-" == "-" then [] else hexBytes (args.headD "")
  "escape " ++ showTok (GdModel.Token.escapeStr s)

end GdModel.Driver
