/- Line-protocol helpers for the executable model driver (core Lean only). -/
namespace GdModel.Driver

def hexDigit (n : Nat) : Char :=
  if n < 10 then Char.ofNat (48 + n) else Char.ofNat (87 + n)

partial def toHexAux (n : Nat) (acc : List Char) : List Char :=
  if n < 16 then hexDigit n :: acc else toHexAux (n / 16) (hexDigit (n % 16) :: acc)

def toHex (n : Nat) : String := String.ofList (toHexAux n [])

def hexVal? (c : Char) : Option Nat :=
  if '0' ≤ c ∧ c ≤ '9' then some (c.toNat - 48)
  else if 'a' ≤ c ∧ c ≤ 'f' then some (c.toNat - 87)
  else if 'A' ≤ c ∧ c ≤ 'F' then some (c.toNat - 55)
  else none

def parseHex? (s : String) : Option Nat :=
  if s.isEmpty then none else
  s.toList.foldl (fun acc c => match acc, hexVal? c with
    | some a, some v => some (a * 16 + v)
    | _, _ => none) (some 0)

def parseInt? (s : String) : Option Int := s.toInt?

def words (line : String) : List String :=
  (line.trimAscii.toString.splitOn " ").filter (· ≠ "")

end GdModel.Driver
