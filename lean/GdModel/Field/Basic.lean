/-
  GdModel.Field.Basic — vector fields as a tree, in two shapes:

  * `Spec.sample f k` : the value the Dirfile Standards define for absolute
    sample `k` of field `f` (pointwise; an input of another rate is sampled at
    ⌊k·s₂/s₁⌋), `Spec.eof f` the end-of-field as `_GD_GetEOF` defines it;
  * `Impl.read f s n` : a function shaped like `_GD_DoField` and the
    `_GD_Do*` readers of src/getdata.c — whole-window reads of every input,
    `first_samp2 = first_samp·spf2/spf1` (C division), `num_samp2 =
    ⌈n_read·spf2/spf1⌉`, kernel index `B[i·spf2/spf1]`, short-read adjustment.

  The pointwise operations are parameters (`g`), so every theorem about the
  structure holds for whatever arithmetic the C code does; the executable
  driver instantiates `α := Float` with the C operation order.
  Core Lean only.
-/
namespace GdModel.Field

/-- A vector field, as the tree of its inputs. -/
inductive Fld (α : Type) where
  /-- RAW: `spf` samples per frame, `off` = spf·frame_offset samples of padding
      `pad` before the first stored sample, `data` the stored samples. -/
  | raw (spf : Nat) (off : Nat) (pad : α) (data : List α)
  /-- INDEX (spf 1, unbounded): sample k is `ofInt k`. -/
  | index (ofInt : Int → α)
  /-- one-input pointwise fields: LINTERP, BIT, SBIT, RECIP, POLYNOM, one-field
      LINCOM, INDIR, representation suffixes -/
  | map1 (g : α → α) (x : Fld α)
  /-- two-input fields: MULTIPLY, DIVIDE, WINDOW, two-field LINCOM -/
  | map2 (g : α → α → α) (a b : Fld α)
  /-- three-field LINCOM -/
  | map3 (g : α → α → α → α) (a b c : Fld α)
  /-- PHASE -/
  | phase (shift : Int) (x : Fld α)

variable {α : Type}

/-- samples per frame (`_GD_GetSPF`): that of the first input. -/
def Fld.spf : Fld α → Nat
  | .raw spf _ _ _ => spf
  | .index _ => 1
  | .map1 _ x => x.spf
  | .map2 _ a _ => a.spf
  | .map3 _ a _ _ => a.spf
  | .phase _ x => x.spf

/-- ⌈a/b⌉ on naturals — what `(int)ceil((double)a / b)` computes while the
    operands are exactly representable (a < 2^53). -/
def ceilDiv (a b : Nat) : Nat := (a + b - 1) / b

namespace Spec

/-- combine the end-of-field `ea` of the first input with that of another
    input of rate `r2`, expressed in the first input's rate `r1` (rounded down,
    as `ns1 * spf0 / spf1` in `_GD_GetEOF`). -/
def eofMin (ea eb : Option Int) (r1 r2 : Nat) : Option Int :=
  match ea, eb with
  | ea, none => ea
  | none, some eb => some (eb * r1 / r2)
  | some ea, some eb => some (min ea (eb * r1 / r2))

/-- End-of-field in samples: the first sample number at which the field has no
    value (`none` = unbounded: the field depends only on INDEX).  This is the
    pointwise definition; it may be negative for a PHASE that shifts all data
    before sample 0.  `gd_eof` reports `max 0` of it (see `Impl.eof`). -/
def eof : Fld α → Option Int
  | .raw _ off _ data => some ((off : Int) + data.length)
  | .index _ => none
  | .map1 _ x => eof x
  | .map2 _ a b => eofMin (eof a) (eof b) a.spf b.spf
  | .map3 _ a b c => eofMin (eofMin (eof a) (eof b) a.spf b.spf) (eof c) a.spf c.spf
  | .phase sh x => (eof x).map (fun e => e - sh)

/-- `k` is below the end of the field. -/
def below (e : Option Int) (k : Int) : Bool :=
  match e with
  | none => true
  | some e => decide (k < e)

/-- The value of absolute sample `k` (dirfile-format(5)); `none` at and beyond
    the end-of-field.  Samples before the first stored sample are padding. -/
def sample : Fld α → Int → Option α
  | .raw _ off pad data, k =>
      if k < off then some pad else data[(k - off).toNat]?
  | .index f, k => some (f k)
  | .map1 g x, k => (sample x k).map g
  | .map2 g a b, k =>
      if below (eof (.map2 g a b)) k then
        match sample a k, sample b (k * b.spf / a.spf) with
        | some va, some vb => some (g va vb)
        | _, _ => none
      else none
  | .map3 g a b c, k =>
      if below (eof (.map3 g a b c)) k then
        match sample a k, sample b (k * b.spf / a.spf), sample c (k * c.spf / a.spf) with
        | some va, some vb, some vc => some (g va vb vc)
        | _, _, _ => none
      else none
  | .phase sh x, k => if below (eof (.phase sh x)) k then sample x (k + sh) else none

end Spec

namespace Impl

/-- `_GD_GetEOF` (src/flimits.c:146-318): like `Spec.eof`, but every PHASE
    clamps its result at 0 ("the EOF may never be negative") before it is
    scaled or shifted further by the fields above it. -/
def eof : Fld α → Option Int
  | .raw _ off _ data => some ((off : Int) + data.length)
  | .index _ => none
  | .map1 _ x => eof x
  | .map2 _ a b => Spec.eofMin (eof a) (eof b) a.spf b.spf
  | .map3 _ a b c => Spec.eofMin (Spec.eofMin (eof a) (eof b) a.spf b.spf) (eof c) a.spf c.spf
  | .phase sh x => (eof x).map (fun e => max 0 (e - sh))

/-- `_GD_DoRaw` (src/getdata.c:220-292): pad before the frame offset, then what
    the file holds, short at the end. -/
def readRaw (off : Nat) (pad : α) (data : List α) (s : Int) (n : Nat) : List α :=
  let zp : Nat := if s < off then min n ((off : Int) - s).toNat else 0
  let s' : Int := s + zp
  List.replicate zp pad ++ (data.drop (s' - off).toNat).take (n - zp)

/-- `first_samp * spf2 / spf1` with C (truncating) division. -/
def firstSamp2 (s : Int) (spf2 spf1 : Nat) : Int := Int.tdiv (s * spf2) spf1

/-- The kernel loop `for i < n: A[i] = g(A[i], B[i*spfB/spfA])`; `junk` stands
    for whatever lies beyond the samples actually read into `B`. -/
def kernel2 (junk : α) (g : α → α → α) (A B : List α) (spfA spfB n : Nat) : List α :=
  (List.range n).map fun i => g (A.getD i junk) (B.getD (i * spfB / spfA) junk)

def kernel3 (junk : α) (g : α → α → α → α) (A B C : List α) (spfA spfB spfC n : Nat) : List α :=
  (List.range n).map fun i =>
    g (A.getD i junk) (B.getD (i * spfB / spfA) junk) (C.getD (i * spfC / spfA) junk)

/-- `_GD_DoField` and the per-type readers, returning the samples read
    (the count is the length).  `junk` models uninitialised buffer contents. -/
def read (junk : α) : Fld α → Int → Nat → List α
  | .raw _ off pad data, s, n => readRaw off pad data s n
  | .index f, s, n => (List.range n).map fun (i : Nat) => f (s + (i : Int))
  | .map1 g x, s, n => (read junk x s n).map g
  | .phase sh x, s, n => read junk x (s + sh) n
  | .map2 g a b, s, n =>
      let A := read junk a s n
      let n1 := A.length
      if n1 = 0 then [] else
      let spf1 := a.spf
      let spf2 := b.spf
      let B := read junk b (firstSamp2 s spf2 spf1) (ceilDiv (n1 * spf2) spf1)
      let n2 := B.length
      let nr := if n2 * spf1 < n1 * spf2 then n2 * spf1 / spf2 else n1
      kernel2 junk g A B spf1 spf2 nr
  | .map3 g a b c, s, n =>
      let A := read junk a s n
      let n1 := A.length
      if n1 = 0 then [] else
      let spf1 := a.spf
      let spf2 := b.spf
      let spf3 := c.spf
      let B := read junk b (firstSamp2 s spf2 spf1) (ceilDiv (n1 * spf2) spf1)
      let n2 := B.length
      if n2 = 0 then [] else
      let n1' := if n2 * spf1 < n1 * spf2 then n2 * spf1 / spf2 else n1
      let C := read junk c (firstSamp2 s spf3 spf1) (ceilDiv (n1' * spf3) spf1)
      let n3 := C.length
      if n3 = 0 then [] else
      let nr := if n3 * spf1 < n1' * spf3 then n3 * spf1 / spf3 else n1'
      kernel3 junk g A B C spf1 spf2 spf3 nr

/-- Does any read performed on behalf of `read f s n` start at sample −1?
    `_GD_DoField` takes −1 (GD_HERE) to mean "the current I/O position", so the
    result of such a read depends on handle state the pure model does not
    have; the correspondence check excludes these windows explicitly. -/
def touchesHere : Fld α → Int → Nat → Bool
  | .raw _ _ _ _, s, _ => s == -1
  | .index _, s, _ => s == -1
  | .map1 _ x, s, n => s == -1 || touchesHere x s n
  | .phase sh x, s, n => s == -1 || touchesHere x (s + sh) n
  | .map2 _ a b, s, n =>
      s == -1 || touchesHere a s n ||
      touchesHere b (firstSamp2 s b.spf a.spf) (ceilDiv (n * b.spf) a.spf)
  | .map3 _ a b c, s, n =>
      s == -1 || touchesHere a s n ||
      touchesHere b (firstSamp2 s b.spf a.spf) (ceilDiv (n * b.spf) a.spf) ||
      touchesHere c (firstSamp2 s c.spf a.spf) (ceilDiv (n * c.spf) a.spf)

end Impl

/-- Alignment of a read starting at `s`: at every multi-input node the start
    is non-negative and falls on a sample of each secondary input
    (`s·spfᵢ` divisible by `spf₁`).  This is the region in which the current
    readers agree with the Standards (see `Props/C01.lean`); outside it they
    slice secondary inputs relative to the floored start (known finding 5.1). -/
def Aligned : Fld α → Int → Bool
  | .raw _ _ _ _, _ => true
  | .index _, _ => true
  | .map1 _ x, s => Aligned x s
  | .phase sh x, s => Aligned x (s + sh)
  | .map2 _ a b, s =>
      decide (0 ≤ s) && decide ((s * b.spf) % a.spf = 0) && Aligned a s &&
      Aligned b (s * b.spf / a.spf)
  | .map3 _ a b c, s =>
      decide (0 ≤ s) && decide ((s * b.spf) % a.spf = 0) && decide ((s * c.spf) % a.spf = 0) &&
      Aligned a s && Aligned b (s * b.spf / a.spf) && Aligned c (s * c.spf / a.spf)

end GdModel.Field
