/-
  GdModel.Field.Extents — beginning-of-field and frame count.

  `Spec.isData f k` : absolute sample `k` of `f` is computed from stored data
  (every RAW sample it depends on lies at or after that field's frame offset).
  `Spec.bof f`      : the first such sample number ≥ 0.
  `Impl.bof`        : `_GD_GetBOF` (src/flimits.c:353-515) on (frame, ds, spf)
                      triples, with its floor when converting a sub-frame
                      offset between rates and its clamp at frame 0.
-/
import GdModel.Field.Basic

namespace GdModel.Field
variable {α : Type}

namespace Spec

def isData : Fld α → Int → Bool
  | .raw _ off _ _, k => decide ((off : Int) ≤ k)
  | .index _, k => decide (0 ≤ k)
  | .map1 _ x, k => isData x k
  | .phase sh x, k => isData x (k + sh)
  | .map2 _ a b, k => isData a k && isData b (k * b.spf / a.spf)
  | .map3 _ a b c, k => isData a k && isData b (k * b.spf / a.spf) && isData c (k * c.spf / a.spf)

/-- ⌈x·r1/r2⌉ for a possibly negative `x` -/
def scaleUp (x : Int) (r1 r2 : Nat) : Int := -((-(x * r1)) / r2)

/-- first sample number from which the field is data (unclamped: may be negative) -/
def bofU : Fld α → Int
  | .raw _ off _ _ => off
  | .index _ => 0
  | .map1 _ x => bofU x
  | .phase sh x => bofU x - sh
  | .map2 _ a b => max (bofU a) (scaleUp (bofU b) a.spf b.spf)
  | .map3 _ a b c => max (max (bofU a) (scaleUp (bofU b) a.spf b.spf)) (scaleUp (bofU c) a.spf c.spf)

/-- what `gd_bof` should report: sample numbers start at 0 -/
def bof (f : Fld α) : Int := max 0 (bofU f)

/-- `gd_nframes` for a RAW reference field: complete frames stored, plus the frame offset -/
def nframes (spf foff : Nat) (nsamples : Nat) : Nat := nsamples / spf + foff

end Spec

namespace Impl

/-- the triple `_GD_GetBOF` works with: frame, sub-frame sample offset, rate -/
structure BofT where
  frame : Int
  ds : Int
  spf : Nat
  deriving Repr, DecidableEq

/-- is (f1,ds1,spf1) later than (f0,ds0,spf0)?  (the C code compares the
    sub-frame fractions as doubles; exact for the operand sizes involved) -/
def later (b1 b0 : BofT) : Bool :=
  decide (b1.frame > b0.frame) || (decide (b1.frame = b0.frame) && decide (b1.ds * b0.spf > b0.ds * b1.spf))

def bofT : Fld α → BofT
  | .raw spf off _ _ => ⟨(off / spf : Nat), 0, spf⟩
  | .index _ => ⟨0, 0, 1⟩
  | .map1 _ x => bofT x
  | .phase sh x =>
      let b := bofT x
      let tot : Int := b.frame * b.spf + b.ds - sh      -- same as the two while loops
      let fr := tot / b.spf
      let ds := tot % b.spf
      if fr < 0 then ⟨0, 0, b.spf⟩ else ⟨fr, ds, b.spf⟩
  | .map2 _ a b =>
      let b0 := bofT a
      let b1 := bofT b
      if later b1 b0 then ⟨b1.frame, b1.ds * b0.spf / b1.spf, b0.spf⟩ else b0
  | .map3 _ a b c =>
      let b0 := bofT a
      let b1 := bofT b
      let b01 := if later b1 b0 then ⟨b1.frame, b1.ds * b0.spf / b1.spf, b0.spf⟩ else b0
      let b2 := bofT c
      if later b2 b01 then ⟨b2.frame, b2.ds * b01.spf / b2.spf, b01.spf⟩ else b01

/-- `gd_bof64`: frame·spf + ds -/
def bof (f : Fld α) : Int := let b := bofT f; b.frame * b.spf + b.ds

end Impl

end GdModel.Field
