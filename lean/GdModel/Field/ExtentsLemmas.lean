/-
  Lemmas about end-of-field and beginning-of-field (used by Props/C16).
-/
import GdModel.Field.ReadSpec
import GdModel.Field.Extents

namespace GdModel.Field
variable {α : Type}

theorem below_eofMin (ea eb : Option Int) (r1 r2 : Nat) (_h2 : 0 < r2) (k : Int) :
    Spec.below (Spec.eofMin ea eb r1 r2) k =
      (Spec.below ea k && (match eb with | none => true | some eb => decide (k < eb * r1 / r2))) := by
  cases ea <;> cases eb <;> simp [Spec.eofMin, Spec.below]
  rename_i ea eb
  rw [Bool.eq_iff_iff]
  simp only [decide_eq_true_eq, Bool.and_eq_true]
  omega

/-- k below the scaled end of a secondary input ⇒ its index is below that input's end -/
theorem idx_lt_of_lt_scaled (k eb : Int) (r1 r2 : Nat) (h1 : 0 < r1) (h2 : 0 < r2)
    (h : k < eb * r1 / r2) : k * r2 / r1 < eb := by
  have hr1 : (0 : Int) < r1 := by omega
  have hr2 : (0 : Int) < r2 := by omega
  have h3 : (k + 1) * r2 ≤ eb * r1 := by
    have := (Int.le_ediv_iff_mul_le hr2).mp (show k + 1 ≤ eb * r1 / r2 by omega)
    exact this
  rw [Int.ediv_lt_iff_lt_mul hr1]
  have : (k + 1) * (r2 : Int) = k * r2 + r2 := by rw [Int.add_mul, Int.one_mul]
  omega

/-- **The end-of-field is tight**: a field has a value at sample `k` exactly
    when `k` is below its end-of-field — for every tree, every `k ∈ ℤ`. -/
theorem sample_isSome_iff (f : Fld α) : f.WF = true →
    ∀ k : Int, (Spec.sample f k).isSome = Spec.below (Spec.eof f) k := by
  induction f with
  | raw spf off pad data =>
    intro _ k
    simp only [Spec.sample, Spec.eof, Spec.below]
    by_cases hk : k < (off : Int)
    · simp [hk]; omega
    · simp only [hk, if_false]
      by_cases hd : (k - off).toNat < data.length
      · rw [List.getElem?_eq_getElem hd]; simp; omega
      · rw [List.getElem?_eq_none (by omega)]; simp; omega
  | index fn => intro _ k; simp [Spec.sample, Spec.eof, Spec.below]
  | map1 g x ih =>
    intro hwf k
    have := ih (by simpa [Fld.WF] using hwf) k
    simp only [Spec.sample, Spec.eof, Option.isSome_map]; exact this
  | phase sh x ih =>
    intro hwf k
    have hx := ih (by simpa [Fld.WF] using hwf) (k + sh)
    simp only [Spec.sample]
    by_cases hb : Spec.below (Spec.eof (.phase sh x)) k = true
    · rw [if_pos hb, hx, hb]
      simp only [Spec.eof, Spec.below] at hb ⊢
      cases he : Spec.eof x with
      | none => rfl
      | some e => rw [he] at hb; simp at hb ⊢; omega
    · simp only [hb]; simp
  | map2 g a b iha ihb =>
    intro hwf k
    simp only [Fld.WF, Bool.and_eq_true] at hwf
    have h1 := Fld.spf_pos a hwf.1
    have h2 := Fld.spf_pos b hwf.2
    simp only [Spec.sample]
    by_cases hb : Spec.below (Spec.eof (.map2 g a b)) k = true
    · rw [if_pos hb, hb]
      have hb' := hb
      simp only [Spec.eof] at hb'
      rw [below_eofMin _ _ _ _ h2, Bool.and_eq_true] at hb'
      have ha := iha hwf.1 k
      rw [hb'.1] at ha
      have hbs : (Spec.sample b (k * b.spf / a.spf)).isSome = true := by
        rw [ihb hwf.2]
        cases he : Spec.eof b with
        | none => rfl
        | some eb =>
          have := hb'.2; rw [he] at this
          simp only [decide_eq_true_eq] at this
          simp only [Spec.below, decide_eq_true_eq]
          exact idx_lt_of_lt_scaled k eb a.spf b.spf h1 h2 this
      cases hsa : Spec.sample a k with
      | none => rw [hsa] at ha; simp at ha
      | some va =>
        cases hsb : Spec.sample b (k * b.spf / a.spf) with
        | none => rw [hsb] at hbs; simp at hbs
        | some vb => rfl
    · simp only [hb]; simp
  | map3 g a b c iha ihb ihc =>
    intro hwf k
    simp only [Fld.WF, Bool.and_eq_true] at hwf
    have h1 := Fld.spf_pos a hwf.1.1
    have h2 := Fld.spf_pos b hwf.1.2
    have h3 := Fld.spf_pos c hwf.2
    simp only [Spec.sample]
    by_cases hb : Spec.below (Spec.eof (.map3 g a b c)) k = true
    · rw [if_pos hb, hb]
      have hb' := hb
      simp only [Spec.eof] at hb'
      rw [below_eofMin _ _ _ _ h3, Bool.and_eq_true, below_eofMin _ _ _ _ h2, Bool.and_eq_true] at hb'
      have ha := iha hwf.1.1 k
      rw [hb'.1.1] at ha
      have hbs : (Spec.sample b (k * b.spf / a.spf)).isSome = true := by
        rw [ihb hwf.1.2]
        cases he : Spec.eof b with
        | none => rfl
        | some eb =>
          have := hb'.1.2; rw [he] at this
          simp only [decide_eq_true_eq] at this
          simp only [Spec.below, decide_eq_true_eq]
          exact idx_lt_of_lt_scaled k eb a.spf b.spf h1 h2 this
      have hcs : (Spec.sample c (k * c.spf / a.spf)).isSome = true := by
        rw [ihc hwf.2]
        cases he : Spec.eof c with
        | none => rfl
        | some ec =>
          have := hb'.2; rw [he] at this
          simp only [decide_eq_true_eq] at this
          simp only [Spec.below, decide_eq_true_eq]
          exact idx_lt_of_lt_scaled k ec a.spf c.spf h1 h3 this
      cases hsa : Spec.sample a k with
      | none => rw [hsa] at ha; simp at ha
      | some va =>
        cases hsb : Spec.sample b (k * b.spf / a.spf) with
        | none => rw [hsb] at hbs; simp at hbs
        | some vb =>
          cases hsc : Spec.sample c (k * c.spf / a.spf) with
          | none => rw [hsc] at hcs; simp at hcs
          | some vc => rfl
    · simp only [hb]; simp

/-! ### beginning-of-field -/

theorem scaleUp_le_iff (x k : Int) (r1 r2 : Nat) (h1 : 0 < r1) (h2 : 0 < r2) :
    Spec.scaleUp x r2 r1 ≤ k ↔ x ≤ k * r1 / r2 := by
  unfold Spec.scaleUp
  have hr1 : (0 : Int) < r1 := by omega
  have hr2 : (0 : Int) < r2 := by omega
  constructor
  · intro h
    rw [Int.le_ediv_iff_mul_le hr2]
    have h3 : -k ≤ -(x * r2) / r1 := by omega
    have := (Int.le_ediv_iff_mul_le hr1).mp h3
    have e1 : -k * (r1 : Int) = -(k * r1) := Int.neg_mul _ _
    omega
  · intro h
    have h3 := (Int.le_ediv_iff_mul_le hr2).mp h
    have : -k ≤ -(x * r2) / r1 := by
      rw [Int.le_ediv_iff_mul_le hr1]
      have e1 : -k * (r1 : Int) = -(k * r1) := Int.neg_mul _ _
      omega
    omega

/-- **Characterisation of the beginning-of-field**: sample `k` is computed from
    stored data exactly when `k` is at or after `bofU` — for every tree, every `k`. -/
theorem isData_iff (f : Fld α) : f.WF = true → ∀ k : Int, (Spec.isData f k = true ↔ Spec.bofU f ≤ k) := by
  induction f with
  | raw spf off pad data => intro _ k; simp [Spec.isData, Spec.bofU]
  | index fn => intro _ k; simp [Spec.isData, Spec.bofU]
  | map1 g x ih =>
    intro hwf k
    exact ih (by simpa [Fld.WF] using hwf) k
  | phase sh x ih =>
    intro hwf k
    have := ih (by simpa [Fld.WF] using hwf) (k + sh)
    show Spec.isData x (k + sh) = true ↔ Spec.bofU x - sh ≤ k
    rw [this]
    constructor <;> intro h <;> omega
  | map2 g a b iha ihb =>
    intro hwf k
    simp only [Fld.WF, Bool.and_eq_true] at hwf
    have h1 := Fld.spf_pos a hwf.1
    have h2 := Fld.spf_pos b hwf.2
    have := scaleUp_le_iff (Spec.bofU b) k b.spf a.spf h2 h1
    show (Spec.isData a k && Spec.isData b (k * b.spf / a.spf)) = true ↔
      max (Spec.bofU a) (Spec.scaleUp (Spec.bofU b) a.spf b.spf) ≤ k
    rw [Bool.and_eq_true, iha hwf.1 k, ihb hwf.2, Int.max_le, this]
  | map3 g a b c iha ihb ihc =>
    intro hwf k
    simp only [Fld.WF, Bool.and_eq_true] at hwf
    have h1 := Fld.spf_pos a hwf.1.1
    have h2 := Fld.spf_pos b hwf.1.2
    have h3 := Fld.spf_pos c hwf.2
    have e2 := scaleUp_le_iff (Spec.bofU b) k b.spf a.spf h2 h1
    have e3 := scaleUp_le_iff (Spec.bofU c) k c.spf a.spf h3 h1
    show (Spec.isData a k && Spec.isData b (k * b.spf / a.spf) && Spec.isData c (k * c.spf / a.spf)) = true ↔
      max (max (Spec.bofU a) (Spec.scaleUp (Spec.bofU b) a.spf b.spf))
        (Spec.scaleUp (Spec.bofU c) a.spf c.spf) ≤ k
    rw [Bool.and_eq_true, Bool.and_eq_true, iha hwf.1.1 k, ihb hwf.1.2, ihc hwf.2,
      Int.max_le, Int.max_le, e2, e3]

end GdModel.Field
