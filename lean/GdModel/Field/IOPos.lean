/-
  GdModel.Field.IOPos — I/O pointers of single-rate field trees
  (src/iopos.c `_GD_GetIOPos`, `_GD_Seek`; the read path of src/getdata.c).

  The state is the absolute sample position of every RAW field (`file[0].pos`
  plus the frame-offset samples).  A derived field has no pointer of its own:
  `tell` recurses to the RAW fields and reports GD_E_DOMAIN when two inputs
  disagree; `seek` recurses and repositions them.  The PHASE cases are
  transcribed with the signs the C code has:
    `_GD_GetIOPos`: pos(input) + shift      `_GD_Seek`: seek input to offset − shift
    `_GD_DoPhase` : read input at first_samp + shift
-/
namespace GdModel.Field

/-- pointer-relevant shape of a field -/
inductive PF where
  | raw (id : Nat) (eof : Int)          -- a RAW field and its end-of-field
  | map1 (x : PF)                        -- any one-input pointwise field
  | map2 (a b : PF)                      -- two-input fields (same rate)
  | phase (shift : Int) (x : PF)
  deriving Repr, DecidableEq

abbrev Pos := Nat → Int

inductive PErr where
  | domain | range
  deriving Repr, DecidableEq

def Pos.set (st : Pos) (id : Nat) (v : Int) : Pos := fun i => if i = id then v else st i

/-- `_GD_GetIOPos` -/
def tell : PF → Pos → Except PErr Int
  | .raw id _, st => .ok (st id)
  | .map1 x, st => tell x st
  | .map2 a b, st =>
      match tell a st, tell b st with
      | .ok pa, .ok pb => if pa = pb then .ok pa else .error .domain
      | .error e, _ => .error e
      | _, .error e => .error e
  | .phase sh x, st =>
      match tell x st with
      | .ok p => .ok (p + sh)
      | .error e => .error e

/-- `_GD_Seek` (read mode): negative offsets are refused at every level -/
def seek : PF → Int → Pos → Except PErr Pos
  | .raw id _, p, st => if p < 0 then .error .range else .ok (st.set id p)
  | .map1 x, p, st => if p < 0 then .error .range else seek x p st
  | .map2 a b, p, st =>
      if p < 0 then .error .range else
      match seek a p st with
      | .ok st1 => seek b p st1
      | .error e => .error e
  | .phase sh x, p, st => if p < 0 then .error .range else seek x (p - sh) st

/-- where a read of `n` samples starting at `s` leaves the RAW pointers
    (`_GD_DoField`: every RAW input is read at its own shifted start and ends
    at start + count, clipped at its end-of-field and at sample 0) -/
def afterRead : PF → Int → Nat → Pos → Pos
  | .raw id e, s, n, st => st.set id (max 0 (min (s + n) (max e s)))
  | .map1 x, s, n, st => afterRead x s n st
  | .map2 a b, s, n, st => afterRead b s n (afterRead a s n st)
  | .phase sh x, s, n, st => afterRead x (s + sh) n st

/-- single-input chains: the fields the property speaks about -/
def Chain : PF → Bool
  | .raw _ _ => true
  | .map1 x => Chain x
  | .map2 _ _ => false
  | .phase _ x => Chain x

/-- total PHASE shift along a chain -/
def shiftSum : PF → Int
  | .raw _ _ => 0
  | .map1 x => shiftSum x
  | .map2 a _ => shiftSum a
  | .phase sh x => sh + shiftSum x

/-- end-of-field of a chain (pointwise: shifted left by the total shift) -/
def chainEof : PF → Int
  | .raw _ e => e
  | .map1 x => chainEof x
  | .map2 a _ => chainEof a
  | .phase sh x => chainEof x - sh

end GdModel.Field
