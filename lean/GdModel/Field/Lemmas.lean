/-
  Lemmas relating `Impl.read` to `Spec.sample` (used by Props/C01, C16).
-/
import GdModel.Field.Basic

namespace GdModel.Field
variable {α : Type}

/-- number of samples a read of `n` from `s` should return for end-of-field `e` -/
def count (e : Option Int) (s : Int) (n : Nat) : Nat :=
  match e with
  | none => n
  | some e => min n (e - s).toNat

/-! ### RAW -/

theorem readRaw_length (off : Nat) (pad : α) (data : List α) (s : Int) (n : Nat) :
    (Impl.readRaw off pad data s n).length = min n ((off : Int) + data.length - s).toNat := by
  unfold Impl.readRaw
  simp only [List.length_append, List.length_replicate, List.length_take, List.length_drop]
  split <;> omega

theorem readRaw_get (spf off : Nat) (pad : α) (data : List α) (s : Int) (n i : Nat)
    (hi : i < min n ((off : Int) + data.length - s).toNat) :
    (Impl.readRaw off pad data s n)[i]? = Spec.sample (.raw spf off pad data) (s + i) := by
  unfold Impl.readRaw Spec.sample
  simp only
  by_cases hs : s < (off : Int)
  · simp only [hs, if_true]
    by_cases hz : i < min n ((off : Int) - s).toNat
    · rw [List.getElem?_append_left (by simpa using hz)]
      rw [List.getElem?_replicate]
      simp only [hz, if_true]
      rw [if_pos (by omega)]
    · rw [List.getElem?_append_right (by simp; omega)]
      simp only [List.length_replicate]
      rw [if_neg (by omega)]
      rw [List.getElem?_take_of_lt (by omega), List.getElem?_drop]
      congr 1
      omega
  · simp only [hs, if_false]
    simp only [List.replicate_zero, List.nil_append, Nat.sub_zero]
    rw [if_neg (by omega)]
    rw [List.getElem?_take_of_lt (by omega), List.getElem?_drop]
    congr 1
    omega

/-! ### kernels -/

theorem kernel2_length (junk : α) (g : α → α → α) (A B : List α) (r1 r2 n : Nat) :
    (Impl.kernel2 junk g A B r1 r2 n).length = n := by
  simp [Impl.kernel2]

theorem kernel2_get (junk : α) (g : α → α → α) (A B : List α) (r1 r2 n i : Nat) (hi : i < n) :
    (Impl.kernel2 junk g A B r1 r2 n)[i]? = some (g (A.getD i junk) (B.getD (i * r2 / r1) junk)) := by
  simp [Impl.kernel2, hi]

theorem kernel3_length (junk : α) (g : α → α → α → α) (A B C : List α) (r1 r2 r3 n : Nat) :
    (Impl.kernel3 junk g A B C r1 r2 r3 n).length = n := by
  simp [Impl.kernel3]

theorem kernel3_get (junk : α) (g : α → α → α → α) (A B C : List α) (r1 r2 r3 n i : Nat) (hi : i < n) :
    (Impl.kernel3 junk g A B C r1 r2 r3 n)[i]? =
      some (g (A.getD i junk) (B.getD (i * r2 / r1) junk) (C.getD (i * r3 / r1) junk)) := by
  simp [Impl.kernel3, hi]

/-! ### rate arithmetic -/

theorem ceilDiv_mul_ge (X r : Nat) (hr : 0 < r) : X ≤ ceilDiv X r * r := by
  unfold ceilDiv
  have h1 := Nat.div_add_mod (X + r - 1) r
  have h2 := Nat.mod_lt (X + r - 1) hr
  have h3 : r * ((X + r - 1) / r) = (X + r - 1) / r * r := Nat.mul_comm _ _
  omega

theorem lt_ceilDiv_mul_lt (X r t : Nat) (hr : 0 < r) (ht : t < ceilDiv X r) : t * r < X := by
  unfold ceilDiv at ht
  have h1 := Nat.div_add_mod (X + r - 1) r
  have h2 := Nat.mod_lt (X + r - 1) hr
  have h3 : (t + 1) * r ≤ (X + r - 1) / r * r := Nat.mul_le_mul_right r ht
  have h4 : (t + 1) * r = t * r + r := by rw [Nat.add_mul, Nat.one_mul]
  have h5 : r * ((X + r - 1) / r) = (X + r - 1) / r * r := Nat.mul_comm _ _
  omega

/-- The alignment identity: when `s·r2` is a multiple of `r1`, the secondary
    index of derived sample `s+i` is the start index plus the kernel's `i·r2/r1`. -/
theorem align_index (s i r1 r2 q : Nat) (hq : q * r1 = s * r2) (h1 : 0 < r1) :
    (s + i) * r2 / r1 = q + i * r2 / r1 := by
  rw [Nat.add_mul, ← hq, Nat.add_comm, Nat.add_mul_div_right _ _ h1, Nat.add_comm]

/-- …and it fails without alignment (known finding 5.1): first = 1, i = 1, rates 2:1. -/
theorem align_index_counterexample :
    ¬ ∀ s i r1 r2 : Nat, 0 < r1 → (s + i) * r2 / r1 = s * r2 / r1 + i * r2 / r1 := by
  intro h
  have := h 1 1 2 1 (by decide)
  revert this; decide

/-- The count arithmetic of the two-input readers (`num_samp2`, short-read
    adjustment) yields exactly the window clipped at the scaled end of the
    second input — for an aligned start. -/
theorem nr_eq (r1 r2 s q n1 : Nat) (eb : Int) (h1 : 0 < r1) (h2 : 0 < r2) (hq : q * r1 = s * r2) :
    (if min (ceilDiv (n1 * r2) r1) (eb - q).toNat * r1 < n1 * r2
      then min (ceilDiv (n1 * r2) r1) (eb - q).toNat * r1 / r2 else n1)
    = min n1 (eb * r1 / r2 - s).toNat := by
  have hc1 := ceilDiv_mul_ge (n1 * r2) r1 h1
  have hr2 : (0 : Int) < (r2 : Int) := by omega
  generalize hm : ceilDiv (n1 * r2) r1 = m at *
  generalize hE : (eb - q).toNat = E
  by_cases hlt : min m E * r1 < n1 * r2
  · rw [if_pos hlt]
    -- then the second input was short: min m E = E < m
    have hEm : E < m := by
      by_cases h : E < m
      · exact h
      · have : min m E = m := by omega
        rw [this] at hlt; omega
    have hmin : min m E = E := by omega
    rw [hmin] at hlt ⊢
    have hle : E * r1 / r2 ≤ n1 := by
      have := Nat.div_le_div_right (c := r2) (Nat.le_of_lt hlt)
      rwa [Nat.mul_div_cancel _ h2] at this
    by_cases hpos : (q : Int) ≤ eb
    · have hEi : (E : Int) = eb - q := by omega
      have hsplit : eb * r1 = (E : Int) * r1 + (s : Int) * r2 := by
        have : (q : Int) * r1 = (s : Int) * r2 := by exact_mod_cast hq
        rw [hEi, Int.sub_mul]; omega
      have hT : eb * r1 / r2 - s = ((E * r1 / r2 : Nat) : Int) := by
        rw [hsplit, Int.add_mul_ediv_right _ _ (Int.ne_of_gt hr2)]
        have : ((E * r1 / r2 : Nat) : Int) = ((E : Int) * r1) / r2 := by
          rw [Int.natCast_ediv]; push_cast; rfl
        omega
      rw [hT, Int.toNat_natCast]; omega
    · have hE0 : E = 0 := by omega
      subst hE0
      have hneg : eb * r1 / r2 < s := by
        rw [Int.ediv_lt_iff_lt_mul hr2]
        have : (q : Int) * r1 = (s : Int) * r2 := by exact_mod_cast hq
        have hr1 : (0 : Int) < (r1 : Int) := by omega
        have := Int.mul_lt_mul_of_pos_right (show eb < q by omega) hr1
        omega
      simp; omega
  · rw [if_neg hlt]
    by_cases hn : n1 = 0
    · subst hn; simp
    · -- the second input covered the window: the scaled end lies at or beyond s + n1
      have hge : n1 * r2 ≤ E * r1 := by
        have : min m E * r1 ≤ E * r1 := Nat.mul_le_mul_right r1 (Nat.min_le_right m E)
        omega
      have hEpos : 0 < E := by
        rcases Nat.eq_zero_or_pos E with h | h
        · subst h
          have : 0 < n1 * r2 := Nat.mul_pos (Nat.pos_of_ne_zero hn) h2
          omega
        · exact h
      have hEi : (E : Int) = eb - q := by omega
      have hkey : ((n1 : Int) + s) * r2 ≤ eb * r1 := by
        have hq' : (q : Int) * r1 = (s : Int) * r2 := by exact_mod_cast hq
        have hge' : (n1 : Int) * r2 ≤ (E : Int) * r1 := by exact_mod_cast hge
        have : eb * r1 = (E : Int) * r1 + (q : Int) * r1 := by rw [hEi, Int.sub_mul]; omega
        rw [Int.add_mul]; omega
      have := (Int.le_ediv_iff_mul_le hr2).mpr hkey
      omega

end GdModel.Field
