/-
  The refinement theorem: for every field tree with positive sample rates,
  an aligned read returns exactly the window of `Spec.sample`, clipped at the
  end-of-field.  Induction on the tree; nothing is enumerated.
-/
import GdModel.Field.Lemmas

namespace GdModel.Field
variable {α : Type}

/-- every RAW field has a positive number of samples per frame -/
def Fld.WF : Fld α → Bool
  | .raw spf _ _ _ => decide (0 < spf)
  | .index _ => true
  | .map1 _ x => x.WF
  | .phase _ x => x.WF
  | .map2 _ a b => a.WF && b.WF
  | .map3 _ a b c => a.WF && b.WF && c.WF

theorem Fld.spf_pos : ∀ (f : Fld α), f.WF = true → 0 < f.spf
  | .raw spf _ _ _, h => by simpa [Fld.WF, Fld.spf] using h
  | .index _, _ => by simp [Fld.spf]
  | .map1 _ x, h => by simpa [Fld.spf] using Fld.spf_pos x (by simpa [Fld.WF] using h)
  | .phase _ x, h => by simpa [Fld.spf] using Fld.spf_pos x (by simpa [Fld.WF] using h)
  | .map2 _ a _, h => by
      simp only [Fld.WF, Bool.and_eq_true] at h
      simpa [Fld.spf] using Fld.spf_pos a h.1
  | .map3 _ a _ _, h => by
      simp only [Fld.WF, Bool.and_eq_true] at h
      simpa [Fld.spf] using Fld.spf_pos a h.1.1

/-- what an aligned read must return -/
def ReadOK (junk : α) (f : Fld α) (s : Int) (n : Nat) : Prop :=
  (Impl.read junk f s n).length = count (Spec.eof f) s n ∧
  ∀ i, i < count (Spec.eof f) s n → (Impl.read junk f s n)[i]? = Spec.sample f (s + i)

theorem count_le (e : Option Int) (s : Int) (n : Nat) : count e s n ≤ n := by
  unfold count; split <;> omega

theorem below_of_lt_count (e : Option Int) (s : Int) (n i : Nat) (h : i < count e s n) :
    Spec.below e (s + i) = true := by
  unfold count at h
  unfold Spec.below
  cases e with
  | none => rfl
  | some e => simp only at h ⊢; simp; omega

/-- for a non-negative start, C's truncating division is the natural one -/
theorem firstSamp2_nat (sN r2 r1 : Nat) :
    Impl.firstSamp2 (sN : Int) r2 r1 = ((sN * r2 / r1 : Nat) : Int) := by
  unfold Impl.firstSamp2
  have : ((sN : Int) * (r2 : Int)) = ((sN * r2 : Nat) : Int) := by push_cast; rfl
  rw [this, Int.ofNat_tdiv]

theorem getD_of_getElem? {l : List α} {i : Nat} {v d : α} (h : l[i]? = some v) : l.getD i d = v := by
  simp [List.getD, h]

/-- the count of a two-input read, in terms of the first input's count -/
theorem count_eofMin (ea eb : Option Int) (r1 r2 : Nat) (s : Int) (n : Nat) :
    count (Spec.eofMin ea eb r1 r2) s n =
      match eb with
      | none => count ea s n
      | some eb => min (count ea s n) (eb * r1 / r2 - s).toNat := by
  cases ea <;> cases eb <;> simp only [Spec.eofMin, count] <;> omega

/-- One secondary input: given what the first input and the secondary input
    return, the adjusted count and the kernel's secondary index are right. -/
theorem secondary_ok (junk : α) (b : Fld α) (r1 r2 sN n1 : Nat) (h1 : 0 < r1) (h2 : 0 < r2)
    (hal : (sN * r2) % r1 = 0)
    (ihb : ReadOK junk b ((sN * r2 / r1 : Nat) : Int) (ceilDiv (n1 * r2) r1)) :
    let B := Impl.read junk b ((sN * r2 / r1 : Nat) : Int) (ceilDiv (n1 * r2) r1)
    let nr := if B.length * r1 < n1 * r2 then B.length * r1 / r2 else n1
    nr = (match Spec.eof b with
          | none => n1
          | some eb => min n1 (eb * r1 / r2 - (sN : Int)).toNat) ∧
    ∀ i, i < nr → ∃ vb, B[i * r2 / r1]? = some vb ∧
      Spec.sample b (((sN + i) * r2 / r1 : Nat) : Int) = some vb := by
  intro B nr
  have hq : sN * r2 / r1 * r1 = sN * r2 := Nat.div_mul_cancel (Nat.dvd_of_mod_eq_zero hal)
  obtain ⟨hlen, hget⟩ := ihb
  have hc1 := ceilDiv_mul_ge (n1 * r2) r1 h1
  have hBlen : B.length = count (Spec.eof b) ((sN * r2 / r1 : Nat) : Int) (ceilDiv (n1 * r2) r1) := hlen
  have hnr : nr = (match Spec.eof b with
          | none => n1
          | some eb => min n1 (eb * r1 / r2 - (sN : Int)).toNat) := by
    show (if B.length * r1 < n1 * r2 then B.length * r1 / r2 else n1) = _
    cases heb : Spec.eof b with
    | none =>
      have hBl : B.length = ceilDiv (n1 * r2) r1 := by rw [hBlen, heb]; rfl
      rw [hBl, if_neg (by omega)]
    | some eb =>
      have hBl : B.length = min (ceilDiv (n1 * r2) r1) (eb - ((sN * r2 / r1 : Nat) : Int)).toNat := by
        rw [hBlen, heb]; rfl
      rw [hBl]
      exact nr_eq r1 r2 sN (sN * r2 / r1) n1 eb h1 h2 hq
  refine ⟨hnr, ?_⟩
  intro i hi
  -- the secondary index is inside what was read
  have hj : i * r2 / r1 < B.length := by
    show i * r2 / r1 < B.length
    by_cases hlt : B.length * r1 < n1 * r2
    · have hi' : i < B.length * r1 / r2 := by
        have : nr = B.length * r1 / r2 := by show (if _ then _ else _) = _; rw [if_pos hlt]
        omega
      have h3 : (i + 1) * r2 ≤ B.length * r1 := by
        have h6 : (i + 1) * r2 ≤ (B.length * r1 / r2) * r2 :=
          Nat.mul_le_mul_right r2 (show i + 1 ≤ B.length * r1 / r2 from hi')
        have h4 := Nat.div_mul_le_self (B.length * r1) r2
        omega
      have h5 : (i + 1) * r2 = i * r2 + r2 := by rw [Nat.add_mul, Nat.one_mul]
      apply Nat.div_lt_of_lt_mul
      have h7 : r1 * B.length = B.length * r1 := Nat.mul_comm _ _
      omega
    · have hi' : i < n1 := by
        have : nr = n1 := by show (if _ then _ else _) = _; rw [if_neg hlt]
        omega
      have h3 : (i + 1) * r2 ≤ n1 * r2 := Nat.mul_le_mul_right r2 (show i + 1 ≤ n1 from hi')
      have h5 : (i + 1) * r2 = i * r2 + r2 := by rw [Nat.add_mul, Nat.one_mul]
      apply Nat.div_lt_of_lt_mul
      have h7 : r1 * B.length = B.length * r1 := Nat.mul_comm _ _
      omega
  have hg := hget (i * r2 / r1) (by rw [← hBlen]; exact hj)
  refine ⟨B[i * r2 / r1], List.getElem?_eq_getElem hj, ?_⟩
  have hidx : (((sN + i) * r2 / r1 : Nat) : Int) = ((sN * r2 / r1 : Nat) : Int) + ((i * r2 / r1 : Nat) : Int) := by
    rw [align_index sN i r1 r2 (sN * r2 / r1) hq h1]; push_cast; rfl
  rw [hidx, ← hg]
  exact List.getElem?_eq_getElem hj

theorem read_map2_unfold (junk : α) (g : α → α → α) (a b : Fld α) (s : Int) (n : Nat) :
    Impl.read junk (.map2 g a b) s n =
      (if (Impl.read junk a s n).length = 0 then [] else
        Impl.kernel2 junk g (Impl.read junk a s n)
          (Impl.read junk b (Impl.firstSamp2 s b.spf a.spf)
            (ceilDiv ((Impl.read junk a s n).length * b.spf) a.spf)) a.spf b.spf
          (if (Impl.read junk b (Impl.firstSamp2 s b.spf a.spf)
                (ceilDiv ((Impl.read junk a s n).length * b.spf) a.spf)).length * a.spf
                < (Impl.read junk a s n).length * b.spf
            then (Impl.read junk b (Impl.firstSamp2 s b.spf a.spf)
                (ceilDiv ((Impl.read junk a s n).length * b.spf) a.spf)).length * a.spf / b.spf
            else (Impl.read junk a s n).length)) := rfl

theorem int_nat_div (x r2 r1 : Nat) : ((x : Int) * (r2 : Int) / (r1 : Int)) = ((x * r2 / r1 : Nat) : Int) := by
  push_cast; rfl

theorem read_map3_unfold (junk : α) (g : α → α → α → α) (a b c : Fld α) (s : Int) (n : Nat) :
    Impl.read junk (.map3 g a b c) s n =
      (let A := Impl.read junk a s n
       if A.length = 0 then [] else
       let B := Impl.read junk b (Impl.firstSamp2 s b.spf a.spf) (ceilDiv (A.length * b.spf) a.spf)
       if B.length = 0 then [] else
       let n1' := if B.length * a.spf < A.length * b.spf then B.length * a.spf / b.spf else A.length
       let C := Impl.read junk c (Impl.firstSamp2 s c.spf a.spf) (ceilDiv (n1' * c.spf) a.spf)
       if C.length = 0 then [] else
       Impl.kernel3 junk g A B C a.spf b.spf c.spf
         (if C.length * a.spf < n1' * c.spf then C.length * a.spf / c.spf else n1')) := rfl

/-- **Refinement theorem (C01, C16).**  For every field tree with positive
    sample rates and every aligned window, the C-shaped reader returns exactly
    `min n (eof − s)` samples, and sample `i` of the result is the value the
    Standards define for absolute sample `s + i`. -/
theorem read_spec (junk : α) (f : Fld α) :
    f.WF = true → ∀ (s : Int) (n : Nat), Aligned f s = true → ReadOK junk f s n := by
  induction f with
  | raw spf off pad data =>
    intro _ s n _
    refine ⟨?_, ?_⟩
    · simp only [Impl.read, Spec.eof, count]; exact readRaw_length off pad data s n
    · intro i hi
      simp only [Spec.eof, count] at hi
      simp only [Impl.read]; exact readRaw_get spf off pad data s n i hi
  | index fn =>
    intro _ s n _
    refine ⟨?_, ?_⟩
    · simp [Impl.read, Spec.eof, count]
    · intro i hi
      simp only [Spec.eof, count] at hi
      simp [Impl.read, Spec.sample, hi]
  | map1 g x ih =>
    intro hwf s n hal
    obtain ⟨hl, hg⟩ := ih (by simpa [Fld.WF] using hwf) s n (by simpa [Aligned] using hal)
    refine ⟨?_, ?_⟩
    · simp only [Impl.read, Spec.eof, List.length_map]; exact hl
    · intro i hi
      simp only [Spec.eof] at hi
      simp only [Impl.read, Spec.sample, List.getElem?_map, hg i hi]
  | phase sh x ih =>
    intro hwf s n hal
    obtain ⟨hl, hg⟩ := ih (by simpa [Fld.WF] using hwf) (s + sh) n (by simpa [Aligned] using hal)
    have hcnt : count (Spec.eof (.phase sh x)) s n = count (Spec.eof x) (s + sh) n := by
      simp only [Spec.eof]
      cases Spec.eof x with
      | none => rfl
      | some e => simp only [Option.map_some, count]; omega
    refine ⟨?_, ?_⟩
    · simp only [Impl.read]; rw [hcnt]; exact hl
    · intro i hi
      have hb := below_of_lt_count _ s n i hi
      rw [hcnt] at hi
      simp only [Impl.read, Spec.sample, hb, if_true]
      rw [hg i hi]
      congr 1; omega
  | map2 g a b iha ihb =>
    intro hwf s n hal
    simp only [Fld.WF, Bool.and_eq_true] at hwf
    simp only [Aligned, Bool.and_eq_true, decide_eq_true_eq] at hal
    obtain ⟨⟨⟨hs0, hmod⟩, hala⟩, halb⟩ := hal
    obtain ⟨sN, rfl⟩ := Int.eq_ofNat_of_zero_le hs0
    have h1 := Fld.spf_pos a hwf.1
    have h2 := Fld.spf_pos b hwf.2
    have hmodN : (sN * b.spf) % a.spf = 0 := by
      have : ((sN * b.spf % a.spf : Nat) : Int) = 0 := by push_cast; exact hmod
      exact_mod_cast this
    rw [int_nat_div] at halb
    obtain ⟨hAlen, hAget⟩ := iha hwf.1 (sN : Int) n hala
    have IHb := ihb hwf.2 _ (ceilDiv (count (Spec.eof a) sN n * b.spf) a.spf) halb
    have key := secondary_ok junk b a.spf b.spf sN (count (Spec.eof a) sN n) h1 h2 hmodN IHb
    simp only at key
    obtain ⟨knr, kget⟩ := key
    have hcnt := count_eofMin (Spec.eof a) (Spec.eof b) a.spf b.spf (sN : Int) n
    have heof : Spec.eof (.map2 g a b) = Spec.eofMin (Spec.eof a) (Spec.eof b) a.spf b.spf := rfl
    unfold ReadOK
    rw [read_map2_unfold, firstSamp2_nat, hAlen, heof, hcnt]
    by_cases hn1 : count (Spec.eof a) (sN : Int) n = 0
    · rw [if_pos hn1]
      refine ⟨?_, ?_⟩
      · cases Spec.eof b <;> simp [hn1]
      · intro i hi
        exfalso
        cases heb : Spec.eof b <;> rw [heb] at hi <;> simp [hn1] at hi
    · rw [if_neg hn1]
      refine ⟨?_, ?_⟩
      · rw [kernel2_length, knr]
      · intro i hi
        rw [← knr] at hi
        rw [kernel2_get _ _ _ _ _ _ _ _ hi]
        have hia : i < count (Spec.eof a) (sN : Int) n := by
          rw [knr] at hi
          cases heb : Spec.eof b <;> rw [heb] at hi <;> simp only at hi <;> omega
        have hA := hAget i hia
        obtain ⟨vb, hvb, hsb⟩ := kget i hi
        have hbelow : Spec.below (Spec.eof (.map2 g a b)) ((sN : Int) + i) = true := by
          apply below_of_lt_count _ _ n
          rw [heof, hcnt, ← knr]; exact hi
        have hAs : ∃ va, (Impl.read junk a (sN : Int) n)[i]? = some va := by
          have : i < (Impl.read junk a (sN : Int) n).length := by rw [hAlen]; exact hia
          exact ⟨_, List.getElem?_eq_getElem this⟩
        obtain ⟨va, hva⟩ := hAs
        rw [getD_of_getElem? hva, getD_of_getElem? hvb]
        simp only [Spec.sample, hbelow, if_true]
        rw [← hA, hva]
        have hidx : ((sN : Int) + (i : Int)) * (b.spf : Int) / (a.spf : Int) = (((sN + i) * b.spf / a.spf : Nat) : Int) := by
          have := int_nat_div (sN + i) b.spf a.spf
          push_cast at this ⊢; exact this
        rw [hidx, hsb]
  | map3 g a b c iha ihb ihc =>
    intro hwf s n hal
    simp only [Fld.WF, Bool.and_eq_true] at hwf
    simp only [Aligned, Bool.and_eq_true, decide_eq_true_eq] at hal
    obtain ⟨⟨⟨⟨⟨hs0, hmod2⟩, hmod3⟩, hala⟩, halb⟩, halc⟩ := hal
    obtain ⟨sN, rfl⟩ := Int.eq_ofNat_of_zero_le hs0
    have h1 := Fld.spf_pos a hwf.1.1
    have h2 := Fld.spf_pos b hwf.1.2
    have h3 := Fld.spf_pos c hwf.2
    have hmodN2 : (sN * b.spf) % a.spf = 0 := by
      have : ((sN * b.spf % a.spf : Nat) : Int) = 0 := by push_cast; exact hmod2
      exact_mod_cast this
    have hmodN3 : (sN * c.spf) % a.spf = 0 := by
      have : ((sN * c.spf % a.spf : Nat) : Int) = 0 := by push_cast; exact hmod3
      exact_mod_cast this
    rw [int_nat_div] at halb halc
    obtain ⟨hAlen, hAget⟩ := iha hwf.1.1 (sN : Int) n hala
    have IHb := ihb hwf.1.2 _ (ceilDiv (count (Spec.eof a) sN n * b.spf) a.spf) halb
    have key2 := secondary_ok junk b a.spf b.spf sN (count (Spec.eof a) sN n) h1 h2 hmodN2 IHb
    simp only at key2
    obtain ⟨knr2, kget2⟩ := key2
    have hcnt2 := count_eofMin (Spec.eof a) (Spec.eof b) a.spf b.spf (sN : Int) n
    -- n1' : the count after the second field
    generalize hn1' : (if (Impl.read junk b ((sN * b.spf / a.spf : Nat) : Int)
          (ceilDiv (count (Spec.eof a) (sN : Int) n * b.spf) a.spf)).length * a.spf
          < count (Spec.eof a) (sN : Int) n * b.spf
        then (Impl.read junk b ((sN * b.spf / a.spf : Nat) : Int)
          (ceilDiv (count (Spec.eof a) (sN : Int) n * b.spf) a.spf)).length * a.spf / b.spf
        else count (Spec.eof a) (sN : Int) n) = n1' at knr2 kget2
    have hn1'c : n1' = count (Spec.eofMin (Spec.eof a) (Spec.eof b) a.spf b.spf) (sN : Int) n := by
      rw [hcnt2, knr2]
    have IHc := ihc hwf.2 _ (ceilDiv (n1' * c.spf) a.spf) halc
    have key3 := secondary_ok junk c a.spf c.spf sN n1' h1 h3 hmodN3 IHc
    simp only at key3
    obtain ⟨knr3, kget3⟩ := key3
    have hcnt3 := count_eofMin (Spec.eofMin (Spec.eof a) (Spec.eof b) a.spf b.spf) (Spec.eof c)
      a.spf c.spf (sN : Int) n
    rw [← hn1'c] at hcnt3
    have heof : Spec.eof (.map3 g a b c) =
      Spec.eofMin (Spec.eofMin (Spec.eof a) (Spec.eof b) a.spf b.spf) (Spec.eof c) a.spf c.spf := rfl
    unfold ReadOK
    rw [read_map3_unfold]
    simp only
    rw [firstSamp2_nat, firstSamp2_nat, hAlen, hn1', heof, hcnt3]
    by_cases hn1 : count (Spec.eof a) (sN : Int) n = 0
    · have hz : n1' = 0 := by
        rw [knr2]; cases Spec.eof b <;> simp [hn1]
      rw [if_pos hn1]
      refine ⟨?_, ?_⟩
      · cases Spec.eof c <;> simp [hz]
      · intro i hi; exfalso
        cases hec : Spec.eof c <;> rw [hec] at hi <;> simp [hz] at hi
    · rw [if_neg hn1]
      by_cases hB0 : (Impl.read junk b ((sN * b.spf / a.spf : Nat) : Int)
          (ceilDiv (count (Spec.eof a) (sN : Int) n * b.spf) a.spf)).length = 0
      · have hz : n1' = 0 := by
          rw [← hn1', hB0]
          have : 0 < count (Spec.eof a) (sN : Int) n * b.spf :=
            Nat.mul_pos (Nat.pos_of_ne_zero hn1) h2
          rw [Nat.zero_mul, if_pos this, Nat.zero_div]
        rw [if_pos hB0]
        refine ⟨?_, ?_⟩
        · cases Spec.eof c <;> simp [hz]
        · intro i hi; exfalso
          cases hec : Spec.eof c <;> rw [hec] at hi <;> simp [hz] at hi
      · rw [if_neg hB0]
        by_cases hC0 : (Impl.read junk c ((sN * c.spf / a.spf : Nat) : Int)
            (ceilDiv (n1' * c.spf) a.spf)).length = 0
        · rw [if_pos hC0]
          have hz : (match Spec.eof c with
              | none => n1'
              | some ec => min n1' (ec * a.spf / c.spf - (sN : Int)).toNat) = 0 := by
            rw [← knr3, hC0]
            by_cases hn : n1' = 0
            · simp [hn]
            · have : 0 < n1' * c.spf := Nat.mul_pos (Nat.pos_of_ne_zero hn) h3
              rw [Nat.zero_mul, if_pos this, Nat.zero_div]
          refine ⟨?_, ?_⟩
          · rw [hz]; rfl
          · intro i hi; exfalso; rw [hz] at hi; omega
        · rw [if_neg hC0]
          refine ⟨?_, ?_⟩
          · rw [kernel3_length, knr3]
          · intro i hi
            rw [← knr3] at hi
            rw [kernel3_get _ _ _ _ _ _ _ _ _ _ hi]
            have hi1 : i < n1' := by
              rw [knr3] at hi
              cases hec : Spec.eof c <;> rw [hec] at hi <;> simp only at hi <;> omega
            have hia : i < count (Spec.eof a) (sN : Int) n := by
              rw [knr2] at hi1
              cases heb : Spec.eof b <;> rw [heb] at hi1 <;> simp only at hi1 <;> omega
            have hA := hAget i hia
            obtain ⟨vb, hvb, hsb⟩ := kget2 i hi1
            obtain ⟨vc, hvc, hsc⟩ := kget3 i hi
            have hbelow : Spec.below (Spec.eof (.map3 g a b c)) ((sN : Int) + i) = true := by
              apply below_of_lt_count _ _ n
              rw [heof, hcnt3, ← knr3]; exact hi
            have hAs : ∃ va, (Impl.read junk a (sN : Int) n)[i]? = some va := by
              have : i < (Impl.read junk a (sN : Int) n).length := by rw [hAlen]; exact hia
              exact ⟨_, List.getElem?_eq_getElem this⟩
            obtain ⟨va, hva⟩ := hAs
            rw [getD_of_getElem? hva, getD_of_getElem? hvb, getD_of_getElem? hvc]
            simp only [Spec.sample, hbelow, if_true]
            rw [← hA, hva]
            have hidx2 : ((sN : Int) + (i : Int)) * (b.spf : Int) / (a.spf : Int) = (((sN + i) * b.spf / a.spf : Nat) : Int) := by
              have := int_nat_div (sN + i) b.spf a.spf
              push_cast at this ⊢; exact this
            have hidx3 : ((sN : Int) + (i : Int)) * (c.spf : Int) / (a.spf : Int) = (((sN + i) * c.spf / a.spf : Nat) : Int) := by
              have := int_nat_div (sN + i) c.spf a.spf
              push_cast at this ⊢; exact this
            rw [hidx2, hidx3, hsb, hsc]

end GdModel.Field
