/-
  GdModel.Flow.IR — structured control flow of the C functions that touch
  `D->recurse_level`, with a verified checker that every execution leaves the
  counter where it found it.

  The extractor (extract/x4_rlflow.py, clang AST) emits one `Stmt` per
  function; conditions are abstracted to nondeterministic choice, so the
  checker covers every path the C code could take (and possibly more — it can
  only raise false alarms, never miss a path).
-/
namespace GdModel.Flow

inductive Stmt where
  | skip
  | inc                       -- ++D->recurse_level
  | dec                       -- D->recurse_level--
  | ret                       -- return
  | brk                       -- break
  | cont                      -- continue
  | seq (a b : Stmt)
  | choice (a b : Stmt)       -- if/else, ?:, short-circuit, switch entry
  | sw (body : Stmt)          -- switch: `brk` inside ends it normally
  | loop (body : Stmt)        -- while/for/do: any number of iterations
  deriving Repr, DecidableEq

inductive Kind where
  | normal | returned | broke | continued
  deriving Repr, DecidableEq

/-- concrete big-step semantics: executing `s` with counter `v` can end in
    outcome kind `k` with counter `v'` -/
inductive Exec : Stmt → Int → Kind → Int → Prop where
  | skip (v) : Exec .skip v .normal v
  | inc (v) : Exec .inc v .normal (v + 1)
  | dec (v) : Exec .dec v .normal (v - 1)
  | ret (v) : Exec .ret v .returned v
  | brk (v) : Exec .brk v .broke v
  | cont (v) : Exec .cont v .continued v
  | seqN {a b v v1 k v2} : Exec a v .normal v1 → Exec b v1 k v2 → Exec (.seq a b) v k v2
  | seqX {a b v k v1} : Exec a v k v1 → k ≠ .normal → Exec (.seq a b) v k v1
  | choiceL {a b v k v1} : Exec a v k v1 → Exec (.choice a b) v k v1
  | choiceR {a b v k v1} : Exec b v k v1 → Exec (.choice a b) v k v1
  | swB {s v v1} : Exec s v .broke v1 → Exec (.sw s) v .normal v1
  | swO {s v k v1} : Exec s v k v1 → k ≠ .broke → Exec (.sw s) v k v1
  | loop0 {s v} : Exec (.loop s) v .normal v
  | loopN {s v v1 k v2} : Exec s v .normal v1 → Exec (.loop s) v1 k v2 → Exec (.loop s) v k v2
  | loopC {s v v1 k v2} : Exec s v .continued v1 → Exec (.loop s) v1 k v2 → Exec (.loop s) v k v2
  | loopB {s v v1} : Exec s v .broke v1 → Exec (.loop s) v .normal v1
  | loopR {s v v1} : Exec s v .returned v1 → Exec (.loop s) v .returned v1

/-- outcomes of `a; b` from the outcomes of `a`: normal completions continue into `b` -/
def seqFold (runb : Int → Option (List (Kind × Int))) (ra : List (Kind × Int)) :
    Option (List (Kind × Int)) :=
  ra.foldr (fun (kv : Kind × Int) acc =>
    match acc with
    | none => none
    | some l =>
      if kv.1 = .normal then
        match runb kv.2 with
        | none => none
        | some rb => some (rb ++ l)
      else some (kv :: l)) (some [])

/-- outcomes of a loop from the outcomes of one pass of its body: every way of
    going round again must leave the counter unchanged, otherwise the checker
    refuses (`none`) -/
def loopRes (v : Int) (r : List (Kind × Int)) : Option (List (Kind × Int)) :=
  if r.all (fun kv => decide ((kv.1 = .normal ∨ kv.1 = .continued) → kv.2 = v)) = true then
    some ((.normal, v) ::
      r.filterMap fun kv =>
        if kv.1 = .broke then some (.normal, kv.2)
        else if kv.1 = .returned then some kv else none)
  else none

def swRes (r : List (Kind × Int)) : List (Kind × Int) :=
  r.map fun kv => if kv.1 = .broke then (.normal, kv.2) else kv

/-- checker: the set of possible outcomes (kind, counter), or `none` when a
    loop body is not counter-neutral (the checker then refuses the function) -/
def run : Stmt → Int → Option (List (Kind × Int))
  | .skip, v => some [(.normal, v)]
  | .inc, v => some [(.normal, v + 1)]
  | .dec, v => some [(.normal, v - 1)]
  | .ret, v => some [(.returned, v)]
  | .brk, v => some [(.broke, v)]
  | .cont, v => some [(.continued, v)]
  | .seq a b, v =>
      match run a v with
      | none => none
      | some ra => seqFold (run b) ra
  | .choice a b, v =>
      match run a v, run b v with
      | some ra, some rb => some (ra ++ rb)
      | _, _ => none
  | .sw s, v =>
      match run s v with
      | none => none
      | some r => some (swRes r)
  | .loop s, v =>
      match run s v with
      | none => none
      | some r => loopRes v r

/-- a function body is balanced when, entered with the counter at `v`, every
    way out (return or falling off the end) has the counter at `v` again -/
def balancedAt (s : Stmt) (v : Int) : Bool :=
  match run s v with
  | none => false
  | some r => r.all fun kv => (kv.1 = .returned ∨ kv.1 = .normal) && kv.2 = v

end GdModel.Flow
