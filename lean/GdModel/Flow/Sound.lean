/-
  Soundness of the flow checker: every concrete execution's outcome is among
  the outcomes the checker computed; hence a function the checker accepts
  returns with the recursion counter exactly where it was on entry.
-/
import GdModel.Flow.IR

namespace GdModel.Flow

theorem run_seq (a b : Stmt) (v : Int) :
    run (.seq a b) v = match run a v with | none => none | some ra => seqFold (run b) ra := by
  simp only [run]
  cases run a v <;> rfl

theorem seqFold_cons (runb : Int → Option (List (Kind × Int))) (hd : Kind × Int) (tl : List (Kind × Int)) :
    seqFold runb (hd :: tl) =
      match seqFold runb tl with
      | none => none
      | some l =>
        if hd.1 = .normal then
          match runb hd.2 with
          | none => none
          | some rb => some (rb ++ l)
        else some (hd :: l) := rfl

theorem seqFold_spec (runb : Int → Option (List (Kind × Int))) :
    ∀ (ra : List (Kind × Int)) (l : List (Kind × Int)), seqFold runb ra = some l →
      ∀ kv ∈ ra, (kv.1 = .normal → ∃ rb, runb kv.2 = some rb ∧ ∀ x ∈ rb, x ∈ l) ∧
                 (kv.1 ≠ .normal → kv ∈ l) := by
  intro ra
  induction ra with
  | nil => intro l _ kv hkv; cases hkv
  | cons hd tl ih =>
    intro l hl kv hkv
    rw [seqFold_cons] at hl
    cases htl : seqFold runb tl with
    | none => rw [htl] at hl; cases hl
    | some l' =>
      rw [htl] at hl
      simp only at hl
      have ih' := ih l' htl
      by_cases hn : hd.1 = .normal
      · rw [if_pos hn] at hl
        cases hrb : runb hd.2 with
        | none => rw [hrb] at hl; cases hl
        | some rb =>
          rw [hrb] at hl
          injection hl with hl
          subst hl
          rcases List.mem_cons.mp hkv with rfl | hmem
          · exact ⟨fun _ => ⟨rb, hrb, fun x hx => List.mem_append_left _ hx⟩, fun h => absurd hn h⟩
          · obtain ⟨h1, h2⟩ := ih' kv hmem
            refine ⟨fun h => ?_, fun h => List.mem_append_right _ (h2 h)⟩
            obtain ⟨rb', hr, hsub⟩ := h1 h
            exact ⟨rb', hr, fun x hx => List.mem_append_right _ (hsub x hx)⟩
      · rw [if_neg hn] at hl
        injection hl with hl
        subst hl
        rcases List.mem_cons.mp hkv with rfl | hmem
        · exact ⟨fun h => absurd h hn, fun _ => List.mem_cons_self ..⟩
        · obtain ⟨h1, h2⟩ := ih' kv hmem
          refine ⟨fun h => ?_, fun h => List.mem_cons_of_mem _ (h2 h)⟩
          obtain ⟨rb', hr, hsub⟩ := h1 h
          exact ⟨rb', hr, fun x hx => List.mem_cons_of_mem _ (hsub x hx)⟩

/-- **Soundness**: whatever the concrete execution does, the checker listed it. -/
theorem run_sound {s : Stmt} {v : Int} {k : Kind} {v' : Int} (h : Exec s v k v') :
    ∀ r, run s v = some r → (k, v') ∈ r := by
  induction h with
  | skip v => intro r hr; simp [run] at hr; subst hr; simp
  | inc v => intro r hr; simp [run] at hr; subst hr; simp
  | dec v => intro r hr; simp [run] at hr; subst hr; simp
  | ret v => intro r hr; simp [run] at hr; subst hr; simp
  | brk v => intro r hr; simp [run] at hr; subst hr; simp
  | cont v => intro r hr; simp [run] at hr; subst hr; simp
  | @seqN a b v v1 k v2 _ _ iha ihb =>
    intro r hr
    rw [run_seq] at hr
    cases hra : run a v with
    | none => rw [hra] at hr; cases hr
    | some ra =>
      rw [hra] at hr
      obtain ⟨h1, _⟩ := seqFold_spec (run b) ra r hr (.normal, v1) (iha ra hra)
      obtain ⟨rb, hrb, hsub⟩ := h1 rfl
      exact hsub _ (ihb rb hrb)
  | @seqX a b v k v1 _ hk iha =>
    intro r hr
    rw [run_seq] at hr
    cases hra : run a v with
    | none => rw [hra] at hr; cases hr
    | some ra =>
      rw [hra] at hr
      exact (seqFold_spec (run b) ra r hr (k, v1) (iha ra hra)).2 hk
  | @choiceL a b v k v1 _ iha =>
    intro r hr
    simp only [run] at hr
    cases hra : run a v with
    | none => rw [hra] at hr; cases hr
    | some ra =>
      cases hrb : run b v with
      | none => rw [hra, hrb] at hr; cases hr
      | some rb =>
        rw [hra, hrb] at hr; injection hr with hr; subst hr
        exact List.mem_append_left _ (iha ra hra)
  | @choiceR a b v k v1 _ ihb =>
    intro r hr
    simp only [run] at hr
    cases hra : run a v with
    | none => rw [hra] at hr; cases hr
    | some ra =>
      cases hrb : run b v with
      | none => rw [hra, hrb] at hr; cases hr
      | some rb =>
        rw [hra, hrb] at hr; injection hr with hr; subst hr
        exact List.mem_append_right _ (ihb rb hrb)
  | @swB s v v1 _ ih =>
    intro r hr
    simp only [run] at hr
    cases hrs : run s v with
    | none => rw [hrs] at hr; cases hr
    | some rs =>
      simp only [hrs] at hr; injection hr with hr; subst hr
      exact List.mem_map.mpr ⟨(.broke, v1), ih rs hrs, by simp⟩
  | @swO s v k v1 _ hk ih =>
    intro r hr
    simp only [run] at hr
    cases hrs : run s v with
    | none => rw [hrs] at hr; cases hr
    | some rs =>
      simp only [hrs] at hr; injection hr with hr; subst hr
      exact List.mem_map.mpr ⟨(k, v1), ih rs hrs, by simp [hk]⟩
  | @loop0 s v =>
    intro r hr
    simp only [run] at hr
    cases hrs : run s v with
    | none => rw [hrs] at hr; cases hr
    | some rs =>
      simp only [hrs, loopRes] at hr
      split at hr
      · injection hr with hr; subst hr; exact List.mem_cons_self ..
      · cases hr
  | @loopN s v v1 k v2 _ _ ih1 ih2 =>
    intro r hr
    have hr0 := hr
    simp only [run] at hr
    cases hrs : run s v with
    | none => rw [hrs] at hr; cases hr
    | some rs =>
      simp only [hrs, loopRes] at hr
      split at hr
      · rename_i hall
        have hmem := ih1 rs hrs
        have := List.all_eq_true.mp hall (Kind.normal, v1) hmem
        have hv : v1 = v := by simpa using this
        subst hv
        exact ih2 r hr0
      · cases hr
  | @loopC s v v1 k v2 _ _ ih1 ih2 =>
    intro r hr
    have hr0 := hr
    simp only [run] at hr
    cases hrs : run s v with
    | none => rw [hrs] at hr; cases hr
    | some rs =>
      simp only [hrs, loopRes] at hr
      split at hr
      · rename_i hall
        have hmem := ih1 rs hrs
        have := List.all_eq_true.mp hall (Kind.continued, v1) hmem
        have hv : v1 = v := by simpa using this
        subst hv
        exact ih2 r hr0
      · cases hr
  | @loopB s v v1 _ ih =>
    intro r hr
    simp only [run] at hr
    cases hrs : run s v with
    | none => rw [hrs] at hr; cases hr
    | some rs =>
      simp only [hrs, loopRes] at hr
      split at hr
      · injection hr with hr; subst hr
        apply List.mem_cons_of_mem
        exact List.mem_filterMap.mpr ⟨(.broke, v1), ih rs hrs, by simp⟩
      · cases hr
  | @loopR s v v1 _ ih =>
    intro r hr
    simp only [run] at hr
    cases hrs : run s v with
    | none => rw [hrs] at hr; cases hr
    | some rs =>
      simp only [hrs, loopRes] at hr
      split at hr
      · injection hr with hr; subst hr
        apply List.mem_cons_of_mem
        exact List.mem_filterMap.mpr ⟨(.returned, v1), ih rs hrs, by simp⟩
      · cases hr

/-- the concrete semantics does not depend on the absolute counter value -/
theorem exec_shift {s : Stmt} {v : Int} {k : Kind} {v' : Int} (h : Exec s v k v') (d : Int) :
    Exec s (v + d) k (v' + d) := by
  induction h with
  | skip v => exact .skip _
  | inc v => have := Exec.inc (v + d); rwa [show v + d + 1 = v + 1 + d by omega] at this
  | dec v => have := Exec.dec (v + d); rwa [show v + d - 1 = v - 1 + d by omega] at this
  | ret v => exact .ret _
  | brk v => exact .brk _
  | cont v => exact .cont _
  | seqN _ _ iha ihb => exact .seqN iha ihb
  | seqX _ hk iha => exact .seqX iha hk
  | choiceL _ iha => exact .choiceL iha
  | choiceR _ ihb => exact .choiceR ihb
  | swB _ ih => exact .swB ih
  | swO _ hk ih => exact .swO ih hk
  | loop0 => exact .loop0
  | loopN _ _ ih1 ih2 => exact .loopN ih1 ih2
  | loopC _ _ ih1 ih2 => exact .loopC ih1 ih2
  | loopB _ ih => exact .loopB ih
  | loopR _ ih => exact .loopR ih

/-- **A function the checker accepts is balanced on every call**: entered with
    the counter at any value `v`, every execution that leaves the body — by
    `return` or by falling off the end — leaves it at `v`; and no `break` or
    `continue` escapes the body. -/
theorem balanced_sound (s : Stmt) (hb : balancedAt s 0 = true) (v : Int) (k : Kind) (v' : Int)
    (h : Exec s v k v') : v' = v ∧ (k = .returned ∨ k = .normal) := by
  have h0 := exec_shift h (-v)
  rw [show v + -v = 0 by omega] at h0
  unfold balancedAt at hb
  cases hr : run s 0 with
  | none => rw [hr] at hb; cases hb
  | some r =>
    rw [hr] at hb
    have hmem := run_sound h0 r hr
    have := List.all_eq_true.mp hb _ hmem
    simp only [Bool.and_eq_true, decide_eq_true_eq] at this
    exact ⟨by omega, by simpa using this.1⟩

end GdModel.Flow
