/-
  GdModel.Guard.Model — the access-control rule of the library as a decision
  procedure over an abstract dirfile: a handle is read-only or read-write;
  every fragment has a protection level (none / format / data / all); a
  mutating call names the fragments whose metadata it would write and the
  fragments whose RAW data files it would write (its own fragment, and also
  others: the destination of a move, the parent holding an /INCLUDE line, the
  fragment of the RAW field a derived field writes through).  The call is
  carried out only if the handle is read-write and no touched fragment is
  protected in the corresponding way; otherwise it fails with GD_E_ACCMODE or
  GD_E_PROTECTED and changes nothing.  Core Lean only.
-/
namespace GdModel.Guard

inductive Prot where
  | none | format | data | all
  deriving DecidableEq, Repr

def Prot.fmt : Prot → Bool
  | .format | .all => true
  | _ => false
def Prot.dat : Prot → Bool
  | .data | .all => true
  | _ => false

/-- per fragment: protection, a metadata version and a data version (bumped when written) -/
structure Frag where
  prot : Prot
  mver : Nat
  dver : Nat
  deriving DecidableEq, Repr

structure State where
  rdonly : Bool
  frags : List Frag
  deriving DecidableEq, Repr

/-- a mutating call: fragments whose metadata / data it writes -/
structure Call where
  metaFrags : List Nat
  dataFrags : List Nat
  deriving Repr

inductive Err where
  | accmode | protected_
  deriving DecidableEq, Repr

def blocked (s : State) (c : Call) : Bool :=
  c.metaFrags.any (fun i => match s.frags[i]? with | some f => f.prot.fmt | none => false) ||
  c.dataFrags.any (fun i => match s.frags[i]? with | some f => f.prot.dat | none => false)

def bump (frags : List Frag) (c : Call) : List Frag :=
  (List.range frags.length).zipWith (fun i f =>
    { f with mver := if c.metaFrags.contains i then f.mver + 1 else f.mver,
             dver := if c.dataFrags.contains i then f.dver + 1 else f.dver }) frags

def step (s : State) (c : Call) : State × Option Err :=
  if s.rdonly then (s, some .accmode)
  else if blocked s c then (s, some .protected_)
  else ({ s with frags := bump s.frags c }, none)

def run (s : State) (cs : List Call) : State := cs.foldl (fun st c => (step st c).1) s

end GdModel.Guard
