/-
  Models for property C05 (hostile input): the pieces of index and recursion
  arithmetic the C relies on for memory safety and termination.

  * `getIndex` : `_GD_GetIndex` (src/common.c), the LINTERP table search, with
    the outcome of every floating-point comparison left arbitrary (NaNs,
    unsorted tables);
  * `Graph`/`eval` : the recursion counter of `_GD_DoField`
    (`++D->recurse_level >= GD_MAX_RECURSE_LEVEL`, src/getdata.c) over an
    arbitrary, possibly cyclic, graph of field definitions.
-/
namespace GdModel.Hostile

/-! ### _GD_GetIndex -/

/-- `while ((idx < n - 2) && (x > lut[idx].x)) idx++;` — `gt i` is the outcome of `x > lut[i].x` -/
def incLoop (gt : Nat → Bool) (n : Nat) : Nat → Nat → Nat
  | 0, idx => idx
  | fuel + 1, idx => if idx < n - 2 ∧ gt idx then incLoop gt n fuel (idx + 1) else idx

/-- `while ((idx > 0) && (x < lut[idx].x)) idx--;` -/
def decLoop (lt : Nat → Bool) : Nat → Nat → Nat
  | 0, idx => idx
  | fuel + 1, idx => if idx > 0 ∧ lt idx then decLoop lt fuel (idx - 1) else idx

/-- `_GD_GetIndex(x, lut, idx, n)`; the loops run at most `n` times each -/
def getIndex (gt lt : Nat → Bool) (n idx : Nat) : Nat :=
  decLoop lt n (incLoop gt n n idx)

/-! ### the recursion counter over a graph of definitions -/

/-- field `i` is defined in terms of the fields `g[i]` (indices; out of range = missing field) -/
abbrev Graph := List (List Nat)

inductive Res where
  | ok
  | recurse        -- GD_E_RECURSE_LEVEL
  | badCode        -- an input that does not exist
  deriving DecidableEq, Repr

def maxRecurse : Nat := 32

/-- `_GD_DoField` entered with `D->recurse_level = 32 - budget`: the counter is
    incremented and tested first, then every input is evaluated in order,
    stopping at the first error. -/
def eval (g : Graph) : Nat → Nat → Res
  | 0, _ => .recurse
  | 1, _ => .recurse                       -- ++recurse_level >= GD_MAX_RECURSE_LEVEL
  | budget + 1, i =>
    match g[i]? with
    | none => .badCode
    | some ins => ins.foldl (fun r j => if r = .ok then eval g budget j else r) .ok

/-- a public call starts with the counter at zero -/
def evalTop (g : Graph) (i : Nat) : Res := eval g maxRecurse i

/-- a chain f(n-1) -> ... -> f0 -> leaf, as `f_k PHASE f_(k-1) 0` over a RAW field -/
def chain (n : Nat) : Graph := [] :: (List.range n).map fun k => [k]

end GdModel.Hostile
