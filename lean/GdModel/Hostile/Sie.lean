/-
  The record cursor of the sample-index encoding on untrusted indices
  (src/sie.c `_GD_SampIndRead`, `_GD_Advance`), property C05.

  A record holds the number of the last sample it covers.  The reader keeps
  `p` (current sample), `s` (last sample of the current record) and `count`
  (samples delivered so far).  All three are int64 in the C; here they are
  integers, and the invariant proved below bounds every value the C computes,
  so none of its subtractions and additions can overflow — *provided* every
  index read from the file lies in [-1, 2^63-2], which is what the repaired
  `_GD_Advance` enforces (any other value is now an I/O error).
-/
namespace GdModel.Hostile.Sie

structure Cur where
  p : Int
  s : Int
  count : Int
  deriving Repr, DecidableEq

def maxI : Int := 2 ^ 63 - 1

/-- an index the repaired `_GD_Advance` accepts -/
def ValidIdx (r : Int) : Prop := -1 ≤ r ∧ r ≤ maxI - 1

/-- the `while (f->s - f->p < nelem - count)` loop of `_GD_SampIndRead`; the
    list holds the indices of the records still in the file -/
def readLoop (nelem : Int) : List Int → Cur → Cur
  | recs, c =>
    if c.s - c.p < nelem - c.count then
      let have_ := if c.p > c.s then 0 else c.s - c.p + 1
      let c1 := { c with count := c.count + have_ }
      match recs with
      | [] => { c1 with p := c1.s + 1 }                       -- _GD_Advance: end of file
      | r :: rest => readLoop nelem rest { c1 with p := c1.s + 1, s := r }
    else c

/-- "copy the remnant" -/
def finish (nelem : Int) (c : Cur) : Cur :=
  if c.s - c.p ≥ nelem - c.count then { c with p := c.p + (nelem - c.count), count := nelem }
  else if c.p ≤ c.s then { c with count := c.count + (c.s - c.p + 1), p := c.s + 1 }
  else c

def read (nelem : Int) (recs : List Int) (c : Cur) : Cur := finish nelem (readLoop nelem recs c)

/-- every quantity the C code forms from the cursor fits in an int64 -/
structure Inv (nelem : Int) (c : Cur) : Prop where
  p0 : 0 ≤ c.p
  pM : c.p ≤ maxI
  s0 : -1 ≤ c.s
  sM : c.s ≤ maxI - 1
  c0 : 0 ≤ c.count
  cM : c.count ≤ nelem

/-- the differences and sums computed in one iteration stay inside int64 -/
theorem inv_fits (nelem : Int) (c : Cur) (h : Inv nelem c) (hn : nelem ≤ 2 ^ 62) :
    -2 ^ 63 ≤ c.s - c.p ∧ c.s - c.p < 2 ^ 63 ∧ c.s + 1 ≤ maxI ∧ 0 ≤ nelem - c.count ∧
    (c.p ≤ c.s → c.s - c.p + 1 < 2 ^ 63) := by
  obtain ⟨a, b, c', d, e, f⟩ := h
  unfold maxI at *
  refine ⟨by omega, by omega, by omega, by omega, fun _ => by omega⟩

theorem readLoop_inv (nelem : Int) (recs : List Int) (c : Cur) (hv : ∀ r ∈ recs, ValidIdx r)
    (h : Inv nelem c) : Inv nelem (readLoop nelem recs c) := by
  induction recs generalizing c with
  | nil =>
    unfold readLoop
    obtain ⟨a, b, c', d, e, f⟩ := h
    split
    · rename_i hlt
      unfold maxI at *
      constructor <;> simp only [maxI] <;> (try split) <;> omega
    · exact ⟨a, b, c', d, e, f⟩
  | cons r rest ih =>
    unfold readLoop
    obtain ⟨a, b, c', d, e, f⟩ := h
    split
    · rename_i hlt
      have hr := hv r List.mem_cons_self
      apply ih _ (fun x hx => hv x (List.mem_cons_of_mem _ hx))
      unfold ValidIdx maxI at *
      constructor <;> simp only [maxI] <;> (try split) <;> omega
    · exact ⟨a, b, c', d, e, f⟩

/-- **The reader never delivers more than was asked for**, and its cursor stays
    inside int64, for every file whose indices pass the check in `_GD_Advance`
    — in any order, repeated, decreasing. -/
theorem read_count_bounded (nelem : Int) (recs : List Int) (c : Cur) (hn0 : 0 ≤ nelem)
    (hv : ∀ r ∈ recs, ValidIdx r) (h : Inv nelem c) :
    0 ≤ (read nelem recs c).count ∧ (read nelem recs c).count ≤ nelem ∧ 0 ≤ (read nelem recs c).p := by
  have hi := readLoop_inv nelem recs c hv h
  unfold read finish
  obtain ⟨a, b, c', d, e, f⟩ := hi
  split
  · simp only; omega
  · split
    · simp only; omega
    · omega

/-- a freshly opened file: before the first record, nothing delivered -/
theorem init_inv (nelem : Int) (hn : 0 ≤ nelem) : Inv nelem ⟨0, -1, 0⟩ := by
  constructor <;> simp [maxI] <;> omega

/-- Without the check the invariant is lost at once: the index -2^63+1 (accepted
    by the unrepaired code) makes the next `p` negative, and the following
    `s - p` no longer fits in an int64 — the overflow behind the crash found by
    the hostile-file run. -/
example : ¬ Inv 4 (readLoop 4 [-2 ^ 63 + 1, 5] ⟨0, 0, 0⟩) := by
  intro h
  have := h.p0
  revert this
  decide

example : (read 4 [0, 3, 9] ⟨0, -1, 0⟩).count = 4 := by decide

end GdModel.Hostile.Sie
