/-
  GdModel.Index.Model — the look-up behind gd_framenum_subset (src/index.c
  `_GD_GetIndex`, `_GD_Extrapolate`), statement for statement, over an
  abstract sample type: `get i` is what `_GD_DoField(D, E, repr, i, 1, …)`
  delivers (`none` = no sample there), `lt`/`eq` are C's `<` and `==` on
  doubles.  The result is returned symbolically (which samples enter the final
  quotient), so that the same definition serves the theorems (over `Int`
  data, exact) and the driver (over `Float`, in the C operation order).
  Core Lean only.
-/
namespace GdModel.Index

inductive Out (α : Type) where
  /-- `sample = (double)c` -/
  | hit (c : Int)
  /-- `sample = low + (value - low_v) / (high_v - low_v)` -/
  | interp (low : Int) (lowV highV : α)
  /-- `sample = limit + (value - data[eof]) / (data[1] - data[0])`, data read at `limit - eof` -/
  | extrap (limit : Int) (eof : Bool) (d0 d1 : α)
  | errDomain
  | errRange
  /-- the search did not finish within the fuel (shown impossible in Props/C19) -/
  | fuel
  deriving Repr, DecidableEq

section
variable {α : Type} (lt : α → α → Bool) (eq : α → α → Bool) (get : Int → Option α) (value : α)

/-- `(!dir && a > b) || (dir && a < b)`: `a` lies beyond `b` in the direction of the field -/
def beyond (dir : Bool) (a b : α) : Bool := (!dir && lt b a) || (dir && lt a b)
/-- `(!dir && a < b) || (dir && a > b)` -/
def short (dir : Bool) (a b : α) : Bool := (!dir && lt a b) || (dir && lt b a)

/-- `_GD_Extrapolate(…, limit, eof)` -/
def extrapolate (limit : Int) (eof : Bool) : Out α :=
  let s := if eof then limit - 1 else limit
  match get s, get (s + 1) with
  | some d0, some d1 => .extrap limit eof d0 d1
  | _, _ => .errDomain

/-- step 2: `for (; high - low > 1;)` -/
def bisect (dir : Bool) : Nat → Int → Int → α → α → Out α
  | 0, _, _, _, _ => .fuel
  | fuel + 1, low, high, lowV, highV =>
    if high - low > 1 then
      let c := (high + low) / 2
      match get c with
      | none => .errDomain
      | some cv =>
        if beyond lt dir cv value then bisect dir fuel low c lowV cv
        else if short lt dir cv value then bisect dir fuel c high cv highV
        else .hit c
    else .interp low lowV highV

/-- step 1 when the sample at `field_end - 1` does not exist: look for the end
    of the field and for a bracket at the same time -/
def search (fieldStart : Int) (fieldStartV : α) : Nat → Option Bool → Int → Int → α → Out α
  | 0, _, _, _, _ => .fuel
  | fuel + 1, dir, low, high, lowV =>
    if high - low ≤ 1 then
      if low = fieldStart then .errDomain
      else if dir = none then .errRange
      else extrapolate get low true
    else
      let c := (high + low) / 2
      match get c with
      | none =>
        if c - low = 1 then
          if low = fieldStart then .errDomain
          else if dir = none then .errRange
          else extrapolate get low true
        else search fieldStart fieldStartV fuel dir low c lowV
      | some cv =>
        match dir with
        | some d =>
          if beyond lt d cv value then bisect lt get value d fuel low c lowV cv
          else if short lt d cv value then search fieldStart fieldStartV fuel (some d) c high cv
          else .hit c
        | none =>
          if eq cv lowV then search fieldStart fieldStartV fuel none c high lowV
          else
            let d := lt cv fieldStartV
            if beyond lt d fieldStartV value then extrapolate get low false
            else if beyond lt d cv value then bisect lt get value d fuel low c lowV cv
            else if short lt d cv value then search fieldStart fieldStartV fuel (some d) c high cv
            else .hit c

/-- `_GD_GetIndex(D, E, repr, value, field_start, field_end)` -/
def getIndex (fuel : Nat) (fieldStart fieldEnd : Int) : Out α :=
  match get fieldStart with
  | none => .errDomain
  | some lowV =>
    match get (fieldEnd - 1) with
    | some highV =>
      if eq highV lowV then .errRange
      else
        let dir := lt highV lowV
        if beyond lt dir lowV value then extrapolate get fieldStart false
        else if short lt dir highV value then extrapolate get (fieldEnd - 1) true
        else bisect lt get value dir fuel fieldStart fieldEnd lowV highV
    | none => search lt eq get value fieldStart lowV fuel none fieldStart fieldEnd lowV

/-- `gd_framenum_subset64`: limits in frames → samples; `none` = GD_E_DOMAIN (empty range) -/
def limits (spf : Int) (frameOffset nframes : Int) (startArg endArg : Int) : Option (Int × Int) :=
  let fs := if startArg = 0 then frameOffset * spf else startArg * spf
  let fe := if endArg = 0 then (nframes + 1) * spf - 1 else (endArg + 1) * spf - 1
  if fe - fs < 2 then none else some (fs, fe)

end
end GdModel.Index
