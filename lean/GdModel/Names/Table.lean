/-
  GdModel.Names.Table — the field name table of a DIRFILE (src/common.c):
  `D->entry[]` is an array of entries sorted by `_GD_strlencmp` (shorter names
  first, equal lengths by memcmp); `_GD_FindField` is a bisection that also
  reports where a missing name would have to be inserted; `_GD_InsertSort`
  inserts there.  Names are byte lists.  Core Lean only.
-/
namespace GdModel.Names

abbrev Key := List Nat

/-- memcmp on two byte strings (used on equal lengths) -/
def memcmp : Key → Key → Ordering
  | [], [] => .eq
  | [], _ :: _ => .lt
  | _ :: _, [] => .gt
  | a :: as, b :: bs => if a < b then .lt else if b < a then .gt else memcmp as bs

/-- `_GD_strlencmp` -/
def strlencmp (a b : Key) : Ordering :=
  if a.length < b.length then .lt
  else if b.length < a.length then .gt
  else memcmp a b

inductive Found where
  | at_ (i : Nat)          -- found at index i
  | missing (u : Nat)      -- not there; `*index = u` is the insertion point
  deriving Repr, DecidableEq

/-- the `while (l < u)` loop of `_GD_FindField` -/
def bisect (tab : List Key) (k : Key) : Nat → Nat → Nat → Found
  | 0, _, u => .missing u
  | fuel + 1, l, u =>
    if l < u then
      let i := (l + u) / 2
      match tab[i]? with
      | none => .missing u          -- cannot happen for u ≤ tab.length
      | some e =>
        match strlencmp k e with
        | .lt => bisect tab k fuel l i
        | .gt => bisect tab k fuel (i + 1) u
        | .eq => .at_ i
    else .missing u

def find (tab : List Key) (k : Key) : Found := bisect tab k (tab.length + 1) 0 tab.length

/-- `_GD_InsertSort(D, E, u)` -/
def insertAt (tab : List Key) (u : Nat) (k : Key) : List Key := tab.take u ++ k :: tab.drop u

/-- add a name: refused (table unchanged) when it is already there -/
def add (tab : List Key) (k : Key) : List Key × Bool :=
  match find tab k with
  | .at_ _ => (tab, false)
  | .missing u => (insertAt tab u k, true)

/-- delete a name -/
def delete (tab : List Key) (k : Key) : List Key × Bool :=
  match find tab k with
  | .at_ i => (tab.eraseIdx i, true)
  | .missing _ => (tab, false)

/-! ### re-sorting after a change of affixes (`_GD_UpdateAffixes`, src/fragment.c)

The fields of the affected fragments get new codes, then
`qsort(D->entry, D->n_entries, sizeof(gd_entry_t*), _GD_EntryCmp)` restores the
order.  The sort is modelled by ordered insertion (any comparison sort returns
the same table when the names are distinct). -/

/-- ordered insertion by `_GD_strlencmp` -/
def ins (k : Key) : List Key → List Key
  | [] => [k]
  | x :: xs => if strlencmp k x = .lt then k :: x :: xs else x :: ins k xs

/-- the table after `qsort` with `_GD_EntryCmp` -/
def resort (tab : List Key) : List Key := tab.foldr ins []

/-- `_GD_UpdateAffixes`: every name is replaced by `f` of it (the identity outside
    the affected fragments); `doSort` is whether the `qsort` is reached -/
def reaffix (tab : List Key) (f : Key → Key) (doSort : Bool) : List Key :=
  if doSort then resort (tab.map f) else tab.map f

end GdModel.Names
