/-
  GdModel.Num.Cast — C cast semantics on bit patterns (C11 6.3.1.3, 6.3.1.4,
  6.3.1.5; IEEE-754 binary32/binary64 with round-to-nearest-even).
  `ccast s d x = none` means the C standard leaves the conversion undefined
  (NaN/Inf or out-of-range float → integer).  Core Lean only, executable.
-/
import GdModel.Num.Types

namespace GdModel.Num

/-! ### integers -/

/-- Mathematical value of the bit pattern `x` read as integer type `t`. -/
def CT.toInt (t : CT) (x : Nat) : Int :=
  if t.isSigned = true ∧ 2 ^ (t.width - 1) ≤ x then (x : Int) - (2 : Int) ^ t.width else (x : Int)

/-- Bit pattern of `n` wrapped into integer type `t` (two's complement, mod 2^N). -/
def CT.ofInt (t : CT) (n : Int) : Nat := (n % (2 : Int) ^ t.width).toNat

def CT.minInt (t : CT) : Int := if t.isSigned then -(2 : Int) ^ (t.width - 1) else 0
def CT.maxInt (t : CT) : Int :=
  if t.isSigned then (2 : Int) ^ (t.width - 1) - 1 else (2 : Int) ^ t.width - 1
def CT.inRange (t : CT) (n : Int) : Bool := decide (t.minInt ≤ n) && decide (n ≤ t.maxInt)

/-! ### IEEE-754 binary formats -/

structure Fmt where
  p : Nat        -- precision, including the hidden bit
  ebits : Nat    -- exponent field width
  deriving Repr, DecidableEq

def fmt32 : Fmt := ⟨24, 8⟩
def fmt64 : Fmt := ⟨53, 11⟩

def CT.fmt : CT → Fmt
  | .f32 => fmt32
  | _ => fmt64

def Fmt.bias (f : Fmt) : Nat := 2 ^ (f.ebits - 1) - 1
def Fmt.fbits (f : Fmt) : Nat := f.p - 1
def Fmt.width (f : Fmt) : Nat := f.p + f.ebits
def Fmt.expAll (f : Fmt) : Nat := 2 ^ f.ebits - 1
/-- exponent of the least significant bit of a subnormal -/
def Fmt.qmin (f : Fmt) : Int := 1 - (f.bias : Int) - (f.fbits : Int)
def Fmt.infBits (f : Fmt) : Nat := f.expAll * 2 ^ f.fbits
def Fmt.signBit (f : Fmt) : Nat := 2 ^ (f.fbits + f.ebits)

/-- Decoded floating value: NaN, ±Inf, or ±m·2^e (zero is m = 0). -/
inductive FV where
  | nan (neg : Bool) (payload : Nat)
  | inf (neg : Bool)
  | fin (neg : Bool) (m : Nat) (e : Int)
  deriving Repr, DecidableEq

def Fmt.decode (f : Fmt) (x : Nat) : FV :=
  let frac := x % 2 ^ f.fbits
  let ex := (x / 2 ^ f.fbits) % 2 ^ f.ebits
  let s := (x / 2 ^ (f.fbits + f.ebits)) % 2 == 1
  if ex = f.expAll then (if frac = 0 then .inf s else .nan s frac)
  else if ex = 0 then .fin s frac f.qmin
  else .fin s (2 ^ f.fbits + frac) ((ex : Int) - 1 + f.qmin)

/-- Round-to-nearest-even of `m / 2^k` to an integer. -/
def rne (m k : Nat) : Nat :=
  let q := m / 2 ^ k
  let r := m % 2 ^ k
  let h := 2 ^ k / 2
  if k = 0 then m
  else if r > h ∨ (r = h ∧ q % 2 = 1) then q + 1 else q

/-- Bits of ±(m·2^e) rounded to nearest-even in format `f` (overflow → ±Inf,
    gradual underflow). -/
def Fmt.round (f : Fmt) (neg : Bool) (m : Nat) (e : Int) : Nat :=
  let sgn := if neg then f.signBit else 0
  if m = 0 then sgn
  else
    let L : Int := (Nat.log2 m : Int) + 1
    let E : Int := e + L - 1                 -- m·2^e ∈ [2^E, 2^(E+1))
    let q : Int := max (E - f.fbits) f.qmin  -- quantum exponent
    let sh : Int := q - e
    let mant : Nat := if sh ≤ 0 then m * 2 ^ (-sh).toNat else rne m sh.toNat
    let mag : Nat := (q - f.qmin).toNat * 2 ^ f.fbits + mant
    sgn + (if mag ≥ f.infBits then f.infBits else mag)

/-- Truncation toward zero of m·2^e (magnitude). -/
def truncMag (m : Nat) (e : Int) : Nat :=
  if e ≥ 0 then m * 2 ^ e.toNat else m / 2 ^ (-e).toNat

/-- Float → float conversion on bit patterns. -/
def fcast (s d : Fmt) (x : Nat) : Nat :=
  if s = d then x else
  match s.decode x with
  | .nan neg pl =>
      let pl' := if d.fbits ≥ s.fbits then pl * 2 ^ (d.fbits - s.fbits) else pl / 2 ^ (s.fbits - d.fbits)
      (if neg then d.signBit else 0) + d.infBits + (pl' ||| 2 ^ (d.fbits - 1))
  | .inf neg => (if neg then d.signBit else 0) + d.infBits
  | .fin neg m e => d.round neg m e

/-- The C cast `(d)x` for `x` of type `s`, on bit patterns.  `none` = undefined
    behaviour in C (float → integer of NaN, Inf or out-of-range integer part). -/
def ccast (s d : CT) (x : Nat) : Option Nat :=
  match s.isFloat, d.isFloat with
  | false, false => some (d.ofInt (s.toInt x))
  | false, true =>
      let n := s.toInt x
      some (d.fmt.round (decide (n < 0)) n.natAbs 0)
  | true, false =>
      match s.fmt.decode x with
      | .nan _ _ => none
      | .inf _ => none
      | .fin neg m e =>
          let t := truncMag m e
          let v : Int := if neg then -(t : Int) else (t : Int)
          if d.inRange v then some (d.ofInt v) else none
  | true, true => some (fcast s.fmt d.fmt x)

/-! ### samples (scalar or complex) -/

/-- A sample as bit patterns: real part and imaginary part (0 for real types). -/
structure Sample where
  re : Nat
  im : Nat := 0
  deriving Repr, DecidableEq, Inhabited

/-- The conversion the Standards / property C06 describe, written directly:
    component-wise C cast of the real part; real → complex gets imaginary +0;
    complex → real drops the imaginary part; complex → complex casts both. -/
def specConv (s d : Ty) (x : Sample) : Option Sample :=
  match s.isComplex, d.isComplex with
  | false, false => (ccast s.comp d.comp x.re).map (fun r => ⟨r, 0⟩)
  | false, true => (ccast s.comp d.comp x.re).map (fun r => ⟨r, 0⟩)
  | true, false => (ccast s.comp d.comp x.re).map (fun r => ⟨r, 0⟩)
  | true, true =>
      match ccast s.comp d.comp x.re, ccast s.comp d.comp x.im with
      | some r, some i => some ⟨r, i⟩
      | _, _ => none

end GdModel.Num
