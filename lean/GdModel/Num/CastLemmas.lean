/-
  Helper lemmas about C casts on bit patterns (used by Props/C06).
-/
import GdModel.Num.Chain

namespace GdModel.Num

theorem two_pow_pos_int (w : Nat) : (0 : Int) < (2 : Int) ^ w := Int.pow_pos (by decide)

theorem two_pow_cast (w : Nat) : ((2 ^ w : Nat) : Int) = (2 : Int) ^ w := by
  simp [Int.natCast_pow]

/-- An integer type's bit patterns are `< 2^width`. -/
theorem CT.ofInt_lt (t : CT) (n : Int) : t.ofInt n < 2 ^ t.width := by
  unfold CT.ofInt
  have hpos := two_pow_pos_int t.width
  have h1 := Int.emod_nonneg n (Int.ne_of_gt hpos)
  have h2 := Int.emod_lt_of_pos n hpos
  have h3 := two_pow_cast t.width
  omega

/-- Wrapping depends only on the width. -/
theorem CT.ofInt_width {t t' : CT} (h : t.width = t'.width) (n : Int) : t.ofInt n = t'.ofInt n := by
  unfold CT.ofInt; rw [h]

/-- `toInt` is congruent to the bit pattern modulo 2^N. -/
theorem CT.toInt_emod (t : CT) (x : Nat) :
    t.toInt x % (2 : Int) ^ t.width = (x : Int) % (2 : Int) ^ t.width := by
  unfold CT.toInt
  split
  · rw [Int.sub_emod, Int.emod_self, Int.sub_zero, Int.emod_emod]
  · rfl

/-- two's-complement wrap: value of the stored pattern ≡ n (mod 2^N). -/
theorem CT.toInt_ofInt_emod (t : CT) (n : Int) :
    t.toInt (t.ofInt n) % (2 : Int) ^ t.width = n % (2 : Int) ^ t.width := by
  rw [CT.toInt_emod]
  unfold CT.ofInt
  have hpos := two_pow_pos_int t.width
  rw [Int.toNat_of_nonneg (Int.emod_nonneg n (Int.ne_of_gt hpos)), Int.emod_emod]

/-- Re-wrapping after reading back through any integer type of the same width
    gives the same bits. -/
theorem CT.ofInt_toInt_ofInt {t t' : CT} (h : t'.width = t.width) (n : Int) :
    t'.ofInt (t.toInt (t.ofInt n)) = t.ofInt n := by
  have := CT.toInt_ofInt_emod t n
  unfold CT.ofInt at *
  rw [h, this]

theorem two_pow_dvd_int {a b : Nat} (h : b ≤ a) : (2 : Int) ^ b ∣ (2 : Int) ^ a := by
  have : a = b + (a - b) := by omega
  rw [this, Int.pow_add]
  exact Int.dvd_mul_right _ _

/-- Passing through a wider (or equal) integer type before a narrowing store
    does not change the bits stored. -/
theorem CT.ofInt_toInt_ofInt_le {t t' : CT} (h : t'.width ≤ t.width) (n : Int) :
    t'.ofInt (t.toInt (t.ofInt n)) = t'.ofInt n := by
  have h1 := CT.toInt_ofInt_emod t n
  have hd := two_pow_dvd_int h
  have h2 : t.toInt (t.ofInt n) % (2 : Int) ^ t'.width = n % (2 : Int) ^ t'.width := by
    rw [← Int.emod_emod_of_dvd _ hd, h1, Int.emod_emod_of_dvd _ hd]
  show ((t.toInt (t.ofInt n)) % (2 : Int) ^ t'.width).toNat = (n % (2 : Int) ^ t'.width).toNat
  rw [h2]

/-- Reading a pattern and wrapping it back is the identity on patterns in range. -/
theorem CT.ofInt_toInt (t : CT) (x : Nat) (hx : x < 2 ^ t.width) : t.ofInt (t.toInt x) = x := by
  have h := CT.toInt_emod t x
  unfold CT.ofInt
  rw [h]
  have h3 := two_pow_cast t.width
  have : ((x : Int) % (2 : Int) ^ t.width) = (x : Int) := by
    apply Int.emod_eq_of_lt <;> omega
  rw [this]; simp

/-- A value representable in `t` survives the wrap unchanged. -/
theorem CT.toInt_ofInt_of_inRange (t : CT) (hf : t.isFloat = false) (n : Int) (h : t.inRange n = true) :
    t.toInt (t.ofInt n) = n := by
  cases t <;> simp [CT.isFloat] at hf <;>
    simp [CT.inRange, CT.minInt, CT.maxInt, CT.isSigned, CT.width] at h <;>
    simp only [CT.toInt, CT.ofInt, CT.isSigned, CT.width, true_and, Bool.false_eq_true, false_and,
      if_false] <;>
    first | omega | (split <;> omega)

/-- Integer results of `ccast` are valid patterns of the destination type. -/
theorem ccast_int_lt (s d : CT) (hd : d.isFloat = false) (x r : Nat) (h : ccast s d x = some r) :
    r < 2 ^ d.width := by
  unfold ccast at h
  rw [hd] at h
  cases hs : s.isFloat <;> simp only [hs] at h
  · injection h with h; rw [← h]; exact CT.ofInt_lt d _
  · split at h
    · contradiction
    · contradiction
    · split at h <;> split at h <;> first
        | contradiction
        | (injection h with h; rw [← h]; exact CT.ofInt_lt d _)

/-- `(t)x` for `x` already of type `t` is the identity. -/
theorem ccast_self (t : CT) (x : Nat) (hx : x < 2 ^ t.width) : ccast t t x = some x := by
  unfold ccast
  cases h : t.isFloat <;> simp only
  · rw [CT.ofInt_toInt t x hx]
  · simp [fcast]

/-- Converting to an integer type and then assigning to an lvalue of any integer
    type of the same width stores the same bits as converting directly. -/
theorem cast2_int_store (l ct st : CT) (hct : ct.isFloat = false) (hst : st.isFloat = false)
    (hw : st.width = ct.width) (x : Nat) :
    cast2 l ct st x = ccast l ct x := by
  unfold cast2
  cases h : ccast l ct x with
  | none => rfl
  | some r =>
    simp only [Option.bind_some]
    have hr := ccast_int_lt l ct hct x r h
    unfold ccast
    rw [hct, hst]
    simp only
    rw [CT.ofInt_width hw, CT.ofInt_toInt ct r hr]

/-- integer source: converting to a wider-or-equal integer type and then
    assigning to the (narrower) integer lvalue wraps exactly like a direct cast. -/
theorem cast2_int_via_wider (l ct st d : CT) (hl : l.isFloat = false) (hct : ct.isFloat = false)
    (hst : st.isFloat = false) (hd : d.isFloat = false) (hw : st.width = d.width)
    (hge : d.width ≤ ct.width) (x : Nat) :
    cast2 l ct st x = ccast l d x := by
  unfold cast2 ccast
  simp only [hl, hct, hst, hd, Option.bind_some]
  rw [CT.ofInt_toInt_ofInt_le (by omega), CT.ofInt_width hw]

end GdModel.Num
