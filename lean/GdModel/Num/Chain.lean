/-
  GdModel.Num.Chain — the five statement shapes of `_GD_ConvertType`
  (src/types.c) and their meaning on samples.  The 12×12 table of chains is
  *generated from the C source* (Generated/ConvTable.lean, extractor X1).
-/
import GdModel.Num.Cast

namespace GdModel.Num

inductive Chain where
  /-- `memcpy(out, in, n * [2 *] sizeof(t))` -/
  | memcpy (t : CT) (twice : Bool)
  /-- `((store*)out)[i] = (cast)((load*)in)[i]`, i < n -/
  | cast (load cast store : CT)
  /-- the same loop over 2n elements (complex → complex) -/
  | castPairs (load cast store : CT)
  /-- `TO_COMPLEX(ot,it)`: `((_Complex ot*)out)[i] = (_Complex ot)((it*)in)[i]` -/
  | toComplex (ot it : CT)
  /-- `FROM_COMPLEX(ot,it)`: `((ot*)out)[i] = (ot)((_Complex it*)in)[i]` -/
  | fromComplex (ot it : CT)
  /-- a statement the extractor did not recognise -/
  | unknown
  deriving DecidableEq, Repr

/-- `(c)x` then implicit conversion to the lvalue type `st`. -/
def cast2 (l c st : CT) (x : Nat) : Option Nat := (ccast l c x).bind (ccast c st)

/-- Meaning of a chain applied to one sample of type `s`, producing a sample
    of type `d`.  `none` = C-undefined (or a layout mismatch, which `Chain.wf`
    excludes). -/
def Chain.sem (c : Chain) (x : Sample) : Option Sample :=
  match c with
  | .memcpy _ _ => some x
  | .cast l ct st => (cast2 l ct st x.re).map (fun r => ⟨r, 0⟩)
  | .castPairs l ct st =>
      match cast2 l ct st x.re, cast2 l ct st x.im with
      | some r, some i => some ⟨r, i⟩
      | _, _ => none
  | .toComplex ot it => (ccast it ot x.re).map (fun r => ⟨r, 0⟩)
  | .fromComplex ot it => (ccast it ot x.re).map (fun r => ⟨r, 0⟩)
  | .unknown => none

/-- Memory-layout well-formedness of a chain used for the pair (s,d): every
    pointer type it reads or writes through has the element width of the
    buffer it addresses, and memcpy copies exactly one sample per element. -/
def Chain.wf (s d : Ty) : Chain → Bool
  | .memcpy t twice => s == d && t.width == s.comp.width && twice == s.isComplex
  | .cast l _ st => !s.isComplex && !d.isComplex && l.width == s.comp.width && st.width == d.comp.width
  | .castPairs l _ st => s.isComplex && d.isComplex && l.width == s.comp.width && st.width == d.comp.width
  | .toComplex ot it => !s.isComplex && d.isComplex && it.width == s.comp.width && ot == d.comp
  | .fromComplex ot it => s.isComplex && !d.isComplex && it == s.comp && ot.width == d.comp.width
  | .unknown => false

/-- The chain the property describes for each pair. -/
def canonical (s d : Ty) : Chain :=
  if s = d then .memcpy s.comp s.isComplex
  else match s.isComplex, d.isComplex with
    | false, false => .cast s.comp d.comp d.comp
    | true, true => .castPairs s.comp d.comp d.comp
    | false, true => .toComplex d.comp s.comp
    | true, false => .fromComplex d.comp s.comp

/-- Shapes accepted as *provably equivalent* to the canonical chain:
    the canonical chain itself, or — integer destination only — a chain that
    loads through the source type, stores through an integer type of the
    destination's width (signedness of an N-bit store does not change the N
    bits stored) and
    * for an integer source casts to any integer type at least as wide as the
      destination (the narrowing store then wraps modulo 2^N all the same);
    * for a floating source casts to the destination type itself, because the
      *defined range* of a float → integer cast depends on the cast type. -/
def chainOK (s d : Ty) (c : Chain) : Bool :=
  c == canonical s d ||
  (match c with
   | .cast l ct st =>
       !s.isComplex && !d.isComplex && s != d && l == s.comp &&
       !d.comp.isFloat && !ct.isFloat && !st.isFloat &&
       st.width == d.comp.width &&
       ((!s.comp.isFloat && decide (d.comp.width ≤ ct.width)) || ct == d.comp)
   | _ => false)

end GdModel.Num
