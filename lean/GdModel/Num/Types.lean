/-
  GdModel.Num.Types — the twelve GetData sample types and the ten C scalar
  types that appear in casts (src/getdata.h gd_type_t; src/types.c).
  Values are *bit patterns*: a scalar of width w is a `Nat < 2^w`; a complex
  sample is a pair (re, im) of such patterns.  Core Lean only.
-/
namespace GdModel.Num

/-- C scalar types occurring in `_GD_ConvertType` casts. -/
inductive CT where
  | i8 | u8 | i16 | u16 | i32 | u32 | i64 | u64 | f32 | f64
  deriving DecidableEq, Repr, Inhabited

/-- GetData sample types (GD_INT8 … GD_COMPLEX128). -/
inductive Ty where
  | i8 | u8 | i16 | u16 | i32 | u32 | i64 | u64 | f32 | f64 | c64 | c128
  deriving DecidableEq, Repr, Inhabited

def CT.all : List CT := [.i8, .u8, .i16, .u16, .i32, .u32, .i64, .u64, .f32, .f64]
def Ty.all : List Ty := [.i8, .u8, .i16, .u16, .i32, .u32, .i64, .u64, .f32, .f64, .c64, .c128]

theorem CT.mem_all (t : CT) : t ∈ CT.all := by cases t <;> decide
theorem Ty.mem_all (t : Ty) : t ∈ Ty.all := by cases t <;> decide

def CT.width : CT → Nat
  | .i8 | .u8 => 8
  | .i16 | .u16 => 16
  | .i32 | .u32 | .f32 => 32
  | .i64 | .u64 | .f64 => 64

def CT.isFloat : CT → Bool
  | .f32 | .f64 => true
  | _ => false

def CT.isSigned : CT → Bool
  | .i8 | .i16 | .i32 | .i64 => true
  | _ => false

theorem CT.width_pos (t : CT) : 0 < t.width := by cases t <;> decide

/-- The scalar component type of a sample type. -/
def Ty.comp : Ty → CT
  | .i8 => .i8 | .u8 => .u8 | .i16 => .i16 | .u16 => .u16
  | .i32 => .i32 | .u32 => .u32 | .i64 => .i64 | .u64 => .u64
  | .f32 => .f32 | .f64 => .f64 | .c64 => .f32 | .c128 => .f64

def Ty.isComplex : Ty → Bool
  | .c64 | .c128 => true
  | _ => false

/-- Size in bytes of one sample (GD_SIZE). -/
def Ty.size (t : Ty) : Nat := (if t.isComplex then 2 else 1) * (t.comp.width / 8)

def Ty.ofCT : CT → Ty
  | .i8 => .i8 | .u8 => .u8 | .i16 => .i16 | .u16 => .u16
  | .i32 => .i32 | .u32 => .u32 | .i64 => .i64 | .u64 => .u64
  | .f32 => .f32 | .f64 => .f64

def CT.name : CT → String
  | .i8 => "i8" | .u8 => "u8" | .i16 => "i16" | .u16 => "u16"
  | .i32 => "i32" | .u32 => "u32" | .i64 => "i64" | .u64 => "u64"
  | .f32 => "f32" | .f64 => "f64"

def Ty.name : Ty → String
  | .i8 => "i8" | .u8 => "u8" | .i16 => "i16" | .u16 => "u16"
  | .i32 => "i32" | .u32 => "u32" | .i64 => "i64" | .u64 => "u64"
  | .f32 => "f32" | .f64 => "f64" | .c64 => "c64" | .c128 => "c128"

def Ty.ofName? (s : String) : Option Ty := Ty.all.find? (fun t => t.name == s)
def CT.ofName? (s : String) : Option CT := CT.all.find? (fun t => t.name == s)

end GdModel.Num
