/-
  Property C01 — reads return the values the Dirfile Standards define.

  Model: `GdModel.Field` (a field is the tree of its inputs; the pointwise
  operations are parameters, so the theorems hold for the C arithmetic whatever
  it is).  `Impl.read` is shaped like `_GD_DoField`/`_GD_Do*` in
  src/getdata.c; `Spec.sample` is the pointwise definition of
  dirfile-format(5) with secondary inputs sampled at ⌊n·s₂/s₁⌋.

  * `read_window_eq_spec` — for EVERY field tree with positive rates, every
    start and every length: an aligned read returns `min n (eof − s)` samples
    and sample i is `Spec.sample (s+i)`.  (Induction on the tree; the count
    arithmetic of `num_samp2`/short-read adjustment is `nr_eq`.)
  * `read_unaligned_counterexample` — outside the aligned region the readers
    do NOT satisfy the property (known finding 5.1): kernel-checked witness.
  * `single_rate_always_aligned` — equal sample rates (what the repository's
    tests use) are always in the aligned region, for every non-negative start.
  * `eof_impl_eq_spec_partial`, `eof_clamp_counterexample` — `gd_eof` equals
    `max 0` of the pointwise end-of-field unless a PHASE below another
    shifting/scaling field has pushed its input entirely before sample 0
    (the clamp in `_GD_GetEOF`); witness of the disagreement.
  * RAW byte decoding: `decode_encode_comp`, `decode_encode_sample` for all 12
    types × 4 byte orders (Bytes.Lemmas).
-/
import GdModel.Field.ReadSpec
import GdModel.Bytes.Lemmas

namespace GdModel.Props.C01
open GdModel.Field

variable {α : Type}

/-- **C01/C16 main theorem** (restating `read_spec`). -/
theorem read_window_eq_spec (junk : α) (f : Fld α) (hwf : f.WF = true) (s : Int) (n : Nat)
    (hal : Aligned f s = true) :
    (Impl.read junk f s n).length = count (Spec.eof f) s n ∧
    ∀ i, i < count (Spec.eof f) s n → (Impl.read junk f s n)[i]? = Spec.sample f (s + i) :=
  read_spec junk f hwf s n hal

/-- The value of the padding / uninitialised-buffer parameter never shows in an
    aligned read: two runs with different junk agree. -/
theorem read_independent_of_junk (j1 j2 : α) (f : Fld α) (hwf : f.WF = true) (s : Int) (n : Nat)
    (hal : Aligned f s = true) : Impl.read j1 f s n = Impl.read j2 f s n := by
  obtain ⟨l1, g1⟩ := read_spec j1 f hwf s n hal
  obtain ⟨l2, g2⟩ := read_spec j2 f hwf s n hal
  apply List.ext_getElem?
  intro i
  by_cases hi : i < count (Spec.eof f) s n
  · rw [g1 i hi, g2 i hi]
  · rw [List.getElem?_eq_none (by omega), List.getElem?_eq_none (by omega)]

/-- A sample exists exactly below the end-of-field (for aligned positions this
    follows from the refinement; stated here for the window). -/
theorem window_samples_exist (junk : α) (f : Fld α) (hwf : f.WF = true) (s : Int) (n i : Nat)
    (hal : Aligned f s = true) (hi : i < count (Spec.eof f) s n) :
    (Spec.sample f (s + i)).isSome = true := by
  obtain ⟨l, g⟩ := read_spec junk f hwf s n hal
  rw [← g i hi]
  have : i < (Impl.read junk f s n).length := by omega
  simp [List.getElem?_eq_getElem this]

/-- fields all of whose RAW inputs have the same rate -/
def SingleRate (r : Nat) : Fld α → Bool
  | .raw spf _ _ _ => spf == r
  | .index _ => r == 1
  | .map1 _ x => SingleRate r x
  | .phase _ x => SingleRate r x
  | .map2 _ a b => SingleRate r a && SingleRate r b
  | .map3 _ a b c => SingleRate r a && SingleRate r b && SingleRate r c

/-- PHASE shifts under a multi-input field keep the start non-negative -/
def NonNegStarts : Fld α → Int → Bool
  | .raw _ _ _ _, _ => true
  | .index _, _ => true
  | .map1 _ x, s => NonNegStarts x s
  | .phase sh x, s => NonNegStarts x (s + sh)
  | .map2 _ a b, s => decide (0 ≤ s) && NonNegStarts a s && NonNegStarts b s
  | .map3 _ a b c, s => decide (0 ≤ s) && NonNegStarts a s && NonNegStarts b s && NonNegStarts c s

theorem singleRate_spf (r : Nat) : ∀ (f : Fld α), SingleRate r f = true → f.spf = r
  | .raw spf _ _ _, h => by simpa [SingleRate, Fld.spf] using h
  | .index _, h => by simp [SingleRate] at h; simp [Fld.spf, h]
  | .map1 _ x, h => by simpa [Fld.spf] using singleRate_spf r x (by simpa [SingleRate] using h)
  | .phase _ x, h => by simpa [Fld.spf] using singleRate_spf r x (by simpa [SingleRate] using h)
  | .map2 _ a _, h => by
      simp only [SingleRate, Bool.and_eq_true] at h
      simpa [Fld.spf] using singleRate_spf r a h.1
  | .map3 _ a _ _, h => by
      simp only [SingleRate, Bool.and_eq_true] at h
      simpa [Fld.spf] using singleRate_spf r a h.1.1

/-- Equal rates everywhere ⇒ every window is aligned (the region the existing
    tests live in). -/
theorem single_rate_always_aligned (r : Nat) (hr : 0 < r) :
    ∀ (f : Fld α) (s : Int), SingleRate r f = true → NonNegStarts f s = true → Aligned f s = true
  | .raw _ _ _ _, _, _, _ => rfl
  | .index _, _, _, _ => rfl
  | .map1 _ x, s, h, hn => by
      simpa [Aligned] using single_rate_always_aligned r hr x s (by simpa [SingleRate] using h)
        (by simpa [NonNegStarts] using hn)
  | .phase sh x, s, h, hn => by
      simpa [Aligned] using single_rate_always_aligned r hr x (s + sh) (by simpa [SingleRate] using h)
        (by simpa [NonNegStarts] using hn)
  | .map2 _ a b, s, h, hn => by
      simp only [SingleRate, Bool.and_eq_true] at h
      simp only [NonNegStarts, Bool.and_eq_true, decide_eq_true_eq] at hn
      have ha := singleRate_spf r a h.1
      have hb := singleRate_spf r b h.2
      have hdiv : s * (r : Int) / (r : Int) = s := Int.mul_ediv_cancel _ (by omega)
      simp only [Aligned, Bool.and_eq_true, decide_eq_true_eq, ha, hb, hdiv]
      refine ⟨⟨⟨hn.1.1, Int.mul_emod_left _ _⟩, ?_⟩, ?_⟩
      · exact single_rate_always_aligned r hr a s h.1 hn.1.2
      · exact single_rate_always_aligned r hr b s h.2 hn.2
  | .map3 _ a b c, s, h, hn => by
      simp only [SingleRate, Bool.and_eq_true] at h
      simp only [NonNegStarts, Bool.and_eq_true, decide_eq_true_eq] at hn
      have ha := singleRate_spf r a h.1.1
      have hb := singleRate_spf r b h.1.2
      have hc := singleRate_spf r c h.2
      have hdiv : s * (r : Int) / (r : Int) = s := Int.mul_ediv_cancel _ (by omega)
      simp only [Aligned, Bool.and_eq_true, decide_eq_true_eq, ha, hb, hc, hdiv]
      refine ⟨⟨⟨⟨⟨hn.1.1.1, Int.mul_emod_left _ _⟩, Int.mul_emod_left _ _⟩, ?_⟩, ?_⟩, ?_⟩
      · exact single_rate_always_aligned r hr a s h.1.1 hn.1.1.2
      · exact single_rate_always_aligned r hr b s h.1.2 hn.1.2
      · exact single_rate_always_aligned r hr c s h.2 hn.2

/-! ### the excluded region is really excluded: kernel-checked witnesses -/

/-- `a RAW 2/frame = 1,2,3,…`, `b RAW 1/frame = 10,11,…`, `m = a + b` (any
    two-input field): reading 4 samples from sample 1. -/
def exA : Fld Nat := .raw 2 0 0 [1, 2, 3, 4, 5, 6, 7, 8]
def exB : Fld Nat := .raw 1 0 0 [10, 11, 12, 13]
def exM : Fld Nat := .map2 (· + ·) exA exB

/-- The reader returns 12,13,15,16 … -/
example : Impl.read 0 exM 1 4 = [12, 13, 15, 16] := by decide
/-- … the Standards define 12,14,15,17 (b sampled at ⌊n/2⌋). -/
example : (List.range 4).map (fun (i : Nat) => Spec.sample exM (1 + (i : Int))) = [some 12, some 14, some 15, some 17] := by
  decide
/-- so the full-strength statement (without `Aligned`) is false. -/
theorem read_unaligned_counterexample :
    ¬ ∀ (f : Fld Nat) (s : Int) (n : Nat), f.WF = true → 0 ≤ s →
        ∀ i, i < count (Spec.eof f) s n → (Impl.read 0 f s n)[i]? = Spec.sample f (s + i) := by
  intro h
  have := h exM 1 4 (by decide) (by decide) 1 (by decide)
  revert this; decide

/-- the same start is aligned when it falls on a frame boundary … -/
example : Aligned exM 2 = true := by decide
example : Aligned exM 1 = false := by decide
/-- … and non-vacuity of the main theorem's hypotheses on a 3:2 rate pair with
    a PHASE and a frame offset. -/
def exC : Fld Nat := .raw 3 6 0 [1, 2, 3, 4, 5, 6, 7, 8, 9, 10, 11]
def exD : Fld Nat := .raw 2 4 0 [20, 21, 22, 23, 24, 25, 26]
def exT : Fld Nat := .map2 (· * ·) (.phase 3 exC) (.map1 (· + 1) exD)
example : exT.WF = true ∧ Aligned exT 6 = true ∧ count (Spec.eof exT) 6 100 = 8 := by decide
example : Impl.read 0 exT 6 100 = (List.range 8).filterMap (fun (i : Nat) => Spec.sample exT (6 + (i : Int))) := by decide

/-! ### gd_eof vs the pointwise end-of-field -/

/-- no PHASE whose input ends before the shift -/
def NoClamp : Fld α → Bool
  | .raw _ _ _ _ => true
  | .index _ => true
  | .map1 _ x => NoClamp x
  | .phase sh x => NoClamp x && (match Spec.eof x with | none => true | some e => decide (0 ≤ e - sh))
  | .map2 _ a b => NoClamp a && NoClamp b
  | .map3 _ a b c => NoClamp a && NoClamp b && NoClamp c

/-- `_GD_GetEOF` computes the pointwise end-of-field as long as no PHASE has
    clamped (partial: see the counterexample below). -/
theorem eof_impl_eq_spec_partial : ∀ (f : Fld α), NoClamp f = true → Impl.eof f = Spec.eof f
  | .raw _ _ _ _, _ => rfl
  | .index _, _ => rfl
  | .map1 _ x, h => by simpa [Impl.eof, Spec.eof] using eof_impl_eq_spec_partial x (by simpa [NoClamp] using h)
  | .phase sh x, h => by
      simp only [NoClamp, Bool.and_eq_true] at h
      have ih := eof_impl_eq_spec_partial x h.1
      simp only [Impl.eof, Spec.eof, ih]
      cases he : Spec.eof x with
      | none => rfl
      | some e =>
        have h2 := h.2; rw [he] at h2
        simp only [decide_eq_true_eq] at h2
        simp only [Option.map_some]; congr 1; omega
  | .map2 _ a b, h => by
      simp only [NoClamp, Bool.and_eq_true] at h
      simp only [Impl.eof, Spec.eof, eof_impl_eq_spec_partial a h.1, eof_impl_eq_spec_partial b h.2]
  | .map3 _ a b c, h => by
      simp only [NoClamp, Bool.and_eq_true] at h
      simp only [Impl.eof, Spec.eof, eof_impl_eq_spec_partial a h.1.1,
        eof_impl_eq_spec_partial b h.1.2, eof_impl_eq_spec_partial c h.2]

/-- Two data samples, shifted 5 to the left (all data before sample 0), then
    4 to the right: sample 0 is data sample 1, sample 1 does not exist — the
    field ends at 1, but `gd_eof` reports 4 and a read from 0 returns one sample. -/
def exP : Fld Nat := .phase (-4) (.phase 5 (.raw 1 0 0 [7, 8]))
theorem eof_clamp_counterexample :
    Impl.eof exP = some 4 ∧ Spec.eof exP = some 1 ∧ (Impl.read 0 exP 0 10).length = 1 := by decide

end GdModel.Props.C01
