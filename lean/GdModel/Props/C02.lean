/-
  Property C02 — a read is a pure function of the database contents.

  * `window_split_independent` : the value reported for absolute sample k is
    the same in every (aligned) window that contains it — alone, inside a
    larger window, in a differently split window: both are `Spec.sample f k`,
    which has no history argument.  (Corollary of the refinement theorem.)
  * `seek_read_pure`, `history_pure` : the forward-only decompression-window
    reader of the bzip2 codec (and, same shape, lzma) returns bytes k…k+n of the
    decompressed stream after ANY earlier sequence of seeks and reads — by the
    invariant `Win.Inv` preserved by every operation, lifted to arbitrary
    operation lists by induction.  (This is the obligation that the two bzip2
    defects repaired in b921d8f / 071d1f8 violated: a backward seek that did
    not restart the stream, and an end-of-stream read that did not update the
    position.)
  * `recurse_level` returning to zero after every call is C10's obligation
    (checked there by the flow analysis and here after every operation of the
    correspondence run).
  Not modelled in Lean: the MPLEX last-sample cache, the auto-close LRU list,
  scalar-client invalidation (exercised by the history stream against the
  library's own fresh-handle answer).
-/
import GdModel.Field.ReadSpec
import GdModel.Codec.WindowLemmas

namespace GdModel.Props.C02
open GdModel.Field GdModel.Codec

variable {α : Type}

/-- Two aligned windows that both contain absolute sample `k` report the same
    value for it. -/
theorem window_split_independent (junk : α) (f : Fld α) (hwf : f.WF = true)
    (s1 s2 : Int) (n1 n2 : Nat) (h1 : Aligned f s1 = true) (h2 : Aligned f s2 = true)
    (i1 i2 : Nat) (hi1 : i1 < count (Spec.eof f) s1 n1) (hi2 : i2 < count (Spec.eof f) s2 n2)
    (hk : s1 + i1 = s2 + i2) :
    (Impl.read junk f s1 n1)[i1]? = (Impl.read junk f s2 n2)[i2]? := by
  rw [(read_spec junk f hwf s1 n1 h1).2 i1 hi1, (read_spec junk f hwf s2 n2 h2).2 i2 hi2, hk]

/-- fetched alone = fetched inside a larger window -/
theorem single_sample_eq_window (junk : α) (f : Fld α) (hwf : f.WF = true) (s : Int) (n i : Nat)
    (h1 : Aligned f s = true) (h2 : Aligned f (s + i) = true)
    (hi : i < count (Spec.eof f) s n) (h0 : 0 < count (Spec.eof f) (s + i) 1) :
    (Impl.read junk f (s + i) 1)[0]? = (Impl.read junk f s n)[i]? := by
  rw [(read_spec junk f hwf s n h1).2 i hi, (read_spec junk f hwf (s + i) 1 h2).2 0 h0]
  congr 1
  simp

/-! ### histories on the window codec -/

/-- one public operation on the reader: seek to byte `k`, read `n` bytes -/
def winOp (D : List Nat) (B : Nat) (w : Win) (op : Nat × Nat) : List Nat × Win :=
  Win.read D B (D.length + 2) (Win.seek D B w op.1) op.2

/-- run a history, collecting what every read returned -/
def winRun (D : List Nat) (B : Nat) : Win → List (Nat × Nat) → List (List Nat)
  | _, [] => []
  | w, op :: ops => (winOp D B w op).1 :: winRun D B (winOp D B w op).2 ops

/-- **Every read in every history returns the slice of the stream it asked
    for**, independent of everything that happened before. -/
theorem history_pure (D : List Nat) (B : Nat) (hB : 0 < B) :
    ∀ (ops : List (Nat × Nat)) (w : Win), Win.Inv D w →
      winRun D B w ops = ops.map (fun op => (D.drop op.1).take op.2) := by
  intro ops
  induction ops with
  | nil => intro w _; rfl
  | cons op ops ih =>
    intro w hi
    obtain ⟨h1, h2, _⟩ := seek_read_pure D B hB w op.1 op.2 hi
    simp only [winRun, List.map_cons]
    rw [show (winOp D B w op).1 = (D.drop op.1).take op.2 from h1]
    rw [ih (winOp D B w op).2 h2]

/-- the freshly opened reader satisfies the invariant -/
theorem fresh_inv (D : List Nat) : Win.Inv D ({} : Win) :=
  ⟨⟨by simp, by simp, by intro h; cases h⟩, rfl⟩

/-- non-vacuity / kernel-evaluated run: 10-byte stream, 4-byte window, a history
    that reads to the end, goes back before the window, re-reads, and over-reads. -/
example : winRun [10, 11, 12, 13, 14, 15, 16, 17, 18, 19] 4 {} [(0, 100), (0, 100), (7, 2), (2, 3), (9, 5), (3, 0)]
    = [[10, 11, 12, 13, 14, 15, 16, 17, 18, 19], [10, 11, 12, 13, 14, 15, 16, 17, 18, 19], [17, 18], [12, 13, 14], [19], []] := by
  decide

end GdModel.Props.C02
