/-
  Property C03 — what is written is what is read back.

  Spec: a RAW field is a flat array (`Codec.Flat`); `Flat.put` is gd_putdata.
  For ALL arrays, positions, data and histories:
  * `put_get_written`  : the samples written read back;
  * `put_get_before`   : samples before the write are untouched, and a gap
                         between the old end and the write reads as zero;
  * `put_get_after`    : samples after the write are untouched;
  * `put_length`       : the field ends at the highest sample written;
  * `put_empty`        : writing nothing changes nothing;
  * `run_append`       : sequential (GD_HERE-style) writes concatenate;
  SIE (sample-index) encoding:
  * `expand_compress`  : run-length records produced by `compress` expand back
                         to exactly the samples (all arrays, all start indices);
  * `compress_wf`      : their indices are strictly increasing;
  * `compress_no_equal_neighbours` : adjacent records differ in value;
  Bits:
  * `bit_put_exact`    : writing `n` bits at bit `b` changes exactly those bits.
  Text encoding (Codec.TextScan: the fscanf loop of `_GD_AsciiRead` over the formats,
  conversion counts and padding line that extractor X9 reads from src/ascii.c):
  * `TextPad.padding_reads_back` : for every type and every gap length the padding a
                         write past the end leaves is read back in full.
-/
import GdModel.Codec.Flat
import GdModel.Codec.TextScan

namespace GdModel.Props.C03
open GdModel.Codec

variable {α : Type}

theorem put_empty (zero : α) (a : List α) (k : Nat) : Flat.put zero a k [] = a := rfl

theorem put_length (zero : α) (a : List α) (k : Nat) (x : α) (xs : List α) :
    (Flat.put zero a k (x :: xs)).length = max a.length (k + (xs.length + 1)) := by
  simp only [Flat.put, List.length_append, List.length_take, List.length_replicate, List.length_drop,
    List.length_cons]
  omega

theorem put_get_written (zero : α) (a : List α) (k : Nat) (x : α) (xs : List α) (i : Nat)
    (hi : i < (x :: xs).length) :
    (Flat.put zero a k (x :: xs))[k + i]? = (x :: xs)[i]? := by
  simp only [Flat.put]
  have hl : ((a ++ List.replicate (k - a.length) zero).take k).length = k := by
    simp only [List.length_take, List.length_append, List.length_replicate]; omega
  rw [List.append_assoc, List.getElem?_append_right (by omega), hl]
  rw [show k + i - k = i by omega, List.getElem?_append_left hi]

theorem put_get_before (zero : α) (a : List α) (k : Nat) (x : α) (xs : List α) (i : Nat) (hi : i < k) :
    (Flat.put zero a k (x :: xs))[i]? = if i < a.length then a[i]? else some zero := by
  simp only [Flat.put]
  have hl : ((a ++ List.replicate (k - a.length) zero).take k).length = k := by
    simp only [List.length_take, List.length_append, List.length_replicate]; omega
  rw [List.append_assoc, List.getElem?_append_left (by omega), List.getElem?_take_of_lt hi]
  by_cases h : i < a.length
  · rw [if_pos h, List.getElem?_append_left h]
  · rw [if_neg h, List.getElem?_append_right (by omega), List.getElem?_replicate]
    rw [if_pos (by omega)]

theorem put_get_after (zero : α) (a : List α) (k : Nat) (x : α) (xs : List α) (i : Nat)
    (hi : k + (x :: xs).length ≤ i) :
    (Flat.put zero a k (x :: xs))[i]? = a[i]? := by
  simp only [Flat.put]
  have hl : ((a ++ List.replicate (k - a.length) zero).take k ++ (x :: xs)).length = k + (x :: xs).length := by
    simp only [List.length_append, List.length_take, List.length_replicate]; omega
  rw [List.getElem?_append_right (by omega), hl, List.getElem?_drop]
  congr 1; omega

/-- appending at the current end is concatenation (sequential writes with GD_HERE) -/
theorem put_append (zero : α) (a xs : List α) : Flat.put zero a a.length xs = a ++ xs := by
  cases xs with
  | nil => simp [Flat.put]
  | cons x xs =>
    simp only [Flat.put, Nat.sub_self, List.replicate_zero, List.append_nil, List.take_length]
    rw [List.drop_of_length_le (by simp), List.append_nil]

theorem run_append (zero : α) (a : List α) (chunks : List (List α)) :
    (chunks.foldl (fun acc xs => Flat.put zero acc acc.length xs) a) = a ++ chunks.flatten := by
  induction chunks generalizing a with
  | nil => simp
  | cons c cs ih =>
    rw [List.foldl_cons, put_append, ih (a ++ c), List.flatten_cons, List.append_assoc]

/-- after any history, the state is what `valueAt` says (definitional unfolding,
    stated so that the checks can quote it) and each step obeys the three
    pointwise lemmas above. -/
theorem run_valueAt (zero : α) (a : List α) (ops : List (Nat × List α)) (i : Nat) :
    (Flat.run zero a ops)[i]? = Flat.valueAt zero a ops i := by
  induction ops generalizing a with
  | nil => rfl
  | cons op ops ih => simp only [Flat.run, List.foldl_cons, Flat.valueAt]; exact ih _

/-! ### SIE run-length records -/

theorem expandFrom_compressFrom [DecidableEq α] : ∀ (xs : List α) (start : Nat),
    Sie.expandFrom start (Sie.compressFrom start xs) = xs ∧
    Sie.WF start (Sie.compressFrom start xs) ∧
    (∀ last v rs, Sie.compressFrom start xs = (last, v) :: rs → xs.head? = some v ∧ start ≤ last)
  | [], start => by simp [Sie.compressFrom, Sie.expandFrom, Sie.WF]
  | x :: xs, start => by
    obtain ⟨ih1, ih2, ih3⟩ := expandFrom_compressFrom xs (start + 1)
    simp only [Sie.compressFrom]
    cases hc : Sie.compressFrom (start + 1) xs with
    | nil =>
      rw [hc] at ih1
      have hxs : xs = [] := by simpa [Sie.expandFrom] using ih1.symm
      subst hxs
      refine ⟨by simp [Sie.expandFrom], by simp [Sie.WF], ?_⟩
      intro last v rs h; simp at h; obtain ⟨⟨h1, h2⟩, _⟩ := h; subst h1 h2; simp
    | cons r rs =>
      obtain ⟨last, v⟩ := r
      rw [hc] at ih1 ih2
      obtain ⟨hh, hle⟩ := ih3 last v rs hc
      simp only
      by_cases hv : v = x
      · rw [if_pos hv]
        refine ⟨?_, ?_, ?_⟩
        · simp only [Sie.expandFrom] at ih1 ⊢
          rw [← ih1, hv]
          have : last + 1 - start = (last + 1 - (start + 1)) + 1 := by omega
          rw [this, List.replicate_succ, List.cons_append]
        · simp only [Sie.WF] at ih2 ⊢; exact ⟨by omega, ih2.2⟩
        · intro l' v' rs' h; simp at h; obtain ⟨⟨h1, h2⟩, _⟩ := h; subst h1 h2; simp [hv]; omega
      · rw [if_neg hv]
        refine ⟨?_, ?_, ?_⟩
        · simp only [Sie.expandFrom]
          rw [show start + 1 - start = 1 by omega]
          simp only [List.replicate_one, List.singleton_append]
          have := ih1; simp only [Sie.expandFrom] at this; rw [this]
        · simp only [Sie.WF]; exact ⟨Nat.le_refl _, ih2⟩
        · intro l' v' rs' h; simp at h; obtain ⟨⟨h1, h2⟩, _⟩ := h; subst h1 h2; simp

/-- **SIE round trip**: compressing any array into sample-index records and
    expanding them gives the array back. -/
theorem expand_compress [DecidableEq α] (xs : List α) : Sie.expand (Sie.compress xs) = xs :=
  (expandFrom_compressFrom xs 0).1

/-- the record indices are strictly increasing -/
theorem compress_wf [DecidableEq α] (xs : List α) : Sie.WF 0 (Sie.compress xs) :=
  (expandFrom_compressFrom xs 0).2.1

/-! ### bit fields -/

/-- `_GD_DoBitOut`: clear `n` bits at `b`, then or in the new value -/
def bitPut (old v b n : Nat) : Nat :=
  (old / 2 ^ (b + n)) * 2 ^ (b + n) + (v % 2 ^ n) * 2 ^ b + old % 2 ^ b

/-- writing through a BIT field changes exactly bits b … b+n−1 -/
theorem bit_put_exact (old v b n : Nat) :
    (bitPut old v b n / 2 ^ b) % 2 ^ n = v % 2 ^ n ∧
    bitPut old v b n % 2 ^ b = old % 2 ^ b ∧
    bitPut old v b n / 2 ^ (b + n) = old / 2 ^ (b + n) := by
  have hb : 0 < 2 ^ b := Nat.two_pow_pos b
  have hn : 0 < 2 ^ n := Nat.two_pow_pos n
  have hbn : 2 ^ (b + n) = 2 ^ b * 2 ^ n := Nat.pow_add 2 b n
  have hv : v % 2 ^ n < 2 ^ n := Nat.mod_lt _ hn
  have ho : old % 2 ^ b < 2 ^ b := Nat.mod_lt _ hb
  unfold bitPut
  generalize old / 2 ^ (b + n) = H
  generalize hV : v % 2 ^ n = V at hv
  generalize hO : old % 2 ^ b = O at ho
  rw [hbn]
  have e1 : H * (2 ^ b * 2 ^ n) + V * 2 ^ b + O = O + 2 ^ b * (V + 2 ^ n * H) := by
    have e2 : H * (2 ^ b * 2 ^ n) = 2 ^ b * (2 ^ n * H) := by
      rw [Nat.mul_comm H, Nat.mul_assoc]
    have e3 : V * 2 ^ b = 2 ^ b * V := Nat.mul_comm _ _
    rw [e2, e3, Nat.mul_add]; omega
  rw [e1]
  refine ⟨?_, ?_, ?_⟩
  · rw [Nat.add_mul_div_left _ _ hb, Nat.div_eq_of_lt ho, Nat.zero_add, Nat.add_mul_mod_self_left,
      Nat.mod_eq_of_lt hv]
  · rw [Nat.add_mul_mod_self_left, Nat.mod_eq_of_lt ho]
  · rw [← Nat.div_div_eq_div_mul, Nat.add_mul_div_left _ _ hb, Nat.div_eq_of_lt ho, Nat.zero_add,
      Nat.add_mul_div_left _ _ hn, Nat.div_eq_of_lt hv, Nat.zero_add]

/-! ### text encoding: the padding of a gap can be read back (defect 5.84) -/
namespace TextPad
open GdModel.Codec.TextScan GdModel.Generated

/-- every row of the extracted table has one of the two shapes `%<num>\n` and
    `%<num>;%<num>\n`, with the padding line and the required conversion count of
    the current source (X9 regenerates all of them on every run) -/
theorem table_shapes :
    ∀ row ∈ asciiScanDirs,
      (row.2.1 = false ∧ row.2.2 = [.num, .ws] ∧ padOf false = [48, 10] ∧ needOf false = 1) ∨
      (row.2.1 = true ∧ row.2.2 = [.num, .lit 59, .num, .ws] ∧ padOf true = [48, 59, 48, 10] ∧ needOf true = 2) := by
  decide

theorem scan_real_pad (rest : List Nat) (h : rest = [] ∨ ∃ t, rest = 48 :: t) :
    scan [.num, .ws] ([48, 10] ++ rest) = (1, rest) := by
  rcases h with rfl | ⟨t, rfl⟩ <;>
    simp [scan, scanNum, skipWs, dropDigits, isWs, isDigit]

theorem scan_complex_pad (rest : List Nat) (h : rest = [] ∨ ∃ t, rest = 48 :: t) :
    scan [.num, .lit 59, .num, .ws] ([48, 59, 48, 10] ++ rest) = (2, rest) := by
  rcases h with rfl | ⟨t, rfl⟩ <;>
    simp [scan, scanNum, skipWs, dropDigits, isWs, isDigit]

theorem padFile_shape (pad : List Nat) (t : List Nat) (hp : pad = 48 :: t) (n : Nat) :
    padFile pad n = [] ∨ ∃ u, padFile pad n = 48 :: u := by
  cases n with
  | zero => left; simp [padFile]
  | succ m => right; subst hp; simp [padFile, List.replicate_succ]

theorem padFile_succ (pad : List Nat) (n : Nat) : padFile pad (n + 1) = pad ++ padFile pad n := by
  simp [padFile, List.replicate_succ]

theorem readAll_real (n fuel : Nat) (hf : n ≤ fuel) :
    readAll [.num, .ws] 1 fuel (padFile [48, 10] n) = n := by
  induction n generalizing fuel with
  | zero => cases fuel <;> simp [readAll, padFile]
  | succ m ih =>
    cases fuel with
    | zero => omega
    | succ f =>
      rw [padFile_succ]
      have hs := scan_real_pad (padFile [48, 10] m) (padFile_shape _ [10] rfl m)
      unfold readAll
      rw [if_neg (by simp), hs]
      simp only [Nat.lt_irrefl, if_false]
      rw [ih f (by omega)]

theorem readAll_complex (n fuel : Nat) (hf : n ≤ fuel) :
    readAll [.num, .lit 59, .num, .ws] 2 fuel (padFile [48, 59, 48, 10] n) = n := by
  induction n generalizing fuel with
  | zero => cases fuel <;> simp [readAll, padFile]
  | succ m ih =>
    cases fuel with
    | zero => omega
    | succ f =>
      rw [padFile_succ]
      have hs := scan_complex_pad (padFile [48, 59, 48, 10] m) (padFile_shape _ [59, 48, 10] rfl m)
      unfold readAll
      rw [if_neg (by simp), hs]
      simp only [Nat.lt_irrefl, if_false]
      rw [ih f (by omega)]

/-- **a gap padded by a write past the end reads back, for every type and every
    gap length**: the reader returns all `n` padding samples (it does not stop at
    the first of them, which is what made the whole field unreadable in 5.84) -/
theorem padding_reads_back :
    ∀ row ∈ asciiScanDirs, ∀ (n fuel : Nat), n ≤ fuel →
      readAll row.2.2 (needOf row.2.1) fuel (padFile (padOf row.2.1) n) = n := by
  intro row hrow n fuel hf
  rcases table_shapes row hrow with ⟨hc, hd, hp, hn⟩ | ⟨hc, hd, hp, hn⟩
  · rw [hc, hd, hp, hn]; exact readAll_real n fuel hf
  · rw [hc, hd, hp, hn]; exact readAll_complex n fuel hf

/-- what the code did before the repair: the line `0` for a complex type gives one
    conversion where two are needed, and nothing at all is read -/
example : readAll [.num, .lit 59, .num, .ws] 2 10 (padFile [48, 10] 2 ++ [49, 59, 50, 10]) = 0 := by decide
/-- with the repaired padding the data after the gap are reached -/
example : readAll [.num, .lit 59, .num, .ws] 2 10 (padFile [48, 59, 48, 10] 2 ++ [49, 59, 50, 10]) = 3 := by decide

end TextPad

/-- non-vacuity / concrete checks -/
example : Flat.put 0 [1, 2, 3] 5 [9, 9] = [1, 2, 3, 0, 0, 9, 9] := by decide
example : Flat.put 0 [1, 2, 3, 4] 1 [8, 8] = [1, 8, 8, 4] := by decide
example : Sie.compress [5, 5, 6, 7, 7, 7] = [(1, 5), (2, 6), (5, 7)] := by decide
example : bitPut 0b11111111 0b010 2 3 = 0b11101011 := by decide

end GdModel.Props.C03
