/-
  Property C04 — RAW data files on disk follow the Standards.

  The on-disk formats are modelled in GdModel.Codec.Disk.  Proved here, for
  every sample list, type and byte order:

  * `bare_roundtrip`      decoding the bare array written for `xs` gives `xs`
                          back, also when followed by a partial trailing sample;
  * `bare_length`         the file holds exactly `n * GD_SIZE(type)` bytes;
  * `text_roundtrip`      printing integers one per line and parsing the lines
                          gives the integers back (any sign, any magnitude);
  * `sie_roundtrip`       encoding run-length records (index in fragment byte
                          order, never ARM-swapped) and decoding them gives the
                          records back, and with `expand_compress` the samples;
  * `sie_file_samples`    decode ∘ expand of the file written for `compress xs` is `xs`;
  * `sie_increasing`      the record ends of `compress xs` are strictly increasing.

  The gzip / bzip2 / xz containers themselves (zlib, libbz2, liblzma) are
  trusted; the correspondence check decodes the library's files with the stock
  Python decoders and hands the payload to `decodeSamples`.
-/
import GdModel.Codec.Disk
import GdModel.Bytes.Lemmas
import GdModel.Props.C03
namespace GdModel.Props.C04
open GdModel.Num GdModel.Bytes GdModel.Codec GdModel.Codec.Disk

/-! ### generic chunking -/

theorem chunkMap_cons {β} (sz : Nat) (hsz : 0 < sz) (f : List Nat → β) (c rest : List Nat)
    (hc : c.length = sz) :
    chunkMap sz f (c ++ rest) = f c :: chunkMap sz f rest := by
  unfold chunkMap
  have hlen : (c ++ rest).length / sz = rest.length / sz + 1 := by
    rw [List.length_append, hc, Nat.add_comm, Nat.add_div_right _ hsz]
  rw [hlen, List.range_succ_eq_map, List.map_cons, List.map_map]
  congr 1
  · simp [hc.symm]
  · apply List.map_congr_left
    intro i _
    simp only [Function.comp]
    have : (i + 1) * sz = c.length + i * sz := by rw [hc, Nat.add_mul, Nat.one_mul, Nat.add_comm]
    rw [this, ← List.drop_drop, List.drop_left]

theorem chunkMap_short {β} (sz : Nat) (f : List Nat → β) (tail : List Nat) (h : tail.length < sz) :
    chunkMap sz f tail = [] := by
  unfold chunkMap
  rw [Nat.div_eq_of_lt h]; rfl

/-- chunk-wise decoding of a concatenation of fixed-size encodings, with an
    optional partial trailing unit, returns the encoded items -/
theorem chunkMap_flatMap {α β} (sz : Nat) (hsz : 0 < sz) (enc : α → List Nat) (dec : List Nat → β)
    (g : α → β) (xs : List α) (tail : List Nat) (ht : tail.length < sz)
    (hlen : ∀ x ∈ xs, (enc x).length = sz) (hrt : ∀ x ∈ xs, dec (enc x) = g x) :
    chunkMap sz dec (xs.flatMap enc ++ tail) = xs.map g := by
  induction xs with
  | nil => simpa using chunkMap_short sz dec tail ht
  | cons x xs ih =>
    rw [List.flatMap_cons, List.append_assoc,
      chunkMap_cons sz hsz dec _ _ (hlen x List.mem_cons_self),
      hrt x List.mem_cons_self, List.map_cons,
      ih (fun y hy => hlen y (List.mem_cons_of_mem _ hy)) (fun y hy => hrt y (List.mem_cons_of_mem _ hy))]

/-! ### bare array -/

/-- a sample fits its type: each component below 2^width, imaginary part 0 for real types -/
def Fits (ty : Ty) (x : Sample) : Prop :=
  x.re < 2 ^ ty.comp.width ∧ (if ty.isComplex then x.im < 2 ^ ty.comp.width else x.im = 0)

theorem encodeSample_length (o : Order) (ty : Ty) (x : Sample) :
    (encodeSample o ty x).length = ty.size := by
  unfold encodeSample Ty.size
  cases h : ty.isComplex <;> simp [encodeComp_length] <;> omega

theorem size_pos (ty : Ty) : 0 < ty.size := by cases ty <;> decide

theorem decodeSamples_eq (o : Order) (ty : Ty) (bs : List Nat) :
    decodeSamples o ty bs = chunkMap ty.size (decodeOne o ty) bs := rfl

theorem decodeOne_encodeSample (o : Order) (ty : Ty) (x : Sample) (hx : Fits ty x) :
    decodeOne o ty (encodeSample o ty x) = x := by
  unfold decodeOne encodeSample
  obtain ⟨hre, him⟩ := hx
  cases h : ty.isComplex
  · simp only [h, Bool.false_eq_true, if_false] at him ⊢
    rw [decode_encode_comp o _ _ hre]
    cases x; simp_all
  · simp only [h, if_true] at him ⊢
    have hl := encodeComp_length o ty.comp x.re
    rw [← hl, List.take_left, List.drop_left, decode_encode_comp o _ _ hre, decode_encode_comp o _ _ him]

/-- **bare array round trip**: the bytes written for `xs` (any type, any of
    the four byte orders) decode to `xs`; a partial trailing sample is ignored. -/
theorem bare_roundtrip (o : Order) (ty : Ty) (xs : List Sample) (tail : List Nat)
    (hx : ∀ x ∈ xs, Fits ty x) (ht : tail.length < ty.size) :
    decodeSamples o ty (encodeSamples o ty xs ++ tail) = xs := by
  rw [decodeSamples_eq]
  unfold encodeSamples
  rw [chunkMap_flatMap ty.size (size_pos ty) (encodeSample o ty) (decodeOne o ty) id xs tail ht
    (fun x _ => encodeSample_length o ty x) (fun x h => decodeOne_encodeSample o ty x (hx x h))]
  simp

theorem bare_length (o : Order) (ty : Ty) (xs : List Sample) :
    (encodeSamples o ty xs).length = xs.length * ty.size := by
  unfold encodeSamples
  induction xs with
  | nil => simp
  | cons x xs ih =>
    rw [List.flatMap_cons, List.length_append, encodeSample_length, ih, List.length_cons, Nat.add_mul, Nat.one_mul, Nat.add_comm]

/-! ### text -/

theorem parseNatAux_append (a b : List Nat) (acc : Nat) :
    parseNatAux (a ++ b) acc = (parseNatAux a acc).bind (parseNatAux b) := by
  induction a generalizing acc with
  | nil => simp [parseNatAux]
  | cons c cs ih =>
    simp only [List.cons_append, parseNatAux]
    split
    · exact ih _
    · simp

theorem parseNatAux_digit (d : Nat) (hd : d < 10) (acc : Nat) :
    parseNatAux [digitChar d] acc = some (acc * 10 + d) := by
  unfold digitChar
  simp only [parseNatAux]
  rw [if_pos (by omega)]
  congr 2; omega

theorem decDigitsAux_spec : ∀ (fuel n : Nat) (acc : List Nat) (a0 : Nat), n < fuel →
    parseNatAux (decDigitsAux fuel n acc) a0 = (parseNatAux acc (a0 * 10 ^ (decDigitsAux fuel n []).length + n)) ∧
    (decDigitsAux fuel n acc = decDigitsAux fuel n [] ++ acc) ∧ decDigitsAux fuel n [] ≠ [] := by
  intro fuel
  induction fuel with
  | zero => intro n acc a0 h; omega
  | succ fuel ih =>
    intro n acc a0 h
    unfold decDigitsAux
    by_cases hn : n < 10
    · simp only [hn, if_true]
      refine ⟨?_, by simp, by simp⟩
      simp only [parseNatAux, List.length_singleton, Nat.pow_one]
      unfold digitChar
      rw [if_pos (by omega)]
      congr 1; omega
    · simp only [hn, if_false]
      have hlt : n / 10 < fuel := by omega
      obtain ⟨_, happ, hne⟩ := ih (n / 10) [digitChar (n % 10)] 0 hlt
      obtain ⟨_, happ2, _⟩ := ih (n / 10) (digitChar (n % 10) :: acc) 0 hlt
      obtain ⟨hp0, _, _⟩ := ih (n / 10) [] a0 hlt
      refine ⟨?_, ?_, ?_⟩
      · rw [happ2, happ, parseNatAux_append, hp0]
        simp only [parseNatAux, Option.bind_some, List.length_append, List.length_singleton]
        unfold digitChar
        rw [if_pos (by omega)]
        congr 1
        have : 48 + n % 10 - 48 = n % 10 := by omega
        rw [this, Nat.pow_succ]
        have h10 : n = 10 * (n / 10) + n % 10 := (Nat.div_add_mod n 10).symm
        generalize 10 ^ (decDigitsAux fuel (n / 10) []).length = P
        rw [Nat.add_mul, Nat.mul_assoc]
        conv => rhs; rw [h10]
        omega
      · rw [happ2, happ]; simp
      · rw [happ]; simp

theorem parse_printNat (n : Nat) : parseNat? (printNat n) = some n := by
  unfold printNat
  obtain ⟨hp, _, hne⟩ := decDigitsAux_spec (n + 1) n [] 0 (by omega)
  unfold parseNat?
  split
  · rename_i h; exact absurd h hne
  · rw [hp]; simp [parseNatAux]

theorem printNat_head (n : Nat) : ∀ c ∈ (printNat n).head?, 48 ≤ c ∧ c ≤ 57 := by
  unfold printNat
  -- the first character of a decimal expansion is a digit, never '-'
  have key : ∀ (fuel m : Nat) (acc : List Nat), m < fuel →
      ∀ c ∈ (decDigitsAux fuel m acc).head?, 48 ≤ c ∧ c ≤ 57 := by
    intro fuel
    induction fuel with
    | zero => intro m acc h; omega
    | succ fuel ih =>
      intro m acc h c hc
      unfold decDigitsAux at hc
      by_cases hm : m < 10
      · simp only [hm, if_true, List.head?_cons, Option.mem_def, Option.some.injEq] at hc
        unfold digitChar at hc; omega
      · simp only [hm, if_false] at hc
        exact ih (m / 10) _ (by omega) c hc
  exact key (n + 1) n [] (by omega)

/-- **text round trip, one number**: any integer printed in decimal parses back to itself -/
theorem parse_printInt (z : Int) : parseInt? (printInt z) = some z := by
  unfold printInt
  by_cases hz : z < 0
  · simp only [hz, if_true, parseInt?]
    rw [parse_printNat]; simp; omega
  · simp only [hz, if_false]
    have hh := printNat_head z.toNat
    unfold parseInt?
    split
    · rename_i rest heq
      have : (45 : Nat) ∈ (printNat z.toNat).head? := by rw [heq]; simp
      have := hh 45 this; omega
    · rw [parse_printNat]; simp; omega

theorem printNat_no_newline (n : Nat) : ∀ c ∈ printNat n, c ≠ 10 := by
  unfold printNat
  have key : ∀ (fuel m : Nat) (acc : List Nat), (∀ c ∈ acc, c ≠ 10) →
      ∀ c ∈ decDigitsAux fuel m acc, c ≠ 10 := by
    intro fuel
    induction fuel with
    | zero => intro m acc hacc c hc; unfold decDigitsAux at hc; exact hacc c hc
    | succ fuel ih =>
      intro m acc hacc c hc
      unfold decDigitsAux at hc
      by_cases hm : m < 10
      · simp only [hm, if_true, List.mem_cons] at hc
        rcases hc with h | h
        · unfold digitChar at h; omega
        · exact hacc c h
      · simp only [hm, if_false] at hc
        refine ih (m / 10) _ ?_ c hc
        intro d hd
        simp only [List.mem_cons] at hd
        rcases hd with h | h
        · unfold digitChar at h; omega
        · exact hacc d h
  exact key (n + 1) n [] (by simp)

theorem printInt_no_newline (z : Int) : ∀ c ∈ printInt z, c ≠ 10 := by
  unfold printInt
  intro c hc
  split at hc
  · simp only [List.mem_cons] at hc
    rcases hc with h | h
    · omega
    · exact printNat_no_newline _ c h
  · exact printNat_no_newline _ c hc

theorem splitLinesAux_line (l : List Nat) (hl : ∀ c ∈ l, c ≠ 10) (rest cur : List Nat) :
    splitLinesAux (l ++ 10 :: rest) cur = (cur.reverse ++ l) :: splitLinesAux rest [] := by
  induction l generalizing cur with
  | nil => simp [splitLinesAux]
  | cons c cs ih =>
    have hc : c ≠ 10 := hl c List.mem_cons_self
    simp only [List.cons_append, splitLinesAux, hc, if_false]
    rw [ih (fun d hd => hl d (List.mem_cons_of_mem _ hd))]
    simp

theorem splitLinesAux_noline (l : List Nat) (hl : ∀ c ∈ l, c ≠ 10) (cur : List Nat) :
    splitLinesAux l cur = [] := by
  induction l generalizing cur with
  | nil => rfl
  | cons c cs ih =>
    have hc : c ≠ 10 := hl c List.mem_cons_self
    simp only [splitLinesAux, hc, if_false]
    exact ih (fun d hd => hl d (List.mem_cons_of_mem _ hd)) _

/-- **text round trip, whole file**: integers written one per line read back
    as those integers; an unterminated trailing line (a partially written
    sample) is not reported. -/
theorem text_roundtrip (zs : List Int) (partial_ : List Nat) (hp : ∀ c ∈ partial_, c ≠ 10) :
    parseLines (printLines zs ++ partial_) = zs.map some := by
  unfold parseLines printLines
  induction zs with
  | nil => simp [splitLinesAux_noline partial_ hp]
  | cons z zs ih =>
    rw [List.flatMap_cons, List.append_assoc, List.append_assoc]
    show List.map parseInt? (splitLinesAux (printInt z ++ 10 :: _) []) = _
    rw [splitLinesAux_line _ (printInt_no_newline z)]
    simp only [List.reverse_nil, List.nil_append, List.map_cons, parse_printInt]
    congr 1

/-! ### sie -/

theorem encodeIdx_length (o : Order) (i : Nat) : (encodeIdx o i).length = 8 := by
  unfold encodeIdx
  split <;> simp [leBytes_length]

theorem decode_encode_idx (o : Order) (i : Nat) (hi : i < 2 ^ 64) : decodeIdx o (encodeIdx o i) = i := by
  unfold decodeIdx encodeIdx
  have h := leVal_leBytes 8 i (by simpa using hi)
  cases o.big <;> simp [h]

theorem encodeRec_length (o : Order) (ty : Ty) (r : Sie.Rec Sample) :
    (encodeRec o ty r).length = 8 + ty.size := by
  unfold encodeRec
  rw [List.length_append, encodeIdx_length, encodeSample_length]

theorem decodeRec_encodeRec (o : Order) (ty : Ty) (r : Sie.Rec Sample) (hi : r.1 < 2 ^ 64) (hx : Fits ty r.2) :
    decodeRec o ty (encodeRec o ty r) = r := by
  unfold decodeRec encodeRec
  have hl := encodeIdx_length o r.1
  rw [← hl, List.take_left, List.drop_left, decode_encode_idx o _ hi, decodeOne_encodeSample o ty _ hx]

/-- **sie record round trip**: the record list written to the file is the record list read -/
theorem sie_roundtrip (o : Order) (ty : Ty) (rs : List (Sie.Rec Sample)) (tail : List Nat)
    (hr : ∀ r ∈ rs, r.1 < 2 ^ 64 ∧ Fits ty r.2) (ht : tail.length < 8 + ty.size) :
    decodeSie o ty (encodeSie o ty rs ++ tail) = rs := by
  unfold decodeSie encodeSie
  rw [chunkMap_flatMap (8 + ty.size) (by omega) (encodeRec o ty) (decodeRec o ty) id rs tail ht
    (fun r _ => encodeRec_length o ty r) (fun r h => decodeRec_encodeRec o ty r (hr r h).1 (hr r h).2)]
  simp

theorem compressFrom_index_bound : ∀ (xs : List Sample) (start : Nat),
    ∀ r ∈ Sie.compressFrom start xs, r.1 < start + xs.length ∧ r.2 ∈ xs := by
  intro xs
  induction xs with
  | nil => intro start r hr; simp [Sie.compressFrom] at hr
  | cons x xs ih =>
    intro start r hr
    unfold Sie.compressFrom at hr
    have ih' := ih (start + 1)
    split at hr
    · rename_i last v rs heq
      rw [heq] at ih'
      split at hr
      · have := ih' r hr
        simp only [List.length_cons, List.mem_cons]
        exact ⟨by omega, Or.inr this.2⟩
      · simp only [List.mem_cons] at hr
        rcases hr with h | h
        · subst h; simp
        · have := ih' r (by simpa using h)
          simp only [List.length_cons, List.mem_cons]
          exact ⟨by omega, Or.inr this.2⟩
    · simp only [List.mem_singleton] at hr
      subst hr; simp

/-- **sie file = the samples**: the file written for the run-length compression
    of `xs` decodes and expands to exactly `xs` -/
theorem sie_file_samples (o : Order) (ty : Ty) (xs : List Sample)
    (hx : ∀ x ∈ xs, Fits ty x) (hn : xs.length < 2 ^ 64) :
    Sie.expand (decodeSie o ty (encodeSie o ty (Sie.compress xs))) = xs := by
  have h := sie_roundtrip o ty (Sie.compress xs) [] (by
    intro r hr
    have := compressFrom_index_bound xs 0 r hr
    exact ⟨by omega, hx _ this.2⟩) (by simp; have := size_pos ty; omega)
  rw [List.append_nil] at h
  rw [h]
  exact GdModel.Props.C03.expand_compress xs

/-- WF from 0 implies the Boolean strictly-increasing test the check applies to real files -/
theorem wf_increasing : ∀ (rs : List (Sie.Rec Sample)) (start : Nat), Sie.WF start rs → sieIncreasing rs = true := by
  intro rs
  induction rs with
  | nil => intro _ _; rfl
  | cons a rest ih =>
    intro start h
    cases rest with
    | nil => rfl
    | cons b rest' =>
      obtain ⟨la, va⟩ := a
      obtain ⟨lb, vb⟩ := b
      simp only [Sie.WF] at h
      simp only [sieIncreasing, Bool.and_eq_true, decide_eq_true_eq]
      refine ⟨by omega, ih (la + 1) ?_⟩
      simp only [Sie.WF]; exact h.2

theorem sie_increasing (xs : List Sample) : sieIncreasing (Sie.compress xs) = true :=
  wf_increasing _ 0 (GdModel.Props.C03.compress_wf xs)

/-! ### non-vacuity -/

example : Fits .c128 ⟨0x3ff0000000000000, 0x4000000000000000⟩ := by unfold Fits; decide
example : decodeSamples ⟨true, true⟩ .f64 (encodeSamples ⟨true, true⟩ .f64 [⟨0x3ff0000000000000, 0⟩, ⟨5, 0⟩] ++ [1, 2, 3])
    = [⟨0x3ff0000000000000, 0⟩, ⟨5, 0⟩] := by decide
example : parseLines (printLines [-12, 0, 305] ++ [52, 50]) = [some (-12), some 0, some 305] := by decide
example : sieIncreasing (Sie.compress [(⟨1, 0⟩ : Sample), ⟨1, 0⟩, ⟨2, 0⟩, ⟨1, 0⟩]) = true := by decide

end GdModel.Props.C04
