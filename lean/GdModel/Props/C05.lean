/-
  Property C05 — no file content can make the library misbehave.

  What a Lean model can carry of this property are the index, length and
  recursion obligations the C code relies on; they are proved here for all
  inputs.  Memory safety of the C itself is sampled by the sanitised
  correspondence run (checks/c05.py) — see the level note in MANIFEST.json.
-/
import GdModel.Hostile.Model
import GdModel.Hostile.Sie
import GdModel.Scope.Lemmas
import GdModel.Token.Fits
namespace GdModel.Props.C05
open GdModel.Hostile

/-! ### 0. the tokeniser's output fits the buffer it allocates -/

/-- `_GD_Tokenise` writes its tokens, NUL-separated, into `strdup(instring)`:
    for EVERY byte string they fit (proved in GdModel.Token.Fits by an invariant
    over the state machine: bytes written + bytes an unfinished escape has
    consumed <= bytes read, with `\\uXXXXXXX` expanding to at most one byte
    more than it has hex digits). -/
theorem tokenise_output_fits (v6 : Bool) (want : Nat) (input : List Nat) :
    GdModel.Token.Fits.sumLen (GdModel.Token.Impl.tokenise v6 want input).tokens ≤ input.length + 1 :=
  GdModel.Token.Fits.tokenise_output_fits v6 want input

/-- the bound is attained: every byte of "a b" is needed, plus the final NUL -/
example : GdModel.Token.Fits.sumLen (GdModel.Token.Impl.tokenise true 32 [97, 32, 98]).tokens = 4 := by decide

/-! ### 1. LINTERP table search stays inside the table -/

theorem incLoop_le (gt : Nat → Bool) (n fuel idx : Nat) (h : idx ≤ n - 2) :
    incLoop gt n fuel idx ≤ n - 2 := by
  induction fuel generalizing idx with
  | zero => simpa [incLoop] using h
  | succ f ih =>
    simp only [incLoop]
    split
    · rename_i hc; exact ih (idx + 1) (by omega)
    · exact h

theorem decLoop_le (lt : Nat → Bool) (fuel idx : Nat) : decLoop lt fuel idx ≤ idx := by
  induction fuel generalizing idx with
  | zero => simp [decLoop]
  | succ f ih =>
    simp only [decLoop]
    split
    · have := ih (idx - 1); omega
    · exact Nat.le_refl _

/-- For a table of at least two lines and a starting guess inside it, whatever
    the comparisons answer (NaN entries, unsorted or constant tables), the index
    returned satisfies `idx + 1 < n`: both `lut[idx]` and `lut[idx+1]`, which the
    interpolation reads, are inside the table. -/
theorem linterp_index_in_range (gt lt : Nat → Bool) (n idx : Nat) (hn : 2 ≤ n) (hi : idx ≤ n - 2) :
    getIndex gt lt n idx + 1 < n := by
  unfold getIndex
  have h1 := incLoop_le gt n n idx hi
  have h2 := decLoop_le lt n (incLoop gt n n idx)
  omega

/-- the guess carried from one sample to the next stays a valid starting guess -/
theorem linterp_index_invariant (gt lt : Nat → Bool) (n idx : Nat) (hi : idx ≤ n - 2) :
    getIndex gt lt n idx ≤ n - 2 := by
  unfold getIndex
  exact Nat.le_trans (decLoop_le lt n _) (incLoop_le gt n n idx hi)

/-- with fewer than two lines the search is NOT safe (`n - 2` wraps in the C):
    the reader must reject such tables, which `_GD_ReadLinterpFile` does (GD_E_LUT) -/
example : getIndex (fun _ => true) (fun _ => false) 2 0 = 0 := by decide

/-! ### 2. the recursion counter: every evaluation ends, circular definitions end in the recursion error -/

theorem foldl_stick (f : Nat → Res) (ins : List Nat) (r : Res) (hr : r ≠ .ok) :
    ins.foldl (fun r j => if r = .ok then f j else r) r = r := by
  induction ins with
  | nil => rfl
  | cons j t ih => simp [List.foldl, hr, ih]

theorem foldl_hits (f : Nat → Res) (ins : List Nat) (j : Nat) (hj : j ∈ ins) (hf : f j ≠ .ok) (r : Res) :
    ins.foldl (fun r j => if r = .ok then f j else r) r ≠ .ok := by
  induction ins generalizing r with
  | nil => cases hj
  | cons a t ih =>
    simp only [List.foldl]
    cases List.mem_cons.mp hj with
    | inl h =>
      subst h
      by_cases hr : r = .ok
      · simp only [hr, if_true]; rw [foldl_stick f t _ hf]; exact hf
      · simp only [hr, if_false]; rw [foldl_stick f t _ hr]; exact hr
    | inr h => exact ih h _

/-- **Circular definitions.**  If an unending chain of inputs starts at a field
    (any cycle gives one), its evaluation does not succeed, at any counter value. -/
theorem eval_unending_chain_fails (g : Graph) (p : Nat → Nat)
    (hp : ∀ k, ∃ ins, g[p k]? = some ins ∧ p (k + 1) ∈ ins) :
    ∀ budget k, eval g budget (p k) ≠ .ok := by
  intro budget
  induction budget with
  | zero => intro k; simp [eval]
  | succ b ih =>
    intro k
    cases b with
    | zero => simp [eval]
    | succ b =>
      obtain ⟨ins, h1, h2⟩ := hp k
      simp only [eval, h1]
      exact foldl_hits (eval g (b + 1)) ins (p (k + 1)) h2 (ih (k + 1)) .ok

theorem foldl_noBad (f : Nat → Res) (ins : List Nat) (hf : ∀ j ∈ ins, f j ≠ .badCode) (r : Res)
    (hr : r ≠ .badCode) : ins.foldl (fun r j => if r = .ok then f j else r) r ≠ .badCode := by
  induction ins generalizing r with
  | nil => exact hr
  | cons a t ih =>
    simp only [List.foldl]
    apply ih (fun j hj => hf j (List.mem_cons_of_mem _ hj))
    split
    · exact hf a List.mem_cons_self
    · exact hr

/-- when every input named exists, the only possible failure is the recursion error -/
theorem eval_closed_no_badCode (g : Graph) (hc : ∀ (i : Nat) (ins : List Nat), g[i]? = some ins → ∀ j ∈ ins, j < g.length) :
    ∀ budget i, i < g.length → eval g budget i ≠ .badCode := by
  intro budget
  induction budget with
  | zero => intro i _; simp [eval]
  | succ b ih =>
    intro i hi
    cases b with
    | zero => simp [eval]
    | succ b =>
      have : g[i]? = some g[i] := List.getElem?_eq_getElem hi
      simp only [eval, this]
      exact foldl_noBad _ _ (fun j hj => ih j (hc i _ this j hj)) .ok (by simp)

/-- **Circular definitions end in GD_E_RECURSE_LEVEL** (all inputs existing). -/
theorem circular_ends_in_recurse_level (g : Graph) (p : Nat → Nat)
    (hc : ∀ (i : Nat) (ins : List Nat), g[i]? = some ins → ∀ j ∈ ins, j < g.length)
    (hp : ∀ k, ∃ ins, g[p k]? = some ins ∧ p (k + 1) ∈ ins) :
    evalTop g (p 0) = .recurse := by
  have h1 := eval_unending_chain_fails g p hp maxRecurse 0
  have hlt : p 0 < g.length := by
    obtain ⟨ins, h, _⟩ := hp 0
    exact (List.getElem?_eq_some_iff.mp h).1
  have h2 := eval_closed_no_badCode g hc maxRecurse (p 0) hlt
  unfold evalTop
  cases h : eval g maxRecurse (p 0) <;> simp_all

/-- non-vacuity and the exact limit: a chain of 30 derived fields over a RAW
    field evaluates, a chain of 31 does not (the RAW field would be the 32nd level) -/
example : evalTop (chain 30) 30 = .ok ∧ evalTop (chain 31) 31 = .recurse := by decide
example : evalTop [[1], [2], [0]] 0 = .recurse := by decide   -- a three-cycle

/-! ### 3. include trees deeper than the limit end in the recursion error -/
open GdModel.Scope in
mutual
theorem item_err_of_too_deep (i : Item) (depth : Nat) (st : St)
    (h : depth + i.depth ≥ Scope.maxRecurse) (hd : depth < Scope.maxRecurse) :
    (Impl.item depth i st).err = true := by
  cases i with
  | inc ns px sx body =>
    simp only [Item.depth] at h
    simp only [Impl.item]
    split
    · rfl
    · rename_i hlim
      exact items_err_of_too_deep body (depth + 1) _ (by omega) (by omega)
  | set a v => simp [Item.depth] at h; omega
  | version v => simp [Item.depth] at h; omega
  | reference c => simp [Item.depth] at h; omega
  | nspace ns => simp [Item.depth] at h; omega
  | raw n minv => simp [Item.depth] at h; omega
  | other n minv => simp [Item.depth] at h; omega
theorem items_err_of_too_deep (its : Items) (depth : Nat) (st : St)
    (h : depth + its.depth ≥ Scope.maxRecurse) (hd : depth < Scope.maxRecurse) :
    (Impl.items depth its st).err = true := by
  cases its with
  | nil => simp [Items.depth] at h; omega
  | cons i r =>
    simp only [Items.depth] at h
    simp only [Impl.items]
    split
    · assumption
    · rename_i he
      by_cases hi : depth + i.depth ≥ Scope.maxRecurse
      · exact absurd (item_err_of_too_deep i depth st hi hd) he
      · exact items_err_of_too_deep r depth _ (by omega) hd
end

/-- an include tree nested to GD_MAX_RECURSE_LEVEL or deeper (in particular any
    circular /INCLUDE) makes gd_open fail with GD_E_RECURSE_LEVEL instead of recursing on -/
theorem deep_include_ends_in_recurse_level (perm ped : Bool) (root : GdModel.Scope.Attrs)
    (its : GdModel.Scope.Items) (h : its.depth ≥ GdModel.Scope.maxRecurse) :
    (GdModel.Scope.parse perm ped root its).err = true := by
  unfold GdModel.Scope.parse
  exact items_err_of_too_deep its 0 _ (by omega) (by decide)


/-! ### 4. the SIE record cursor on untrusted indices -/

/-- `_GD_SampIndRead` on a file whose record indices are arbitrary values the
    repaired `_GD_Advance` accepts ([-1, 2^63-2], in any order): never more than
    `nelem` samples are delivered, and every intermediate quantity (`s - p`,
    `s - p + 1`, `s + 1`, `nelem - count`) stays inside an int64
    (`GdModel.Hostile.Sie.inv_fits` under the invariant `Inv`, which
    `readLoop_inv` shows is kept by every iteration). -/
theorem sie_read_count_bound (nelem : Int) (recs : List Int) (hn0 : 0 ≤ nelem)
    (hv : ∀ r ∈ recs, GdModel.Hostile.Sie.ValidIdx r) :
    0 ≤ (GdModel.Hostile.Sie.read nelem recs ⟨0, -1, 0⟩).count ∧
    (GdModel.Hostile.Sie.read nelem recs ⟨0, -1, 0⟩).count ≤ nelem := by
  have h := GdModel.Hostile.Sie.read_count_bounded nelem recs ⟨0, -1, 0⟩ hn0 hv
    (GdModel.Hostile.Sie.init_inv nelem hn0)
  exact ⟨h.1, h.2.1⟩

theorem sie_cursor_fits_int64 (nelem : Int) (recs : List Int) (hn : nelem ≤ 2 ^ 62) (hn0 : 0 ≤ nelem)
    (hv : ∀ r ∈ recs, GdModel.Hostile.Sie.ValidIdx r) :
    -2 ^ 63 ≤ (GdModel.Hostile.Sie.readLoop nelem recs ⟨0, -1, 0⟩).s - (GdModel.Hostile.Sie.readLoop nelem recs ⟨0, -1, 0⟩).p ∧
    (GdModel.Hostile.Sie.readLoop nelem recs ⟨0, -1, 0⟩).s - (GdModel.Hostile.Sie.readLoop nelem recs ⟨0, -1, 0⟩).p < 2 ^ 63 ∧
    (GdModel.Hostile.Sie.readLoop nelem recs ⟨0, -1, 0⟩).s + 1 ≤ GdModel.Hostile.Sie.maxI := by
  have h := GdModel.Hostile.Sie.inv_fits nelem _
    (GdModel.Hostile.Sie.readLoop_inv nelem recs ⟨0, -1, 0⟩ hv (GdModel.Hostile.Sie.init_inv nelem hn0)) hn
  exact ⟨h.1, h.2.1, h.2.2.1⟩

end GdModel.Props.C05
