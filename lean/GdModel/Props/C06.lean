/-
  Property C06 — numeric type conversion preserves every representable value.

  The 12×12 table `convTable` is regenerated from src/types.c on every run
  (extractor X1).  The theorems below say, for ALL source values:

  * `table_sem_canonical` / `convert_spec` : every table entry means the
     conversion the property describes (`specConv`), for all 144 pairs;
  * `int_int_wrap`, `representable_preserved` : integer → integer conversions
     wrap modulo 2^N and leave representable values unchanged;
  * `float_to_int_trunc` : floating values with an in-range integer part
     truncate toward zero (and anything else is C-undefined, on which the
     property is silent);
  * `int_to_float_nearest` (+ `rne_nearest`, `rne_ties_even`, `rne_exact`) :
     integers become the nearest floating value, ties to even;
  * `real_to_complex`, `complex_to_real` : zero imaginary part / dropped.
-/
import GdModel.Num.CastLemmas
import GdModel.Generated.ConvTable

namespace GdModel.Props.C06
open GdModel.Num GdModel.Generated

/-- A sample is a valid bit pattern of type `t`. -/
def SampleWF (t : Ty) (x : Sample) : Prop :=
  x.re < 2 ^ t.comp.width ∧ (if t.isComplex then x.im < 2 ^ t.comp.width else x.im = 0)

/-! ## 1. The table extracted from the C source is the canonical conversion -/

theorem chainOK_sound (s d : Ty) (c : Chain) (h : chainOK s d c = true) (x : Sample) :
    c.sem x = (canonical s d).sem x := by
  unfold chainOK at h
  rw [Bool.or_eq_true] at h
  rcases h with h | h
  · rw [beq_iff_eq] at h; rw [h]
  · cases c with
    | cast l ct st =>
      simp only [Bool.and_eq_true, Bool.not_eq_true', bne_iff_ne, ne_eq, beq_iff_eq,
        Bool.or_eq_true, decide_eq_true_eq] at h
      obtain ⟨⟨⟨⟨⟨⟨⟨⟨hs, hd⟩, hne⟩, hl⟩, hdf⟩, hctf⟩, hstf⟩, hsw⟩, hfl⟩ := h
      have hcan : canonical s d = .cast s.comp d.comp d.comp := by
        unfold canonical; rw [if_neg hne, hs, hd]
      rw [hcan]
      simp only [Chain.sem]
      rw [cast2_int_store s.comp d.comp d.comp hdf hdf rfl, hl]
      congr 1
      rcases hfl with ⟨hsf, hge⟩ | hfl
      · -- integer source, cast type at least as wide as the destination
        exact cast2_int_via_wider s.comp ct st d.comp hsf hctf hstf hdf hsw hge x.re
      · -- cast type is the destination type; store type has its width
        rw [hfl]
        exact cast2_int_store s.comp d.comp st hdf hstf hsw x.re
    | _ => simp at h

theorem table_chainOK_all :
    (Ty.all.all fun s => Ty.all.all fun d => chainOK s d (convTable s d)) = true := by decide

theorem table_wf_all :
    (Ty.all.all fun s => Ty.all.all fun d => (convTable s d).wf s d) = true := by decide

theorem table_chainOK (s d : Ty) : chainOK s d (convTable s d) = true := by
  have h := table_chainOK_all
  rw [List.all_eq_true] at h
  have h2 := h s (Ty.mem_all s)
  rw [List.all_eq_true] at h2
  exact h2 d (Ty.mem_all d)

/-- Every pointer cast in the table addresses elements of the right width. -/
theorem table_wf (s d : Ty) : (convTable s d).wf s d = true := by
  have h := table_wf_all
  rw [List.all_eq_true] at h
  have h2 := h s (Ty.mem_all s)
  rw [List.all_eq_true] at h2
  exact h2 d (Ty.mem_all d)

/-- **Main table theorem.** For every ordered pair of sample types and every
    source sample, the statement found in `_GD_ConvertType` computes what the
    canonical chain (load as source type, cast to destination type, store as
    destination type) computes. -/
theorem table_sem_canonical (s d : Ty) (x : Sample) :
    (convTable s d).sem x = (canonical s d).sem x :=
  chainOK_sound s d _ (table_chainOK s d) x

/-- The canonical chain is the conversion the property states. -/
theorem canonical_sem_spec (s d : Ty) (x : Sample) (hx : SampleWF s x) :
    (canonical s d).sem x = specConv s d x := by
  obtain ⟨hre, him⟩ := hx
  unfold canonical specConv
  by_cases hsd : s = d
  · subst hsd
    rw [if_pos rfl]
    simp only [Chain.sem]
    cases hc : s.isComplex
    · simp only [hc] at him ⊢
      rw [ccast_self _ _ hre]
      simp only [Option.map_some]
      cases x; simp_all
    · simp only [hc, if_true] at him ⊢
      rw [ccast_self _ _ hre, ccast_self _ _ him]
  · rw [if_neg hsd]
    cases hs : s.isComplex <;> cases hd : d.isComplex <;> simp only [Chain.sem]
    · -- real → real : the second, implicit conversion to the lvalue type is the identity
      unfold cast2
      cases hc : ccast s.comp d.comp x.re with
      | none => rfl
      | some r =>
        simp only [Option.bind_some, Option.map_some]
        cases hdf : d.comp.isFloat
        · rw [ccast_self _ _ (ccast_int_lt _ _ hdf _ _ hc)]; rfl
        · have : ccast d.comp d.comp r = some r := by
            unfold ccast; rw [hdf]; simp [fcast]
          rw [this]; rfl
    · have hdf : d.comp.isFloat = true := by cases d <;> simp_all [Ty.isComplex, Ty.comp, CT.isFloat]
      have hid : ∀ r, ccast d.comp d.comp r = some r := by
        intro r; unfold ccast; rw [hdf]; simp [fcast]
      unfold cast2
      cases h1 : ccast s.comp d.comp x.re <;> cases h2 : ccast s.comp d.comp x.im <;>
        simp [hid]

/-- **C06, table form.**  What `_GD_ConvertType` does for the pair (s,d) on any
    valid source sample is exactly `specConv s d`. -/
theorem convert_spec (s d : Ty) (x : Sample) (hx : SampleWF s x) :
    (convTable s d).sem x = specConv s d x := by
  rw [table_sem_canonical, canonical_sem_spec s d x hx]

/-! ## 2. What `specConv`/`ccast` promise (the clauses of the property) -/

/-- integer → integer: the destination holds the source value modulo 2^N. -/
theorem int_int_wrap (s d : CT) (hs : s.isFloat = false) (hd : d.isFloat = false) (x : Nat) :
    ∃ r, ccast s d x = some r ∧ r < 2 ^ d.width ∧
      d.toInt r % (2 : Int) ^ d.width = s.toInt x % (2 : Int) ^ d.width := by
  refine ⟨d.ofInt (s.toInt x), ?_, CT.ofInt_lt _ _, CT.toInt_ofInt_emod _ _⟩
  unfold ccast; rw [hs, hd]

/-- integer → integer: a value representable in the destination arrives unchanged. -/
theorem representable_preserved (s d : CT) (hs : s.isFloat = false) (hd : d.isFloat = false)
    (x : Nat) (hr : d.inRange (s.toInt x) = true) :
    ∃ r, ccast s d x = some r ∧ d.toInt r = s.toInt x := by
  refine ⟨d.ofInt (s.toInt x), ?_, CT.toInt_ofInt_of_inRange d hd _ hr⟩
  unfold ccast; rw [hs, hd]

/-- Truncation toward zero: `truncMag m e` is ⌊m·2^e⌋. -/
theorem truncMag_floor (m : Nat) (e : Int) (he : e < 0) :
    truncMag m e * 2 ^ (-e).toNat ≤ m ∧ m < (truncMag m e + 1) * 2 ^ (-e).toNat := by
  unfold truncMag
  rw [if_neg (by omega)]
  have hp : 0 < 2 ^ (-e).toNat := Nat.two_pow_pos _
  constructor
  · exact Nat.div_mul_le_self m _
  · have := Nat.lt_mul_div_succ m hp
    rw [Nat.mul_comm]; exact this

theorem truncMag_exact (m : Nat) (e : Int) (he : 0 ≤ e) : truncMag m e = m * 2 ^ e.toNat := by
  unfold truncMag; rw [if_pos he]

/-- floating → integer: a finite value whose integer part fits the destination
    becomes that integer part (sign kept, fraction dropped); NaN, ±Inf and
    out-of-range values are exactly the C-undefined cases. -/
theorem float_to_int_trunc (s d : CT) (hs : s.isFloat = true) (hd : d.isFloat = false) (x : Nat) :
    (∀ r, ccast s d x = some r →
        ∃ neg m e, s.fmt.decode x = .fin neg m e ∧
          d.toInt r = (if neg = true then -(truncMag m e : Int) else (truncMag m e : Int))) ∧
    (ccast s d x = none ↔
        (∀ neg m e, s.fmt.decode x = .fin neg m e →
          d.inRange (if neg = true then -(truncMag m e : Int) else (truncMag m e : Int)) = false)) := by
  unfold ccast
  rw [hs, hd]
  simp only
  cases hdec : s.fmt.decode x with
  | nan n p => simp
  | inf n => simp
  | fin neg m e =>
    simp only
    generalize hv : (if neg = true then -(truncMag m e : Int) else (truncMag m e : Int)) = v
    constructor
    · intro r hr
      split at hr
      · rename_i hin
        injection hr with hr
        refine ⟨neg, m, e, rfl, ?_⟩
        rw [hv, ← hr]
        exact CT.toInt_ofInt_of_inRange d hd _ hin
      · contradiction
    · constructor
      · intro h neg' m' e' heq
        injection heq with h1 h2 h3
        subst h1 h2 h3
        rw [hv]
        split at h
        · contradiction
        · rename_i hin; simpa using hin
      · intro h
        have := h neg m e rfl
        rw [hv] at this
        rw [if_neg (by simp [this])]

/-- Round-to-nearest: the integer chosen for m / 2^k is within half a unit. -/
theorem rne_nearest (m k : Nat) (hk : 0 < k) :
    2 * (rne m k * 2 ^ k) ≤ 2 * m + 2 ^ k ∧ 2 * m ≤ 2 * (rne m k * 2 ^ k) + 2 ^ k := by
  have hP : 0 < 2 ^ k := Nat.two_pow_pos k
  have hdm := Nat.div_add_mod m (2 ^ k)
  have hlt := Nat.mod_lt m hP
  have heven : 2 ^ k = 2 * (2 ^ k / 2) := by
    cases k with
    | zero => omega
    | succ n => rw [Nat.pow_succ]; omega
  unfold rne
  simp only
  rw [if_neg (by omega)]
  generalize hq : m / 2 ^ k = q at *
  generalize hr : m % 2 ^ k = r at *
  generalize hh : 2 ^ k / 2 = h at *
  generalize hPP : 2 ^ k = P at *
  have e1 : (q + 1) * P = q * P + P := by rw [Nat.add_mul, Nat.one_mul]
  have e2 : P * q = q * P := Nat.mul_comm _ _
  split
  · rw [e1]; omega
  · omega

/-- Ties go to the even neighbour. -/
theorem rne_ties_even (m k : Nat) (hk : 0 < k) (htie : m % 2 ^ k = 2 ^ k / 2) :
    rne m k % 2 = 0 := by
  unfold rne
  simp only
  rw [if_neg (by omega)]
  split
  · rename_i h
    rcases h with h | ⟨_, h⟩
    · omega
    · omega
  · rename_i h
    have : ¬ (m / 2 ^ k % 2 = 1) := fun hq => h (Or.inr ⟨htie, hq⟩)
    omega

/-- When no bits are dropped the value is unchanged. -/
theorem rne_exact (m : Nat) : rne m 0 = m := by unfold rne; simp

/-- When the dropped bits are zero the quotient is exact. -/
theorem rne_of_dvd (m k : Nat) (h : m % 2 ^ k = 0) : rne m k * 2 ^ k = m := by
  unfold rne
  simp only
  split
  · subst_vars; simp
  · rename_i hk
    have hP : 0 < 2 ^ k := Nat.two_pow_pos k
    have heven : 2 ^ k = 2 * (2 ^ k / 2) := by
      cases k with
      | zero => omega
      | succ n => rw [Nat.pow_succ]; omega
    rw [if_neg (by omega)]
    have := Nat.div_add_mod m (2 ^ k)
    rw [h, Nat.add_zero, Nat.mul_comm] at this
    exact this

/-- integer → floating: the significand is chosen by round-to-nearest-even of
    the integer's magnitude (this is the definition `ccast` unfolds to; the
    three `rne_*` theorems above say what that rounding is). -/
theorem int_to_float_nearest (s d : CT) (hs : s.isFloat = false) (hd : d.isFloat = true) (x : Nat) :
    ccast s d x = some (d.fmt.round (decide (s.toInt x < 0)) (s.toInt x).natAbs 0) := by
  unfold ccast; rw [hs, hd]

/-- real → complex: the imaginary part is +0 (bit pattern 0). -/
theorem real_to_complex (s d : Ty) (hs : s.isComplex = false) (hd : d.isComplex = true)
    (x r : Sample) (h : specConv s d x = some r) :
    r.im = 0 ∧ ccast s.comp d.comp x.re = some r.re := by
  unfold specConv at h
  rw [hs, hd] at h
  simp only at h
  cases hc : ccast s.comp d.comp x.re with
  | none => rw [hc] at h; contradiction
  | some v => rw [hc] at h; simp at h; rw [← h]; exact ⟨rfl, rfl⟩

/-- complex → real: the imaginary part is dropped, the real part converted. -/
theorem complex_to_real (s d : Ty) (hs : s.isComplex = true) (hd : d.isComplex = false)
    (x : Sample) :
    specConv s d x = (ccast s.comp d.comp x.re).map (fun r => ⟨r, 0⟩) := by
  unfold specConv; rw [hs, hd]

/-! ## 3. Non-vacuity and concrete witnesses (kernel-evaluated) -/

/-- INT16 −1 → UINT32 is 4294967295 (the entry that loaded `uint16_t` before the fix). -/
example : (convTable .i16 .u32).sem ⟨0xFFFF, 0⟩ = some ⟨4294967295, 0⟩ := by decide
/-- FLOAT64 3e9 → UINT32 is 3000000000 (the entry that cast through `int32_t`). -/
example : (convTable .f64 .u32).sem ⟨0x41E65A0BC0000000, 0⟩ = some ⟨3000000000, 0⟩ := by decide
/-- 2^53+1 → FLOAT64 rounds to even (2^53). -/
example : ccast .u64 .f64 (2 ^ 53 + 1) = some 0x4340000000000000 := by decide
/-- 2^53+3 → FLOAT64 rounds to even (2^53+4). -/
example : ccast .u64 .f64 (2 ^ 53 + 3) = some 0x4340000000000002 := by decide
example : ccast .f64 .i8 0xC060000000000000 = some 0x80 := by decide   -- -128.0 → INT8
example : ccast .f64 .i8 0xC060200000000000 = none := by decide        -- -129.0 is undefined
example : SampleWF .c64 ⟨0x3F800000, 0x40000000⟩ := by unfold SampleWF; decide
example : ccast .f64 .f32 0x3FF0000010000000 = some 0x3F800000 := by decide  -- tie → even
example : ccast .f64 .f32 0x3FF0000030000000 = some 0x3F800002 := by decide

end GdModel.Props.C06
