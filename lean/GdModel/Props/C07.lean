/-
  Property C07 — metadata survive a flush and reopen unchanged.

  The part of the round trip that is pure text is proved here: the token
  writer of gd_metaflush (`_GD_StringEscapeise`, modelled in Token.Escape)
  followed by the tokeniser of the Standards (Token.Spec, whose agreement with
  `_GD_Tokenise` is the subject of C08) returns the original bytes, for EVERY
  byte string without NUL:

  * `body_esc1`        one escaped byte is read back as that byte, from any
                       tokeniser state inside an unquoted token;
  * `body_escape`      lifted over a whole string by induction;
  * `token_roundtrip`  a written token followed by a newline tokenises to
                       exactly that token, no error (strings "byte-for-byte,
                       any bytes except NUL");
  * `tokens_roundtrip` a line of several written tokens separated by spaces
                       tokenises to exactly those tokens;
  * `empty_roundtrip`  the empty string, written `""`.
-/
import GdModel.Token.Escape
import GdModel.Generated.WriteCode
namespace GdModel.Props.C07
open GdModel.Token GdModel.Token.Spec

theorem hexDigit_isHex (n : Nat) (h : n < 16) : isHex (hexDigitUpper n) = true := by
  unfold hexDigitUpper isHex
  by_cases h10 : n < 10
  · simp [h10]; omega
  · simp [h10]; omega

theorem hexDigit_val (n : Nat) (h : n < 16) : hexVal (hexDigitUpper n) = n := by
  unfold hexDigitUpper hexVal
  by_cases h10 : n < 10
  · simp only [h10, if_true]; rw [if_pos (by omega)]; omega
  · simp only [h10, if_false]; rw [if_neg (by omega), if_pos (by omega)]; omega

/-- one step of the token reader on a non-empty input (definitional unfolding) -/
theorem body_cons (v6 : Bool) (fuel : Nat) (quoted : Bool) (acc : List Nat) (c : Nat) (rest : List Nat) :
    body v6 (fuel + 1) quoted acc (c :: rest) =
      (if c = 92 ∧ v6 then
        match Spec.escape rest with
        | .error e => .error e
        | .ok (none, _) => .error .unterminated
        | .ok (some bs, r) => body v6 fuel quoted (bs.reverse ++ acc) r
      else if c = 34 ∧ v6 then body v6 fuel (!quoted) acc rest
      else if !quoted ∧ isWs c then .ok (acc.reverse, rest)
      else if !quoted ∧ c = 35 then .ok (acc.reverse, c :: rest)
      else body v6 fuel quoted (c :: acc) rest) := by
  conv => lhs; rw [body]
  split
  · cases Spec.escape rest with
    | error e => rfl
    | ok p => obtain ⟨o, r⟩ := p; cases o <;> rfl
  · rfl

/-- `\\`, `\#`, `\"`, `\ ` decode to the byte itself -/
theorem escape_literal (b : Nat) (h1 : b = 92 ∨ b = 35 ∨ b = 34 ∨ b = 32) (rest : List Nat) :
    Spec.escape (b :: rest) = .ok (some [b], rest) := by
  rcases h1 with h | h | h | h <;> subst h <;>
    simp [Spec.escape, Spec.escape.decode, simpleEscape, isOctal]

/-- `\xHH` with the two upper-case hex digits of `b` decodes to `b` -/
theorem escape_hex (b : Nat) (hb0 : 0 < b) (hb : b < 256) (rest : List Nat) :
    Spec.escape (120 :: hexDigitUpper (b / 16) :: hexDigitUpper (b % 16) :: rest) = .ok (some [b], rest) := by
  have hd1 := hexDigit_isHex (b / 16) (by omega)
  have hd2 := hexDigit_isHex (b % 16) (by omega)
  have hv1 := hexDigit_val (b / 16) (by omega)
  have hv2 := hexDigit_val (b % 16) (by omega)
  have htake : takeUpTo isHex 2 (hexDigitUpper (b / 16) :: hexDigitUpper (b % 16) :: rest)
      = ([hexDigitUpper (b / 16), hexDigitUpper (b % 16)], rest) := by
    simp [takeUpTo, hd1, hd2]
  have hval : hexValue [hexDigitUpper (b / 16), hexDigitUpper (b % 16)] = b := by
    unfold hexValue
    simp only [List.foldl, hv1, hv2]
    omega
  have hmod : b % 256 = b := Nat.mod_eq_of_lt hb
  have hb0' : b ≠ 0 := by omega
  simp [Spec.escape, Spec.escape.decode, simpleEscape, isOctal, htake, hval, Spec.escape.num, hmod, hb0']

/-- **one byte**: from inside an unquoted token, reading the escaped form of a
    non-NUL byte `b` appends exactly `b` -/
theorem body_esc1 (b : Nat) (hb0 : 0 < b) (hb : b < 256) (fuel : Nat) (acc rest : List Nat) :
    body true (fuel + 1) false acc (esc1 b ++ rest) = body true fuel false (b :: acc) rest := by
  unfold esc1
  by_cases h1 : b = 92 ∨ b = 35 ∨ b = 34 ∨ b = 32
  · rw [if_pos h1]
    show body true (fuel + 1) false acc (92 :: b :: rest) = _
    rw [body_cons, if_pos (by simp), escape_literal b h1 rest]
    simp
  · rw [if_neg h1]
    by_cases h2 : b < 32
    · rw [if_pos h2]
      show body true (fuel + 1) false acc (92 :: 120 :: hexDigitUpper (b / 16) :: hexDigitUpper (b % 16) :: rest) = _
      rw [body_cons, if_pos (by simp), escape_hex b hb0 hb rest]
      simp
    · rw [if_neg h2]
      show body true (fuel + 1) false acc (b :: rest) = _
      have hws : isWs b = false := by
        unfold isWs
        simp only [Bool.or_eq_false_iff, beq_eq_false_iff_ne]
        omega
      rw [body_cons, if_neg (by omega), if_neg (by omega)]
      simp only [hws, Bool.not_false, Bool.false_eq_true, and_false, if_false]
      rw [if_neg (by omega)]

/-- **a whole string**, from inside an unquoted token -/
theorem body_escape (s : List Nat) (hs : ∀ b ∈ s, 0 < b ∧ b < 256) (fuel : Nat) (acc rest : List Nat) :
    body true (fuel + s.length) false acc (s.flatMap esc1 ++ rest) = body true fuel false (s.reverse ++ acc) rest := by
  induction s generalizing acc with
  | nil => simp
  | cons b t ih =>
    have hb := hs b List.mem_cons_self
    rw [List.flatMap_cons, List.append_assoc, List.length_cons]
    have : fuel + (t.length + 1) = (fuel + t.length) + 1 := by omega
    rw [this, body_esc1 b hb.1 hb.2, ih (fun c hc => hs c (List.mem_cons_of_mem _ hc))]
    simp

/-- the first byte of a written non-empty token starts a token (neither whitespace nor `#`) -/
theorem escape_head (b : Nat) (hb0 : 0 < b) (t : List Nat) :
    ∃ c r, esc1 b ++ t = c :: r ∧ isWs c = false ∧ c ≠ 35 := by
  unfold esc1
  by_cases h1 : b = 92 ∨ b = 35 ∨ b = 34 ∨ b = 32
  · rw [if_pos h1]; exact ⟨92, b :: t, rfl, rfl, by decide⟩
  · rw [if_neg h1]
    by_cases h2 : b < 32
    · rw [if_pos h2]; exact ⟨92, _, rfl, rfl, by decide⟩
    · rw [if_neg h2]
      refine ⟨b, t, rfl, ?_, by omega⟩
      unfold isWs
      simp only [Bool.or_eq_false_iff, beq_eq_false_iff_ne]
      omega

theorem esc1_length_pos (b : Nat) : 1 ≤ (esc1 b).length := by
  unfold esc1; split <;> (try split) <;> simp

theorem flatMap_esc1_length (s : List Nat) : s.length ≤ (s.flatMap esc1).length := by
  induction s with
  | nil => simp
  | cons b t ih =>
    rw [List.flatMap_cons, List.length_append, List.length_cons]
    have := esc1_length_pos b
    omega

/-- reading one written token that is followed by whitespace `w` and `rest`:
    the tokeniser's token reader returns exactly the token and leaves `rest` -/
theorem body_token (s : List Nat) (hne : s ≠ []) (hs : ∀ b ∈ s, 0 < b ∧ b < 256)
    (w : Nat) (hw : isWs w = true) (rest : List Nat) (fuel : Nat) (hf : s.length + 1 ≤ fuel) :
    body true fuel false [] (escapeStr s ++ w :: rest) = .ok (s, rest) := by
  unfold escapeStr
  rw [if_neg hne]
  obtain ⟨k, hk⟩ : ∃ k, fuel = (k + 1) + s.length := ⟨fuel - s.length - 1, by omega⟩
  rw [hk, body_escape s hs (k + 1) [] (w :: rest), body_cons]
  have h92 : w ≠ 92 := by intro h; subst h; simp [isWs] at hw
  have h34 : w ≠ 34 := by intro h; subst h; simp [isWs] at hw
  rw [if_neg (by simp [h92]), if_neg (by simp [h34])]
  simp [hw]

/-- **token round trip**: `_GD_StringEscapeise` then tokenise gives the token back -/
theorem token_roundtrip (s : List Nat) (hne : s ≠ []) (hs : ∀ b ∈ s, 0 < b ∧ b < 256) :
    tokenise true (escapeStr s ++ [10]) = ⟨[s], none⟩ := by
  unfold tokenise
  obtain ⟨b, t, rfl⟩ := List.exists_cons_of_ne_nil hne
  have hb := hs b List.mem_cons_self
  have hbody := body_token (b :: t) hne hs 10 rfl []
  have hesc : escapeStr (b :: t) = esc1 b ++ t.flatMap esc1 := by
    unfold escapeStr; rw [if_neg hne, List.flatMap_cons]
  obtain ⟨c, r, hcr, hcws, hc35⟩ := escape_head b hb.1 (t.flatMap esc1 ++ [10])
  have hwhole : escapeStr (b :: t) ++ [10] = c :: r := by rw [hesc, List.append_assoc]; exact hcr
  rw [hwhole] at hbody ⊢
  simp only [List.length_cons]
  unfold tokens
  rw [if_neg (by simp [hcws]), if_neg hc35]
  have hlen : (b :: t).length ≤ r.length := by
    have h1 : (c :: r).length = (escapeStr (b :: t) ++ [10]).length := by rw [hwhole]
    rw [hesc, List.length_append, List.length_append, List.length_singleton] at h1
    have := flatMap_esc1_length t
    have := esc1_length_pos b
    simp only [List.length_cons] at h1 ⊢
    omega
  rw [hbody (r.length + 2) (by omega)]
  simp only
  unfold tokens
  rfl

/-- the tokens loop on a line of written tokens, each followed by a space, then a newline -/
theorem tokens_line (toks : List (List Nat))
    (h : ∀ t ∈ toks, t ≠ [] ∧ ∀ b ∈ t, 0 < b ∧ b < 256) :
    ∀ (fuel : Nat) (acc : List (List Nat)),
      (toks.flatMap (fun t => escapeStr t ++ [32]) ++ [10]).length + 1 ≤ fuel →
      tokens true fuel (toks.flatMap (fun t => escapeStr t ++ [32]) ++ [10]) acc = ⟨acc.reverse ++ toks, none⟩ := by
  induction toks with
  | nil =>
    intro fuel acc hf
    simp only [List.flatMap_nil, List.nil_append, List.length_singleton] at hf ⊢
    obtain ⟨k, rfl⟩ : ∃ k, fuel = k + 1 := ⟨fuel - 1, by omega⟩
    unfold tokens
    rw [if_pos (by rfl)]
    cases k <;> simp [tokens]
  | cons t ts ih =>
    intro fuel acc hf
    obtain ⟨hne, hs⟩ := h t List.mem_cons_self
    obtain ⟨b, t', rfl⟩ := List.exists_cons_of_ne_nil hne
    have hb := hs b List.mem_cons_self
    rw [List.flatMap_cons] at hf ⊢
    -- the input is  escapeStr (b :: t') ++ 32 :: rest
    have hshape : (escapeStr (b :: t') ++ [32]) ++ ts.flatMap (fun t => escapeStr t ++ [32]) ++ [10]
        = escapeStr (b :: t') ++ 32 :: (ts.flatMap (fun t => escapeStr t ++ [32]) ++ [10]) := by simp
    rw [hshape] at hf ⊢
    have hesc : escapeStr (b :: t') = esc1 b ++ t'.flatMap esc1 := by
      unfold escapeStr; rw [if_neg hne, List.flatMap_cons]
    obtain ⟨c, r, hcr, hcws, hc35⟩ := escape_head b hb.1
      (t'.flatMap esc1 ++ 32 :: (ts.flatMap (fun t => escapeStr t ++ [32]) ++ [10]))
    have hwhole : escapeStr (b :: t') ++ 32 :: (ts.flatMap (fun t => escapeStr t ++ [32]) ++ [10]) = c :: r := by
      rw [hesc, List.append_assoc]; exact hcr
    have hbody := body_token (b :: t') hne hs 32 rfl (ts.flatMap (fun t => escapeStr t ++ [32]) ++ [10])
    rw [hwhole] at hbody hf ⊢
    obtain ⟨k, rfl⟩ : ∃ k, fuel = k + 1 := ⟨fuel - 1, by simp only [List.length_cons] at hf; omega⟩
    unfold tokens
    rw [if_neg (by simp [hcws]), if_neg hc35]
    have hlen : (b :: t').length + (ts.flatMap (fun t => escapeStr t ++ [32]) ++ [10]).length + 1 ≤ (c :: r).length := by
      rw [← hwhole, hesc]
      have := flatMap_esc1_length t'
      have := esc1_length_pos b
      simp only [List.length_append, List.length_cons] at *
      omega
    simp only [List.length_cons] at hlen hf
    rw [hbody (r.length + 2) (by simp only [List.length_cons]; omega)]
    simp only
    rw [ih (fun t ht => h t (List.mem_cons_of_mem _ ht)) k ((b :: t') :: acc) (by omega)]
    simp

/-- **line round trip**: several written tokens separated by spaces tokenise to exactly those tokens -/
theorem tokens_roundtrip (toks : List (List Nat))
    (h : ∀ t ∈ toks, t ≠ [] ∧ ∀ b ∈ t, 0 < b ∧ b < 256) :
    tokenise true (toks.flatMap (fun t => escapeStr t ++ [32]) ++ [10]) = ⟨toks, none⟩ := by
  unfold tokenise
  rw [tokens_line toks h _ [] (by omega)]
  simp

theorem empty_roundtrip : tokenise true (escapeStr [] ++ [10]) = ⟨[[]], none⟩ := by decide

/-! ### non-vacuity: a nasty string -/
example : tokenise true (escapeStr [32, 35, 34, 92, 1, 10, 9, 200, 65, 120] ++ [10])
    = ⟨[[32, 35, 34, 92, 1, 10, 9, 200, 65, 120]], none⟩ := by decide
example : escapeStr [65, 32, 1] = [65, 92, 32, 92, 120, 48, 49] := by decide
example : tokenise true ([[108], [32, 34], [200, 7]].flatMap (fun t => escapeStr t ++ [32]) ++ [10])
    = ⟨[[108], [32, 34], [200, 7]], none⟩ := by decide

/-! ### scalar field codes that look like numbers (`_GD_WriteFieldCode`, facts extracted by X6) -/

namespace WriteCode
open GdModel.Generated

/-- what the format-file parser makes of a scalar parameter token (`_GD_SetScalar`):
    a number is a literal, anything else a field code -/
inductive Parsed where
  | literal
  | code (c : List Nat)
  deriving DecidableEq

def parseScalar (isNum : List Nat → Bool) (tok : List Nat) : Parsed :=
  if isNum tok then .literal else .code tok

def suffixBytes : List Nat := [60, 48, 62]   -- "<0>"

/-- `_GD_WriteFieldCode` for a scalar code without element index, as the extracted
    facts describe it: the stripped code is written; `<0>` is appended when the
    variable named `tested` looks like a number -/
def writeScalar (f : WriteCodeFacts) (strip : List Nat → List Nat) (isNum : List Nat → Bool) (code : List Nat) : List Nat :=
  let s := strip code
  let t := if f.tested = f.stripped then s else code
  if f.guardScalar && f.guardIndex && isNum t then s ++ suffixBytes else s

/-- the facts the round trip needs, checked against the current source -/
theorem writecode_facts_ok :
    writeCodeFacts.written = writeCodeFacts.stripped ∧ writeCodeFacts.tested = writeCodeFacts.stripped ∧
    writeCodeFacts.guardScalar = true ∧ writeCodeFacts.guardIndex = true ∧ writeCodeFacts.suffix = "<0>" := by
  decide

/-- **A scalar field code is never read back as a number**, whatever the
    fragment's affixes strip from it: for every stripping function and every
    notion of "looks like a number" under which nothing ending in `<0>` is a
    number (true of `_GD_TokToNum`: `>` cannot end a literal). -/
theorem scalar_code_reads_back_as_code (strip : List Nat → List Nat) (isNum : List Nat → Bool)
    (hsuf : ∀ s, isNum (s ++ suffixBytes) = false) (code : List Nat) :
    parseScalar isNum (writeScalar writeCodeFacts strip isNum code) ≠ .literal := by
  have hf := writecode_facts_ok
  unfold writeScalar parseScalar
  simp only [hf.2.1, hf.2.2.1, hf.2.2.2.1, if_true, Bool.true_and]
  by_cases h : isNum (strip code) = true
  · simp [h, hsuf]
  · simp [h]

/-- the mistake of testing the unstripped code: with prefix "A" the code "A10"
    does not look like a number, what is written ("10") does -/
example :
    let bad : WriteCodeFacts := { writeCodeFacts with tested := "code" }
    parseScalar (fun t => t.all (fun c => 48 ≤ c ∧ c ≤ 57) && !t.isEmpty)
      (writeScalar bad (fun c => c.drop 1) (fun t => t.all (fun c => 48 ≤ c ∧ c ≤ 57) && !t.isEmpty) [65, 49, 48]) = .literal := by
  decide

end WriteCode

end GdModel.Props.C07
