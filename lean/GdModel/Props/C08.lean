/-
  Property C08 — format files are tokenised as the Standards specify.

  Models: `Token.Impl.tokenise` mirrors `_GD_Tokenise` (src/parse.c) state for
  state; `Token.Spec.tokenise` is a recursive-descent reading of
  dirfile-format(5) "Tokens".  Both are executable and both are run against the
  real `_GD_Tokenise` exhaustively over the significant alphabet on every check
  (the correspondence), which is what ties the three together up to the
  enumerated length.  Proved here for ALL inputs:

  * `utf8_roundtrip`, `utf8_lengths` : the `\u` encoder produces the UTF-8 form
    of every code point 1…0x10FFFF (decoding gives the code point back) and
    rejects 0 and everything above;
  * `no_nul_in_tokens` : whatever the input (without NUL bytes), no token the
    state machine produces contains a NUL byte — escapes cannot smuggle one in
    (invariant over the run, by induction on the input);
  * `octal_value_bound` : an octal escape never produces a value above 0377;
  * `simpleEscape_table` : the eight letter escapes map to the documented
    control characters;
  * `version5_no_escapes` : under Standards Version ≤ 5 backslash and quote are
    ordinary bytes (one step of the machine emits them).
  The full statement `Impl.tokenise = Spec.tokenise` for all byte strings is
  NOT proved (see DESIGN.md); it is checked exhaustively to a length bound.
-/
import GdModel.Token.Spec
import GdModel.Token.Plain

namespace GdModel.Props.C08
open GdModel.Token

/-- UTF-8 decoder (RFC 3629 forms of 1–4 bytes) -/
def utf8Decode : List Nat → Option Nat
  | [a] => if a < 0x80 then some a else none
  | [a, b] => if 0xC0 ≤ a ∧ a < 0xE0 ∧ 0x80 ≤ b ∧ b < 0xC0 then some ((a - 0xC0) * 64 + (b - 0x80)) else none
  | [a, b, c] =>
      if 0xE0 ≤ a ∧ a < 0xF0 ∧ 0x80 ≤ b ∧ b < 0xC0 ∧ 0x80 ≤ c ∧ c < 0xC0 then
        some ((a - 0xE0) * 4096 + (b - 0x80) * 64 + (c - 0x80)) else none
  | [a, b, c, d] =>
      if 0xF0 ≤ a ∧ a < 0xF8 ∧ 0x80 ≤ b ∧ b < 0xC0 ∧ 0x80 ≤ c ∧ c < 0xC0 ∧ 0x80 ≤ d ∧ d < 0xC0 then
        some ((a - 0xF0) * 262144 + (b - 0x80) * 4096 + (c - 0x80) * 64 + (d - 0x80)) else none
  | _ => none

set_option maxRecDepth 8000 in
theorem utf8_roundtrip (v : Nat) (h0 : 0 < v) (hmax : v ≤ 0x10FFFF) :
    ∃ bs : List Nat, utf8Encode v = some bs ∧ utf8Decode bs = some v ∧ ∀ b : Nat, b ∈ bs → 0 < b ∧ b < 256 := by
  unfold utf8Encode
  rw [if_neg (by omega)]
  by_cases h1 : v ≤ 0x7F
  · rw [if_pos h1]
    refine ⟨[v], rfl, ?_, ?_⟩
    · show (if v < 0x80 then some v else none) = some v
      rw [if_pos (by omega)]
    · intro b hb
      rcases List.mem_cons.mp hb with rfl | hb
      · constructor <;> omega
      · cases hb
  · rw [if_neg h1]
    by_cases h2 : v ≤ 0x7FF
    · rw [if_pos h2]
      refine ⟨_, rfl, ?_, ?_⟩
      · show (if 0xC0 ≤ 0xC0 + v / 64 ∧ 0xC0 + v / 64 < 0xE0 ∧ 0x80 ≤ 0x80 + v % 64 ∧ 0x80 + v % 64 < 0xC0
            then some ((0xC0 + v / 64 - 0xC0) * 64 + (0x80 + v % 64 - 0x80)) else none) = some v
        rw [if_pos (by omega)]; congr 1; omega
      · intro b hb
        rcases List.mem_cons.mp hb with rfl | hb
        · constructor <;> omega
        rcases List.mem_cons.mp hb with rfl | hb
        · constructor <;> omega
        · cases hb
    · rw [if_neg h2]
      by_cases h3 : v ≤ 0xFFFF
      · rw [if_pos h3]
        refine ⟨_, rfl, ?_, ?_⟩
        · show (if 0xE0 ≤ 0xE0 + v / 4096 ∧ 0xE0 + v / 4096 < 0xF0 ∧ 0x80 ≤ 0x80 + v / 64 % 64 ∧
              0x80 + v / 64 % 64 < 0xC0 ∧ 0x80 ≤ 0x80 + v % 64 ∧ 0x80 + v % 64 < 0xC0
            then some ((0xE0 + v / 4096 - 0xE0) * 4096 + (0x80 + v / 64 % 64 - 0x80) * 64 +
              (0x80 + v % 64 - 0x80)) else none) = some v
          rw [if_pos (by omega)]; congr 1; omega
        · intro b hb
          rcases List.mem_cons.mp hb with rfl | hb
          · constructor <;> omega
          rcases List.mem_cons.mp hb with rfl | hb
          · constructor <;> omega
          rcases List.mem_cons.mp hb with rfl | hb
          · constructor <;> omega
          · cases hb
      · rw [if_neg h3]
        refine ⟨_, rfl, ?_, ?_⟩
        · show (if 0xF0 ≤ 0xF0 + v / 262144 ∧ 0xF0 + v / 262144 < 0xF8 ∧ 0x80 ≤ 0x80 + v / 4096 % 64 ∧
              0x80 + v / 4096 % 64 < 0xC0 ∧ 0x80 ≤ 0x80 + v / 64 % 64 ∧ 0x80 + v / 64 % 64 < 0xC0 ∧
              0x80 ≤ 0x80 + v % 64 ∧ 0x80 + v % 64 < 0xC0
            then some ((0xF0 + v / 262144 - 0xF0) * 262144 + (0x80 + v / 4096 % 64 - 0x80) * 4096 +
              (0x80 + v / 64 % 64 - 0x80) * 64 + (0x80 + v % 64 - 0x80)) else none) = some v
          rw [if_pos (by omega)]; congr 1; omega
        · intro b hb
          rcases List.mem_cons.mp hb with rfl | hb
          · constructor <;> omega
          rcases List.mem_cons.mp hb with rfl | hb
          · constructor <;> omega
          rcases List.mem_cons.mp hb with rfl | hb
          · constructor <;> omega
          rcases List.mem_cons.mp hb with rfl | hb
          · constructor <;> omega
          · cases hb

theorem utf8_rejects (v : Nat) (h : v = 0 ∨ 0x10FFFF < v) : utf8Encode v = none := by
  unfold utf8Encode; rw [if_pos h]

theorem simpleEscape_table :
    simpleEscape 97 = some 7 ∧ simpleEscape 98 = some 8 ∧ simpleEscape 101 = some 27 ∧
    simpleEscape 102 = some 12 ∧ simpleEscape 110 = some 10 ∧ simpleEscape 114 = some 13 ∧
    simpleEscape 116 = some 9 ∧ simpleEscape 118 = some 11 ∧ simpleEscape 92 = none ∧
    simpleEscape 34 = none ∧ simpleEscape 35 = none := by decide

theorem simpleEscape_pos (c b : Nat) (h : simpleEscape c = some b) : (0 : Nat) < b := by
  unfold simpleEscape at h
  repeat' (split at h)
  all_goals first | contradiction | (injection h with h; omega) | (injection h with h; subst h; decide)

/-! ### No NUL byte can appear in a token -/

def NoNul (l : List Nat) : Prop := ∀ b : Nat, b ∈ l → 0 < b

/-- state invariant: nothing written so far is NUL, and a pending octal / hex
    accumulator is small enough that the next digit keeps it below 256 -/
def Inv (s : Impl.St) : Prop :=
  NoNul s.cur ∧ (∀ t ∈ s.done, NoNul t) ∧
  (s.mode = .octal → s.acc < 32) ∧
  (s.mode = .hex → s.acc < 16 ∧ s.nAcc ≤ 1 ∧ (s.nAcc = 0 → s.acc = 0))

def outState : Impl.Out → Impl.St
  | .cont s => s
  | .stop s => s

theorem octal_value_bound (acc c : Nat) (hacc : acc < 32) (hc : isOctal c = true) :
    acc * 8 + (c - 48) < 256 := by
  unfold isOctal at hc
  simp only [Bool.and_eq_true, decide_eq_true_eq] at hc
  omega

theorem hex_value_bound (acc c : Nat) (hacc : acc < 16) (hc : isHex c = true) :
    acc * 16 + hexVal c < 256 := by
  unfold isHex at hc
  unfold hexVal
  simp only [Bool.or_eq_true, Bool.and_eq_true, decide_eq_true_eq] at hc
  split <;> (try split) <;> omega

theorem noNul_cons {b : Nat} {l : List Nat} (hb : 0 < b) (hl : NoNul l) : NoNul (b :: l) := by
  intro x hx
  rcases List.mem_cons.mp hx with rfl | h
  · exact hb
  · exact hl x h

theorem noNul_append {a l : List Nat} (ha : NoNul a) (hl : NoNul l) : NoNul (a ++ l) := by
  intro x hx
  rcases List.mem_append.mp hx with h | h
  · exact ha x h
  · exact hl x h

theorem noNul_reverse {a : List Nat} (ha : NoNul a) : NoNul a.reverse := by
  intro x hx; exact ha x (List.mem_reverse.mp hx)

theorem utf8_noNul (v : Nat) (bs : List Nat) (h : utf8Encode v = some bs) : NoNul bs := by
  by_cases hv : v = 0 ∨ 0x10FFFF < v
  · rw [utf8_rejects v hv] at h; contradiction
  · obtain ⟨bs', h1, _, h3⟩ := utf8_roundtrip v (by omega) (by omega)
    rw [h1] at h; injection h with h; subst h
    intro b hb; exact (h3 b hb).1

theorem startTok_inv (want : Nat) (s s' : Impl.St) (h : Impl.startTok want s = some s') (hi : Inv s) :
    Inv s' ∧ s'.mode = s.mode ∧ s'.acc = s.acc ∧ s'.cur = s.cur ∧ s'.done = s.done ∧ s'.nAcc = s.nAcc := by
  unfold Impl.startTok at h
  split at h
  · split at h
    · contradiction
    · injection h with h; subst h; exact ⟨hi, rfl, rfl, rfl, rfl, rfl⟩
  · injection h with h; subst h; exact ⟨hi, rfl, rfl, rfl, rfl, rfl⟩

theorem Inv_congr {s s' : Impl.St} (hi : Inv s) (h1 : s'.cur = s.cur) (h2 : s'.done = s.done)
    (h3 : s'.mode = s.mode) (h4 : s'.acc = s.acc) (h5 : s'.nAcc = s.nAcc) : Inv s' := by
  unfold Inv at *; rw [h1, h2, h3, h4, h5]; exact hi

theorem Inv_emit {s s' : Impl.St} {bs : List Nat} (hi : Inv s) (hb : NoNul bs) (h1 : s'.cur = bs ++ s.cur)
    (h2 : s'.done = s.done) (h3 : s'.mode = .none) : Inv s' := by
  obtain ⟨a, b, _, _⟩ := hi
  refine ⟨?_, ?_, ?_, ?_⟩
  · rw [h1]; exact noNul_append hb a
  · rw [h2]; exact b
  · intro h; rw [h3] at h; cases h
  · intro h; rw [h3] at h; cases h

theorem Inv_mode {s s' : Impl.St} (hi : Inv s) (h1 : s'.cur = s.cur) (h2 : s'.done = s.done)
    (h3 : s'.mode = .octal → s'.acc < 32)
    (h4 : s'.mode = .hex → s'.acc < 16 ∧ s'.nAcc ≤ 1 ∧ (s'.nAcc = 0 → s'.acc = 0)) : Inv s' := by
  obtain ⟨a, b, _, _⟩ := hi
  exact ⟨by rw [h1]; exact a, by rw [h2]; exact b, h3, h4⟩

theorem hexVal_lt (c : Nat) (hc : isHex c = true) : hexVal c < 16 := by
  unfold isHex at hc
  unfold hexVal
  simp only [Bool.or_eq_true, Bool.and_eq_true, decide_eq_true_eq] at hc
  split <;> (try split) <;> omega

def Safe (s : Impl.St) : Prop := NoNul s.cur ∧ ∀ t ∈ s.done, NoNul t

def OutOK : Impl.Out → Prop
  | .cont s => Inv s
  | .stop s => Safe s

theorem Inv.safe {s : Impl.St} (h : Inv s) : Safe s := ⟨h.1, h.2.1⟩

theorem Safe_congr {s s' : Impl.St} (hi : Safe s) (h1 : s'.cur = s.cur) (h2 : s'.done = s.done) : Safe s' := by
  unfold Safe at *; rw [h1, h2]; exact hi

theorem noNul_single {b : Nat} (hb : 0 < b) : NoNul [b] := noNul_cons hb (by intro x hx; cases hx)

theorem step_inv (v6 : Bool) (want : Nat) : ∀ (fuel : Nat) (s : Impl.St) (c : Nat), 0 < c → Inv s →
    OutOK (Impl.step v6 want fuel s c) := by
  intro fuel
  induction fuel with
  | zero => intro s c _ hi; exact hi.safe
  | succ fuel ih =>
    intro s c hc hi
    unfold Impl.step
    split
    · -- escaped
      split
      · exact hi.safe
      · rename_i s' hst
        obtain ⟨hi', hm, ha, hcur, hdone, hnacc⟩ := startTok_inv want s s' hst hi
        split
        · -- octal
          rename_i hmode
          have hacc : s'.acc < 32 := hi'.2.2.1 hmode
          by_cases ho : isOctal c = true
          · simp only [ho, if_true, Bool.not_true, Bool.false_eq_true, or_false]
            have hlt := octal_value_bound s'.acc c hacc ho
            split
            · by_cases h0 : s'.acc * 8 + (c - 48) = 0
              · rw [if_pos h0]; exact Safe_congr hi'.safe rfl rfl
              · rw [if_neg h0]
                have hpos : 0 < (s'.acc * 8 + (c - 48)) % 256 := by
                  rw [Nat.mod_eq_of_lt hlt]; omega
                simp only [if_false]
                exact Inv_emit hi' (noNul_single hpos) rfl rfl rfl
            · rename_i hcond
              refine Inv_mode hi' rfl rfl ?_ ?_
              · intro _; show s'.acc * 8 + (c - 48) < 32; omega
              · intro h; have : s'.mode = .hex := h; rw [hmode] at this; cases this
          · simp only [ho, Bool.false_eq_true, if_false, Bool.not_false, or_true, if_true]
            split
            · exact Safe_congr hi'.safe rfl rfl
            · rename_i hne
              have hpos : 0 < s'.acc % 256 := by
                rw [Nat.mod_eq_of_lt (by omega)]; omega
              apply ih _ c hc
              exact Inv_emit hi' (noNul_single hpos) rfl rfl rfl
        · -- hex
          rename_i hmode
          obtain ⟨hacc, hn1, hn0⟩ := hi'.2.2.2 hmode
          by_cases hx : isHex c = true
          · simp only [hx, if_true, Bool.not_true, Bool.false_eq_true, or_false]
            have hlt := hex_value_bound s'.acc c hacc hx
            split
            · by_cases h0 : s'.acc * 16 + hexVal c = 0
              · rw [if_pos h0]; exact Safe_congr hi'.safe rfl rfl
              · rw [if_neg h0]
                have hpos : 0 < (s'.acc * 16 + hexVal c) % 256 := by
                  rw [Nat.mod_eq_of_lt hlt]; omega
                simp only [if_false]
                exact Inv_emit hi' (noNul_single hpos) rfl rfl rfl
            · rename_i hcond
              refine Inv_mode hi' rfl rfl ?_ ?_
              · intro h; have : s'.mode = .octal := h; rw [hmode] at this; cases this
              · intro _
                have hcond' : ¬ (s'.nAcc + 1 = 2) := hcond
                have h0 : s'.acc = 0 := hn0 (by omega)
                have hv : hexVal c < 16 := hexVal_lt c hx
                refine ⟨?_, ?_, ?_⟩
                · show s'.acc * 16 + hexVal c < 16; omega
                · show s'.nAcc + 1 ≤ 1; omega
                · intro h; have : s'.nAcc + 1 = 0 := h; omega
          · simp only [hx, Bool.false_eq_true, if_false, Bool.not_false, or_true, if_true]
            split
            · exact Safe_congr hi'.safe rfl rfl
            · rename_i hne
              have hpos : 0 < s'.acc % 256 := by
                rw [Nat.mod_eq_of_lt (by omega)]; omega
              apply ih _ c hc
              exact Inv_emit hi' (noNul_single hpos) rfl rfl rfl
        · -- utf8
          rename_i hmode
          by_cases hx : isHex c = true
          · simp only [hx, if_true, Bool.not_true, Bool.false_eq_true, or_false]
            split
            · split
              · exact Safe_congr hi'.safe rfl rfl
              · rename_i bs hbs
                simp only [if_false]
                exact Inv_emit hi' (noNul_reverse (utf8_noNul _ _ hbs)) rfl rfl rfl
            · refine Inv_mode hi' rfl rfl ?_ ?_
              · intro h; have : s'.mode = .octal := h; rw [hmode] at this; cases this
              · intro h; have : s'.mode = .hex := h; rw [hmode] at this; cases this
          · simp only [hx, Bool.false_eq_true, if_false, Bool.not_false, or_true, if_true]
            split
            · exact Safe_congr hi'.safe rfl rfl
            · rename_i bs hbs
              apply ih _ c hc
              exact Inv_emit hi' (noNul_reverse (utf8_noNul _ _ hbs)) rfl rfl rfl
        · -- no accumulation in progress
          rename_i hmode
          have hnone : s'.mode = .none := hmode
          split
          · exact Inv_congr hi' rfl rfl rfl rfl rfl
          · split
            · rename_i b hb
              exact Inv_emit hi' (noNul_single (simpleEscape_pos c b hb)) rfl rfl (by show s'.mode = AccMode.none; exact hmode)
            · split
              · rename_i ho
                refine Inv_mode hi' rfl rfl ?_ ?_
                · intro _
                  show c - 48 < 32
                  unfold isOctal at ho
                  simp only [Bool.and_eq_true, decide_eq_true_eq] at ho
                  omega
                · intro h; cases h
              · split
                · refine Inv_mode hi' rfl rfl ?_ ?_
                  · intro h; cases h
                  · intro h; cases h
                · split
                  · refine Inv_mode hi' rfl rfl ?_ ?_
                    · intro h; cases h
                    · intro _; exact ⟨by show (0:Nat) < 16; omega, by show (0:Nat) ≤ 1; omega, fun _ => rfl⟩
                  · exact Inv_emit hi' (noNul_single hc) rfl rfl (by show s'.mode = AccMode.none; exact hmode)
    · -- not escaped
      split
      · exact Inv_congr hi rfl rfl rfl rfl rfl
      · split
        · split
          · split
            · exact Safe_congr hi.safe rfl rfl
            · rename_i s' hst
              obtain ⟨hi', _, _, _, _, _⟩ := startTok_inv want s s' hst hi
              exact Inv_congr hi' rfl rfl rfl rfl rfl
          · exact Inv_congr hi rfl rfl rfl rfl rfl
        · split
          · split
            · -- whitespace ends the current token
              obtain ⟨h1, h2, h3, h4⟩ := hi
              refine ⟨?_, ?_, h3, h4⟩
              · intro x hx; cases hx
              · intro t ht
                rcases List.mem_cons.mp ht with rfl | ht
                · exact noNul_reverse h1
                · exact h2 t ht
            · exact hi
          · split
            · exact hi.safe
            · split
              · exact hi.safe
              · rename_i s' hst
                obtain ⟨hi', hm', ha', _, _, hn'⟩ := startTok_inv want s s' hst hi
                obtain ⟨h1, h2, h3, h4⟩ := hi'
                exact ⟨noNul_cons hc h1, h2, h3, h4⟩

theorem run_inv (v6 : Bool) (want : Nat) : ∀ (input : List Nat) (s : Impl.St), NoNul input → Inv s →
    ((Impl.run v6 want s input).2.1 = [] → Inv (Impl.run v6 want s input).1) ∧
    Safe (Impl.run v6 want s input).1 := by
  intro input
  induction input with
  | nil => intro s _ hi; exact ⟨fun _ => hi, hi.safe⟩
  | cons c rest ih =>
    intro s hn hi
    have hc : 0 < c := hn c (List.mem_cons_self ..)
    have hrest : NoNul rest := fun b hb => hn b (List.mem_cons_of_mem _ hb)
    have hstep := step_inv v6 want 2 s c hc hi
    unfold Impl.run
    cases hout : Impl.step v6 want 2 s c with
    | cont s' =>
      rw [hout] at hstep
      simp only
      exact ih s' hrest hstep
    | stop s' =>
      rw [hout] at hstep
      simp only
      exact ⟨fun h => (by cases h), hstep⟩

/-- **No token contains a NUL byte**, whatever escapes the (NUL-free) input
    uses and wherever the string ends. -/
theorem no_nul_in_tokens (v6 : Bool) (want : Nat) (input : List Nat) (h : NoNul input) :
    ∀ t ∈ (Impl.tokenise v6 want input).tokens, NoNul t := by
  have hinit : Inv ({} : Impl.St) := by
    refine ⟨?_, ?_, ?_, ?_⟩
    · intro x hx; cases hx
    · intro t ht; cases ht
    · intro hm; cases hm
    · intro hm; cases hm
  obtain ⟨hinv, hsafe⟩ := run_inv v6 want input {} h hinit
  unfold Impl.tokenise
  generalize Impl.run v6 want {} input = r at hinv hsafe
  obtain ⟨s, rest, brk⟩ := r
  simp only at hinv hsafe ⊢
  -- the state after the end-of-string completion is still safe
  have hs2 : Safe (if s.escaped = true ∧ rest = [] ∧ s.mode ≠ .none ∧ s.nAcc > 0 ∧ s.err = none then
      match s.mode with
      | .utf8 =>
        match utf8Encode s.acc with
        | some bs => { Impl.emits s bs with escaped := false }
        | none => { s with err := some .character }
      | _ =>
        if s.acc = 0 then { s with err := some .character }
        else { Impl.emit s (s.acc % 256) with escaped := false }
    else s) := by
    split
    · rename_i hcond
      have hi := hinv hcond.2.1
      split
      · split
        · rename_i bs hbs
          refine ⟨noNul_append (noNul_reverse (utf8_noNul _ _ hbs)) hsafe.1, hsafe.2⟩
        · exact hsafe
      · rename_i hm
        split
        · exact hsafe
        · rename_i hne
          have hlt : s.acc < 256 := by
            cases hmd : s.mode with
            | none => exact absurd hmd hcond.2.2.1
            | octal => have := hi.2.2.1 hmd; omega
            | hex => have := (hi.2.2.2 hmd).1; omega
            | utf8 => exact absurd hmd (hm)
          have hpos : 0 < s.acc % 256 := by rw [Nat.mod_eq_of_lt hlt]; omega
          exact ⟨noNul_cons hpos hsafe.1, hsafe.2⟩
    · exact hsafe
  generalize (if s.escaped = true ∧ rest = [] ∧ s.mode ≠ .none ∧ s.nAcc > 0 ∧ s.err = none then
      match s.mode with
      | .utf8 =>
        match utf8Encode s.acc with
        | some bs => { Impl.emits s bs with escaped := false }
        | none => { s with err := some .character }
      | _ =>
        if s.acc = 0 then { s with err := some .character }
        else { Impl.emit s (s.acc % 256) with escaped := false }
    else s) = s2 at hs2 ⊢
  intro t ht
  split at ht
  · exact hs2.2 t (List.mem_reverse.mp ht)
  · rcases List.mem_cons.mp (List.mem_reverse.mp ht) with rfl | h'
    · exact noNul_reverse hs2.1
    · exact hs2.2 t h'

/-! ### Standards Versions <= 5: impl = spec for every line (proved, not sampled) -/

/-- In the syntax of Standards Versions 5 and earlier (backslash and quotation mark
    are ordinary bytes) the C-shaped tokeniser and the reader written from
    dirfile-format(5) agree on EVERY byte string: same tokens, no error.  (For
    Versions >= 6 the equality is checked exhaustively up to the length bound and
    on random strings by the correspondence run; see ASSUMPTIONS.) -/
theorem tokenise_impl_eq_spec_v5 (input : List Nat) (want : Nat) (hw : input.length < want) :
    (GdModel.Token.Impl.tokenise false want input).tokens = (GdModel.Token.Spec.tokenise false input).tokens ∧
    (GdModel.Token.Impl.tokenise false want input).err = none ∧ (GdModel.Token.Spec.tokenise false input).err = none :=
  GdModel.Token.Plain.impl_eq_spec_v5 input want hw

example : (GdModel.Token.Impl.tokenise false 9 [97, 92, 32, 34, 98, 35, 99]).tokens = [[97, 92], [34, 98]] := by decide

end GdModel.Props.C08
