/-
  Property C09 — directive scope, inclusion, affixes, namespaces and aliases.

  dirfile-format(5): "A directive with fragment scope only applies to the
  fragment in which it is present, plus any sub-fragments indicated by the
  /INCLUDE directive, but only if those sub-fragments don't have their own
  corresponding directive. [...] If a directive with fragment scope appears
  more than once in a fragment, only the last such directive is honoured, with
  the exception that the effect of a directive is not propagated to
  sub-fragments if the directive line appears after the sub-fragment is
  included."

  The theorems relate the sequential interpreter `Impl.items` (shaped like
  parse.c / include.c: one mutable record per fragment, a parser state threaded
  through the lines, includes entered recursively) to the declarative readings
  in `Spec`, for every include tree, every placement of directives and every
  nesting depth below the recursion limit.
-/
import GdModel.Scope.Lemmas
import GdModel.Scope.AliasLemmas
namespace GdModel.Props.C09
open GdModel.Scope GdModel.Scope.Spec

/-! ### 1. scoped directives -/

mutual
theorem item_attrs (i : Item) (depth : Nat) (st : St)
    (h : (Impl.item depth i st).err = false) :
    (Impl.item depth i st).cur.attrs = after st.cur.attrs [i] ∧
    (Impl.item depth i st).done.map (·.attrs) =
      st.done.map (·.attrs) ++ subsItem st.cur.attrs [] i := by
  cases i with
  | set a v => simp [Impl.item, after_single_set, subsItem]
  | version v => simp [Impl.item, after_single_other, subsItem]
  | reference c => simp [Impl.item, after_single_other, subsItem]
  | nspace ns => simp [Impl.item, after_single_other, subsItem]
  | raw n minv =>
    simp only [Impl.item]; split <;> simp [defineField, after_single_other, subsItem]
  | other n minv =>
    simp only [Impl.item]; split <;> simp [defineField, after_single_other, subsItem]
  | inc ns px sx body =>
    simp only [Impl.item] at h ⊢
    split at h
    · simp at h
    · rename_i hd
      simp only [hd, if_false]
      have ih := items_attrs body (depth + 1)
        { st with p := { st.p with ns := if (decide (ns ≠ []) || decide (st.p.ns ≠ [])) then [] else st.p.ns },
                  cur := childFrag st ns px sx, done := [], nfrag := st.nfrag + 1, ref := none } h
      simp only [childFrag] at ih
      obtain ⟨ih1, ih2⟩ := ih
      constructor
      · rw [after_single_other]; intro a v hh; cases hh
      · simp only [List.map_append, List.map_cons, subsItem, after_nil, childFrag]
        rw [ih1, ih2]; simp
theorem items_attrs (its : Items) (depth : Nat) (st : St)
    (h : (Impl.items depth its st).err = false) :
    (Impl.items depth its st).cur.attrs = after st.cur.attrs its.toList ∧
    (Impl.items depth its st).done.map (·.attrs) =
      st.done.map (·.attrs) ++ subs st.cur.attrs [] its := by
  cases its with
  | nil => simp [Impl.items, Items.toList, after_nil, subs]
  | cons i r =>
    simp only [Impl.items] at h ⊢
    split at h
    · rename_i he; rw [he] at h; cases h
    · rename_i he
      have he' : (Impl.item depth i st).err = false := by simpa using he
      simp only [he', Bool.false_eq_true, if_false]
      obtain ⟨a1, a2⟩ := item_attrs i depth st he'
      obtain ⟨b1, b2⟩ := items_attrs r depth (Impl.item depth i st) h
      constructor
      · rw [b1, a1, Items.toList, ← after_cons]
      · rw [b2, a2, a1, subs, List.nil_append, subs_pre st.cur.attrs [i] r, List.append_assoc]
end

/-- **Scoped directives.**  For every include tree that parses (no recursion
    error), the /ENCODING, /ENDIAN, /FRAMEOFFSET and /PROTECT settings of all
    fragments, in fragment-index order, are exactly the declarative ones:
    own last directive, else what the parent had in effect at the /INCLUDE line. -/
theorem scoped_directive_spec (perm ped : Bool) (root : Attrs) (its : Items)
    (h : (parse perm ped root its).err = false) :
    (parse perm ped root its).frags.map (·.attrs) = Spec.frags root its := by
  obtain ⟨a, b⟩ := items_attrs its 0 (initSt perm ped root) h
  have a' : (Impl.items 0 its (initSt perm ped root)).cur.attrs = after root its.toList := a
  have b' : (Impl.items 0 its (initSt perm ped root)).done.map (·.attrs) = [] ++ subs root [] its := b
  show (Impl.items 0 its (initSt perm ped root)).cur.attrs ::
      (Impl.items 0 its (initSt perm ped root)).done.map (·.attrs) = _
  rw [a', b']; rfl

/-- a directive placed after an /INCLUDE line does not reach that sub-fragment,
    one placed before it does (the two-line instances of the rule) -/
theorem directive_after_include_not_inherited (a : Attr) (v : Nat) (ns px sx : Name) (body : Items)
    (root : Attrs) :
    Spec.frags root (.cons (.inc ns px sx body) (.cons (.set a v) .nil)) =
      root.set a v :: Spec.frags root body := by
  simp [Spec.frags, subs, subsItem, Items.toList, after_nil]
  have : after root [Item.inc ns px sx body, Item.set a v] = root.set a v := by
    rw [after_cons, after_single_other root _ (by intro _ _ hh; cases hh), after_single_set]
  exact this

theorem directive_before_include_inherited (a : Attr) (v : Nat) (ns px sx : Name) (body : Items)
    (root : Attrs) :
    Spec.frags root (.cons (.set a v) (.cons (.inc ns px sx body) .nil)) =
      root.set a v :: Spec.frags (root.set a v) body := by
  simp [Spec.frags, subs, subsItem, Items.toList, after_single_set]
  rw [after_cons, after_single_set, after_single_other]; intro _ _ hh; cases hh

/-! ### 2. the recursion limit -/

mutual
theorem item_err_of_deep (i : Item) (depth : Nat) (st : St) (hs : st.err = false)
    (h : depth + i.depth < maxRecurse) : (Impl.item depth i st).err = false := by
  cases i with
  | inc ns px sx body =>
    simp only [Item.depth] at h
    simp only [Impl.item]
    have : ¬ (depth + 1 ≥ maxRecurse) := by omega
    simp only [this, if_false]
    exact items_err_of_deep body (depth + 1) _ hs (by omega)
  | set a v => simpa [Impl.item] using hs
  | version v => simpa [Impl.item] using hs
  | reference c => simpa [Impl.item] using hs
  | nspace ns => simpa [Impl.item] using hs
  | raw n minv => simp only [Impl.item]; split <;> simpa [defineField] using hs
  | other n minv => simp only [Impl.item]; split <;> simpa [defineField] using hs
theorem items_err_of_deep (its : Items) (depth : Nat) (st : St) (hs : st.err = false)
    (h : depth + its.depth < maxRecurse) : (Impl.items depth its st).err = false := by
  cases its with
  | nil => simpa [Impl.items] using hs
  | cons i r =>
    simp only [Items.depth] at h
    simp only [Impl.items]
    have h1 := item_err_of_deep i depth st hs (by omega)
    simp only [h1]
    exact items_err_of_deep r depth _ h1 (by omega)
end

/-- include trees nested less deeply than GD_MAX_RECURSE_LEVEL always parse -/
theorem shallow_tree_parses (perm ped : Bool) (root : Attrs) (its : Items)
    (h : its.depth < maxRecurse) : (parse perm ped root its).err = false := by
  unfold parse
  exact items_err_of_deep its 0 _ rfl (by omega)

/-! ### 3. /VERSION -/

/-- /VERSION propagates upward out of an included fragment exactly when neither
    the version the fragment ended with nor the (pedantic) version of the parent
    is 9 or later -/
theorem version_propagates_iff (old new : P) :
    (P.popVersion old new).standards =
      if (old.standards ≥ 9 ∧ old.pedantic = true) ∨ new.standards ≥ 9 then old.standards
      else new.standards := by
  unfold P.popVersion
  by_cases h1 : old.standards ≥ 9 <;> by_cases h2 : new.standards ≥ 9 <;>
    cases old.pedantic <;> simp [h1, h2]

/-- a /VERSION line acts on the lines after it in the same fragment -/
theorem version_acts_downward (depth v : Nat) (r : Items) (st : St) (hs : st.err = false) :
    Impl.items depth (.cons (.version v) r) st = Impl.items depth r { st with p := st.p.setVersion v } := by
  simp [Impl.items, Impl.item, hs]

/-! ### 4. names -/

/-- INDEX is always in the null namespace, whatever the root and current namespace -/
theorem index_null_namespace (fragNs curNs : Name) :
    buildCode fragNs curNs [] [] indexName = indexName := by
  simp [buildCode, splitLastDot, indexName, dot]

/-- affixes nest with the deepest inclusion innermost; the root namespace of a
    sub-fragment is relative to its parent's root namespace -/
theorem child_affixes (st : St) (ns px sx : Name) :
    (childFrag st ns px sx).px = st.cur.px ++ px ∧
    (childFrag st ns px sx).sx = sx ++ st.cur.sx ∧
    (childFrag st ns px sx).ns = join st.cur.ns (if ns ≠ [] then ns else st.p.ns) ∧
    (childFrag st ns px sx).attrs = st.cur.attrs ∧
    (childFrag st ns px sx).parent = st.cur.idx := by
  simp [childFrag]

/-- /NAMESPACE never propagates upward: after an /INCLUDE the parent's current
    namespace is what it was before -/
theorem namespace_not_propagated (depth : Nat) (ns px sx : Name) (body : Items) (st : St) :
    (Impl.item depth (.inc ns px sx body) st).p.ns = st.p.ns := by
  simp only [Impl.item]; split <;> rfl

/-! ### 6. /REFERENCE and the first RAW field -/

mutual
theorem item_firstRaw_sticky (i : Item) (depth : Nat) (st : St) (n : Name)
    (h : st.firstRaw = some n) : (Impl.item depth i st).firstRaw = some n := by
  cases i with
  | inc ns px sx body =>
    simp only [Impl.item]; split
    · exact h
    · exact items_firstRaw_sticky body (depth + 1) _ n h
  | set a v => simpa [Impl.item] using h
  | version v => simpa [Impl.item] using h
  | reference c => simpa [Impl.item] using h
  | nspace ns => simpa [Impl.item] using h
  | raw nm minv => simp only [Impl.item]; split <;> simp [defineField, h]
  | other nm minv => simp only [Impl.item]; split <;> simp [defineField, h]
theorem items_firstRaw_sticky (its : Items) (depth : Nat) (st : St) (n : Name)
    (h : st.firstRaw = some n) : (Impl.items depth its st).firstRaw = some n := by
  cases its with
  | nil => simpa [Impl.items] using h
  | cons i r =>
    simp only [Impl.items]
    have h1 := item_firstRaw_sticky i depth st n h
    split
    · exact h1
    · exact items_firstRaw_sticky r depth _ n h1
end

mutual
theorem item_ref_none (i : Item) (depth : Nat) (st : St) (h : refsItem i = 0) :
    (Impl.item depth i st).ref = st.ref := by
  cases i with
  | inc ns px sx body =>
    simp only [refsItem] at h
    simp only [Impl.item]; split
    · rfl
    · have := items_ref_none body (depth + 1)
        { st with p := { st.p with ns := if (decide (ns ≠ []) || decide (st.p.ns ≠ [])) then [] else st.p.ns },
                  cur := childFrag st ns px sx, done := [], nfrag := st.nfrag + 1, ref := none } h
      simp only at this
      simp only [this]
  | reference c => simp [refsItem] at h
  | set a v => simp [Impl.item]
  | version v => simp [Impl.item]
  | nspace ns => simp [Impl.item]
  | raw nm minv => simp only [Impl.item]; split <;> simp [defineField]
  | other nm minv => simp only [Impl.item]; split <;> simp [defineField]
theorem items_ref_none (its : Items) (depth : Nat) (st : St) (h : refs its = 0) :
    (Impl.items depth its st).ref = st.ref := by
  cases its with
  | nil => simp [Impl.items]
  | cons i r =>
    simp only [refs] at h
    simp only [Impl.items]
    have h1 := item_ref_none i depth st (by omega)
    split
    · exact h1
    · rw [items_ref_none r depth _ (by omega), h1]
end

/-- without any /REFERENCE directive anywhere in the tree, the reference field
    is the first RAW field in depth-first textual order -/
theorem reference_defaults_to_first_raw (perm ped : Bool) (root : Attrs) (its : Items)
    (h : refs its = 0) :
    (parse perm ped root its).reference = (Impl.items 0 its (initSt perm ped root)).firstRaw := by
  unfold parse
  simp only [items_ref_none its 0 _ h, initSt]

/-- a later top-level /REFERENCE replaces whatever was chosen before (last one wins) -/
theorem last_reference_wins (depth : Nat) (c : Name) (st : St) :
    (Impl.item depth (.reference c) st).ref =
      some (buildCode st.cur.ns st.p.ns st.cur.px st.cur.sx c) := by
  simp [Impl.item]

/-- a /REFERENCE inside an included fragment replaces the parent's earlier choice -/
theorem sub_reference_wins (depth : Nat) (ns px sx : Name) (body : Items) (st : St) (r : Name)
    (hd : ¬ depth + 1 ≥ maxRecurse)
    (h : (Impl.items (depth + 1) body
        { st with p := { st.p with ns := if (decide (ns ≠ []) || decide (st.p.ns ≠ [])) then [] else st.p.ns },
                  cur := childFrag st ns px sx, done := [], nfrag := st.nfrag + 1, ref := none }).ref = some r) :
    (Impl.item depth (.inc ns px sx body) st).ref = some r := by
  simp only [Impl.item, hd, if_false, h]

/-! ### 7. alias chains -/
open GdModel.Scope.Alias in
/-- `Reaches` is a function: an alias has at most one ultimate target -/
theorem reaches_unique (tab : Table) (i j k : Nat) (h1 : Reaches tab i j) (h2 : Reaches tab i k) : j = k := by
  induction h1 generalizing k with
  | base j hj hr =>
    cases h2 with
    | base => rfl
    | step _ k' _ ha => rw [hr] at ha; cases ha
  | step i m j ha hn hr ih =>
    cases h2 with
    | base _ _ hr2 => rw [hr2] at ha; cases ha
    | step _ m' _ ha' hn' hr' =>
      rw [hn] at hn'; cases hn'
      exact ih k hr'

open GdModel.Scope.Alias in
/-- the specification function finds exactly the ultimate target -/
theorem chase_sound (tab : Table) (fuel i j : Nat) (h : Spec.chase tab fuel i = some j) : Reaches tab i j := by
  induction fuel generalizing i with
  | zero => simp [Spec.chase] at h
  | succ f ih =>
    simp only [Spec.chase] at h
    by_cases ha : isAlias tab i = true
    · simp only [ha, Bool.not_true, Bool.false_eq_true, if_false] at h
      cases hn : next tab i with
      | none => simp [hn] at h
      | some m =>
        simp only [hn] at h
        exact Reaches.step i m j ha hn (ih m h)
    · have ha' : isAlias tab i = false := by simpa using ha
      simp only [ha', Bool.not_false, if_true] at h
      split at h
      · cases h; exact Reaches.base _ (by assumption) ha'
      · cases h

open GdModel.Scope.Alias in
theorem reaches_chase (tab : Table) (i j : Nat) (h : Reaches tab i j) :
    ∃ fuel, ∀ f ≥ fuel, Spec.chase tab f i = some j := by
  induction h with
  | base j hj hr =>
    refine ⟨1, ?_⟩
    intro f hf
    obtain ⟨g, rfl⟩ : ∃ g, f = g + 1 := ⟨f - 1, by omega⟩
    simp [Spec.chase, hr, hj]
  | step i m j ha hn hr ih =>
    obtain ⟨fuel, hf⟩ := ih
    refine ⟨fuel + 1, ?_⟩
    intro f hf'
    obtain ⟨g, rfl⟩ : ∃ g, f = g + 1 := ⟨f - 1, by omega⟩
    simp only [Spec.chase, ha, Bool.not_true, Bool.false_eq_true, if_false, hn]
    exact hf g (by omega)

open GdModel.Scope.Alias in
/-- **The alias resolver never records a wrong target.**  For every table —
    any order, chains, loops, dangling entries — an ultimate target stored by the
    C-shaped `_GD_UpdateAliases` model is the real field its chain leads to. -/
theorem resolver_sound (tab : Table) (i j : Nat)
    (h : getO (Impl.update tab).ult i = some j) : Reaches tab i j :=
  update_sound tab i j h

open GdModel.Scope.Alias in
/-- hence it agrees with the specification function wherever it records a target -/
theorem resolver_agrees_with_chase (tab : Table) (i j : Nat)
    (h : getO (Impl.update tab).ult i = some j) : ∃ fuel, ∀ f ≥ fuel, Spec.chase tab f i = some j :=
  reaches_chase tab i j (update_sound tab i j h)

/-- the defect repaired in parse.c (loop not through the first alias): the
    repaired walk ends with no target on a -> b -> c -> b, as the specification says -/
example :
    let tab : GdModel.Scope.Alias.Table :=
      [⟨[97], some [98]⟩, ⟨[98], some [99]⟩, ⟨[99], some [98]⟩, ⟨[120], none⟩, ⟨[121], some [120]⟩]
    (GdModel.Scope.Alias.Impl.update tab).ult = [none, none, none, none, some 3] ∧
    (List.range 5).map (GdModel.Scope.Alias.Spec.ultimate tab) = [none, none, none, none, some 3] := by
  decide

/-! ### 5. non-vacuity: a three-level tree with directives before and after includes -/

def exTree : Items :=
  .cons (.set .endian 1) <|
  .cons (.inc [] [65] [] (.cons (.set .offset 5) (.cons (.inc [] [] [66] (.cons (.raw [120] 0) .nil))
                           (.cons (.set .enc 2) .nil)))) <|
  .cons (.set .endian 0) <|
  .cons (.inc [110] [] [] (.cons (.raw [121] 0) .nil)) .nil

example : (parse false false ⟨0, 0, 0, 0⟩ exTree).err = false := by decide
example : (parse false false ⟨0, 0, 0, 0⟩ exTree).frags.map (·.attrs) =
    [⟨0, 0, 0, 0⟩, ⟨2, 1, 5, 0⟩, ⟨0, 1, 5, 0⟩, ⟨0, 0, 0, 0⟩] := by decide
example : (parse false false ⟨0, 0, 0, 0⟩ exTree).names = [([65, 120, 66], 2), ([110, 46, 121], 3)] := by decide

end GdModel.Props.C09
