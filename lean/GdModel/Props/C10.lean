/-
  Property C10 (part a) — the recursion counter is zero between public calls.

  `rlFuncs` (Generated/RlFlow.lean) is re-extracted from the clang AST of
  every function in src/*.c that updates `D->recurse_level`, on every run.
  * `rl_all_balanced` : the verified checker accepts every one of them
    (kernel evaluation of `Flow.balancedAt` on the generated terms);
  * `rl_every_execution_balanced` : hence (Flow.balanced_sound) every concrete
    execution of every such function — whatever the branch conditions evaluate
    to, however often loops go round — leaves the counter exactly where it
    found it, whether it leaves by `return` or by falling off the end;
  * `rl_zero_between_calls` : so any sequence of calls, entered with the
    counter at 0, leaves it at 0 (induction over the call list; nested calls
    are themselves in `rlFuncs` or do not touch the counter).
  * `rl_complete` : every textual update of the counter in src/*.c lies inside
    an analysed function (extractor cross-check, carried as a generated Bool).

  Part (c): the overflow guards on user-supplied ranges reject exactly the
  tuples whose exact sum is out of range:
  * `slice_guard_exact` : `n > len || start > len − n` ⇔ start + n > len;
  * `range_guard_exact` : `first > INT64_MAX − num` ⇔ first + num > INT64_MAX.
-/
import GdModel.Flow.Sound
import GdModel.Generated.RlFlow
import GdModel.Generated.SliceGuards

namespace GdModel.Props.C10
open GdModel.Flow GdModel.Generated

theorem rl_complete : rlComplete = true := by decide

theorem rl_all_balanced : (rlFuncs.all fun p => balancedAt p.2 0) = true := by decide +kernel

theorem rl_every_execution_balanced (name : String) (s : Stmt) (hmem : (name, s) ∈ rlFuncs)
    (v : Int) (k : Kind) (v' : Int) (h : Exec s v k v') : v' = v ∧ (k = .returned ∨ k = .normal) := by
  have hb := List.all_eq_true.mp rl_all_balanced (name, s) hmem
  exact balanced_sound s hb v k v' h

/-- a history: a list of top-level executions of analysed functions -/
inductive History : Int → Int → Prop where
  | nil (v) : History v v
  | call {name s v k v1 v2} : (name, s) ∈ rlFuncs → Exec s v k v1 → History v1 v2 → History v v2

theorem rl_zero_between_calls {v v' : Int} (h : History v v') : v' = v := by
  induction h with
  | nil v => rfl
  | call hm he _ ih => rw [ih, (rl_every_execution_balanced _ _ hm _ _ _ he).1]

/-- the checker really rejects an unbalanced exit: `if (c) return; … dec; return`
    after an `inc` (the shape of the five leaks repaired in 37dfc1a) -/
example : balancedAt (.seq .inc (.seq (.choice .ret .skip) (.seq .dec .ret))) 0 = false := by decide
example : balancedAt (.seq .inc (.seq (.choice (.seq .dec .ret) .skip) (.seq .dec .ret))) 0 = true := by decide

/-! ### overflow guards -/

/-- `gd_get_carray_slice` & friends after 13b3e1e: `n > len || start > len - n`
    (unsigned arithmetic, no wrap possible in `len - n` once `n ≤ len`) rejects
    exactly `start + n > len`. -/
theorem slice_guard_exact (start n len : Nat) :
    (n > len ∨ start > len - n) ↔ start + n > len := by omega

/-- the four slice accessors of the current source (re-extracted on every run by
    extract/x3_sliceguards.py) all use the form that `slice_guard_exact` is about -/
theorem slice_guards_in_source_are_safe :
    sliceGuards.map (·.1) = ["gd_get_carray_slice", "gd_put_carray_slice", "gd_get_sarray_slice", "gd_put_sarray_slice"] ∧
    sliceGuards.all (fun g => g.2 == GuardShape.safe) = true := by decide

/-- the pre-repair form `start + n > len` evaluated modulo 2^64 accepts
    out-of-range slices: witness start = 2, n = 2^64 − 1, len = 4. -/
theorem slice_guard_wrapping_counterexample :
    ¬ ((2 + (2 ^ 64 - 1)) % 2 ^ 64 > 4) ∧ 2 + (2 ^ 64 - 1) > 4 := by decide

/-- `_GD_DoField` / `_GD_DoFieldOut`: `first_samp > INT64_MAX - num_samp`
    (num_samp already clamped to ≤ INT64_MAX, so the right side cannot wrap)
    rejects exactly `first_samp + num_samp > INT64_MAX`. -/
theorem range_guard_exact (first : Int) (num : Nat) (hnum : (num : Int) ≤ 2 ^ 63 - 1) :
    (first > (2 ^ 63 - 1 : Int) - num) ↔ first + num > (2 ^ 63 - 1 : Int) := by omega

/-- `_GD_DoRawOut` / `_GD_DoSeek`: `s0 > INT64_MAX / size` (sample size > 0) rejects
    exactly the positions whose byte offset `s0 * size` does not fit in an int64 —
    tested, since fix 5.82, before the field is opened for writing. -/
theorem offset_guard_exact (s0 size : Nat) (hs : 0 < size) :
    (s0 > (2 ^ 63 - 1) / size) ↔ s0 * size > 2 ^ 63 - 1 := by
  constructor
  · intro h
    exact (Nat.div_lt_iff_lt_mul hs).mp h
  · intro h
    exact (Nat.div_lt_iff_lt_mul hs).mpr h

end GdModel.Props.C10
