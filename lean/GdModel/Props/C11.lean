/-
  Property C11 — read-only handles and /PROTECT levels are never bypassed.

  (1) Source side, regenerated on every run by extract/x5_guards.py:
      `GdModel.Generated.guardTable` lists for each of the 72 public mutators
      the guards the property requires (A access mode, F format protection,
      D data protection) and the guards found reachable in the C source.
      `all_guarded` proves (by kernel evaluation of the generated table) that
      no required guard is missing.
  (2) Rule side: the decision procedure GdModel.Guard.Model.  For every state,
      call and call sequence:
      `rdonly_frozen`     on a read-only handle every call fails with GD_E_ACCMODE
                          and the state is unchanged, for any sequence;
      `protected_refused` a call touching the metadata of a format-protected
                          fragment or the data of a data-protected one fails with
                          GD_E_PROTECTED and changes nothing — also when the
                          protected fragment is not the one the call is addressed to;
      `format_frozen` / `data_frozen`  by induction over any call sequence the
                          metadata version of a format-protected fragment and the
                          data version of a data-protected fragment never change.
-/
import GdModel.Guard.Model
import GdModel.Generated.Guards
namespace GdModel.Props.C11
open GdModel.Guard

/-! ### (1) every mutator carries its guards -/

def rowOK (r : String × String × String) : Bool := r.2.1.toList.all (fun c => r.2.2.toList.contains c)

theorem all_guarded : GdModel.Generated.guardTable.all rowOK = true := by decide

theorem table_size : GdModel.Generated.guardTable.length = 72 := by decide

/-! ### (2) the rule -/

theorem rdonly_step (s : State) (c : Call) (h : s.rdonly = true) : step s c = (s, some .accmode) := by
  unfold step; simp [h]

theorem rdonly_frozen (s : State) (cs : List Call) (h : s.rdonly = true) : run s cs = s := by
  unfold run
  induction cs with
  | nil => rfl
  | cons c rest ih => rw [List.foldl_cons, rdonly_step s c h]; exact ih

theorem protected_refused (s : State) (c : Call) (hrw : s.rdonly = false) (hb : blocked s c = true) :
    step s c = (s, some .protected_) := by
  unfold step; simp [hrw, hb]

theorem bump_length (frags : List Frag) (c : Call) : (bump frags c).length = frags.length := by
  unfold bump; simp

theorem bump_get (frags : List Frag) (c : Call) (i : Nat) (f : Frag) (h : frags[i]? = some f) :
    (bump frags c)[i]? = some { f with mver := if c.metaFrags.contains i then f.mver + 1 else f.mver,
                                       dver := if c.dataFrags.contains i then f.dver + 1 else f.dver } := by
  unfold bump
  have hi : i < frags.length := by
    rcases Nat.lt_or_ge i frags.length with h1 | h1
    · exact h1
    · rw [List.getElem?_eq_none h1] at h; cases h
  rw [List.getElem?_zipWith]
  simp [List.getElem?_range hi, h]

/-- one step never changes the protection of any fragment (only gd_alter_protection does, outside this model) -/
theorem step_prot (s : State) (c : Call) (i : Nat) (f : Frag) (h : s.frags[i]? = some f) :
    ∃ f', (step s c).1.frags[i]? = some f' ∧ f'.prot = f.prot ∧
      (f.prot.fmt = true → f'.mver = f.mver) ∧ (f.prot.dat = true → f'.dver = f.dver) := by
  unfold step
  by_cases hr : s.rdonly = true
  · simp [hr]; exact ⟨f, h, rfl, fun _ => rfl, fun _ => rfl⟩
  · simp only [hr, Bool.false_eq_true, if_false]
    by_cases hb : blocked s c = true
    · simp [hb]; exact ⟨f, h, rfl, fun _ => rfl, fun _ => rfl⟩
    · simp only [hb, Bool.false_eq_true, if_false]
      refine ⟨_, bump_get s.frags c i f h, rfl, ?_, ?_⟩
      · intro hf
        -- if i were among the metadata fragments, the call would have been blocked
        have : c.metaFrags.contains i = false := by
          cases hc : c.metaFrags.contains i with
          | false => rfl
          | true =>
            exfalso; apply hb
            unfold blocked
            simp only [Bool.or_eq_true, List.any_eq_true]
            left
            exact ⟨i, by simpa using hc, by simp [h, hf]⟩
        have hn : ¬ i ∈ c.metaFrags := by simpa using this
        simp [hn]
      · intro hd
        have : c.dataFrags.contains i = false := by
          cases hc : c.dataFrags.contains i with
          | false => rfl
          | true =>
            exfalso; apply hb
            unfold blocked
            simp only [Bool.or_eq_true, List.any_eq_true]
            right
            exact ⟨i, by simpa using hc, by simp [h, hd]⟩
        have hn : ¬ i ∈ c.dataFrags := by simpa using this
        simp [hn]

/-- **format / data protection hold over every call sequence** -/
theorem frozen (cs : List Call) (s : State) (i : Nat) (f : Frag) (h : s.frags[i]? = some f) :
    ∃ f', (run s cs).frags[i]? = some f' ∧ f'.prot = f.prot ∧
      (f.prot.fmt = true → f'.mver = f.mver) ∧ (f.prot.dat = true → f'.dver = f.dver) := by
  unfold run
  induction cs generalizing s f with
  | nil => exact ⟨f, h, rfl, fun _ => rfl, fun _ => rfl⟩
  | cons c rest ih =>
    rw [List.foldl_cons]
    obtain ⟨f1, h1, hp1, hm1, hd1⟩ := step_prot s c i f h
    obtain ⟨f2, h2, hp2, hm2, hd2⟩ := ih (step s c).1 f1 h1
    refine ⟨f2, h2, by rw [hp2, hp1], ?_, ?_⟩
    · intro hf; rw [hm2 (by rw [hp1]; exact hf), hm1 hf]
    · intro hd; rw [hd2 (by rw [hp1]; exact hd), hd1 hd]

theorem format_frozen (cs : List Call) (s : State) (i : Nat) (f : Frag) (h : s.frags[i]? = some f)
    (hf : f.prot.fmt = true) : ∃ f', (run s cs).frags[i]? = some f' ∧ f'.mver = f.mver := by
  obtain ⟨f', h1, _, hm, _⟩ := frozen cs s i f h
  exact ⟨f', h1, hm hf⟩

theorem data_frozen (cs : List Call) (s : State) (i : Nat) (f : Frag) (h : s.frags[i]? = some f)
    (hd : f.prot.dat = true) : ∃ f', (run s cs).frags[i]? = some f' ∧ f'.dver = f.dver := by
  obtain ⟨f', h1, _, _, hdd⟩ := frozen cs s i f h
  exact ⟨f', h1, hdd hd⟩

/-! ### non-vacuity -/
def ex : State := ⟨false, [⟨.none, 0, 0⟩, ⟨.data, 0, 0⟩, ⟨.format, 0, 0⟩]⟩
-- a move with data from fragment 0 into the data-protected fragment 1 is refused
example : step ex ⟨[0, 1], [0, 1]⟩ = (ex, some .protected_) := by decide
-- a metadata edit of fragment 1 (data protection only) goes through
example : (step ex ⟨[1], []⟩).2 = none := by decide

end GdModel.Props.C11
