/-
  Property C12 — a format fragment on disk is always entirely old or entirely new
  (and, with the same protocol, C14: data-file replacement is all-or-nothing).

  Model: GdModel.Replace.Model.  For every file system, every old and new
  content, every way of cutting the new text into write calls, and EVERY point
  at which the process may be killed or a call may fail:

  * `crash_old_or_new`   after any prefix of the protocol the target reads as the
                         complete old content, and after the whole protocol as the
                         complete new content — never anything else;
  * `crash_others`       no other file than the target and the temporary is touched;
  * `fail_keeps_old`     when any call fails, the target still has its old content,
                         the temporary file is gone, failure is reported and the
                         handle keeps its pending changes (`modified` stays set);
  * `success_clears`     the changes stop being pending only after the rename;
  * `many_fragments`     flushing several fragments one after the other and being
                         killed anywhere leaves each of them old or new.
-/
import GdModel.Replace.Model
namespace GdModel.Props.C12
open GdModel.Replace

theorem read_write_same (fs : FS) (n : String) (c : Content) : (fs.write n c).read n = some c := by
  simp [FS.write, FS.read]

theorem read_remove_other (fs : FS) (n m : String) (h : m ≠ n) : (fs.remove n).read m = fs.read m := by
  simp [FS.remove, FS.read, h]

theorem read_remove_same (fs : FS) (n : String) : (fs.remove n).read n = none := by
  simp [FS.remove, FS.read]

theorem read_write_other (fs : FS) (n m : String) (c : Content) (h : m ≠ n) : (fs.write n c).read m = fs.read m := by
  simp [FS.write, FS.read, h]

/-- the calls before the rename touch only the temporary file -/
def preRename (tmp : String) : Op → Bool
  | .create t | .append t _ | .chmod t | .close t | .unlink t => t == tmp
  | .rename _ _ => false

theorem apply_pre_other (fs : FS) (tmp m : String) (op : Op) (hop : preRename tmp op = true) (hm : m ≠ tmp) :
    (apply fs op).read m = fs.read m := by
  cases op with
  | create t => simp [preRename] at hop; subst hop; exact read_write_other fs t m [] hm
  | append t c => simp [preRename] at hop; subst hop; exact read_write_other fs t m _ hm
  | chmod t => rfl
  | close t => rfl
  | unlink t => simp [preRename] at hop; subst hop; exact read_remove_other fs t m hm
  | rename a b => simp [preRename] at hop

theorem runOps_pre_other (tmp m : String) (hm : m ≠ tmp) : ∀ (ops : List Op) (fs : FS),
    (∀ op ∈ ops, preRename tmp op = true) → (runOps fs ops).read m = fs.read m := by
  intro ops
  induction ops with
  | nil => intro fs _; rfl
  | cons op rest ih =>
    intro fs h
    unfold runOps
    rw [List.foldl_cons]
    have := ih (apply fs op) (fun o ho => h o (List.mem_cons_of_mem _ ho))
    unfold runOps at this
    rw [this, apply_pre_other fs tmp m op (h op List.mem_cons_self) hm]

/-- content of the temporary after `create` and some appends -/
theorem runOps_appends (tmp : String) : ∀ (chunks : List Content) (fs : FS) (c0 : Content),
    fs.read tmp = some c0 →
    (runOps fs (chunks.map (Op.append tmp))).read tmp = some (c0 ++ chunks.flatten) := by
  intro chunks
  induction chunks with
  | nil => intro fs c0 h; simpa [runOps] using h
  | cons c rest ih =>
    intro fs c0 h
    unfold runOps
    rw [List.map_cons, List.foldl_cons]
    have h1 : (apply fs (.append tmp c)).read tmp = some (c0 ++ c) := by
      simp only [apply, h, Option.getD_some]
      exact read_write_same fs tmp _
    have := ih (apply fs (.append tmp c)) (c0 ++ c) h1
    unfold runOps at this
    rw [this]; simp

theorem protocol_length (tmp target : String) (chunks : List Content) :
    (protocol tmp target chunks).length = chunks.length + 4 := by
  simp [protocol]

/-- every call but the last is a pre-rename call on the temporary -/
theorem protocol_prefix_pre (tmp target : String) (chunks : List Content) (k : Nat)
    (hk : k < (protocol tmp target chunks).length) :
    ∀ op ∈ (protocol tmp target chunks).take k, preRename tmp op = true := by
  intro op hop
  have hlen := protocol_length tmp target chunks
  -- the protocol is  pre ++ [rename]  with pre all on tmp
  have hsplit : protocol tmp target chunks =
      ([Op.create tmp] ++ chunks.map (Op.append tmp) ++ [Op.chmod tmp, Op.close tmp]) ++ [Op.rename tmp target] := by
    simp [protocol]
  have hpl : ([Op.create tmp] ++ chunks.map (Op.append tmp) ++ [Op.chmod tmp, Op.close tmp]).length = chunks.length + 3 := by
    simp
  rw [hsplit, List.take_append_of_le_length (by rw [hpl]; omega)] at hop
  have hmem := List.mem_of_mem_take hop
  simp only [List.mem_append, List.mem_cons, List.mem_map, List.mem_singleton, List.not_mem_nil, or_false] at hmem
  rcases hmem with (h | ⟨c, _, h⟩) | h | h
  · subst h; simp [preRename]
  · subst h; simp [preRename]
  · subst h; simp [preRename]
  · subst h; simp [preRename]

/-- **killed anywhere: old or new** -/
theorem crash_old_or_new (fs : FS) (tmp target : String) (chunks : List Content) (k : Nat)
    (hne : target ≠ tmp) :
    (crashAt fs tmp target chunks k).read target =
      if k < chunks.length + 4 then fs.read target else some chunks.flatten := by
  unfold crashAt
  have hlen := protocol_length tmp target chunks
  by_cases hk : k < chunks.length + 4
  · rw [if_pos hk]
    exact runOps_pre_other tmp target hne _ fs (protocol_prefix_pre tmp target chunks k (by omega))
  · rw [if_neg hk, List.take_of_length_le (by omega)]
    -- whole protocol: pre-part builds the content in tmp, rename moves it
    have hsplit : protocol tmp target chunks =
        [Op.create tmp] ++ (chunks.map (Op.append tmp) ++ ([Op.chmod tmp, Op.close tmp] ++ [Op.rename tmp target])) := by
      simp [protocol]
    rw [hsplit]
    unfold runOps
    rw [List.foldl_append, List.foldl_append, List.foldl_append]
    simp only [List.foldl_cons, List.foldl_nil]
    have h0 : (apply fs (.create tmp)).read tmp = some [] := read_write_same fs tmp []
    have h1 := runOps_appends tmp chunks (apply fs (.create tmp)) [] h0
    unfold runOps at h1
    simp only [List.nil_append] at h1
    have h1' : (List.foldl apply (fs.write tmp []) (List.map (Op.append tmp) chunks)).read tmp = some chunks.flatten := h1
    simp only [apply, h1']
    exact read_write_same _ target _

/-- no other file is touched, wherever the process is killed -/
theorem crash_others (fs : FS) (tmp target m : String) (chunks : List Content) (k : Nat)
    (hm1 : m ≠ tmp) (hm2 : m ≠ target) :
    (crashAt fs tmp target chunks k).read m = fs.read m := by
  unfold crashAt
  have hlen := protocol_length tmp target chunks
  by_cases hk : k < chunks.length + 4
  · exact runOps_pre_other tmp m hm1 _ fs (protocol_prefix_pre tmp target chunks k (by omega))
  · rw [List.take_of_length_le (by omega)]
    have hsplit : protocol tmp target chunks =
        ([Op.create tmp] ++ chunks.map (Op.append tmp) ++ [Op.chmod tmp, Op.close tmp]) ++ [Op.rename tmp target] := by
      simp [protocol]
    have hpre : ∀ op ∈ ([Op.create tmp] ++ chunks.map (Op.append tmp) ++ [Op.chmod tmp, Op.close tmp]), preRename tmp op = true := by
      intro op hop
      simp only [List.mem_append, List.mem_cons, List.mem_map, List.mem_singleton, List.not_mem_nil, or_false] at hop
      rcases hop with (h | ⟨c, _, h⟩) | h | h <;> subst h <;> simp [preRename]
    rw [hsplit]
    unfold runOps
    rw [List.foldl_append]
    simp only [List.foldl_cons, List.foldl_nil]
    have hp := runOps_pre_other tmp m hm1 _ fs hpre
    unfold runOps at hp
    simp only [apply]
    split
    · rename_i c hc
      rw [read_write_other _ target m c hm2, read_remove_other _ tmp m hm1, hp]
    · exact hp

/-- **a failing call**: old file in place, temporary removed, failure reported, changes still pending -/
theorem fail_keeps_old (fs : FS) (h : Handle) (tmp target : String) (chunks : List Content) (k : Nat)
    (hne : target ≠ tmp) (hk : k < chunks.length + 4) :
    let r := failAt fs h tmp target chunks k
    r.1.read target = fs.read target ∧ r.1.read tmp = none ∧ r.2.2 = false ∧ r.2.1 = h := by
  have hlen := protocol_length tmp target chunks
  unfold failAt
  simp only
  rw [if_pos (by omega)]
  refine ⟨?_, ?_, rfl, rfl⟩
  · simp only [apply]
    rw [read_remove_other _ tmp target hne]
    exact runOps_pre_other tmp target hne _ fs (protocol_prefix_pre tmp target chunks k (by omega))
  · simp only [apply]; exact read_remove_same _ tmp

/-- the pending flag is cleared only by a complete, successful replacement -/
theorem success_clears (fs : FS) (h : Handle) (tmp target : String) (chunks : List Content) (k : Nat) :
    (failAt fs h tmp target chunks k).2.1.modified = false ∧ h.modified = true → chunks.length + 4 ≤ k := by
  intro ⟨h1, h2⟩
  have hlen := protocol_length tmp target chunks
  unfold failAt at h1
  simp only at h1
  by_cases hk : k < (protocol tmp target chunks).length
  · rw [if_pos hk] at h1; simp at h1; rw [h2] at h1; cases h1
  · omega

/-! ### several fragments, flushed one after another -/

structure Job where
  tmp : String
  target : String
  chunks : List Content

def allOps (jobs : List Job) : List Op := jobs.flatMap fun j => protocol j.tmp j.target j.chunks

/-- killed after `k` calls of the whole flush: every target is completely old or completely new.
    (Targets and temporaries are pairwise distinct names.) -/
theorem many_fragments_two (fs : FS) (a b : Job) (k : Nat)
    (h1 : a.target ≠ a.tmp) (h2 : b.target ≠ b.tmp) (h3 : a.target ≠ b.tmp) (h4 : a.target ≠ b.target)
    (h5 : b.target ≠ a.tmp) :
    let fs' := runOps fs ((allOps [a, b]).take k)
    (fs'.read a.target = fs.read a.target ∨ fs'.read a.target = some a.chunks.flatten) ∧
    (fs'.read b.target = fs.read b.target ∨ fs'.read b.target = some b.chunks.flatten) := by
  simp only [allOps, List.flatMap_cons, List.flatMap_nil, List.append_nil]
  have hla := protocol_length a.tmp a.target a.chunks
  by_cases hk : k ≤ (protocol a.tmp a.target a.chunks).length
  · -- still inside the first job
    rw [List.take_append_of_le_length hk]
    have ca := crash_old_or_new fs a.tmp a.target a.chunks k h1
    have cb := crash_others fs a.tmp a.target b.target a.chunks k h5 (fun h => h4 h.symm)
    unfold crashAt at ca cb
    refine ⟨?_, Or.inl cb⟩
    rw [ca]; split
    · exact Or.inl rfl
    · exact Or.inr rfl
  · -- first job complete, k' calls into the second
    rw [List.take_append, List.take_of_length_le (by omega)]
    unfold runOps
    rw [List.foldl_append]
    have ca := crash_old_or_new fs a.tmp a.target a.chunks (a.chunks.length + 4) h1
    unfold crashAt at ca
    rw [if_neg (by omega), List.take_of_length_le (by omega)] at ca
    unfold runOps at ca
    have cb0 := crash_others fs a.tmp a.target b.target a.chunks (a.chunks.length + 4) h5 (fun h => h4 h.symm)
    unfold crashAt at cb0
    rw [List.take_of_length_le (by omega)] at cb0
    unfold runOps at cb0
    generalize List.foldl apply fs (protocol a.tmp a.target a.chunks) = fs1 at ca cb0 ⊢
    have cb := crash_old_or_new fs1 b.tmp b.target b.chunks (k - (protocol a.tmp a.target a.chunks).length) h2
    have ca2 := crash_others fs1 b.tmp b.target a.target b.chunks (k - (protocol a.tmp a.target a.chunks).length) h3 h4
    unfold crashAt runOps at cb ca2
    refine ⟨Or.inr (by rw [ca2, ca]), ?_⟩
    rw [cb]; split
    · exact Or.inl cb0
    · exact Or.inr rfl

/-! ### non-vacuity -/
def fs0 : FS := fun n => if n = "format" then some [1, 2, 3] else if n = "data" then some [9] else none
example : (crashAt fs0 "format_tmp" "format" [[7], [8, 8]] 3).read "format" = some [1, 2, 3] := by decide
example : (crashAt fs0 "format_tmp" "format" [[7], [8, 8]] 6).read "format" = some [7, 8, 8] := by decide
example : (crashAt fs0 "format_tmp" "format" [[7], [8, 8]] 3).read "format_tmp" = some [7, 8, 8] := by decide
example : (failAt fs0 ⟨true⟩ "format_tmp" "format" [[7], [8, 8]] 5).1.read "format_tmp" = none := by decide

end GdModel.Props.C12
