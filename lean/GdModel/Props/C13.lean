/-
  Property C13 — restructuring a dirfile does not change the data it holds.

  At the level of the flat sample array (GdModel.Restructure.Model):

  * `shift_keeps_absolute`   after a frame-offset change with data, every
                             absolute sample number at or after both starts
                             holds exactly the sample it held before;
  * `shift_pads_zero`        moving the start earlier reads zero in the new
                             leading frames;
  * `shift_drops_only_front` moving the start later loses exactly the samples
                             before the new start and nothing else;
  * `respf_get` / `respf_length`  the sample-rate recode: new sample j is old
                             sample ⌊j·old/new⌋, and there are ⌊n·new/old⌋ of them;
  * `respf_id`               recoding to the same rate is the identity;
  * `respf_up_down`          up-sampling by an integer factor and recoding back
                             returns the original array;
  * `recode_order`           re-writing the file in another byte order (or
                             through another container) and decoding it gives
                             the same samples (from C04 `bare_roundtrip`).

  Since `Spec.sample` of every derived field is a function of the absolute
  samples of its RAW inputs (refinement theorem `read_spec`, C01), equal
  absolute samples give equal values for every field that refers to the
  restructured one.
-/
import GdModel.Restructure.Model
import GdModel.Props.C04
namespace GdModel.Props.C13
open GdModel.Restructure GdModel.Num GdModel.Bytes

variable {α : Type}

theorem shift_keeps_absolute (zero : α) (spf foff foff' : Nat) (xs : List α) (k : Nat)
    (h1 : foff * spf ≤ k) (h2 : foff' * spf ≤ k) :
    absAt spf foff' (shift zero spf foff foff' xs) k = absAt spf foff xs k := by
  unfold absAt shift
  rw [if_neg (show ¬ k < foff' * spf by omega), if_neg (show ¬ k < foff * spf by omega)]
  by_cases h : foff ≤ foff'
  · rw [if_pos h, List.getElem?_drop]
    congr 1
    have : (foff' - foff) * spf = foff' * spf - foff * spf := Nat.sub_mul _ _ _
    have hle : foff * spf ≤ foff' * spf := Nat.mul_le_mul_right _ h
    omega
  · rw [if_neg h]
    have hle : foff' * spf ≤ foff * spf := Nat.mul_le_mul_right _ (by omega)
    have e : (foff - foff') * spf = foff * spf - foff' * spf := Nat.sub_mul _ _ _
    rw [List.getElem?_append_right (by simp; omega)]
    congr 1
    simp only [List.length_replicate]
    omega

theorem shift_pads_zero (zero : α) (spf foff foff' : Nat) (xs : List α) (k : Nat)
    (h1 : foff' * spf ≤ k) (h2 : k < foff * spf) :
    absAt spf foff' (shift zero spf foff foff' xs) k = some zero := by
  unfold absAt shift
  have hlt : foff' < foff := by
    by_cases h : foff' < foff
    · exact h
    · have : foff * spf ≤ foff' * spf := Nat.mul_le_mul_right _ (by omega)
      omega
  rw [if_neg (show ¬ k < foff' * spf by omega), if_neg (show ¬ foff ≤ foff' by omega)]
  have e : (foff - foff') * spf = foff * spf - foff' * spf := Nat.sub_mul _ _ _
  rw [List.getElem?_append_left (by simp; omega)]
  simp only [List.getElem?_replicate]
  rw [if_pos (by omega)]

theorem shift_drops_only_front (zero : α) (spf foff foff' : Nat) (xs : List α) (h : foff ≤ foff') :
    (shift zero spf foff foff' xs).length = xs.length - (foff' - foff) * spf := by
  unfold shift
  rw [if_pos h, List.length_drop]

/-! ### sample-rate recode -/

theorem respf_eq_map (old new : Nat) (hnew : 0 < new) (hold : 0 < old) (xs : List α) :
    ∀ j, j < xs.length * new / old → j * old / new < xs.length := by
  intro j hj
  have h1 : j * old < xs.length * new := by
    have := (Nat.lt_div_iff_mul_lt hold).1 hj
    -- j < (n*new)/old  ⇒  (j+1) * old ≤ n*new
    have h2 : (j + 1) * old ≤ xs.length * new := by
      have := Nat.le_div_iff_mul_le hold |>.1 (Nat.succ_le_of_lt hj)
      simpa using this
    rw [Nat.add_mul] at h2
    omega
  exact (Nat.div_lt_iff_lt_mul hnew).2 h1

theorem respf_length (old new : Nat) (hnew : 0 < new) (hold : 0 < old) (xs : List α) :
    (respf old new xs).length = xs.length * new / old := by
  unfold respf
  have hb := respf_eq_map old new hnew hold xs
  generalize xs.length * new / old = m at hb
  induction m with
  | zero => rfl
  | succ m ih =>
    rw [List.range_succ, List.filterMap_append, List.length_append, ih (fun j hj => hb j (by omega))]
    have := hb m (by omega)
    simp [List.getElem?_eq_getElem this]

theorem respf_get (old new : Nat) (hnew : 0 < new) (hold : 0 < old) (xs : List α) (j : Nat)
    (hj : j < xs.length * new / old) :
    (respf old new xs)[j]? = xs[j * old / new]? := by
  unfold respf
  have hb := respf_eq_map old new hnew hold xs
  generalize xs.length * new / old = m at hb hj
  induction m with
  | zero => omega
  | succ m ih =>
    rw [List.range_succ, List.filterMap_append]
    have hlen : (List.filterMap (fun j => xs[j * old / new]?) (List.range m)).length = m := by
      have hb' : ∀ j, j < m → j * old / new < xs.length := fun j hj => hb j (by omega)
      clear ih hj
      induction m with
      | zero => rfl
      | succ m ih2 =>
        rw [List.range_succ, List.filterMap_append, List.length_append, ih2 (fun j hj => hb j (by omega)) (fun j hj => hb' j (by omega))]
        have := hb' m (by omega)
        simp [List.getElem?_eq_getElem this]
    by_cases hjm : j < m
    · rw [List.getElem?_append_left (by omega)]
      exact ih (fun j hj => hb j (by omega)) hjm
    · have : j = m := by omega
      subst this
      rw [List.getElem?_append_right (by omega), hlen]
      have := hb j (by omega)
      simp [List.getElem?_eq_getElem this]

theorem respf_id (spf : Nat) (h : 0 < spf) (xs : List α) : respf spf spf xs = xs := by
  apply List.ext_getElem?
  intro j
  have hl := respf_length spf spf h h xs
  rw [Nat.mul_div_cancel _ h] at hl
  by_cases hj : j < xs.length
  · rw [respf_get spf spf h h xs j (by rw [Nat.mul_div_cancel _ h]; exact hj), Nat.mul_div_cancel _ h]
  · rw [List.getElem?_eq_none (by omega), List.getElem?_eq_none (by omega)]

/-- up-sample by an integer factor `k`, then recode back: the original array -/
theorem respf_up_down (spf k : Nat) (hs : 0 < spf) (hk : 0 < k) (xs : List α) :
    respf (k * spf) spf (respf spf (k * spf) xs) = xs := by
  have hks : 0 < k * spf := Nat.mul_pos hk hs
  have hl1 := respf_length spf (k * spf) hks hs xs
  have e1 : xs.length * (k * spf) / spf = xs.length * k := by
    rw [← Nat.mul_assoc, Nat.mul_div_cancel _ hs]
  rw [e1] at hl1
  have hl2 := respf_length (k * spf) spf hs hks (respf spf (k * spf) xs)
  rw [hl1] at hl2
  have e2 : xs.length * k * spf / (k * spf) = xs.length := by
    rw [Nat.mul_assoc, Nat.mul_div_cancel _ hks]
  rw [e2] at hl2
  apply List.ext_getElem?
  intro j
  by_cases hj : j < xs.length
  · rw [respf_get (k * spf) spf hs hks _ j (by rw [hl1, e2]; exact hj)]
    have e3 : j * (k * spf) / spf = j * k := by rw [← Nat.mul_assoc, Nat.mul_div_cancel _ hs]
    rw [e3, respf_get spf (k * spf) hks hs xs (j * k) (by rw [e1]; exact Nat.mul_lt_mul_of_pos_right hj hk)]
    have e4 : j * k * spf / (k * spf) = j := by rw [Nat.mul_assoc, Nat.mul_div_cancel _ hks]
    rw [e4]
  · rw [List.getElem?_eq_none (by omega), List.getElem?_eq_none (by omega)]

/-- re-writing the samples in another byte order and reading them back -/
theorem recode_order (o o' : Order) (ty : Ty) (xs : List Sample) (hx : ∀ x ∈ xs, GdModel.Props.C04.Fits ty x) :
    decodeSamples o' ty (encodeSamples o' ty xs) = decodeSamples o ty (encodeSamples o ty xs) := by
  have h1 := GdModel.Props.C04.bare_roundtrip o ty xs [] hx (GdModel.Props.C04.size_pos ty)
  have h2 := GdModel.Props.C04.bare_roundtrip o' ty xs [] hx (GdModel.Props.C04.size_pos ty)
  simp only [List.append_nil] at h1 h2
  rw [h1, h2]

/-! ### non-vacuity -/
example : shift 0 2 1 3 [1, 2, 3, 4, 5, 6, 7] = [5, 6, 7] := by decide
example : shift 0 2 3 1 [5, 6, 7] = [0, 0, 0, 0, 5, 6, 7] := by decide
example : absAt 2 3 (shift 0 2 1 3 [1, 2, 3, 4, 5, 6, 7]) 7 = absAt 2 1 [1, 2, 3, 4, 5, 6, 7] 7 := by decide
example : respf 2 3 [10, 11, 20, 21] = [10, 10, 11, 20, 20, 21] := by decide
example : respf 3 2 [10, 11, 12, 20, 21, 22] = [10, 11, 20, 21] := by decide

end GdModel.Props.C13
