/-
  Property C14 — data-file replacement is all-or-nothing and leaves no debris.

  The library replaces a data file by the same write-to-temporary-then-rename
  protocol as a format fragment (GdModel.Replace.Model); the theorems of
  Props/C12 therefore apply verbatim to an in-place replacement (closing an
  out-of-place gzip/bzip2/lzma write, re-coding for byte order, frame offset,
  type or sample rate).  When the NAME changes as well (a new encoding's
  extension, a move to another directory, a rename) the old file is unlinked
  after the new one has been renamed into place.  Proved here for every file
  system, content and kill point:

  * `replace_in_place`     = C12.crash_old_or_new for a data file;
  * `move_old_or_new`      at every prefix of  create tmp; writes; chmod; close;
                           rename tmp new; unlink old  a complete copy exists:
                           the old file still has its complete content, or the
                           new name has the complete new content (or both);
  * `move_fail_keeps_old`  a failing call before the rename leaves the old file
                           complete and no temporary;
  * `move_no_debris`       after the whole sequence the temporary and the old
                           name are gone, the new name holds the new content,
                           and no other file has changed.
-/
import GdModel.Props.C12
namespace GdModel.Props.C14
open GdModel.Replace GdModel.Props.C12

theorem replace_in_place (fs : FS) (tmp target : String) (chunks : List Content) (k : Nat) (hne : target ≠ tmp) :
    (crashAt fs tmp target chunks k).read target =
      if k < chunks.length + 4 then fs.read target else some chunks.flatten :=
  crash_old_or_new fs tmp target chunks k hne

/-- replacement under a new name: the in-place protocol towards `new`, then unlink `old` -/
def moveProtocol (tmp old new : String) (chunks : List Content) : List Op :=
  protocol tmp new chunks ++ [.unlink old]

theorem moveProtocol_length (tmp old new : String) (chunks : List Content) :
    (moveProtocol tmp old new chunks).length = chunks.length + 5 := by
  simp [moveProtocol, protocol_length]

/-- **killed anywhere during a move/re-encode: a complete copy survives** -/
theorem move_old_or_new (fs : FS) (tmp old new : String) (chunks : List Content) (k : Nat) (oldc : Content)
    (h1 : new ≠ tmp) (h2 : old ≠ tmp) (h3 : old ≠ new) (hold : fs.read old = some oldc) :
    let fs' := runOps fs ((moveProtocol tmp old new chunks).take k)
    fs'.read old = some oldc ∨ fs'.read new = some chunks.flatten := by
  have hl := protocol_length tmp new chunks
  simp only [moveProtocol]
  by_cases hk : k ≤ (protocol tmp new chunks).length
  · left
    rw [List.take_append_of_le_length hk]
    have := crash_others fs tmp new old chunks k h2 h3
    unfold crashAt at this
    rw [this, hold]
  · right
    rw [List.take_append, List.take_of_length_le (by omega)]
    unfold runOps
    rw [List.foldl_append]
    have hc := crash_old_or_new fs tmp new chunks (chunks.length + 4) h1
    unfold crashAt at hc
    rw [if_neg (by omega), List.take_of_length_le (by omega)] at hc
    unfold runOps at hc
    generalize List.foldl apply fs (protocol tmp new chunks) = fs1 at hc ⊢
    -- at most the unlink of `old` remains, which does not touch `new`
    cases hkk : k - (protocol tmp new chunks).length with
    | zero => simpa using hc
    | succ m =>
      simp only [List.take_succ_cons, List.take_nil, List.foldl_cons, List.foldl_nil, apply]
      rw [read_remove_other fs1 old new (fun h => h3 h.symm)]
      exact hc

/-- a call failing before the rename: old complete, temporary removed -/
theorem move_fail_keeps_old (fs : FS) (h : Handle) (tmp old new : String) (chunks : List Content) (k : Nat)
    (oldc : Content) (h1 : new ≠ tmp) (h2 : old ≠ tmp) (h3 : old ≠ new) (hold : fs.read old = some oldc)
    (hk : k < chunks.length + 4) :
    let r := failAt fs h tmp new chunks k
    r.1.read old = some oldc ∧ r.1.read tmp = none ∧ r.1.read new = fs.read new ∧ r.2.2 = false := by
  have hl := protocol_length tmp new chunks
  obtain ⟨a, b, c, _⟩ := fail_keeps_old fs h tmp new chunks k h1 hk
  refine ⟨?_, b, a, c⟩
  unfold failAt
  simp only
  rw [if_pos (by omega)]
  simp only [apply]
  rw [read_remove_other _ tmp old h2]
  have := crash_others fs tmp new old chunks k h2 h3
  unfold crashAt at this
  rw [this, hold]

/-- **no debris** after a complete move -/
theorem move_no_debris (fs : FS) (tmp old new m : String) (chunks : List Content)
    (h1 : new ≠ tmp) (h2 : old ≠ tmp) (h3 : old ≠ new) (htmp : fs.read tmp = none)
    (hm1 : m ≠ tmp) (hm2 : m ≠ new) (hm3 : m ≠ old) :
    let fs' := runOps fs (moveProtocol tmp old new chunks)
    fs'.read new = some chunks.flatten ∧ fs'.read old = none ∧ fs'.read m = fs.read m := by
  have hl := protocol_length tmp new chunks
  simp only [moveProtocol]
  unfold runOps
  rw [List.foldl_append]
  have hc := crash_old_or_new fs tmp new chunks (chunks.length + 4) h1
  have ho := crash_others fs tmp new m chunks (chunks.length + 4) hm1 hm2
  unfold crashAt at hc ho
  rw [if_neg (by omega), List.take_of_length_le (by omega)] at hc
  rw [List.take_of_length_le (by omega)] at ho
  unfold runOps at hc ho
  generalize List.foldl apply fs (protocol tmp new chunks) = fs1 at hc ho ⊢
  simp only [List.foldl_cons, List.foldl_nil, apply]
  refine ⟨?_, read_remove_same fs1 old, ?_⟩
  · rw [read_remove_other fs1 old new (fun h => h3 h.symm)]; exact hc
  · rw [read_remove_other fs1 old m hm3]; exact ho

/-! ### non-vacuity -/
def fsd : FS := fun n => if n = "a" then some [1, 2] else none
example : (runOps fsd ((moveProtocol "a_tmp" "a" "a.gz" [[9], [8]]).take 4)).read "a" = some [1, 2] := by decide
example : (runOps fsd (moveProtocol "a_tmp" "a" "a.gz" [[9], [8]])).read "a.gz" = some [9, 8] := by decide
example : (runOps fsd (moveProtocol "a_tmp" "a" "a.gz" [[9], [8]])).read "a" = none := by decide

end GdModel.Props.C14
