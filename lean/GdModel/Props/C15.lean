/-
  Property C15 — the field name table stays consistent under every sequence
  of metadata edits.

  Model: GdModel.Names.Table (the sorted `D->entry[]`, `_GD_FindField`,
  `_GD_InsertSort`).  Proved for every table and name:

  * `strlencmp_eq_iff`, `strlencmp_swap`, `lt_trans`   `_GD_strlencmp` is a strict total order;
  * `bisect_inv` / `find_spec`   on a sorted table the bisection terminates and either
                       returns an index holding exactly the name, or an insertion
                       point `u` with every entry before `u` smaller and every
                       entry from `u` on larger (so the name is not in the table);
  * `add_sorted`, `add_mem`      adding keeps the table strictly sorted (hence free of
                       duplicates) and adds exactly that name; an existing name is refused;
  * `delete_sorted`, `delete_mem`  deleting keeps it sorted and removes exactly that name;
  * `ops_sorted`       by induction, after ANY sequence of adds and deletes the table is
                       strictly sorted — every name unique and found by look-up;
  * `reaffix_sorted`, `reaffix_mem`, `reaffix_found`   a change of affixes or namespace that
                       renames any subset of the names and then re-sorts (`qsort` with
                       `_GD_EntryCmp`) leaves a strictly sorted table of exactly the new names,
                       each found by the bisection; the example after them shows the re-sort is
                       needed even when no length changes; `resort_in_source_is_unconditional`
                       ties that to src/fragment.c through extractor X8.
-/
import GdModel.Names.Table
import GdModel.Generated.Resort
namespace GdModel.Props.C15
open GdModel.Names

/-! ### the order -/

theorem memcmp_eq_iff : ∀ (a b : Key), a.length = b.length → (memcmp a b = .eq ↔ a = b)
  | [], [], _ => by simp [memcmp]
  | [], _ :: _, h => by simp at h
  | _ :: _, [], h => by simp at h
  | x :: xs, y :: ys, h => by
    have ih := memcmp_eq_iff xs ys (by simpa using h)
    unfold memcmp
    by_cases h1 : x < y
    · simp [h1]; omega
    · by_cases h2 : y < x
      · simp [h1, h2]; omega
      · have : x = y := by omega
        simp [h1, h2, ih, this]

theorem memcmp_swap : ∀ (a b : Key), memcmp b a = (memcmp a b).swap
  | [], [] => rfl
  | [], _ :: _ => rfl
  | _ :: _, [] => rfl
  | x :: xs, y :: ys => by
    have ih := memcmp_swap xs ys
    unfold memcmp
    by_cases h1 : x < y
    · have : ¬ y < x := by omega
      simp [h1, this]
    · by_cases h2 : y < x
      · simp [h1, h2]
      · simp [h1, h2, ih]

theorem memcmp_lt_trans : ∀ (a b c : Key), memcmp a b = .lt → memcmp b c = .lt → memcmp a c = .lt
  | [], [], _, h, _ => by simp [memcmp] at h
  | [], _ :: _, [], _, h => by simp [memcmp] at h
  | [], _ :: _, _ :: _, _, _ => by simp [memcmp]
  | _ :: _, [], _, h, _ => by simp [memcmp] at h
  | _ :: _, _ :: _, [], _, h => by simp [memcmp] at h
  | x :: xs, y :: ys, z :: zs, h1, h2 => by
    have ih := memcmp_lt_trans xs ys zs
    unfold memcmp at h1 h2 ⊢
    by_cases hxy : x < y
    · by_cases hyz : y < z
      · simp [show x < z by omega]
      · by_cases hzy : z < y
        · simp [hyz, hzy] at h2
        · have : y = z := by omega
          subst this; simp [hxy]
    · by_cases hyx : y < x
      · simp [hxy, hyx] at h1
      · have hxy' : x = y := by omega
        subst hxy'
        simp only [Nat.lt_irrefl, if_false] at h1
        by_cases hyz : x < z
        · simp [hyz]
        · by_cases hzy : z < x
          · simp [hyz, hzy] at h2
          · simp only [hyz, hzy, if_false] at h2 ⊢
            exact ih h1 h2

/-- strictly smaller in table order -/
def lt (a b : Key) : Prop := strlencmp a b = .lt

theorem strlencmp_eq_iff (a b : Key) : strlencmp a b = .eq ↔ a = b := by
  unfold strlencmp
  by_cases h1 : a.length < b.length
  · simp [h1]; intro h; subst h; omega
  · by_cases h2 : b.length < a.length
    · simp [h1, h2]; intro h; subst h; omega
    · simp only [h1, h2, if_false]
      exact memcmp_eq_iff a b (by omega)

theorem strlencmp_swap (a b : Key) : strlencmp b a = (strlencmp a b).swap := by
  unfold strlencmp
  by_cases h1 : a.length < b.length
  · have : ¬ b.length < a.length := by omega
    simp [h1, this]
  · by_cases h2 : b.length < a.length
    · simp [h1, h2]
    · simp [h1, h2, memcmp_swap a b]

theorem gt_iff_lt (a b : Key) : strlencmp a b = .gt ↔ lt b a := by
  unfold lt
  rw [strlencmp_swap a b]
  cases strlencmp a b <;> simp [Ordering.swap]

theorem lt_trans (a b c : Key) (h1 : lt a b) (h2 : lt b c) : lt a c := by
  unfold lt strlencmp at *
  by_cases hab : a.length < b.length
  · by_cases hbc : b.length < c.length
    · simp [show a.length < c.length by omega]
    · by_cases hcb : c.length < b.length
      · simp [hbc, hcb] at h2
      · simp [show a.length < c.length by omega]
  · by_cases hba : b.length < a.length
    · simp [hab, hba] at h1
    · simp only [hab, hba, if_false] at h1
      by_cases hbc : b.length < c.length
      · simp [show a.length < c.length by omega]
      · by_cases hcb : c.length < b.length
        · simp [hbc, hcb] at h2
        · simp only [hbc, hcb, if_false] at h2
          rw [if_neg (by omega), if_neg (by omega)]
          exact memcmp_lt_trans a b c h1 h2

theorem lt_irrefl (a : Key) : ¬ lt a a := by
  unfold lt
  have := (strlencmp_eq_iff a a).2 rfl
  rw [this]; simp

/-! ### sorted tables and the bisection -/

/-- strictly increasing in table order -/
@[reducible] def Sorted (tab : List Key) : Prop :=
  ∀ (i j : Nat) (a b : Key), i < j → tab[i]? = some a → tab[j]? = some b → lt a b

theorem sorted_nodup (tab : List Key) (h : Sorted tab) :
    ∀ (i j : Nat) (a : Key), i < j → tab[i]? = some a → tab[j]? = some a → False := by
  intro i j a hij hi hj
  exact lt_irrefl a (h i j a a hij hi hj)

/-- what `missing u` means: everything before `u` is smaller, everything from `u` on is larger -/
def Gap (tab : List Key) (k : Key) (u : Nat) : Prop :=
  u ≤ tab.length ∧ (∀ (i : Nat) (a : Key), i < u → tab[i]? = some a → lt a k) ∧
    (∀ (i : Nat) (a : Key), u ≤ i → tab[i]? = some a → lt k a)

def Spec (tab : List Key) (k : Key) : Found → Prop
  | .at_ i => tab[i]? = some k
  | .missing u => Gap tab k u

/-- **bisection invariant**: from any state with everything left of `l`
    smaller and everything from `u` on larger, the loop ends with a correct answer -/
theorem bisect_inv (tab : List Key) (k : Key) (hs : Sorted tab) :
    ∀ (fuel l u : Nat), u - l < fuel → l ≤ u → u ≤ tab.length →
      (∀ (i : Nat) (a : Key), i < l → tab[i]? = some a → lt a k) →
      (∀ (i : Nat) (a : Key), u ≤ i → tab[i]? = some a → lt k a) →
      Spec tab k (bisect tab k fuel l u) := by
  intro fuel
  induction fuel with
  | zero => intro l u h; omega
  | succ fuel ih =>
    intro l u hf hlu hu hleft hright
    unfold bisect
    by_cases hlt : l < u
    · rw [if_pos hlt]
      have hi1 : l ≤ (l + u) / 2 := by omega
      have hi2 : (l + u) / 2 < u := by omega
      have hil : (l + u) / 2 < tab.length := by omega
      have hget : tab[(l + u) / 2]? = some tab[(l + u) / 2] := List.getElem?_eq_getElem hil
      simp only [hget]
      cases hc : strlencmp k tab[(l + u) / 2] with
      | lt =>
        simp only
        refine ih l _ (by omega) hi1 (by omega) hleft ?_
        intro i a hi ha
        by_cases hie : i = (l + u) / 2
        · subst hie; rw [hget] at ha; cases ha; exact hc
        · have := hs ((l + u) / 2) i _ a (by omega) hget ha
          exact lt_trans _ _ _ hc this
      | gt =>
        simp only
        have hck : lt tab[(l + u) / 2] k := (gt_iff_lt _ _).1 hc
        refine ih _ u (by omega) (by omega) hu ?_ hright
        intro i a hi ha
        by_cases hie : i = (l + u) / 2
        · subst hie; rw [hget] at ha; cases ha; exact hck
        · have := hs i ((l + u) / 2) a _ (by omega) ha hget
          exact lt_trans _ _ _ this hck
      | eq =>
        simp only
        have := (strlencmp_eq_iff _ _).1 hc
        show tab[(l + u) / 2]? = some k
        rw [hget, this]
    · rw [if_neg hlt]
      have : l = u := by omega
      subst this
      exact ⟨hu, hleft, hright⟩

/-- **look-up is correct** on every sorted table -/
theorem find_spec (tab : List Key) (k : Key) (hs : Sorted tab) : Spec tab k (find tab k) := by
  unfold find
  exact bisect_inv tab k hs _ 0 tab.length (by omega) (by omega) (Nat.le_refl _)
    (fun i a h => by omega)
    (fun i a h ha => by
      have : tab[i]? = none := List.getElem?_eq_none (by omega)
      rw [this] at ha; cases ha)

/-- a name that is in a sorted table is found (at its index); one that is reported missing is not there -/
theorem find_complete (tab : List Key) (k : Key) (hs : Sorted tab) (i : Nat) (hi : tab[i]? = some k) :
    find tab k = .at_ i := by
  have h := find_spec tab k hs
  cases hf : find tab k with
  | at_ j =>
    rw [hf] at h
    by_cases hij : i = j
    · rw [hij]
    · exfalso
      by_cases hlt : i < j
      · exact sorted_nodup tab hs i j k hlt hi h
      · exact sorted_nodup tab hs j i k (by omega) h hi
  | missing u =>
    rw [hf] at h
    obtain ⟨_, hl, hr⟩ := h
    exfalso
    by_cases hiu : i < u
    · exact lt_irrefl k (hl i k hiu hi)
    · exact lt_irrefl k (hr i k (by omega) hi)

/-! ### adding and deleting -/

theorem insertAt_get (tab : List Key) (u : Nat) (k : Key) (hu : u ≤ tab.length) (i : Nat) :
    (insertAt tab u k)[i]? = if i < u then tab[i]? else if i = u then some k else tab[i - 1]? := by
  unfold insertAt
  by_cases h1 : i < u
  · rw [if_pos h1, List.getElem?_append_left (by simp; omega), List.getElem?_take_of_lt h1]
  · rw [if_neg h1, List.getElem?_append_right (by simp; omega)]
    have hl : (tab.take u).length = u := by simp; omega
    rw [hl]
    by_cases h2 : i = u
    · subst h2; simp
    · rw [if_neg h2]
      obtain ⟨m, hm⟩ : ∃ m, i - u = m + 1 := ⟨i - u - 1, by omega⟩
      rw [hm, List.getElem?_cons_succ, List.getElem?_drop]
      congr 1; omega

theorem insert_sorted (tab : List Key) (k : Key) (u : Nat) (hs : Sorted tab) (hg : Gap tab k u) :
    Sorted (insertAt tab u k) := by
  obtain ⟨hu, hl, hr⟩ := hg
  intro i j a b hij ha hb
  rw [insertAt_get tab u k hu] at ha hb
  by_cases hiu : i < u
  · rw [if_pos hiu] at ha
    by_cases hju : j < u
    · rw [if_pos hju] at hb; exact hs i j a b hij ha hb
    · rw [if_neg hju] at hb
      by_cases hje : j = u
      · rw [if_pos hje] at hb; cases hb; exact hl i a hiu ha
      · rw [if_neg hje] at hb
        exact lt_trans _ _ _ (hl i a hiu ha) (hr (j - 1) b (by omega) hb)
  · rw [if_neg hiu] at ha
    have hju : ¬ j < u := by omega
    have hje : ¬ j = u := by omega
    rw [if_neg hju, if_neg hje] at hb
    by_cases hie : i = u
    · rw [if_pos hie] at ha; cases ha; exact hr (j - 1) b (by omega) hb
    · rw [if_neg hie] at ha
      exact hs (i - 1) (j - 1) a b (by omega) ha hb

/-- **add** keeps the table sorted (so all names stay unique) -/
theorem add_sorted (tab : List Key) (k : Key) (hs : Sorted tab) : Sorted (add tab k).1 := by
  unfold add
  have h := find_spec tab k hs
  cases hf : find tab k with
  | at_ i => exact hs
  | missing u => rw [hf] at h; exact insert_sorted tab k u hs h

/-- **add** adds exactly that name; a name already present is refused and nothing changes -/
theorem add_mem (tab : List Key) (k x : Key) (hs : Sorted tab) :
    (x ∈ (add tab k).1 ↔ x ∈ tab ∨ x = k) ∧ ((add tab k).2 = false ↔ k ∈ tab) := by
  unfold add
  have h := find_spec tab k hs
  cases hf : find tab k with
  | at_ i =>
    rw [hf] at h
    have hk : k ∈ tab := List.mem_of_getElem? h
    simp only [true_iff]
    refine ⟨⟨fun hx => Or.inl hx, fun hx => ?_⟩, hk⟩
    rcases hx with hx | hx
    · exact hx
    · rw [hx]; exact hk
  | missing u =>
    rw [hf] at h
    obtain ⟨hu, hl, hr⟩ := h
    have hk : k ∉ tab := by
      intro hm
      obtain ⟨i, hi⟩ := List.getElem?_of_mem hm
      by_cases hiu : i < u
      · exact lt_irrefl k (hl i k hiu hi)
      · exact lt_irrefl k (hr i k (by omega) hi)
    simp only [Bool.true_eq_false, false_iff]
    refine ⟨?_, hk⟩
    unfold insertAt
    rw [List.mem_append, List.mem_cons]
    constructor
    · rintro (hx | hx | hx)
      · exact Or.inl (List.mem_of_mem_take hx)
      · exact Or.inr hx
      · exact Or.inl (List.mem_of_mem_drop hx)
    · rintro (hx | hx)
      · have := List.take_append_drop u tab
        rw [← this, List.mem_append] at hx
        rcases hx with hx | hx
        · exact Or.inl hx
        · exact Or.inr (Or.inr hx)
      · exact Or.inr (Or.inl hx)

theorem eraseIdx_get (tab : List Key) (i j : Nat) :
    (tab.eraseIdx i)[j]? = if j < i then tab[j]? else tab[j + 1]? := by
  rw [List.getElem?_eraseIdx]

/-- **delete** keeps the table sorted -/
theorem delete_sorted (tab : List Key) (k : Key) (hs : Sorted tab) : Sorted (delete tab k).1 := by
  unfold delete
  cases hf : find tab k with
  | missing u => exact hs
  | at_ i =>
    intro p q a b hpq ha hb
    rw [eraseIdx_get] at ha hb
    by_cases hp : p < i
    · rw [if_pos hp] at ha
      by_cases hq : q < i
      · rw [if_pos hq] at hb; exact hs p q a b hpq ha hb
      · rw [if_neg hq] at hb; exact hs p (q + 1) a b (by omega) ha hb
    · rw [if_neg hp] at ha
      rw [if_neg (by omega)] at hb
      exact hs (p + 1) (q + 1) a b (by omega) ha hb

inductive Op where
  | add (k : Key)
  | del (k : Key)

def step (tab : List Key) : Op → List Key
  | .add k => (add tab k).1
  | .del k => (delete tab k).1

/-- **every reachable table is sorted**: after any sequence of adds and deletes
    (successful or refused) starting from a sorted table — in particular from
    the empty one — names are unique and each is found by the bisection -/
theorem ops_sorted (ops : List Op) (tab : List Key) (hs : Sorted tab) : Sorted (ops.foldl step tab) := by
  induction ops generalizing tab with
  | nil => exact hs
  | cons op rest ih =>
    apply ih
    cases op with
    | add k => exact add_sorted tab k hs
    | del k => exact delete_sorted tab k hs

theorem empty_sorted : Sorted [] := by
  intro i j a b _ ha; simp at ha

/-! ### re-sorting after `gd_alter_affixes` / `gd_fragment_namespace` -/

theorem lt_total (a b : Key) (hne : a ≠ b) : lt a b ∨ lt b a := by
  unfold lt
  cases h : strlencmp a b with
  | lt => exact Or.inl rfl
  | eq => exact absurd ((strlencmp_eq_iff a b).1 h) hne
  | gt => exact Or.inr ((gt_iff_lt a b).1 h)

theorem ins_mem (k x : Key) : ∀ (l : List Key), x ∈ ins k l ↔ x = k ∨ x ∈ l
  | [] => by simp [ins]
  | y :: ys => by
    unfold ins
    split
    · simp
    · simp [ins_mem k x ys]
      constructor
      · rintro (h | h | h)
        · exact Or.inr (Or.inl h)
        · exact Or.inl h
        · exact Or.inr (Or.inr h)
      · rintro (h | h | h)
        · exact Or.inr (Or.inl h)
        · exact Or.inl h
        · exact Or.inr (Or.inr h)

theorem ins_pairwise (k : Key) : ∀ (l : List Key), l.Pairwise lt → (∀ x ∈ l, x ≠ k) → (ins k l).Pairwise lt
  | [], _, _ => by simp [ins]
  | y :: ys, hp, hne => by
    have hp' := List.pairwise_cons.1 hp
    unfold ins
    split
    · rename_i hlt
      refine List.pairwise_cons.2 ⟨?_, hp⟩
      intro z hz
      rcases List.mem_cons.1 hz with rfl | hz
      · exact hlt
      · exact lt_trans k y z hlt (hp'.1 z hz)
    · rename_i hnlt
      have hyk : lt y k := by
        rcases lt_total y k (hne y (List.mem_cons_self)) with h | h
        · exact h
        · exact absurd h hnlt
      refine List.pairwise_cons.2 ⟨?_, ins_pairwise k ys hp'.2 (fun x hx => hne x (List.mem_cons_of_mem _ hx))⟩
      intro z hz
      rcases (ins_mem k z ys).1 hz with rfl | hz
      · exact hyk
      · exact hp'.1 z hz

theorem resort_mem (x : Key) : ∀ (l : List Key), x ∈ resort l ↔ x ∈ l
  | [] => by simp [resort]
  | y :: ys => by
    have ih := resort_mem x ys
    unfold resort at ih ⊢
    rw [List.foldr_cons, ins_mem, ih, List.mem_cons]

theorem resort_pairwise : ∀ (l : List Key), l.Nodup → (resort l).Pairwise lt
  | [], _ => by simp [resort]
  | y :: ys, hn => by
    have hn' := List.nodup_cons.1 hn
    have ih := resort_pairwise ys hn'.2
    unfold resort at ih ⊢
    rw [List.foldr_cons]
    refine ins_pairwise y _ ih ?_
    intro x hx hxy
    have : x ∈ ys := (resort_mem x ys).1 hx
    exact hn'.1 (hxy ▸ this)

theorem sorted_of_pairwise (l : List Key) (h : l.Pairwise lt) : Sorted l := by
  intro i j a b hij ha hb
  obtain ⟨hi, rfl⟩ := List.getElem?_eq_some_iff.1 ha
  obtain ⟨hj, rfl⟩ := List.getElem?_eq_some_iff.1 hb
  exact (List.pairwise_iff_getElem.1 h) i j hi hj hij

/-- **a change of affixes followed by the re-sort leaves a consistent table**:
    when the new names are distinct (the library checks that before it commits:
    GD_E_DUPLICATE), the table is strictly sorted again, it holds exactly the new
    names, and each of them is found by the bisection -/
theorem reaffix_sorted (tab : List Key) (f : Key → Key) (hd : (tab.map f).Nodup) :
    Sorted (reaffix tab f true) := by
  unfold reaffix
  simp only [if_true]
  exact sorted_of_pairwise _ (resort_pairwise _ hd)

theorem reaffix_mem (tab : List Key) (f : Key → Key) (x : Key) :
    x ∈ reaffix tab f true ↔ ∃ k ∈ tab, f k = x := by
  unfold reaffix
  simp only [if_true]
  rw [resort_mem]; simp

theorem reaffix_found (tab : List Key) (f : Key → Key) (hd : (tab.map f).Nodup) (k : Key) (hk : k ∈ tab) :
    ∃ i, find (reaffix tab f true) (f k) = .at_ i := by
  have hm : f k ∈ reaffix tab f true := (reaffix_mem tab f (f k)).2 ⟨k, hk, rfl⟩
  obtain ⟨i, hi⟩ := List.getElem?_of_mem hm
  exact ⟨i, find_complete _ _ (reaffix_sorted tab f hd) i hi⟩

/-- and the re-sort is needed even when no name changes its length: `Ax1 → Zx1`
    next to the untouched name `Mid` (same length, between the two) leaves a table
    in which the bisection no longer finds a listed name -/
example :
    let tab : List Key := [[65, 120, 49], [77, 105, 100]]               -- "Ax1", "Mid"  (sorted)
    let f : Key → Key := fun k => if k = [65, 120, 49] then [90, 120, 49] else k   -- "Ax1" ↦ "Zx1"
    find (reaffix tab f false) [90, 120, 49] = .missing 2 ∧
    find (reaffix tab f true) [90, 120, 49] = .at_ 1 ∧ find (reaffix tab f true) [77, 105, 100] = .at_ 0 := by decide

/-- the tie to src/fragment.c: X8 reads `_GD_UpdateAffixes` and reports whether every
    replaced code sets `resort` unconditionally, whether the `qsort` with
    `_GD_EntryCmp` follows, and whether `_GD_EntryCmp` is `_GD_strlencmp` on the two names -/
theorem resort_in_source_is_unconditional :
    Generated.resortFacts.everyReplacedCodeSetsResort = true ∧
    Generated.resortFacts.qsortWithEntryCmpFollows = true ∧
    Generated.resortFacts.entryCmpIsStrlencmp = true := by decide

/-! ### non-vacuity -/
example : (add (add (add [] [98, 98]).1 [97]).1 [97, 99]).1 = [[97], [97, 99], [98, 98]] := by decide
example : find [[97], [97, 99], [98, 98]] [98, 98] = .at_ 2 := by decide
example : find [[97], [97, 99], [98, 98]] [97, 100] = .missing 2 := by decide
example : (delete [[97], [97, 99], [98, 98]] [97, 99]).1 = [[97], [98, 98]] := by decide

end GdModel.Props.C15
