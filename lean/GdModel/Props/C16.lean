/-
  Property C16 — reported extents agree with what can be read.

  * `read_count_eq_min_eof` : for every field tree and aligned window from a
    sample s ≥ 0, the reader returns exactly min(n, max(0, gd_eof − s)) samples,
    where gd_eof = max 0 (pointwise end-of-field).
  * `eof_is_tight` : a field has a value at k exactly when k is below its
    end-of-field (all trees, all k ∈ ℤ) — nothing at or beyond it, nothing
    missing below it.
  * `bof_characterisation`, `sample_at_bof_is_data`, `below_bof_is_padding` :
    the beginning-of-field is the first sample computed from stored data.
  * `bof_impl_eq_spec_partial` : `_GD_GetBOF` computes it for fields without
    PHASE; `bof_floor_counterexample` : with a PHASE under a rate change the
    sub-frame offset is rounded down and gd_bof points at a padding sample
    (known finding 5.23).
  * `eof_impl_eq_spec_partial`, `eof_clamp_counterexample` (Props/C01) : gd_eof.
  * `nframes_spec` : complete frames of the reference field plus its frame offset.
-/
import GdModel.Field.ExtentsLemmas
import GdModel.Props.C01

namespace GdModel.Props.C16
open GdModel.Field

variable {α : Type}

/-- what `gd_eof` reports for a field whose pointwise end is `e` -/
def gdEof (e : Int) : Int := max 0 e

theorem read_count_eq_min_eof (junk : α) (f : Fld α) (hwf : f.WF = true) (s : Int) (n : Nat)
    (hs : 0 ≤ s) (hal : Aligned f s = true) (e : Int) (he : Spec.eof f = some e) :
    (Impl.read junk f s n).length = min n (max 0 (gdEof e - s)).toNat := by
  rw [(read_spec junk f hwf s n hal).1, he]
  unfold count gdEof; simp only; omega

/-- fields that depend only on INDEX have no end: the read returns all n samples -/
theorem read_count_unbounded (junk : α) (f : Fld α) (hwf : f.WF = true) (s : Int) (n : Nat)
    (hal : Aligned f s = true) (he : Spec.eof f = none) :
    (Impl.read junk f s n).length = n := by
  rw [(read_spec junk f hwf s n hal).1, he]; rfl

theorem eof_is_tight (f : Fld α) (hwf : f.WF = true) (k : Int) :
    (Spec.sample f k).isSome = Spec.below (Spec.eof f) k :=
  sample_isSome_iff f hwf k

theorem nothing_at_or_beyond_eof (f : Fld α) (hwf : f.WF = true) (e k : Int)
    (he : Spec.eof f = some e) (hk : e ≤ k) : Spec.sample f k = none := by
  have := sample_isSome_iff f hwf k
  rw [he] at this
  simp only [Spec.below] at this
  cases h : Spec.sample f k with
  | none => rfl
  | some v => rw [h] at this; simp at this; omega

theorem nothing_missing_below_eof (f : Fld α) (hwf : f.WF = true) (e k : Int)
    (he : Spec.eof f = some e) (hk : k < e) : ∃ v, Spec.sample f k = some v := by
  have := sample_isSome_iff f hwf k
  rw [he] at this
  simp only [Spec.below] at this
  cases h : Spec.sample f k with
  | none => rw [h] at this; simp at this; omega
  | some v => exact ⟨v, rfl⟩

theorem bof_characterisation (f : Fld α) (hwf : f.WF = true) (k : Int) :
    Spec.isData f k = true ↔ Spec.bofU f ≤ k := isData_iff f hwf k

theorem sample_at_bof_is_data (f : Fld α) (hwf : f.WF = true) : Spec.isData f (Spec.bof f) = true := by
  rw [isData_iff f hwf]; unfold Spec.bof; omega

theorem below_bof_is_padding (f : Fld α) (hwf : f.WF = true) (k : Int) (h0 : 0 ≤ k) (hk : k < Spec.bof f) :
    Spec.isData f k = false := by
  cases h : Spec.isData f k with
  | false => rfl
  | true =>
    have := (isData_iff f hwf k).mp h
    unfold Spec.bof at hk; omega

/-! ### `_GD_GetBOF` against the pointwise beginning-of-field -/

/-- no PHASE anywhere, RAW offsets are whole frames (as `/FRAMEOFFSET` gives) -/
def NoPhase : Fld α → Bool
  | .raw spf off _ _ => decide (off % spf = 0)
  | .index _ => true
  | .map1 _ x => NoPhase x
  | .phase _ _ => false
  | .map2 _ a b => NoPhase a && NoPhase b
  | .map3 _ a b c => NoPhase a && NoPhase b && NoPhase c

theorem scaleUp_exact (F : Int) (r1 r2 : Nat) (h2 : 0 < r2) :
    Spec.scaleUp (F * r2) r1 r2 = F * r1 := by
  unfold Spec.scaleUp
  have hr2 : (r2 : Int) ≠ 0 := by omega
  have : -(F * (r2 : Int) * (r1 : Int)) = (-(F * r1)) * r2 := by
    rw [Int.neg_mul, Int.mul_assoc, Int.mul_comm (r2 : Int), ← Int.mul_assoc]
  rw [this, Int.mul_ediv_cancel _ hr2]; omega

theorem later_frames (F0 F1 : Int) (r0 r1 : Nat) :
    Impl.later ⟨F1, 0, r1⟩ ⟨F0, 0, r0⟩ = decide (F1 > F0) := by
  simp [Impl.later]

theorem max_mul_nat (a b : Int) (r : Nat) : max (a * r) (b * r) = max a b * r := by
  have hr : (0 : Int) ≤ r := by omega
  rcases Int.le_total a b with h | h
  · rw [Int.max_eq_right h, Int.max_eq_right (Int.mul_le_mul_of_nonneg_right h hr)]
  · rw [Int.max_eq_left h, Int.max_eq_left (Int.mul_le_mul_of_nonneg_right h hr)]

theorem bofT_noPhase : ∀ (f : Fld α), f.WF = true → NoPhase f = true →
    ∃ F : Int, 0 ≤ F ∧ Impl.bofT f = ⟨F, 0, f.spf⟩ ∧ Spec.bofU f = F * f.spf
  | .raw spf off _ _, hwf, hn => by
      simp only [Fld.WF, decide_eq_true_eq] at hwf
      simp only [NoPhase, decide_eq_true_eq] at hn
      refine ⟨(off / spf : Nat), Int.natCast_nonneg _, rfl, ?_⟩
      simp only [Spec.bofU, Fld.spf]
      have := Nat.div_mul_cancel (Nat.dvd_of_mod_eq_zero hn)
      exact_mod_cast this.symm
  | .index _, _, _ => ⟨0, by omega, rfl, by simp [Spec.bofU, Fld.spf]⟩
  | .map1 _ x, hwf, hn => by
      obtain ⟨F, h0, h1, h2⟩ := bofT_noPhase x (by simpa [Fld.WF] using hwf) (by simpa [NoPhase] using hn)
      exact ⟨F, h0, h1, h2⟩
  | .phase _ _, _, hn => by simp [NoPhase] at hn
  | .map2 _ a b, hwf, hn => by
      simp only [Fld.WF, Bool.and_eq_true] at hwf
      simp only [NoPhase, Bool.and_eq_true] at hn
      obtain ⟨Fa, ha0, ha1, ha2⟩ := bofT_noPhase a hwf.1 hn.1
      obtain ⟨Fb, hb0, hb1, hb2⟩ := bofT_noPhase b hwf.2 hn.2
      have h2 := Fld.spf_pos b hwf.2
      refine ⟨max Fa Fb, by omega, ?_, ?_⟩
      · simp only [Impl.bofT, ha1, hb1, later_frames, Fld.spf]
        by_cases h : Fb > Fa
        · simp only [h, decide_true, if_true, Int.zero_mul, Int.zero_ediv]
          congr 1; omega
        · simp only [h, decide_false, Bool.false_eq_true, if_false]
          congr 1; omega
      · simp only [Spec.bofU, Fld.spf, ha2, hb2, scaleUp_exact Fb a.spf b.spf h2, max_mul_nat]
  | .map3 _ a b c, hwf, hn => by
      simp only [Fld.WF, Bool.and_eq_true] at hwf
      simp only [NoPhase, Bool.and_eq_true] at hn
      obtain ⟨Fa, ha0, ha1, ha2⟩ := bofT_noPhase a hwf.1.1 hn.1.1
      obtain ⟨Fb, hb0, hb1, hb2⟩ := bofT_noPhase b hwf.1.2 hn.1.2
      obtain ⟨Fc, hc0, hc1, hc2⟩ := bofT_noPhase c hwf.2 hn.2
      have h2 := Fld.spf_pos b hwf.1.2
      have h3 := Fld.spf_pos c hwf.2
      refine ⟨max (max Fa Fb) Fc, by omega, ?_, ?_⟩
      · simp only [Impl.bofT, ha1, hb1, hc1, later_frames, Fld.spf]
        by_cases h : Fb > Fa
        · simp only [h, decide_true, if_true, Int.zero_mul, Int.zero_ediv, later_frames]
          by_cases h' : Fc > Fb
          · simp only [h', decide_true, if_true]
            congr 1; omega
          · simp only [h', decide_false, Bool.false_eq_true, if_false]
            congr 1; omega
        · simp only [h, decide_false, Bool.false_eq_true, if_false, later_frames]
          by_cases h' : Fc > Fa
          · simp only [h', decide_true, if_true, Int.zero_mul, Int.zero_ediv]
            congr 1; omega
          · simp only [h', decide_false, Bool.false_eq_true, if_false]
            congr 1; omega
      · simp only [Spec.bofU, Fld.spf, ha2, hb2, hc2, scaleUp_exact Fb a.spf b.spf h2,
          scaleUp_exact Fc a.spf c.spf h3, max_mul_nat]

/-- `gd_bof` is the pointwise beginning-of-field for every field without PHASE. -/
theorem bof_impl_eq_spec_partial (f : Fld α) (hwf : f.WF = true) (hn : NoPhase f = true) :
    Impl.bof f = Spec.bof f := by
  obtain ⟨F, h0, h1, h2⟩ := bofT_noPhase f hwf hn
  unfold Impl.bof Spec.bof
  rw [h1, h2]
  have : (0 : Int) ≤ F * f.spf := Int.mul_nonneg h0 (by omega)
  simp only; omega

/-- a RAW 2/frame; b RAW 3/frame shifted right by one sample; m combines them.
    Sample 0 of m uses b's sample ⌊0·3/2⌋ = 0, which is padding: the field
    begins at 1, but `_GD_GetBOF` rounds b's sub-frame offset 1/3 down to 0/2. -/
def exA : Fld Nat := .raw 2 0 0 [1, 2, 3, 4]
def exB : Fld Nat := .phase (-1) (.raw 3 0 0 [5, 6, 7, 8, 9, 10])
def exM : Fld Nat := .map2 (· + ·) exA exB
theorem bof_floor_counterexample :
    Impl.bof exM = 0 ∧ Spec.bof exM = 1 ∧ Spec.isData exM 0 = false := by decide

/-- `gd_nframes`: complete frames of the reference RAW field plus the frame offset;
    a partial trailing frame is not counted, and appending a sample never lowers it. -/
theorem nframes_spec (spf foff nsamples : Nat) :
    Spec.nframes spf foff nsamples = nsamples / spf + foff := rfl

theorem nframes_monotone (spf foff n m : Nat) (h : n ≤ m) :
    Spec.nframes spf foff n ≤ Spec.nframes spf foff m := by
  unfold Spec.nframes
  have := Nat.div_le_div_right (c := spf) h
  omega

/-- every frame below `nframes` is complete in the reference field -/
theorem frames_below_nframes_complete (spf foff nsamples k : Nat) (_hspf : 0 < spf)
    (hk : k < Spec.nframes spf foff nsamples) (hk0 : foff ≤ k) :
    (k - foff + 1) * spf ≤ nsamples := by
  unfold Spec.nframes at hk
  have h1 : k - foff + 1 ≤ nsamples / spf := by omega
  have := Nat.mul_le_mul_right spf h1
  have h2 := Nat.div_mul_le_self nsamples spf
  omega

/-- non-vacuity: the example of C01 with a 3:2 rate pair, PHASE and frame offsets -/
example : (Impl.read 0 GdModel.Props.C01.exT 6 100).length
    = min 100 (max 0 (gdEof 14 - 6)).toNat ∧ Spec.eof GdModel.Props.C01.exT = some 14 := by decide

end GdModel.Props.C16
