/-
  Property C17 — sequential access with I/O pointers equals random access.

  Model: GdModel.Field.IOPos (pointer state = position of every RAW field;
  `tell`, `seek`, `afterRead` transcribed from src/iopos.c and the read path).
  For single-input chains (RAW, one-input fields, PHASE), ALL states:

  * `tell_seek` : a successful gd_seek to p establishes exactly p (gd_tell
    reports p) — whatever the PHASE shifts, because `_GD_Seek` and
    `_GD_GetIOPos` use the same sign convention;
  * `tell_after_read` : after reading n samples at s (window inside the
    field) gd_tell reports s + n + 2·Σshift.  With no PHASE in the chain this
    is the property's s + n (`tell_after_read_no_phase`); with a PHASE it is
    NOT (`tell_after_read_phase_counterexample`): the read path shifts the
    other way (known finding 5.30; test/seek_phase.c pins the seek convention);
  * `seek_negative_refused` : negative positions are GD_E_RANGE at every level;
  * `multipos_detected` : a two-input field whose inputs disagree on position
    reports GD_E_DOMAIN, it never guesses;
  * `here_read_is_absolute_at_tell` : a GD_HERE read is by construction the
    absolute read at the reported position.
-/
import GdModel.Field.IOPos

namespace GdModel.Props.C17
open GdModel.Field

theorem set_get (st : Pos) (id : Nat) (v : Int) : (st.set id v) id = v := by
  simp [Pos.set]

/-- for a chain, `tell` is the RAW position plus the total shift -/
theorem tell_chain : ∀ (f : PF), Chain f = true → ∀ (st : Pos), ∃ id, (∀ st' : Pos, tell f st' = .ok (st' id + shiftSum f)) ∧ True
  | .raw id _, _, _ => ⟨id, fun st' => by simp [tell, shiftSum], trivial⟩
  | .map1 x, h, st => by
      obtain ⟨id, h1, _⟩ := tell_chain x (by simpa [Chain] using h) st
      exact ⟨id, fun st' => by simpa [tell, shiftSum] using h1 st', trivial⟩
  | .map2 _ _, h, _ => by simp [Chain] at h
  | .phase sh x, h, st => by
      obtain ⟨id, h1, _⟩ := tell_chain x (by simpa [Chain] using h) st
      refine ⟨id, fun st' => ?_, trivial⟩
      simp only [tell, h1 st', shiftSum]
      congr 1; omega

/-- **gd_seek establishes exactly the requested position** (chains, any shifts). -/
theorem tell_seek : ∀ (f : PF), Chain f = true → ∀ (p : Int) (st st' : Pos),
    seek f p st = .ok st' → tell f st' = .ok p
  | .raw id _, _, p, st, st', h => by
      simp only [seek] at h
      split at h
      · cases h
      · injection h with h; subst h; simp [tell, Pos.set]
  | .map1 x, hc, p, st, st', h => by
      simp only [seek] at h
      split at h
      · cases h
      · simpa [tell] using tell_seek x (by simpa [Chain] using hc) p st st' h
  | .map2 _ _, hc, _, _, _, _ => by simp [Chain] at hc
  | .phase sh x, hc, p, st, st', h => by
      simp only [seek] at h
      split at h
      · cases h
      · have := tell_seek x (by simpa [Chain] using hc) (p - sh) st st' h
        simp only [tell, this]
        congr 1; omega

theorem seek_negative_refused (f : PF) (p : Int) (st : Pos) (hp : p < 0) : seek f p st = .error .range := by
  cases f <;> simp [seek, hp]

/-- where a read leaves the pointer of a chain whose window lies inside the field -/
theorem tell_after_read : ∀ (f : PF), Chain f = true → ∀ (s : Int) (n : Nat) (st : Pos),
    0 ≤ s + shiftSum f → s + n ≤ chainEof f →
    tell f (afterRead f s n st) = .ok (s + n + 2 * shiftSum f)
  | .raw id e, _, s, n, st, h0, he => by
      simp only [shiftSum, chainEof] at h0 he
      simp only [tell, afterRead, Pos.set, if_true, shiftSum]
      congr 1; omega
  | .map1 x, hc, s, n, st, h0, he => by
      simpa [tell, afterRead, shiftSum] using
        tell_after_read x (by simpa [Chain] using hc) s n st (by simpa [shiftSum] using h0)
          (by simpa [chainEof] using he)
  | .map2 _ _, hc, _, _, _, _, _ => by simp [Chain] at hc
  | .phase sh x, hc, s, n, st, h0, he => by
      simp only [shiftSum, chainEof] at h0 he
      have := tell_after_read x (by simpa [Chain] using hc) (s + sh) n st (by omega) (by omega)
      simp only [tell, afterRead, this, shiftSum]
      congr 1; omega

/-- the property's claim, for chains without PHASE (or whose shifts cancel) -/
theorem tell_after_read_no_phase (f : PF) (hc : Chain f = true) (h0 : shiftSum f = 0)
    (s : Int) (n : Nat) (st : Pos) (hs : 0 ≤ s) (he : s + n ≤ chainEof f) :
    tell f (afterRead f s n st) = .ok (s + n) := by
  have := tell_after_read f hc s n st (by omega) he
  rw [this, h0]; congr 1; omega

/-- `p PHASE data 3`, data has 100 samples: reading 5 samples at 10 leaves
    gd_tell(p) at 21, not 15. -/
theorem tell_after_read_phase_counterexample :
    tell (.phase 3 (.raw 0 100)) (afterRead (.phase 3 (.raw 0 100)) 10 5 (fun _ => 0)) = .ok 21 := by
  simp only [tell, afterRead, Pos.set, if_true]
  congr 1

/-- a field whose inputs disagree on position reports GD_E_DOMAIN -/
theorem multipos_detected (a b : PF) (st : Pos) (pa pb : Int)
    (ha : tell a st = .ok pa) (hb : tell b st = .ok pb) (hne : pa ≠ pb) :
    tell (.map2 a b) st = .error .domain := by
  simp [tell, ha, hb, hne]

/-- and when they agree it reports their common position -/
theorem multipos_agree (a b : PF) (st : Pos) (p : Int)
    (ha : tell a st = .ok p) (hb : tell b st = .ok p) : tell (.map2 a b) st = .ok p := by
  simp [tell, ha, hb]

/-- a GD_HERE transfer is the absolute transfer at the position gd_tell reports
    (`_GD_DoField` substitutes `_GD_GetIOPos` for the start and proceeds as for
    an absolute call), so seek-then-GD_HERE equals the absolute call. -/
theorem here_read_is_absolute_at_tell (f : PF) (hc : Chain f = true) (p : Int) (n : Nat) (st st' : Pos)
    (h : seek f p st = .ok st') :
    (match tell f st' with | .ok q => afterRead f q n st' | .error _ => st') = afterRead f p n st' := by
  rw [tell_seek f hc p st st' h]

/-- non-vacuity: a chain with two PHASEs and a one-input field -/
example : Chain (.phase 2 (.map1 (.phase (-2) (.raw 7 50)))) = true ∧
    shiftSum (.phase 2 (.map1 (.phase (-2) (.raw 7 50)))) = 0 := by decide

end GdModel.Props.C17
