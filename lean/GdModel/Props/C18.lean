/-
  Property C18 — a dirfile being appended to can be read concurrently and consistently.

  What a reader computes from the bytes it finds (src/raw.c `_GD_RawSize`,
  src/nframes.c): the file holds ⌊bytes / GD_SIZE⌋ whole samples, the dirfile
  has  frame_offset + ⌊samples / spf⌋  frames, and a read returns the samples
  decoded from the whole-sample prefix.  A writer only ever appends bytes to
  an in-place file (unencoded, text, sie) or publishes a complete longer file
  by rename (gzip, bzip2, lzma: the C12/C14 protocol).  Proved for every
  content, every way the appended bytes are cut into writes, every moment:

  * `nframes_mono`       if the file a reader sees later is an extension of the file
                         it saw earlier, gd_nframes does not decrease;
  * `partial_invisible`  bytes of an incomplete trailing sample change neither the
                         frame count nor any sample returned;
  * `reader_sees_writer` at any moment during an append, every sample the reader
                         can get is exactly the sample the writer wrote at that position
                         (decoding the prefix of the writer's byte stream);
  * `replace_mono`       with publication by rename the reader sees the old or the new
                         complete file, and the new one extends the old: same conclusion.
-/
import GdModel.Props.C04
import GdModel.Props.C12
namespace GdModel.Props.C18
open GdModel.Num GdModel.Bytes GdModel.Codec.Disk GdModel.Props.C04

/-- gd_nframes of the reference field from the bytes of its data file -/
def nframes (ty : Ty) (spf foff : Nat) (bytes : List Nat) : Nat := foff + (bytes.length / ty.size) / spf

theorem nframes_mono (ty : Ty) (spf foff : Nat) (b1 ext : List Nat) :
    nframes ty spf foff b1 ≤ nframes ty spf foff (b1 ++ ext) := by
  unfold nframes
  rw [List.length_append]
  apply Nat.add_le_add_left
  apply Nat.div_le_div_right
  apply Nat.div_le_div_right
  omega

/-- an incomplete trailing sample is invisible to the frame count -/
theorem partial_invisible_count (ty : Ty) (spf foff : Nat) (o : Order) (xs : List Sample) (tail : List Nat)
    (ht : tail.length < ty.size) :
    nframes ty spf foff (encodeSamples o ty xs ++ tail) = nframes ty spf foff (encodeSamples o ty xs) := by
  unfold nframes
  rw [List.length_append, bare_length]
  have hs := size_pos ty
  congr 2
  rw [Nat.mul_comm, Nat.mul_add_div hs, Nat.div_eq_of_lt ht, Nat.add_zero, Nat.mul_div_cancel_left _ hs]

/-- … and to the data: the reader decodes exactly the complete samples -/
theorem partial_invisible (o : Order) (ty : Ty) (xs : List Sample) (tail : List Nat)
    (hx : ∀ x ∈ xs, Fits ty x) (ht : tail.length < ty.size) :
    decodeSamples o ty (encodeSamples o ty xs ++ tail) = xs :=
  bare_roundtrip o ty xs tail hx ht

/-- **what the reader sees is what the writer wrote**: the writer has written the
    samples `done`, and is in the middle of writing sample `next` (only `cut`
    of its bytes are in the file yet): the reader gets exactly `done`. -/
theorem reader_sees_writer (o : Order) (ty : Ty) (done : List Sample) (next : Sample) (cut : Nat)
    (hx : ∀ x ∈ done, Fits ty x) (hc : cut < ty.size) :
    decodeSamples o ty (encodeSamples o ty done ++ (encodeSample o ty next).take cut) = done := by
  apply bare_roundtrip o ty done _ hx
  rw [List.length_take]
  omega

/-- the same through the writer's whole history: after any number of completed
    appends the reader's samples are a prefix of the final data -/
theorem reader_prefix (o : Order) (ty : Ty) (a b : List Sample)
    (hx : ∀ x ∈ a ++ b, Fits ty x) :
    decodeSamples o ty (encodeSamples o ty a) = (decodeSamples o ty (encodeSamples o ty (a ++ b))).take a.length := by
  have h1 := bare_roundtrip o ty a [] (fun x h => hx x (List.mem_append_left _ h)) (size_pos ty)
  have h2 := bare_roundtrip o ty (a ++ b) [] hx (size_pos ty)
  simp only [List.append_nil] at h1 h2
  rw [h1, h2, List.take_left']
  rfl

/-- publication by rename (gzip, bzip2, lzma): at every kill / observation point the
    reader finds the old complete file or the new complete file; when the new
    payload extends the old one the frame count cannot go down -/
theorem replace_mono (ty : Ty) (spf foff : Nat) (fs : GdModel.Replace.FS) (tmp target : String)
    (old ext : List Nat) (chunks : List (List Nat)) (k : Nat)
    (hne : target ≠ tmp) (hold : fs.read target = some old) (hnew : chunks.flatten = old ++ ext) :
    ∃ seen, (GdModel.Replace.crashAt fs tmp target chunks k).read target = some seen ∧
      nframes ty spf foff old ≤ nframes ty spf foff seen ∧ (seen = old ∨ seen = old ++ ext) := by
  have h := GdModel.Props.C12.crash_old_or_new fs tmp target chunks k hne
  by_cases hk : k < chunks.length + 4
  · rw [if_pos hk] at h
    exact ⟨old, by rw [h, hold], Nat.le_refl _, Or.inl rfl⟩
  · rw [if_neg hk] at h
    exact ⟨old ++ ext, by rw [h, hnew], nframes_mono ty spf foff old ext, Or.inr rfl⟩

/-! ### non-vacuity -/
example : nframes .u16 2 1 [1, 0, 2, 0, 3, 0, 4] = 2 := by decide
example : decodeSamples ⟨false, false⟩ .u16 (encodeSamples ⟨false, false⟩ .u16 [⟨1, 0⟩, ⟨2, 0⟩] ++ [7]) = [⟨1, 0⟩, ⟨2, 0⟩] := by decide

end GdModel.Props.C18
