/-
  Property C19 — gd_framenum inverts any monotonic field.

  Model: GdModel.Index.Model, a transcription of `_GD_GetIndex` /
  `_GD_Extrapolate` (src/index.c).  The theorems instantiate it with exact
  integer samples (`lt` = `<`, `eq` = `=`) and prove, for EVERY field content,
  range and value — no bound on the length of the field:

  * `bisect_good`        the bisection ends (never runs out of fuel once
                         fuel ≥ high - low) either on a sample equal to the value
                         or with an adjacent bracket  data[low] ≤ v < data[low+1]
                         (reversed for a descending field) whose two values are
                         exactly the samples at low and low+1;
  * `getIndex_known_end` the whole look-up when the sample at field_end-1 exists:
                         a value inside the range gives hit / bracket, a value
                         outside gives the extrapolation from the first or last
                         two samples of the range, a range whose end points agree
                         gives GD_E_RANGE;
  * `bracket_inverts`    a bracket answer low + (v - lv)/(hv - lv) interpolates the
                         field back to v, lies in [low, low+1), and is exactly
                         `low` when v equals sample `low`;
  * `search_good`        the look-up when the end of the field is not known in
                         advance (default limits with spf ≥ 2, or an explicit end
                         past the end of field), for a strictly monotonic field
                         with at least two samples: same three outcomes, the
                         extrapolation being taken from the last two existing
                         samples; it never hangs, never divides by zero, never
                         reports an error.

  `limits_default`: the limits default to the frame offset and gd_nframes.
-/
import GdModel.Index.Model
namespace GdModel.Props.C19
open GdModel.Index

abbrev ilt (a b : Int) : Bool := decide (a < b)
abbrev ieq (a b : Int) : Bool := decide (a = b)

/-- `a` strictly before `b` in the direction of the field (dir = true: descending) -/
def ordLt (dir : Bool) (a b : Int) : Prop := if dir then b < a else a < b
def ordLe (dir : Bool) (a b : Int) : Prop := if dir then b ≤ a else a ≤ b

theorem beyond_iff (dir : Bool) (a b : Int) : beyond ilt dir a b = true ↔ ordLt dir b a := by
  cases dir <;> simp [beyond, ordLt]

theorem short_iff (dir : Bool) (a b : Int) : short ilt dir a b = true ↔ ordLt dir a b := by
  cases dir <;> simp [short, ordLt]

theorem ordLt_le (dir : Bool) (a b : Int) (h : ordLt dir a b) : ordLe dir a b := by
  cases dir <;> simp_all [ordLt, ordLe] <;> omega

theorem ord_eq (dir : Bool) (a b : Int) (h1 : ¬ ordLt dir b a) (h2 : ¬ ordLt dir a b) : a = b := by
  cases dir <;> simp_all [ordLt] <;> omega

theorem ord_absurd (dir : Bool) (a b : Int) (h1 : ordLt dir a b) (h2 : ordLe dir b a) : False := by
  cases dir <;> simp_all [ordLt, ordLe] <;> omega

theorem ord_trans_le_lt (dir : Bool) (a b c : Int) (h1 : ordLe dir a b) (h2 : ordLt dir b c) : ordLt dir a c := by
  cases dir <;> simp_all [ordLt, ordLe] <;> omega

/-- the default limits are the frame offset and gd_nframes -/
theorem limits_default (spf foff nframes : Int) (h : 2 ≤ (nframes + 1) * spf - 1 - foff * spf) :
    limits spf foff nframes 0 0 = some (foff * spf, (nframes + 1) * spf - 1) := by
  unfold limits
  simp only [if_true]
  rw [if_neg (by omega)]

/-- an empty range is refused (GD_E_DOMAIN) -/
theorem limits_empty (spf foff nframes s e : Int)
    (h : (if e = 0 then (nframes + 1) * spf - 1 else (e + 1) * spf - 1) - (if s = 0 then foff * spf else s * spf) < 2) :
    limits spf foff nframes s e = none := by
  unfold limits
  simp only
  rw [if_pos h]

/-- adjacent bracket around the value, made of the true samples -/
def Bracket (get : Int → Option Int) (value : Int) (dir : Bool) (low lv hv : Int) : Prop :=
  get low = some lv ∧ get (low + 1) = some hv ∧ ordLe dir lv value ∧ ordLt dir value hv

def GoodB (get : Int → Option Int) (value : Int) (dir : Bool) : Out Int → Prop
  | .hit c => get c = some value
  | .interp low lv hv => Bracket get value dir low lv hv
  | _ => False

/-- **Bisection** (step 2 of `_GD_GetIndex`): for any data defined on the
    range, from any state satisfying the loop invariant, the loop terminates
    within `high - low` iterations on an exact hit or an adjacent bracket. -/
theorem bisect_good (get : Int → Option Int) (value : Int) (dir : Bool) (fe : Int) :
    ∀ (fuel : Nat) (low high lowV highV : Int),
      (high - low).toNat ≤ fuel → low < high → high ≤ fe →
      (∀ i, low ≤ i → i < fe → ∃ x, get i = some x) →
      get low = some lowV → ordLe dir lowV value →
      (high < fe → get high = some highV ∧ ordLt dir value highV) →
      (high = fe → low + 1 < fe ∧ get (fe - 1) = some highV ∧ ordLe dir value highV) →
      GoodB get value dir (bisect ilt get value dir fuel low high lowV highV) := by
  intro fuel
  induction fuel with
  | zero => intro low high lowV highV hf hlt; omega
  | succ fuel ih =>
    intro low high lowV highV hf hlt hhi hdef hlow hle hin hend
    unfold bisect
    by_cases hgap : high - low > 1
    · rw [if_pos hgap]
      have hc1 : low < (high + low) / 2 := by omega
      have hc2 : (high + low) / 2 < high := by omega
      obtain ⟨cv, hcv⟩ := hdef ((high + low) / 2) (by omega) (by omega)
      simp only [hcv]
      by_cases hb : beyond ilt dir cv value = true
      · rw [if_pos hb]
        refine ih low _ lowV cv (by omega) hc1 (by omega) hdef hlow hle ?_ ?_
        · intro _; exact ⟨hcv, (beyond_iff dir cv value).1 hb⟩
        · intro h; omega
      · rw [if_neg hb]
        by_cases hs : short ilt dir cv value = true
        · rw [if_pos hs]
          have hslt := (short_iff dir cv value).1 hs
          refine ih _ high cv highV (by omega) hc2 hhi ?_ hcv (ordLt_le _ _ _ hslt) hin ?_
          · intro i hi1 hi2; exact hdef i (by omega) hi2
          · intro h
            obtain ⟨h1, h2, h3⟩ := hend h
            refine ⟨?_, h2, h3⟩
            by_cases hce : (high + low) / 2 = fe - 1
            · rw [hce] at hcv
              rw [h2] at hcv
              cases hcv
              exact absurd (ord_absurd dir _ _ hslt h3) id
            · omega
        · rw [if_neg hs]
          have : cv = value := ord_eq dir cv value
            (fun h => hb ((beyond_iff dir cv value).2 h)) (fun h => hs ((short_iff dir cv value).2 h))
          show get ((high + low) / 2) = some value
          rw [hcv, this]
    · rw [if_neg hgap]
      have hh : high = low + 1 := by omega
      show Bracket get value dir low lowV highV
      by_cases hfe : high < fe
      · obtain ⟨h1, h2⟩ := hin hfe
        exact ⟨hlow, by rw [← hh]; exact h1, hle, h2⟩
      · have : high = fe := by omega
        obtain ⟨h1, _, _⟩ := hend this
        omega

/-! ### what a bracket means: the interpolation is inverted -/

/-- A bracket answer is `low + (v - lv)/(hv - lv)`.  Stated over the integers
    without division: with num = v - lv and den = hv - lv,
    the denominator is non-zero and of the field's sign, 0 ≤ num/den < 1, the
    interpolation lv + (hv - lv) * num/den is v (cross-multiplied), and the
    fraction is 0 exactly when v is sample `low`. -/
theorem bracket_inverts (get : Int → Option Int) (value : Int) (dir : Bool) (low lv hv : Int)
    (h : Bracket get value dir low lv hv) :
    let num := value - lv
    let den := hv - lv
    den ≠ 0 ∧ (if dir then den < num ∧ num ≤ 0 else 0 ≤ num ∧ num < den) ∧
    lv * den + (hv - lv) * num = value * den ∧ (num = 0 ↔ get low = some value) := by
  obtain ⟨h1, h2, h3, h4⟩ := h
  refine ⟨?_, ?_, ?_, ?_⟩
  · cases dir <;> simp_all [ordLt, ordLe] <;> omega
  · cases dir <;> simp_all [ordLt, ordLe] <;> omega
  · have : lv * (hv - lv) + (hv - lv) * (value - lv) = (hv - lv) * (lv + (value - lv)) := by
      rw [Int.mul_add, Int.mul_comm lv]
    rw [this]
    have : lv + (value - lv) = value := by omega
    rw [this, Int.mul_comm]
  · rw [h1]
    constructor
    · intro h; congr 1; omega
    · intro h; cases h; omega

/-! ### the whole look-up, end of range known -/

def GoodExtrap (get : Int → Option Int) (value : Int) (dir : Bool) (fs fe : Int) : Out Int → Prop
  | .extrap limit false d0 d1 => limit = fs ∧ get fs = some d0 ∧ get (fs + 1) = some d1 ∧ ordLt dir value d0
  | .extrap limit true d0 d1 => limit = fe - 1 ∧ get (fe - 2) = some d0 ∧ get (fe - 1) = some d1 ∧ ordLt dir d1 value
  | _ => False

/-- **known end**: all samples of [fs, fe-1] exist.  The look-up returns
    GD_E_RANGE iff the end points agree; otherwise the direction is that of
    the end points, a value before the first / after the last sample is
    extrapolated from the first / last two samples, and a value inside gives a
    hit or an adjacent bracket.  Never a hang, never GD_E_DOMAIN. -/
theorem getIndex_known_end (get : Int → Option Int) (value : Int) (fs fe : Int) (fuel : Nat)
    (hrange : 2 ≤ fe - fs) (hfuel : (fe - fs).toNat ≤ fuel)
    (hdef : ∀ i, fs ≤ i → i < fe → ∃ x, get i = some x) :
    ∃ a b, get fs = some a ∧ get (fe - 1) = some b ∧
      (a = b → getIndex ilt ieq get value fuel fs fe = .errRange) ∧
      (a ≠ b →
        let dir := decide (b < a)
        let r := getIndex ilt ieq get value fuel fs fe
        (ordLt dir value a → GoodExtrap get value dir fs fe r) ∧
        (ordLt dir b value → GoodExtrap get value dir fs fe r) ∧
        (ordLe dir a value → ordLe dir value b → GoodB get value dir r)) := by
  obtain ⟨a, ha⟩ := hdef fs (by omega) (by omega)
  obtain ⟨b, hb⟩ := hdef (fe - 1) (by omega) (by omega)
  refine ⟨a, b, ha, hb, ?_, ?_⟩
  · intro hab
    unfold getIndex
    simp only [ha, hb]
    rw [if_pos (by simp [hab])]
  · intro hab
    have hne : ieq b a = false := by simp; exact fun h => hab h.symm
    refine ⟨?_, ?_, ?_⟩
    · intro hv
      unfold getIndex
      simp only [ha, hb, hne]
      rw [if_neg (by simp)]
      rw [if_pos ((beyond_iff _ a value).2 hv)]
      unfold extrapolate
      obtain ⟨d1, hd1⟩ := hdef (fs + 1) (by omega) (by omega)
      simp only [Bool.false_eq_true, if_false, ha, hd1]
      exact ⟨rfl, ha, hd1, hv⟩
    · intro hv
      unfold getIndex
      simp only [ha, hb, hne]
      rw [if_neg (by simp)]
      have hdir : ordLt (decide (b < a)) a b := by
        by_cases h : b < a <;> simp [ordLt, h] <;> omega
      have hnb : ¬ beyond ilt (decide (b < a)) a value = true := by
        intro h
        have := (beyond_iff _ a value).1 h
        exact ord_absurd _ _ _ (ord_trans_le_lt _ _ _ _ (ordLt_le _ _ _ this) hdir) (ordLt_le _ _ _ hv)
      rw [if_neg hnb, if_pos ((short_iff _ b value).2 hv)]
      unfold extrapolate
      obtain ⟨d0, hd0⟩ := hdef (fe - 2) (by omega) (by omega)
      have e1 : fe - 1 - 1 = fe - 2 := by omega
      have e2 : fe - 2 + 1 = fe - 1 := by omega
      simp only [if_true, e1, e2, hd0, hb]
      exact ⟨rfl, hd0, hb, hv⟩
    · intro h1 h2
      unfold getIndex
      simp only [ha, hb, hne]
      rw [if_neg (by simp)]
      have hnb : ¬ beyond ilt (decide (b < a)) a value = true := by
        intro h; exact ord_absurd _ _ _ ((beyond_iff _ a value).1 h) h1
      have hns : ¬ short ilt (decide (b < a)) b value = true := by
        intro h; exact ord_absurd _ _ _ ((short_iff _ b value).1 h) h2
      rw [if_neg hnb, if_neg hns]
      exact bisect_good get value _ fe fuel fs fe a b hfuel (by omega) (Int.le_refl _) hdef ha h1
        (fun h => absurd h (Int.lt_irrefl _)) (fun _ => ⟨by omega, hb, h2⟩)

/-! ### the whole look-up, end of field not known in advance -/

theorem ord_not_lt (dir : Bool) (a b : Int) (h : ¬ ordLt dir b a) : ordLe dir a b := by
  cases dir <;> simp_all [ordLt, ordLe]

def GoodS (get : Int → Option Int) (value : Int) (dir : Bool) (fs eof : Int) : Out Int → Prop
  | .hit c => get c = some value
  | .interp low lv hv => Bracket get value dir low lv hv
  | .extrap limit false d0 d1 => limit = fs ∧ get fs = some d0 ∧ get (fs + 1) = some d1 ∧ ordLt dir value d0
  | .extrap limit true d0 d1 => limit = eof - 1 ∧ get (eof - 2) = some d0 ∧ get (eof - 1) = some d1 ∧ ordLt dir d1 value
  | _ => False

theorem goodB_goodS (get : Int → Option Int) (value : Int) (dir : Bool) (fs eof : Int) (r : Out Int)
    (h : GoodB get value dir r) : GoodS get value dir fs eof r := by
  cases r <;> simp_all [GoodB, GoodS]

/-- the situation of the end-of-field search: samples exist exactly on
    [fs, eof), at least two of them, strictly monotonic in direction `d` -/
structure Field (get : Int → Option Int) (d : Bool) (fs eof fe : Int) : Prop where
  two : fs + 2 ≤ eof
  inside : eof ≤ fe
  defined : ∀ i, fs ≤ i → i < eof → ∃ x, get i = some x
  missing : ∀ i, eof ≤ i → i ≤ fe → get i = none
  mono : ∀ i j x y, fs ≤ i → i < j → j < eof → get i = some x → get j = some y → ordLt d x y

/-- at the end of the field: `extrapolate low true` with low = eof - 1 -/
theorem extrap_eof (get : Int → Option Int) (value : Int) (d : Bool) (fs eof fe low lowV : Int)
    (F : Field get d fs eof fe) (hl : low = eof - 1) (hlow : get low = some lowV) (hv : ordLt d lowV value) :
    GoodS get value d fs eof (extrapolate get low true) := by
  unfold extrapolate
  obtain ⟨d0, hd0⟩ := F.defined (low - 1) (by have := F.two; omega) (by omega)
  have e : low - 1 + 1 = low := by omega
  simp only [if_true, e, hd0, hlow]
  have e2 : eof - 2 = low - 1 := by omega
  exact ⟨hl, by rw [e2]; exact hd0, by rw [← hl]; exact hlow, hv⟩

/-- **Search invariant**: from any state the end-of-field search of
    `_GD_GetIndex` can be in, it terminates with a correct answer. -/
theorem search_inv (get : Int → Option Int) (value : Int) (d : Bool) (fs eof fe a : Int)
    (F : Field get d fs eof fe) (ha : get fs = some a) :
    ∀ (fuel : Nat) (dir : Option Bool) (low high lowV : Int),
      (high - low).toNat ≤ fuel → fs ≤ low → low < eof → eof ≤ high → high ≤ fe →
      get low = some lowV →
      (dir = none → low = fs) →
      (∀ d', dir = some d' → d' = d ∧ ordLe d a value) →
      (fs < low → ordLt d lowV value) →
      GoodS get value d fs eof (search ilt ieq get value fs a fuel dir low high lowV) := by
  intro fuel
  induction fuel with
  | zero => intro dir low high lowV hf h1 h2 h3; omega
  | succ fuel ih =>
    intro dir low high lowV hf hfs hlo heof hhi hlow hnone hsome hbeyond
    have htwo := F.two
    -- what happens once the direction is known and a sample was read at c
    have known : ∀ (c cv : Int), low < c → c < high → get c = some cv → ordLe d a value →
        GoodS get value d fs eof
          (if beyond ilt d cv value = true then bisect ilt get value d fuel low c lowV cv
           else if short ilt d cv value = true then search ilt ieq get value fs a fuel (some d) c high cv
           else Out.hit c) := by
      intro c cv hc1 hc2 hcv hav
      have hceof : c < eof := by
        by_cases h : c < eof
        · exact h
        · have := F.missing c (by omega) (by omega); rw [this] at hcv; cases hcv
      have hle : ordLe d lowV value := by
        by_cases h : fs < low
        · exact ordLt_le _ _ _ (hbeyond h)
        · have : low = fs := by omega
          subst this; rw [ha] at hlow; cases hlow; exact hav
      by_cases hb : beyond ilt d cv value = true
      · rw [if_pos hb]
        apply goodB_goodS
        refine bisect_good get value d eof fuel low c lowV cv (by omega) hc1 (by omega) ?_ hlow hle ?_ ?_
        · intro i hi1 hi2; exact F.defined i (by omega) hi2
        · intro _; exact ⟨hcv, (beyond_iff d cv value).1 hb⟩
        · intro h; omega
      · rw [if_neg hb]
        by_cases hs : short ilt d cv value = true
        · rw [if_pos hs]
          refine ih (some d) c high cv (by omega) (by omega) hceof heof hhi hcv (by intro h; cases h) ?_ ?_
          · intro d' hd'; cases hd'; exact ⟨rfl, hav⟩
          · intro _; exact (short_iff d cv value).1 hs
        · rw [if_neg hs]
          have : cv = value := ord_eq d cv value
            (fun h => hb ((beyond_iff d cv value).2 h)) (fun h => hs ((short_iff d cv value).2 h))
          show get c = some value
          rw [hcv, this]
    -- reaching the end of the field
    have ateof : low = eof - 1 →
        GoodS get value d fs eof
          (if low = fs then Out.errDomain else if dir = none then Out.errRange else extrapolate get low true) := by
      intro hl
      rw [if_neg (by omega)]
      have hdir : ¬ dir = none := fun h => by have := hnone h; omega
      rw [if_neg hdir]
      exact extrap_eof get value d fs eof fe low lowV F hl hlow (hbeyond (by omega))
    unfold search
    by_cases hgap : high - low ≤ 1
    · rw [if_pos hgap]
      exact ateof (by omega)
    · rw [if_neg hgap]
      have hc1 : low < (high + low) / 2 := by omega
      have hc2 : (high + low) / 2 < high := by omega
      cases hgc : get ((high + low) / 2) with
      | none =>
        simp only [hgc]
        have hce : eof ≤ (high + low) / 2 := by
          by_cases h : (high + low) / 2 < eof
          · obtain ⟨x, hx⟩ := F.defined _ (by omega) h; rw [hx] at hgc; cases hgc
          · omega
        by_cases h1 : (high + low) / 2 - low = 1
        · rw [if_pos h1]; exact ateof (by omega)
        · rw [if_neg h1]
          exact ih dir low _ lowV (by omega) hfs hlo hce (by omega) hlow hnone hsome hbeyond
      | some cv =>
        simp only [hgc]
        have hceof : (high + low) / 2 < eof := by
          by_cases h : (high + low) / 2 < eof
          · exact h
          · have := F.missing _ (by omega : eof ≤ (high + low) / 2) (by omega); rw [this] at hgc; cases hgc
        cases hdir : dir with
        | some d' =>
          obtain ⟨hd, hav⟩ := hsome d' hdir
          subst hd
          exact known _ cv hc1 hc2 hgc hav
        | none =>
          have hlfs : low = fs := hnone hdir
          subst hlfs
          rw [ha] at hlow; cases hlow
          have hm := F.mono low _ a cv (Int.le_refl _) hc1 hceof ha hgc
          have hne : ieq cv a = false := by
            cases d <;> simp_all [ordLt] <;> omega
          have hdd : ilt cv a = d := by
            cases d <;> simp_all [ordLt] <;> omega
          simp only [hne, Bool.false_eq_true, if_false, hdd]
          by_cases hb : beyond ilt d a value = true
          · rw [if_pos hb]
            unfold extrapolate
            obtain ⟨d1, hd1⟩ := F.defined (low + 1) (by omega) (by omega)
            simp only [Bool.false_eq_true, if_false, ha, hd1]
            exact ⟨rfl, ha, hd1, (beyond_iff d a value).1 hb⟩
          · rw [if_neg hb]
            exact known _ cv hc1 hc2 hgc (ord_not_lt d a value (fun h => hb ((beyond_iff d a value).2 h)))

/-- **End of field unknown**: the look-up on a strictly monotonic field with
    at least two samples whose end lies before `field_end - 1` (the default
    limits with spf ≥ 2, or an explicit end past the end of field).  The
    answer is a hit, an adjacent bracket, the extrapolation from the first two
    samples (value before the first) or from the LAST two existing samples
    (value beyond the last) — never a hang, an error or a division by zero. -/
theorem search_good (get : Int → Option Int) (value : Int) (d : Bool) (fs eof fe : Int) (fuel : Nat)
    (F : Field get d fs eof fe) (hend : eof ≤ fe - 1) (hfuel : (fe - fs).toNat ≤ fuel) :
    GoodS get value d fs eof (getIndex ilt ieq get value fuel fs fe) := by
  obtain ⟨a, ha⟩ := F.defined fs (Int.le_refl _) (by have := F.two; omega)
  have hnone := F.missing (fe - 1) hend (by omega)
  unfold getIndex
  simp only [ha, hnone]
  exact search_inv get value d fs eof fe a F ha fuel none fs fe a hfuel (Int.le_refl _)
    (by have := F.two; omega) F.inside (Int.le_refl _) ha (fun _ => rfl) (fun d' h => by cases h)
    (fun h => absurd h (Int.lt_irrefl _))

/-! ### non-vacuity: a concrete field, concrete answers -/

def exGet (i : Int) : Option Int :=
  if 0 ≤ i ∧ i < 6 then some ([10, 13, 20, 21, 30, 44].getD i.toNat 0) else none

example : getIndex ilt ieq exGet 20 100 0 6 = .hit 2 := by decide
example : getIndex ilt ieq exGet 25 100 0 6 = .interp 3 21 30 := by decide
example : getIndex ilt ieq exGet 5 100 0 6 = .extrap 0 false 10 13 := by decide
example : getIndex ilt ieq exGet 50 100 0 6 = .extrap 5 true 30 44 := by decide
-- end of field unknown (field_end far past the end): same answers
example : getIndex ilt ieq exGet 20 100 0 40 = .hit 2 := by decide
example : getIndex ilt ieq exGet 25 100 0 40 = .interp 3 21 30 := by decide
example : getIndex ilt ieq exGet 50 100 0 40 = .extrap 5 true 30 44 := by decide
example : getIndex ilt ieq (fun i => if 0 ≤ i ∧ i < 6 then some 7 else none) 7 100 0 40 = .errRange := by decide
-- the hypotheses of `search_good` are satisfiable
example : Field exGet false 0 6 40 where
  two := by decide
  inside := by decide
  defined := by intro i h1 h2; unfold exGet; rw [if_pos ⟨h1, h2⟩]; exact ⟨_, rfl⟩
  missing := by intro i h1 h2; unfold exGet; rw [if_neg (by omega)]
  mono := by
    intro i j x y h1 h2 h3 hx hy
    have hi : i = 0 ∨ i = 1 ∨ i = 2 ∨ i = 3 ∨ i = 4 := by omega
    have hj : j = 1 ∨ j = 2 ∨ j = 3 ∨ j = 4 ∨ j = 5 := by omega
    rcases hi with rfl | rfl | rfl | rfl | rfl <;> rcases hj with rfl | rfl | rfl | rfl | rfl <;>
      first | omega | (simp [exGet] at hx hy; subst hx; subst hy; simp [ordLt])

end GdModel.Props.C19
