/-
  Property C20 — the C++ binding and the command-line tools show what the C library holds.

  (a) Forwarding: `cxxMethods` is regenerated from bindings/cxx/*.cpp on every
      run (extract/x7_cxxfwd.py).  The theorems say, of that table: every
      method reviewed as a thin forward passes the handle followed by its own
      parameters, in declaration order, to the C function of the reviewed name,
      with the right number of arguments; every other Dirfile/Fragment method
      makes exactly the reviewed C calls; every Entry setter that talks to the
      library hands its own structure to gd_alter_entry under its own name, and
      writes only members of its own union arm.
  (b) dirfile2ascii: the rows of the print loop cover each requested frame once,
      and a field printed directly shows sample k·spf + j in row (k, j) — so
      without skipping its column is exactly the samples gd_getdata returned.
  PARTIAL: these are statements about the extracted table and about a model of
  the print loop; behaviour of the compiled binding and tools is tied by the
  differential runs of checks/c20.py.
-/
import GdModel.Cxx.Expected
import GdModel.Cxx.Ascii
namespace GdModel.Props.C20
open GdModel.Generated GdModel.Cxx

def params (n : Nat) : List String := (List.range n).map fun i => "P" ++ toString i

/-- `return gd_f(D, p0, …, p(n-1))` -/
def isThin (m : CxxMethod) (callee : String) : Bool :=
  match m.calls with
  | [c] => c.callee == callee && c.args == "D" :: params m.nparams && c.arityOk
  | _ => false

def findMethods (cls name : String) (n : Nat) : List CxxMethod :=
  cxxMethods.filter fun m => m.cls == cls && m.name == name && m.nparams == n

/-- **Thin forwards.**  Each reviewed thin method exists in the current source
    and passes the handle and then its parameters in declaration order. -/
theorem thin_methods_forward_in_order :
    expectedThin.all (fun (cls, name, n, callee) => (findMethods cls name n).any (isThin · callee)) = true := by
  decide +kernel

/-- **Everything else is as reviewed.**  The methods that are not thin forwards
    make exactly the C calls written down in GdModel.Cxx.Expected. -/
theorem other_methods_as_reviewed :
    expectedOther.all (fun (cls, name, n, calls) => (findMethods cls name n).any (fun m => m.calls == calls)) = true := by
  decide +kernel

/-- no Dirfile/Fragment method has appeared or disappeared -/
theorem method_census :
    (cxxMethods.filter fun m => m.cls == "Dirfile" || m.cls == "Fragment").length =
      expectedThin.length + expectedOther.length := by
  decide +kernel

def commonMembers : List String := ["field", "field_type", "fragment_index", "in_fields", "scalar", "scalar_ind", "flags"]

def armOf (cls : String) : Option String := (armTable.find? (·.1 == cls)).map (·.2)

/-- **Entry setters.**  Every `Set…` method of an entry class that calls the
    library first passes its own name and its own structure to gd_alter_entry. -/
theorem entry_setters_alter_own_struct :
    (cxxMethods.filter fun m => m.entryClass && m.setter && !m.calls.isEmpty).all
      (fun m => match m.calls.head? with
        | some c => c.callee == "gd_alter_entry" && c.args.take 3 == ["D", "E.field", "ENTRY"] && c.arityOk
        | none => false) = true := by
  decide +kernel

/-- …and every entry class writes only common members and members of its own union arm -/
theorem entry_writes_own_members :
    (cxxMethods.filter fun m => m.entryClass).all
      (fun m => m.writes.all fun w =>
        match w with
        | [x] => commonMembers.contains x
        | "u" :: arm :: _ => armOf m.cls == some arm
        | _ => false) = true := by
  decide +kernel

/-! ### dirfile2ascii -/

theorem flatMap_range_mul (n m : Nat) (f : Nat → Nat) :
    (List.range n).flatMap (fun k => (List.range m).map fun j => f (k * m + j)) =
      (List.range (n * m)).map f := by
  induction n with
  | zero => simp
  | succ n ih =>
    rw [List.range_succ, List.flatMap_append, ih, Nat.succ_mul, List.range_add, List.map_append]
    simp [List.map_map, Function.comp_def, Nat.add_comm]

theorem filter_mod_one (l : List Nat) : l.filter (fun k => k % 1 = 0) = l := by
  induction l with
  | nil => rfl
  | cons a t _ => simp [List.filter, Nat.mod_one]

/-- **Every sample once, in order.**  Without skipping, a field at the highest
    rate shows in its column exactly samples 0 … nf·spf − 1 of what gd_getdata
    returned for the requested frame range. -/
theorem column_is_the_data (spf nf : Nat) :
    column spf nf 1 spf false = List.range (nf * spf) := by
  unfold column rowIdx
  rw [filter_mod_one]
  simp only [Bool.false_eq_true, if_false, List.map_flatMap, List.map_map, Function.comp_def, directIndex]
  rw [flatMap_range_mul nf spf (fun i => i)]
  simp

/-- with skipping every row is one frame, `skip` frames apart, showing the frame's first sample -/
theorem column_skipping (spf nf skip maxSpf : Nat) :
    column spf nf skip maxSpf true = ((List.range nf).filter (fun k => k % skip = 0)).map (· * spf) := by
  unfold column rowIdx
  simp only [if_true, List.map_flatMap, directIndex]
  generalize List.filter _ (List.range nf) = l
  induction l with
  | nil => rfl
  | cons a t ih => simp only [List.flatMap_cons, List.map_cons, ih]; simp

/-- the interpolated field starts from a sample of the same frame -/
theorem prev_in_frame (spf maxSpf k j : Nat) (hj : j < maxSpf) :
    k * spf ≤ prevIndex spf maxSpf k j ∧ prevIndex spf maxSpf k j < (k + 1) * spf ∨ spf = 0 := by
  by_cases h0 : spf = 0
  · exact Or.inr h0
  · left
    unfold prevIndex
    have hm : 0 < maxSpf := by omega
    have : j * spf / maxSpf < spf := by
      rw [Nat.div_lt_iff_lt_mul hm]
      calc j * spf < maxSpf * spf := Nat.mul_lt_mul_of_lt_of_le hj (Nat.le_refl _) (by omega)
        _ = spf * maxSpf := Nat.mul_comm _ _
    rw [Nat.succ_mul]
    generalize j * spf / maxSpf = q at this ⊢
    omega

/-- checkdirfile's decision table -/
theorem checkdirfile_reports_iff (openErr : Bool) (nSyntax : Nat) (validate : List Bool) :
    checkdirfileProblem openErr nSyntax validate = true ↔
      (openErr = true ∨ nSyntax > 0 ∨ ∃ v ∈ validate, v = false) := by
  simp [checkdirfileProblem, List.any_eq_true, or_assoc]

example : column 2 3 1 2 false = [0, 1, 2, 3, 4, 5] := by decide
example : column 2 5 2 4 true = [0, 4, 8] := by decide

end GdModel.Props.C20
