/-
  GdModel.Replace.Model — the write-to-temporary-then-rename protocol the
  library uses to replace a file (format fragments: src/flush.c
  `_GD_FlushFragment`; data files: src/encoding.c `_GD_FiniRawIO`,
  `_GD_MoveOver`, src/move.c `_GD_MogrifyFile`), over an abstract file
  system: a map from names to contents.

  One replacement of `target` by `new` is the call sequence
      create tmp ; write chunk₁ … write chunkₙ ; chmod ; close ; rename tmp target
  A kill stops the sequence after any prefix.  A failing call (the k-th one
  returns an error) makes the library abandon: it unlinks the temporary file
  and reports failure, leaving its "modified" flag set.
  Core Lean only.
-/
namespace GdModel.Replace

abbrev Content := List Nat

/-- file system: a map from names to contents -/
def FS := String → Option Content

def FS.read (fs : FS) (n : String) : Option Content := fs n
def FS.remove (fs : FS) (n : String) : FS := fun m => if m = n then none else fs m
def FS.write (fs : FS) (n : String) (c : Content) : FS := fun m => if m = n then some c else fs m

inductive Op where
  | create (tmp : String)
  | append (tmp : String) (chunk : Content)
  | chmod (tmp : String)
  | close (tmp : String)
  | rename (tmp target : String)
  | unlink (tmp : String)
  deriving Repr

def apply (fs : FS) : Op → FS
  | .create t => fs.write t []
  | .append t c => fs.write t ((fs.read t).getD [] ++ c)
  | .chmod _ => fs
  | .close _ => fs
  | .rename t tgt =>
    match fs.read t with
    | some c => (fs.remove t).write tgt c
    | none => fs
  | .unlink t => fs.remove t

/-- the calls of one successful replacement -/
def protocol (tmp target : String) (chunks : List Content) : List Op :=
  [.create tmp] ++ chunks.map (.append tmp) ++ [.chmod tmp, .close tmp, .rename tmp target]

def runOps (fs : FS) (ops : List Op) : FS := ops.foldl apply fs

/-- killed after the first `k` calls -/
def crashAt (fs : FS) (tmp target : String) (chunks : List Content) (k : Nat) : FS :=
  runOps fs ((protocol tmp target chunks).take k)

structure Handle where
  modified : Bool
  deriving DecidableEq, Repr

/-- the k-th call (0-based) fails: the calls before it happened, then the
    library unlinks the temporary file, reports failure, keeps `modified` -/
def failAt (fs : FS) (h : Handle) (tmp target : String) (chunks : List Content) (k : Nat) : FS × Handle × Bool :=
  let ops := protocol tmp target chunks
  if k < ops.length then (apply (runOps fs (ops.take k)) (.unlink tmp), h, false)
  else (runOps fs ops, { h with modified := false }, true)

end GdModel.Replace
