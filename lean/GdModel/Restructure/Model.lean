/-
  GdModel.Restructure.Model — what the data-moving restructuring calls do to
  the flat sample array of a RAW field (src/move.c `_GD_MogrifyFile`,
  src/flimits.c, src/mod.c `_GD_SPFConvert`):

  * `shift`   gd_alter_frameoffset / gd_move between fragments of different
              frame offset, with data: the array is cut or zero-padded at the
              front so that every surviving sample keeps its absolute number;
  * `respf`   gd_alter_raw changing the sample rate with recoding:
              new[j] = old[j * old_spf / new_spf];
  * re-encoding, byte-swapping, moving and renaming leave the array alone
    (their file-level effect is the C04 round trip).
  Core Lean only.
-/
namespace GdModel.Restructure

variable {α : Type}

/-- samples per frame `spf`; the file starts at frame `foff`, afterwards at frame `foff'` -/
def shift (zero : α) (spf foff foff' : Nat) (xs : List α) : List α :=
  if foff ≤ foff' then xs.drop ((foff' - foff) * spf)
  else List.replicate ((foff - foff') * spf) zero ++ xs

/-- the sample with absolute number `k` of a RAW field stored from frame `foff` on -/
def absAt (spf foff : Nat) (xs : List α) (k : Nat) : Option α :=
  if k < foff * spf then none else xs[k - foff * spf]?

/-- `_GD_SPFConvert` over the whole file: `n * new / old` output samples -/
def respf (old new : Nat) (xs : List α) : List α :=
  (List.range (xs.length * new / old)).filterMap fun j => xs[j * old / new]?

end GdModel.Restructure
