/-
  Alias resolution (property C09): _GD_ResolveAlias / _GD_UpdateAliases of
  parse.c over a table of entries.  An entry is a real field (`target = none`)
  or an alias naming its target.  The C keeps, per alias, the direct link
  (entry[1]) and the ultimate non-alias target (entry[0]); both are indices
  into the table here.
-/
import GdModel.Scope.Model
namespace GdModel.Scope.Alias
open GdModel.Scope

structure Ent where
  name : Name
  target : Option Name        -- some t: /ALIAS name t
  deriving DecidableEq, Repr

abbrev Table := List Ent

/-- _GD_FindField by full name (the bisection itself is GdModel.Names.Table) -/
def find (tab : Table) (n : Name) : Option Nat := tab.findIdx? (·.name = n)

def isAlias (tab : Table) (i : Nat) : Bool :=
  match tab[i]? with
  | some e => e.target.isSome
  | none => false

/-- the entry an alias points at directly -/
def next (tab : Table) (i : Nat) : Option Nat :=
  match tab[i]? with
  | some e => match e.target with
    | some t => find tab t
    | none => none
  | none => none

structure Links where
  ult : List (Option Nat)      -- entry[0] per table index
  dir : List (Option Nat)      -- entry[1] per table index
  deriving DecidableEq, Repr

def Links.clear (n : Nat) : Links := { ult := List.replicate n none, dir := List.replicate n none }

def getO (l : List (Option Nat)) (i : Nat) : Option Nat := (l[i]?).getD none

namespace Impl

/-- the first loop of _GD_ResolveAlias: follow the chain from `l`, recording the
    direct links; returns the links, the aliases visited (in order) and the
    ultimate target found.  `fuel` bounds the walk; the C loop stops because
    every step marks an alias that was unmarked. -/
def walk (tab : Table) : Nat → Nat → Links → List Nat → Links × List Nat × Option Nat
  | 0, l, lk, vis => (lk, vis ++ [l], none)
  | fuel + 1, l, lk, vis =>
    let t := next tab l
    let lk := { lk with dir := lk.dir.set l t }
    let vis := vis ++ [l]
    match t with
    | none => (lk, vis, none)                       -- dangling
    | some ti =>
      if !isAlias tab ti then (lk, vis, some ti)     -- the ultimate target
      else match getO lk.ult ti with
        | some u => (lk, vis, some u)                -- already resolved
        | none =>
          if (getO lk.dir ti).isSome then (lk, vis, none)   -- loop, or known to lead nowhere
          else walk tab fuel ti lk vis

/-- _GD_ResolveAlias -/
def resolve (tab : Table) (e : Nat) (lk : Links) : Links :=
  let (lk, vis, t) := walk tab (tab.length + 1) e lk []
  { lk with ult := vis.foldl (fun u i => u.set i t) lk.ult }

/-- _GD_UpdateAliases(D, 1): forget everything, then resolve every alias not yet visited, in table order -/
def update (tab : Table) : Links :=
  (List.range tab.length).foldl
    (fun lk u => if isAlias tab u && (getO lk.dir u).isNone then resolve tab u lk else lk)
    (Links.clear tab.length)

end Impl

namespace Spec

/-- the documented meaning: follow targets until a real field is reached;
    nothing if a target is missing or the chain never ends -/
def chase (tab : Table) : Nat → Nat → Option Nat
  | 0, _ => none
  | fuel + 1, i =>
    if !isAlias tab i then (if i < tab.length then some i else none)
    else match next tab i with
      | none => none
      | some j => chase tab fuel j

def ultimate (tab : Table) (i : Nat) : Option Nat :=
  if isAlias tab i then chase tab (tab.length + 1) i else none

end Spec

/-- `Reaches tab i j`: following alias targets from entry `i` ends at the real field `j` -/
inductive Reaches (tab : Table) : Nat → Nat → Prop where
  | base (j : Nat) (h : j < tab.length) (hr : isAlias tab j = false) : Reaches tab j j
  | step (i k j : Nat) (ha : isAlias tab i = true) (hn : next tab i = some k)
      (hr : Reaches tab k j) : Reaches tab i j

end GdModel.Scope.Alias
