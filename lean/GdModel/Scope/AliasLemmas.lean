/- Soundness of the C-shaped alias resolver (GdModel.Scope.Alias.Impl) with
   respect to the documented meaning (`Reaches`). -/
import GdModel.Scope.Alias
namespace GdModel.Scope.Alias
open GdModel.Scope

/-- every ultimate target recorded is the real field the alias chain ends at -/
def Sound (tab : Table) (lk : Links) : Prop := ∀ i j, getO lk.ult i = some j → Reaches tab i j

theorem find_lt (tab : Table) (n : Name) (k : Nat) (h : find tab n = some k) : k < tab.length := by
  unfold find at h
  exact (List.findIdx?_eq_some_iff_getElem.mp h).1

theorem next_isAlias (tab : Table) (l k : Nat) (h : next tab l = some k) : isAlias tab l = true ∧ k < tab.length := by
  unfold next at h
  unfold isAlias
  cases hl : tab[l]? with
  | none => simp [hl] at h
  | some e =>
    simp only [hl] at h ⊢
    cases ht : e.target with
    | none => simp [ht] at h
    | some t => simp only [ht] at h; exact ⟨by simp, find_lt tab t k h⟩

theorem walk_ult (tab : Table) (fuel l : Nat) (lk : Links) (vis : List Nat) :
    (Impl.walk tab fuel l lk vis).1.ult = lk.ult := by
  induction fuel generalizing l lk vis with
  | zero => simp [Impl.walk]
  | succ f ih =>
    simp only [Impl.walk]
    split
    · rfl
    · split
      · rfl
      · split
        · rfl
        · split
          · rfl
          · rw [ih]

/-- when the walk finds a target, everything it visited (from `l` on) reaches that target -/
theorem walk_sound (tab : Table) (fuel l : Nat) (lk : Links) (vis : List Nat) (j : Nat)
    (hs : Sound tab lk) (h : (Impl.walk tab fuel l lk vis).2.2 = some j) :
    ∃ ext, (Impl.walk tab fuel l lk vis).2.1 = vis ++ l :: ext ∧ Reaches tab l j ∧ ∀ v ∈ ext, Reaches tab v j := by
  induction fuel generalizing l lk vis with
  | zero => simp [Impl.walk] at h
  | succ f ih =>
    simp only [Impl.walk] at h ⊢
    cases hn : next tab l with
    | none => simp [hn] at h
    | some ti =>
      obtain ⟨hal, hlt⟩ := next_isAlias tab l ti hn
      simp only [hn] at h ⊢
      by_cases hna : isAlias tab ti = true
      · simp only [hna, Bool.not_true, Bool.false_eq_true, if_false] at h ⊢
        cases hu : getO lk.ult ti with
        | some u =>
          simp only [hu] at h ⊢
          cases h
          exact ⟨[], by simp, Reaches.step l ti j hal hn (hs ti j hu), by simp⟩
        | none =>
          simp only [hu] at h ⊢
          by_cases hd : (getO (lk.dir.set l (some ti)) ti).isSome = true
          · simp [hd] at h
          · simp only [hd, Bool.false_eq_true, if_false] at h ⊢
            have hs' : Sound tab { lk with dir := lk.dir.set l (some ti) } := hs
            obtain ⟨ext, e1, e2, e3⟩ := ih ti { lk with dir := lk.dir.set l (some ti) } (vis ++ [l]) hs' h
            refine ⟨ti :: ext, ?_, Reaches.step l ti j hal hn e2, ?_⟩
            · rw [e1]; simp
            · intro v hv
              cases List.mem_cons.mp hv with
              | inl h1 => subst h1; exact e2
              | inr h1 => exact e3 v h1
      · have hna' : isAlias tab ti = false := by simpa using hna
        simp only [hna', Bool.not_false, if_true] at h ⊢
        have hj : ti = j := by simpa using h
        rw [← hj]
        exact ⟨[], by simp, Reaches.step l ti ti hal hn (Reaches.base ti hlt hna'), by simp⟩

theorem getO_set (l : List (Option Nat)) (i k : Nat) (t : Option Nat) :
    getO (l.set i t) k = if k = i ∧ i < l.length then t else getO l k := by
  unfold getO
  by_cases h : k = i
  · subst h
    by_cases hl : k < l.length
    · simp [hl]
    · simp [hl, List.getElem?_eq_none (Nat.le_of_not_lt hl)]
  · have : i ≠ k := fun e => h e.symm
    simp [h, List.getElem?_set_ne this]

theorem fold_set_sound (tab : Table) (vis : List Nat) (t : Option Nat) (ult : List (Option Nat))
    (hv : ∀ j, t = some j → ∀ v ∈ vis, Reaches tab v j)
    (hs : ∀ i j, getO ult i = some j → Reaches tab i j) :
    ∀ i j, getO (vis.foldl (fun u i => u.set i t) ult) i = some j → Reaches tab i j := by
  induction vis generalizing ult with
  | nil => simpa using hs
  | cons a r ih =>
    simp only [List.foldl]
    apply ih _ (fun j hj v hv' => hv j hj v (List.mem_cons_of_mem _ hv'))
    intro i j hij
    rw [getO_set] at hij
    split at hij
    · rename_i hc
      rw [hc.1]
      exact hv j hij a List.mem_cons_self
    · exact hs i j hij

theorem resolve_sound (tab : Table) (e : Nat) (lk : Links) (hs : Sound tab lk) : Sound tab (Impl.resolve tab e lk) := by
  unfold Impl.resolve
  have hu := walk_ult tab (tab.length + 1) e lk []
  have hw := walk_sound tab (tab.length + 1) e lk []
  generalize Impl.walk tab (tab.length + 1) e lk [] = r at hu hw
  obtain ⟨lk', vis, t⟩ := r
  simp only at hu hw ⊢
  unfold Sound
  simp only
  apply fold_set_sound tab vis t lk'.ult
  · intro j hj v hv
    obtain ⟨ext, e1, e2, e3⟩ := hw j hs hj
    rw [e1] at hv
    simp only [List.nil_append, List.mem_cons] at hv
    cases hv with
    | inl h => subst h; exact e2
    | inr h => exact e3 v h
  · rw [hu]; exact hs

theorem clear_sound (tab : Table) (n : Nat) : Sound tab (Links.clear n) := by
  intro i j h
  simp [Links.clear, getO] at h
  by_cases hi : i < n
  · simp [List.getElem?_replicate, hi] at h
  · simp [List.getElem?_replicate, hi] at h

/-- **The resolver never records a wrong target**: whatever the order of the
    table, chains, loops and dangling entries, an ultimate target stored by
    `_GD_UpdateAliases` is the real field the alias chain leads to. -/
theorem update_sound (tab : Table) : Sound tab (Impl.update tab) := by
  unfold Impl.update
  generalize List.range tab.length = idxs
  have : ∀ (l : List Nat) (lk : Links), Sound tab lk →
      Sound tab (l.foldl (fun lk u => if isAlias tab u && (getO lk.dir u).isNone then Impl.resolve tab u lk else lk) lk) := by
    intro l
    induction l with
    | nil => intro lk h; simpa using h
    | cons a r ih =>
      intro lk h
      simp only [List.foldl]
      apply ih
      split
      · exact resolve_sound tab a lk h
      · exact h
  exact this idxs _ (clear_sound tab tab.length)

end GdModel.Scope.Alias
