/- Helper lemmas for Props/C09. -/
import GdModel.Scope.Model
import GdModel.Scope.Alias
namespace GdModel.Scope
open Spec

theorem lastSet_append (a : Attr) (xs ys : List Item) :
    lastSet a (xs ++ ys) = match lastSet a ys with
      | some w => some w
      | none => lastSet a xs := by
  induction xs with
  | nil => simp [lastSet]; cases lastSet a ys <;> rfl
  | cons x xs ih =>
    cases x <;> simp only [List.cons_append, lastSet, ih] <;>
      (cases lastSet a ys <;> simp)

theorem after1_append (inh : Nat) (a : Attr) (xs ys : List Item) :
    after1 inh a (xs ++ ys) = after1 (after1 inh a xs) a ys := by
  unfold after1
  rw [lastSet_append]
  cases lastSet a ys <;> simp

theorem after_append (inh : Attrs) (xs ys : List Item) :
    after inh (xs ++ ys) = after (after inh xs) ys := by
  simp [after, after1_append]

theorem after_nil (inh : Attrs) : after inh [] = inh := by
  cases inh; simp [after, after1, lastSet]

theorem after_cons (inh : Attrs) (x : Item) (ys : List Item) :
    after inh (x :: ys) = after (after inh [x]) ys := by
  have := after_append inh [x] ys
  simpa using this

/-- the value after a single non-directive line is unchanged -/
theorem after_single_set (inh : Attrs) (a : Attr) (v : Nat) :
    after inh [Item.set a v] = inh.set a v := by
  cases inh; cases a <;> simp [after, after1, lastSet, Attrs.set]

theorem after_single_other (inh : Attrs) (i : Item) (h : ∀ a v, i ≠ Item.set a v) :
    after inh [i] = inh := by
  cases i with
  | set a v => exact absurd rfl (h a v)
  | _ => cases inh; simp [after, after1, lastSet]

mutual
theorem subsItem_pre (inh : Attrs) (pre : List Item) (i : Item) :
    subsItem inh pre i = subsItem (after inh pre) [] i := by
  cases i with
  | inc ns px sx body => simp [subsItem, after_nil]
  | _ => simp [subsItem]
theorem subs_pre (inh : Attrs) (pre : List Item) (its : Items) :
    subs inh pre its = subs (after inh pre) [] its := by
  cases its with
  | nil => simp [subs]
  | cons i r =>
    simp only [subs, List.nil_append]
    rw [subsItem_pre inh pre i, subs_pre inh (pre ++ [i]) r, subs_pre (after inh pre) [i] r,
      after_append]
end

end GdModel.Scope
