/-
  Scope model (property C09): the sequential format-file interpreter of
  parse.c (_GD_ParseDirective, _GD_ParseFragment) and include.c (_GD_Include,
  _GD_SetFieldAffixes), and name composition of name.c (_GD_BuildCode).

  An include tree is a value of the mutual type `Item`/`Items`: a fragment is
  its list of lines, an /INCLUDE line carries the lines of the fragment it
  names.  `Impl.items` walks the tree in the order the C parser reads lines,
  mutating "the current fragment record" (`St.cur`, the model of
  D->fragment[me]) and the parser state (`St.p`, the model of struct
  parser_state) exactly where the C does.  `Spec.*` are the declarative
  readings of dirfile-format(5).
-/
namespace GdModel.Scope

abbrev Name := List Nat

/-- the four directives with fragment scope -/
inductive Attr where
  | enc | endian | offset | protect
  deriving DecidableEq, Repr

structure Attrs where
  enc : Nat
  endian : Nat
  offset : Nat
  protect : Nat
  deriving DecidableEq, Repr

def Attrs.get (s : Attrs) : Attr → Nat
  | .enc => s.enc
  | .endian => s.endian
  | .offset => s.offset
  | .protect => s.protect

def Attrs.set (s : Attrs) (a : Attr) (v : Nat) : Attrs :=
  match a with
  | .enc => { s with enc := v }
  | .endian => { s with endian := v }
  | .offset => { s with offset := v }
  | .protect => { s with protect := v }

mutual
inductive Item where
  | set (a : Attr) (v : Nat)            -- /ENCODING /ENDIAN /FRAMEOFFSET /PROTECT
  | version (v : Nat)                   -- /VERSION v
  | reference (code : Name)             -- /REFERENCE code
  | nspace (ns : Name)                  -- /NAMESPACE ns
  | raw (name : Name) (minv : Nat)      -- a RAW field specification
  | other (name : Name) (minv : Nat)    -- any other field specification (type needs Version >= minv)
  | inc (ns px sx : Name) (body : Items) -- /INCLUDE file [ns.][px] [sx]
inductive Items where
  | nil
  | cons (i : Item) (rest : Items)
end

def Items.toList : Items → List Item
  | .nil => []
  | .cons i r => i :: r.toList

def Items.ofList : List Item → Items
  | [] => .nil
  | i :: r => .cons i (Items.ofList r)

mutual
def Item.depth : Item → Nat
  | .inc _ _ _ body => body.depth + 1
  | _ => 0
def Items.depth : Items → Nat
  | .nil => 0
  | .cons i r => max i.depth r.depth
end

/-! ### names -/

def dot : Nat := 46
def indexName : Name := [73, 78, 68, 69, 88]   -- "INDEX"

/-- a.b with empty parts omitted (the C writes "ns." only when ns is non-empty) -/
def join (a b : Name) : Name :=
  if a = [] then b else if b = [] then a else a ++ dot :: b

/-- split at the last dot: (AAAA, BBBB) with AAAA = [] when there is no dot -/
def splitLastDot (c : Name) : Name × Name :=
  let r := c.reverse
  let base := (r.takeWhile (· ≠ dot)).reverse
  let rest := r.dropWhile (· ≠ dot)
  match rest with
  | [] => ([], base)
  | _ :: t => (t.reverse, base)

/-- _GD_BuildCode (name.c) for a top-level code without representation suffix:
    [fragns.][curns.][AAAA.]PX BBBB SX, a leading dot discards curns, and INDEX
    is always in the null namespace. -/
def buildCode (fragNs curNs px sx code : Name) : Name :=
  let rootAbs := code.head? = some dot
  let code' := if rootAbs then code.drop 1 else code
  let ns := if rootAbs then [] else curNs
  let (tag, base) := splitLastDot code'
  let leaf := px ++ base ++ sx
  if leaf = indexName then indexName
  else join (join (join fragNs ns) tag) leaf

/-! ### state -/

structure P where          -- struct parser_state
  standards : Nat
  pedantic : Bool
  permissive : Bool
  ns : Name                -- current namespace, relative to the fragment's root namespace
  deriving DecidableEq, Repr

structure Frag where       -- D->fragment[i]
  idx : Nat
  parent : Nat
  attrs : Attrs
  ns : Name
  px : Name
  sx : Name
  deriving DecidableEq, Repr

structure St where
  p : P
  cur : Frag                     -- D->fragment[me]
  done : List Frag               -- fragments created below `cur` so far, in index order
  nfrag : Nat                    -- D->n_fragment
  names : List (Name × Nat)      -- (full field name, fragment) in definition order
  firstRaw : Option Name         -- D->reference_field: the first RAW field parsed
  ref : Option Name              -- *ref_name in _GD_ParseFragment
  err : Bool                     -- GD_E_RECURSE_LEVEL raised
  deriving Repr

def maxRecurse : Nat := 32        -- GD_MAX_RECURSE_LEVEL

/-- the version gate of a field specification.  `v < 100`: GD_PVERS_GE(p, v), syntax introduced in Version v.
    `v ≥ 100`: GD_PVERS_LT(p, v - 100), syntax that pedantic parsing accepts only BEFORE Version v - 100
    (e.g. the one-character RAW types of `_GD_RawType`: `!pedantic || standards < 8`). -/
def P.ge (p : P) (v : Nat) : Bool :=
  if v ≥ 100 then !p.pedantic || decide (p.standards < v - 100)
  else !p.pedantic || decide (p.standards ≥ v)

/-- /VERSION: parse.c case 'V' -/
def P.setVersion (p : P) (v : Nat) : P :=
  { p with standards := v, pedantic := p.pedantic || !p.permissive }

/-- the tail of _GD_Include: "prevent /VERSION leak in DSV >= 9" -/
def P.popVersion (old new : P) : P :=
  if (decide (old.standards ≥ 9) && old.pedantic) || decide (new.standards ≥ 9) then
    { new with standards := old.standards, pedantic := if old.pedantic then new.pedantic else false }
  else new

/-- _GD_ParseNamespace: a leading dot is ignored, a trailing dot stripped -/
def cleanNs (ns : Name) : Name :=
  let a := if ns.head? = some dot then ns.drop 1 else ns
  if a.getLast? = some dot then a.dropLast else a

def defineField (st : St) (name : Name) (isRaw : Bool) : St :=
  let full := buildCode st.cur.ns st.p.ns st.cur.px st.cur.sx name
  { st with names := st.names ++ [(full, st.cur.idx)],
            firstRaw := if isRaw && st.firstRaw.isNone then some full else st.firstRaw }

/-- the fragment record _GD_Include creates (with _GD_SetFieldAffixes) -/
def childFrag (st : St) (ns px sx : Name) : Frag :=
  let nsin := if ns ≠ [] then ns else st.p.ns
  { idx := st.nfrag, parent := st.cur.idx, attrs := st.cur.attrs,
    ns := join st.cur.ns nsin, px := st.cur.px ++ px, sx := sx ++ st.cur.sx }

namespace Impl

mutual
def item (depth : Nat) : Item → St → St
  | .set a v, st => { st with cur := { st.cur with attrs := st.cur.attrs.set a v } }
  | .version v, st => { st with p := st.p.setVersion v }
  | .reference c, st =>
      { st with ref := some (buildCode st.cur.ns st.p.ns st.cur.px st.cur.sx c) }
  | .nspace ns, st => { st with p := { st.p with ns := cleanNs ns } }
  | .raw n minv, st => if st.p.ge minv then defineField st n true else st
  | .other n minv, st => if st.p.ge minv then defineField st n false else st
  | .inc ns px sx body, st =>
      if depth + 1 ≥ maxRecurse then { st with err := true }
      else
        let child := childFrag st ns px sx
        let newns := decide (ns ≠ []) || decide (st.p.ns ≠ [])
        let st1 : St := { st with p := { st.p with ns := if newns then [] else st.p.ns },
                                  cur := child, done := [], nfrag := st.nfrag + 1, ref := none }
        let st2 := items (depth + 1) body st1
        let p' := P.popVersion st.p st2.p
        { p := { p' with ns := st.p.ns },
          cur := st.cur,
          done := st.done ++ st2.cur :: st2.done,
          nfrag := st2.nfrag,
          names := st2.names,
          firstRaw := st2.firstRaw,
          ref := match st2.ref with | some r => some r | none => st.ref,
          err := st2.err }
def items (depth : Nat) : Items → St → St
  | .nil, st => st
  | .cons i r, st =>
      let st' := item depth i st
      if st'.err then st' else items depth r st'
end

end Impl

def initSt (perm ped : Bool) (root : Attrs) : St :=
  { p := { standards := 10, pedantic := ped, permissive := perm, ns := [] },
    cur := { idx := 0, parent := 0, attrs := root, ns := [], px := [], sx := [] },
    done := [], nfrag := 1, names := [], firstRaw := none, ref := none, err := false }

/-- everything gd_open leaves behind that the property talks about -/
structure Result where
  frags : List Frag
  names : List (Name × Nat)
  reference : Option Name
  err : Bool
  deriving Repr

def parse (perm ped : Bool) (root : Attrs) (its : Items) : Result :=
  let st := Impl.items 0 its (initSt perm ped root)
  { frags := st.cur :: st.done, names := st.names,
    reference := match st.ref with | some r => some r | none => st.firstRaw,
    err := st.err }

/-! ### the declarative reading (dirfile-format(5), "fragment scope") -/

namespace Spec

/-- the last top-level directive for `a` among the given lines -/
def lastSet (a : Attr) : List Item → Option Nat
  | [] => none
  | .set b v :: r =>
      match lastSet a r with
      | some w => some w
      | none => if a = b then some v else none
  | _ :: r => lastSet a r

/-- value of `a` after the lines `its` of a fragment that inherited `inh` -/
def after1 (inh : Nat) (a : Attr) (its : List Item) : Nat := (lastSet a its).getD inh

def after (inh : Attrs) (its : List Item) : Attrs :=
  { enc := after1 inh.enc .enc its, endian := after1 inh.endian .endian its,
    offset := after1 inh.offset .offset its, protect := after1 inh.protect .protect its }

/- Settings of every fragment below the one whose lines are `pre ++ its`, in
    index (preorder) order: the fragment included at a line inherits what the
    lines *before that line* (`pre`) leave in effect, and ends with its own last
    directive if it has one. -/
mutual
def subsItem (inh : Attrs) (pre : List Item) : Item → List Attrs
  | .inc _ _ _ body =>
      let inh' := after inh pre
      after inh' body.toList :: subs inh' [] body
  | _ => []
def subs (inh : Attrs) (pre : List Item) : Items → List Attrs
  | .nil => []
  | .cons i r => subsItem inh pre i ++ subs inh (pre ++ [i]) r
end

def frags (inh : Attrs) (its : Items) : List Attrs :=
  after inh its.toList :: subs inh [] its

/- the number of /REFERENCE directives in depth-first textual order -/
mutual
def refsItem : Item → Nat
  | .reference _ => 1
  | .inc _ _ _ body => refs body
  | _ => 0
def refs : Items → Nat
  | .nil => 0
  | .cons i r => refsItem i + refs r
end

end Spec

end GdModel.Scope
