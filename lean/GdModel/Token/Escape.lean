/-
  GdModel.Token.Escape — `_GD_StringEscapeise` (src/flush.c:244-314) for
  Standards Version ≥ 6 / permissive mode: how gd_metaflush writes a token
  (field name, field code, string value).  Bytes are `Nat` < 256, never 0.
  Core Lean only.
-/
import GdModel.Token.Spec
namespace GdModel.Token

/-- "0123456789ABCDEF"[n] -/
def hexDigitUpper (n : Nat) : Nat := if n < 10 then 48 + n else 55 + n

/-- one byte as the writer emits it -/
def esc1 (b : Nat) : List Nat :=
  if b = 92 ∨ b = 35 ∨ b = 34 ∨ b = 32 then [92, b]             -- \\  \#  \"  \<space>
  else if b < 32 then [92, 120, hexDigitUpper (b / 16), hexDigitUpper (b % 16)]   -- \xHH
  else [b]

/-- a whole token; the empty string is written as `""` -/
def escapeStr (s : List Nat) : List Nat := if s = [] then [34, 34] else s.flatMap esc1

end GdModel.Token
