/-
  The tokeniser writes no more bytes than the line has (property C05, first
  anchored mechanism): `_GD_Tokenise` copies into `outstring = strdup(instring)`;
  the tokens with their terminating NULs must fit in strlen(instring) + 1 bytes.
-/
import GdModel.Token.Impl
namespace GdModel.Token.Fits
open GdModel.Token GdModel.Token.Impl

def sumLen (l : List (List Nat)) : Nat := (l.map (fun t => t.length + 1)).sum

/-- bytes written to the output buffer so far (`op - outstring`) -/
def written (s : St) : Nat := s.cur.length + sumLen s.done

/-- input bytes already consumed by an escape sequence that has not produced its output yet -/
def slack (s : St) : Nat :=
  if s.escaped then
    match s.mode with
    | .none => 1
    | .octal => 1 + s.nAcc
    | .hex => 2 + s.nAcc
    | .utf8 => 2 + s.nAcc
  else 0

def Good (s : St) : Prop :=
  (s.ws = true → s.cur = []) ∧
  (s.escaped = true → s.mode = .utf8 → s.acc < 16 ^ s.nAcc) ∧
  (s.escaped = false → s.mode = .none)

def Out.st : Out → St
  | .cont s => s
  | .stop s => s

theorem hexVal_lt (c : Nat) (h : isHex c = true) : hexVal c < 16 := by
  unfold isHex at h
  unfold hexVal
  simp only [Bool.or_eq_true, Bool.and_eq_true, decide_eq_true_eq] at h
  split
  · omega
  · split <;> omega

theorem utf8_len (v n : Nat) (bs : List Nat) (h : utf8Encode v = some bs) (hv : v < 16 ^ n) :
    bs.length ≤ n + 1 := by
  unfold utf8Encode at h
  split at h
  · cases h
  · rename_i h0
    have hv0 : v ≠ 0 := fun e => h0 (Or.inl e)
    split at h
    · cases h; simp
    · split at h
      · cases h
        rcases n with _ | n
        · simp at hv; omega
        · simp
      · split at h
        · cases h
          rcases n with _ | _ | n
          · simp at hv; omega
          · simp at hv; omega
          · simp
        · cases h
          rcases n with _ | _ | _ | n
          · simp at hv; omega
          · simp at hv; omega
          · simp at hv; omega
          · simp


def Inv (s : St) (k : Nat) : Prop := Good s ∧ written s + slack s ≤ k

@[simp] theorem st_cont (s : St) : Out.st (.cont s) = s := rfl
@[simp] theorem st_stop (s : St) : Out.st (.stop s) = s := rfl

theorem startTok_some (want : Nat) (s s' : St) (h : startTok want s = some s') :
    s'.cur = s.cur ∧ s'.done = s.done ∧ s'.escaped = s.escaped ∧ s'.mode = s.mode ∧ s'.acc = s.acc ∧
    s'.nAcc = s.nAcc ∧ s'.ws = false ∧ s'.quoted = s.quoted := by
  unfold startTok at h
  split at h
  · split at h
    · cases h
    · cases h; simp
  · rename_i hw; cases h; simp at hw; simp [hw]

/-- one loop iteration on a state that is not inside an escape sequence -/
theorem nonesc_inv (v6 : Bool) (want fuel : Nat) (s : St) (c k : Nat) (he : s.escaped = false)
    (h : Inv s k) : Inv (Out.st (step v6 want fuel s c)) (k + 1) := by
  obtain ⟨⟨g1, g2, g3⟩, hk⟩ := h
  have hm := g3 he
  have hsl : slack s = 0 := by simp [slack, he]
  cases fuel with
  | zero => exact ⟨⟨g1, g2, g3⟩, by simp [step]; omega⟩
  | succ f =>
    simp only [step, he, Bool.false_eq_true, if_false]
    split
    · simp [Inv, Good, written, slack, hm] at *; refine ⟨g1, ?_⟩; omega
    · split
      · split
        · split
          · simp [Inv, Good, written, slack, hm, he] at *; refine ⟨g1, ?_⟩; omega
          · rename_i s' hs'
            obtain ⟨a1, a2, a3, a4, a5, a6, a7, a8⟩ := startTok_some want s s' hs'
            simp [Inv, Good, written, slack, a1, a2, a3, a4, a7, hm, he] at *; omega
        · simp [Inv, Good, written, slack, hm, he] at *; refine ⟨g1, ?_⟩; omega
      · split
        · split
          · simp [Inv, Good, written, slack, sumLen, hm, he] at *; omega
          · simp [Inv, Good, written, slack, hm, he] at *; refine ⟨g1, ?_⟩; omega
        · split
          · simp [Inv, Good, written, slack, hm, he] at *; refine ⟨g1, ?_⟩; omega
          · split
            · simp [Inv, Good, written, slack, hm, he] at *; refine ⟨g1, ?_⟩; omega
            · rename_i s' hs'
              obtain ⟨a1, a2, a3, a4, a5, a6, a7, a8⟩ := startTok_some want s s' hs'
              simp [Inv, Good, written, slack, emit, a1, a2, a3, a4, a7, hm, he] at *; omega


theorem inv_mono (s : St) (k : Nat) (h : Inv s k) : Inv s (k + 1) := ⟨h.1, by have := h.2; omega⟩

theorem pow16_step (acc n v : Nat) (h : acc < 16 ^ n) (hv : v < 16) : acc * 16 + v < 16 ^ (n + 1) := by
  rw [Nat.pow_succ]; omega

@[simp] theorem written_acc (s : St) (a n : Nat) : written { s with acc := a, nAcc := n } = written s := rfl
@[simp] theorem written_err (s : St) (e : Option Err) : written { s with err := e } = written s := rfl
theorem written_emit (s : St) (b : Nat) :
    written { emit s b with escaped := false, mode := .none } = written s + 1 := by
  simp [written, emit]; omega
theorem written_emit' (s : St) (b : Nat) :
    written { emit s b with escaped := false } = written s + 1 := by
  simp [written, emit]; omega
theorem written_emits (s : St) (bs : List Nat) :
    written { emits s bs with escaped := false, mode := .none } = written s + bs.length := by
  simp [written, emits]; omega

/-- a state that has just finished an escape: not escaped, mode none, inside a token -/
theorem inv_after (t : St) (k : Nat) (h1 : t.escaped = false) (h2 : t.mode = .none) (h3 : t.ws = false)
    (h4 : written t ≤ k) : Inv t k := by
  refine ⟨⟨by simp [h3], by simp [h1], fun _ => h2⟩, ?_⟩
  simp [slack, h1]; exact h4

/-- one loop iteration inside an escape sequence -/
theorem esc_inv (v6 : Bool) (want fuel : Nat) (s : St) (c k : Nat) (he : s.escaped = true)
    (h : Inv s k) : Inv (Out.st (step v6 want fuel s c)) (k + 1) := by
  cases fuel with
  | zero => simpa [step] using inv_mono s k h
  | succ f =>
    simp only [step, he, if_true]
    split
    · simpa using inv_mono s k h
    · rename_i s1 hs1
      obtain ⟨a1, a2, a3, a4, a5, a6, a7, a8⟩ := startTok_some want s s1 hs1
      obtain ⟨⟨g1, g2, g3⟩, hk⟩ := h
      have he1 : s1.escaped = true := by rw [a3]; exact he
      simp only [written] at hk
      split
      · -- octal
        rename_i hm
        have hms : s.mode = .octal := by rw [← a4]; exact hm
        simp only [slack, he, hms, if_true] at hk
        by_cases ho : isOctal c = true
        · simp only [ho, if_true, Bool.not_true, Bool.false_eq_true, or_false, if_false]
          split
          · split
            · simp [Inv, Good, written, slack, he1, hm, a1, a2, a5, a6, a7]; omega
            · apply inv_mono
              apply inv_after _ _ rfl rfl (by simp [emit, a7])
              simp [written, emit, a1, a2]; omega
          · simp [Inv, Good, written, slack, he1, hm, a1, a2, a5, a6, a7]; omega
        · have ho' : isOctal c = false := by simpa using ho
          simp only [ho', Bool.false_eq_true, if_false, Bool.not_false, or_true, if_true]
          split
          · simp [Inv, Good, written, slack, he1, hm, a1, a2, a5, a6, a7]; omega
          · apply nonesc_inv _ _ _ _ _ _ rfl
            apply inv_after _ _ rfl rfl (by simp [emit, a7])
            simp [written, emit, a1, a2]; omega
      · -- hex
        rename_i hm
        have hms : s.mode = .hex := by rw [← a4]; exact hm
        simp only [slack, he, hms, if_true] at hk
        by_cases ho : isHex c = true
        · simp only [ho, if_true, Bool.not_true, Bool.false_eq_true, or_false, if_false]
          split
          · split
            · simp [Inv, Good, written, slack, he1, hm, a1, a2, a5, a6, a7]; omega
            · apply inv_mono
              apply inv_after _ _ rfl rfl (by simp [emit, a7])
              simp [written, emit, a1, a2]; omega
          · simp [Inv, Good, written, slack, he1, hm, a1, a2, a5, a6, a7]; omega
        · have ho' : isHex c = false := by simpa using ho
          simp only [ho', Bool.false_eq_true, if_false, Bool.not_false, or_true, if_true]
          split
          · simp [Inv, Good, written, slack, he1, hm, a1, a2, a5, a6, a7]; omega
          · apply nonesc_inv _ _ _ _ _ _ rfl
            apply inv_after _ _ rfl rfl (by simp [emit, a7])
            simp [written, emit, a1, a2]; omega
      · -- utf8
        rename_i hm
        have hms : s.mode = .utf8 := by rw [← a4]; exact hm
        simp only [slack, he, hms, if_true] at hk
        have hacc : s.acc < 16 ^ s.nAcc := g2 he hms
        by_cases ho : isHex c = true
        · have hacc' := pow16_step s.acc s.nAcc (hexVal c) hacc (hexVal_lt c ho)
          simp only [ho, if_true, Bool.not_true, Bool.false_eq_true, or_false, if_false]
          split
          · split
            · simp [Inv, Good, written, slack, he1, hm, a1, a2, a5, a6, a7]; exact ⟨hacc', by omega⟩
            · rename_i bs hbs
              simp only [a5, a6] at hbs
              have hl := utf8_len _ _ bs hbs hacc'
              apply inv_mono
              apply inv_after _ _ rfl rfl (by simp [emits, a7])
              simp [written, emits, a1, a2]; omega
          · simp [Inv, Good, written, slack, he1, hm, a1, a2, a5, a6, a7]; exact ⟨hacc', by omega⟩
        · have ho' : isHex c = false := by simpa using ho
          simp only [ho', Bool.false_eq_true, if_false, Bool.not_false, or_true, if_true]
          split
          · simp [Inv, Good, written, slack, he1, hm, a1, a2, a5, a6, a7]; exact ⟨hacc, by omega⟩
          · rename_i bs hbs
            simp only [a5, a6] at hbs
            have hl := utf8_len _ _ bs hbs hacc
            apply nonesc_inv _ _ _ _ _ _ rfl
            apply inv_after _ _ rfl rfl (by simp [emits, a7])
            simp [written, emits, a1, a2]; omega
      · -- no accumulation yet
        rename_i hm
        have hms : s.mode = .none := by rw [← a4]; exact hm
        simp only [slack, he, hms, if_true] at hk
        split
        · simp [Inv, Good, written, slack, he1, hm, a1, a2, a7]; omega
        · split
          · apply inv_mono
            apply inv_after _ _ rfl (by simp [emit, hm]) (by simp [emit, a7])
            simp [written, emit, a1, a2]; omega
          · split
            · simp [Inv, Good, written, slack, he1, a1, a2, a7]; omega
            · split
              · simp [Inv, Good, written, slack, he1, a1, a2, a7]; omega
              · split
                · simp [Inv, Good, written, slack, he1, a1, a2, a7]; omega
                · apply inv_mono
                  apply inv_after _ _ rfl (by simp [emit, hm]) (by simp [emit, a7])
                  simp [written, emit, a1, a2]; omega


theorem step_inv (v6 : Bool) (want fuel : Nat) (s : St) (c k : Nat) (h : Inv s k) :
    Inv (Out.st (step v6 want fuel s c)) (k + 1) := by
  cases he : s.escaped
  · exact nonesc_inv v6 want fuel s c k he h
  · exact esc_inv v6 want fuel s c k he h

theorem run_inv (v6 : Bool) (want : Nat) (input : List Nat) (s : St) (k : Nat) (h : Inv s k) :
    Inv (run v6 want s input).1 (k + input.length) := by
  induction input generalizing s k with
  | nil => simpa [run] using h
  | cons c rest ih =>
    have hs := step_inv v6 want 2 s c k h
    simp only [run]
    split
    · rename_i s' heq
      rw [heq] at hs
      have := ih s' (k + 1) (by simpa using hs)
      simpa [Nat.add_assoc, Nat.add_comm 1] using this
    · rename_i s' heq
      rw [heq] at hs
      have h2 : Inv s' (k + 1) := by simpa using hs
      exact ⟨h2.1, by have := h2.2; simp; omega⟩

theorem inv_init : Inv ({} : St) 0 := by
  simp [Inv, Good, written, slack, sumLen]

theorem sumLen_reverse (l : List (List Nat)) : sumLen l.reverse = sumLen l := by
  simp [sumLen, List.map_reverse, List.sum_reverse]

theorem sumLen_cons (t : List Nat) (l : List (List Nat)) : sumLen (t :: l) = t.length + 1 + sumLen l := by
  simp [sumLen]

/-- **The tokeniser's output fits its buffer.**  For every byte string, in
    either syntax mode and for every `tok_want`, the tokens `_GD_Tokenise`
    produces, each with its terminating NUL, occupy at most `strlen(line) + 1`
    bytes — the size of the `strdup` copy it writes them into. -/
theorem tokenise_output_fits (v6 : Bool) (want : Nat) (input : List Nat) :
    sumLen (tokenise v6 want input).tokens ≤ input.length + 1 := by
  have hr := run_inv v6 want input {} 0 inv_init
  unfold tokenise
  generalize run v6 want {} input = r at hr ⊢
  obtain ⟨s, rest, b⟩ := r
  simp only [Nat.zero_add] at hr
  obtain ⟨⟨g1, g2, g3⟩, hk⟩ := hr
  simp only
  -- the state after the end-of-string completion still satisfies written ≤ length
  have key : ∀ t : St, written t ≤ input.length →
      sumLen (if t.ws then t.done.reverse else (t.cur.reverse :: t.done).reverse) ≤ input.length + 1 := by
    intro t ht
    split
    · rw [sumLen_reverse]; simp [written] at ht; omega
    · rw [sumLen_reverse, sumLen_cons]; simp [written] at ht ⊢; omega
  split
  · rename_i hc
    obtain ⟨h1, h2, h3, h4, h5⟩ := hc
    split
    · rename_i hm
      split
      · rename_i bs hbs
        have hl := utf8_len _ _ bs hbs (g2 h1 hm)
        apply key
        simp [written, emits, slack, h1, hm] at hk ⊢; omega
      · apply key; simp [written, slack, h1, hm] at hk ⊢; omega
    · rename_i hm
      split
      · apply key; simp [written, slack, h1] at hk ⊢; omega
      · apply key
        have : 1 ≤ slack s := by
          simp only [slack, h1, if_true]
          cases hmm : s.mode <;> simp_all <;> omega
        simp [written, emit] at hk ⊢; omega
  · apply key; omega

end GdModel.Token.Fits
