/-
  GdModel.Token.Impl — `_GD_Tokenise` (src/parse.c) as a state machine over
  bytes, state for state: `escaped_char`, `quotated`, `ws`, `accumulator`,
  `n_acc`, `acc_mode`, the output written so far, the `ip--` rewinds, the
  `tok_want` cut-off and the end-of-string post-processing (including the
  completion of a numeric escape at the very end of the string).
  Bytes are `Nat` (< 256, never 0: the input is a C string).  Core Lean only.
-/
namespace GdModel.Token



inductive Err where
  | character      -- GD_E_FORMAT_CHARACTER (bad escape: NUL, or code point out of range)
  | unterminated   -- GD_E_FORMAT_UNTERM
  deriving DecidableEq, Repr

inductive AccMode where
  | none | octal | hex | utf8
  deriving DecidableEq, Repr

def isOctal (c : Nat) : Bool := decide (48 ≤ c) && decide (c ≤ 55)
def isHex (c : Nat) : Bool :=
  (decide (48 ≤ c) && decide (c ≤ 57)) || (decide (65 ≤ c) && decide (c ≤ 70)) ||
  (decide (97 ≤ c) && decide (c ≤ 102))
def hexVal (c : Nat) : Nat :=
  if c ≤ 57 then c - 48 else if c ≤ 70 then c - 55 else c - 87
/-- the whitespace the tokeniser splits on (src/parse.c:1976-1977): space,
    newline, tab, CR, FF, VT -/
def isWs (c : Nat) : Bool := c == 32 || c == 10 || c == 9 || c == 13 || c == 12 || c == 11

/-- `_GD_UTF8Encode` (src/parse.c:1513-1545): bytes of code point `v`; 0 and
    values above 0x10FFFF are errors. -/
def utf8Encode (v : Nat) : Option (List Nat) :=
  if v = 0 ∨ v > 0x10FFFF then none
  else if v ≤ 0x7F then some [v]
  else if v ≤ 0x7FF then some [0xC0 + v / 64, 0x80 + v % 64]
  else if v ≤ 0xFFFF then some [0xE0 + v / 4096, 0x80 + (v / 64) % 64, 0x80 + v % 64]
  else some [0xF0 + v / 262144, 0x80 + (v / 4096) % 64, 0x80 + (v / 64) % 64, 0x80 + v % 64]

/-- simple escapes of the `switch` at parse.c:1914-1969 (`none` = not one of them) -/
def simpleEscape (c : Nat) : Option Nat :=
  if c = 97 then some 7          -- \a
  else if c = 98 then some 8     -- \b
  else if c = 101 then some 27   -- \e
  else if c = 102 then some 12   -- \f
  else if c = 110 then some 10   -- \n
  else if c = 114 then some 13   -- \r
  else if c = 116 then some 9    -- \t
  else if c = 118 then some 11   -- \v
  else none

namespace Impl

structure St where
  escaped : Bool := false
  quoted : Bool := false
  ws : Bool := true
  acc : Nat := 0
  nAcc : Nat := 0
  mode : AccMode := .none
  /-- finished tokens, most recent first -/
  done : List (List Nat) := []
  /-- bytes of the token being written, most recent first -/
  cur : List Nat := []
  /-- number of tokens started (`n_cols`) -/
  nCols : Nat := 0
  err : Option Err := none
  deriving Repr

/-- result of feeding one byte -/
inductive Out where
  | cont (s : St)          -- continue with the next byte
  | stop (s : St)          -- `break`: stop here, this byte not consumed
  deriving Repr

/-- start a token if we are in whitespace (`in_cols[n_cols++] = op; ws = 0`);
    `none` = `n_cols >= tok_want`: break -/
def startTok (want : Nat) (s : St) : Option St :=
  if s.ws then
    if s.nCols ≥ want then none
    else some { s with nCols := s.nCols + 1, ws := false }
  else some s

def emit (s : St) (b : Nat) : St := { s with cur := b :: s.cur }
def emits (s : St) (bs : List Nat) : St := { s with cur := bs.reverse ++ s.cur }

/-- the body of the `for` loop for one byte `c`; `v6` = GD_PVERS_GE(*p, 6).
    `fuel` bounds the `ip--` re-processing (one rewind per byte at most). -/
def step (v6 : Bool) (want : Nat) : Nat → St → Nat → Out
  | 0, s, _ => .stop s
  | fuel + 1, s, c =>
    if s.escaped then
      match startTok want s with
      | none => .stop s
      | some s =>
        match s.mode with
        | .octal =>
          let (acc, nAcc) := if isOctal c then (s.acc * 8 + (c - 48), s.nAcc + 1) else (s.acc, s.nAcc)
          let s := { s with acc := acc, nAcc := nAcc }
          if nAcc = 3 ∨ acc > 31 ∨ !isOctal c then
            if acc = 0 then .stop { s with err := some .character }
            else
              let s := { emit s (acc % 256) with escaped := false, mode := .none }
              if !isOctal c then step v6 want fuel s c   -- ip--: re-read this byte
              else .cont s
          else .cont s
        | .hex =>
          let (acc, nAcc) := if isHex c then (s.acc * 16 + hexVal c, s.nAcc + 1) else (s.acc, s.nAcc)
          let s := { s with acc := acc, nAcc := nAcc }
          if nAcc = 2 ∨ !isHex c then
            if acc = 0 then .stop { s with err := some .character }
            else
              let s := { emit s (acc % 256) with escaped := false, mode := .none }
              if !isHex c then step v6 want fuel s c
              else .cont s
          else .cont s
        | .utf8 =>
          let (acc, nAcc) := if isHex c then (s.acc * 16 + hexVal c, s.nAcc + 1) else (s.acc, s.nAcc)
          let s := { s with acc := acc, nAcc := nAcc }
          if nAcc = 7 ∨ acc > 0x10FFFF ∨ !isHex c then
            match utf8Encode acc with
            | none => .stop { s with err := some .character }
            | some bs =>
              let s := { emits s bs with escaped := false, mode := .none }
              if !isHex c then step v6 want fuel s c
              else .cont s
          else .cont s
        | .none =>
          if c = 10 then .cont s     -- backslash-newline: `break`s out of the switch only; stays escaped
          else match simpleEscape c with
            | some b => .cont { emit s b with escaped := false }
            | none =>
              if isOctal c then .cont { s with nAcc := 1, acc := c - 48, mode := .octal }
              else if c = 117 then .cont { s with nAcc := 0, acc := 0, mode := .utf8 }
              else if c = 120 then .cont { s with nAcc := 0, acc := 0, mode := .hex }
              else .cont { emit s c with escaped := false }
    else
      if c = 92 ∧ v6 then .cont { s with escaped := true }
      else if c = 34 ∧ v6 then
        if !s.quoted then
          match startTok want s with
          | none => .stop { s with quoted := true }
          | some s => .cont { s with quoted := true }
        else .cont { s with quoted := false }
      else if !s.quoted ∧ isWs c then
        if !s.ws then .cont { s with done := s.cur.reverse :: s.done, cur := [], ws := true }
        else .cont s
      else if !s.quoted ∧ c = 35 then .stop s
      else
        match startTok want s with
        | none => .stop s
        | some s => .cont (emit s c)

/-- run the loop; returns the final state, the unconsumed input and whether
    the loop ended by `break` -/
def run (v6 : Bool) (want : Nat) : St → List Nat → St × List Nat × Bool
  | s, [] => (s, [], false)
  | s, c :: rest =>
    match step v6 want 2 s c with
    | .cont s' => run v6 want s' rest
    | .stop s' => (s', c :: rest, true)

structure Result where
  tokens : List (List Nat)
  err : Option Err
  /-- number of input bytes consumed (`*pos - instring`) -/
  consumed : Nat
  deriving Repr, DecidableEq

/-- `_GD_Tokenise`: loop, end-of-string completion of a pending numeric escape,
    unterminated-token check, `pos` back-up. -/
def tokenise (v6 : Bool) (want : Nat) (input : List Nat) : Result :=
  let (s, rest, _) := run v6 want {} input
  -- the string ended while a numeric escape was being accumulated: finish it
  let s :=
    if s.escaped ∧ rest = [] ∧ s.mode ≠ .none ∧ s.nAcc > 0 ∧ s.err = none then
      match s.mode with
      | .utf8 =>
        match utf8Encode s.acc with
        | some bs => { emits s bs with escaped := false }
        | none => { s with err := some .character }
      | _ =>
        if s.acc = 0 then { s with err := some .character }
        else { emit s (s.acc % 256) with escaped := false }
    else s
  let atEnd : Bool := match rest with | [] => true | c :: _ => c == 10
  let (err, back) :=
    if s.quoted ∨ s.escaped then
      if atEnd then ((if s.err = none then some Err.unterminated else s.err), 0)
      else (s.err, 1)
    else (s.err, 0)
  let toks := if s.ws then s.done.reverse else (s.cur.reverse :: s.done).reverse
  { tokens := toks, err := err, consumed := input.length - rest.length - back }

end Impl

end GdModel.Token
