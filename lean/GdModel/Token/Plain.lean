/-
  Tokenisation in Standards Versions <= 5 (`v6 = false`: backslash and quote are
  ordinary bytes): the C-shaped state machine `Impl.tokenise` and the
  Standards-shaped reader `Spec.tokenise` produce the same tokens for EVERY byte
  string.  Both are shown equal to one structurally recursive splitter.
-/
import GdModel.Token.Impl
import GdModel.Token.Spec
namespace GdModel.Token.Plain
open GdModel.Token

/-- split at whitespace; `#` ends the line -/
def ref (done : List (List Nat)) (cur : List Nat) (inTok : Bool) : List Nat → List (List Nat)
  | [] => if inTok then (cur.reverse :: done).reverse else done.reverse
  | c :: rest =>
    if isWs c then (if inTok then ref (cur.reverse :: done) [] false rest else ref done [] false rest)
    else if c = 35 then (if inTok then (cur.reverse :: done).reverse else done.reverse)
    else ref done (c :: cur) true rest

/-! ### the C-shaped machine -/

def out (s : Impl.St) : List (List Nat) :=
  if s.ws then s.done.reverse else (s.cur.reverse :: s.done).reverse

open Impl in
theorem run_ref (want : Nat) (input : List Nat) :
    ∀ (ws : Bool) (acc nAcc : Nat) (mode : AccMode) (done : List (List Nat)) (cur : List Nat) (nCols : Nat) (err : Option Err),
    (ws = true → cur = []) → nCols + input.length < want →
    out (run false want ⟨false, false, ws, acc, nAcc, mode, done, cur, nCols, err⟩ input).1 = ref done cur (!ws) input ∧
    (run false want ⟨false, false, ws, acc, nAcc, mode, done, cur, nCols, err⟩ input).1.escaped = false ∧
    (run false want ⟨false, false, ws, acc, nAcc, mode, done, cur, nCols, err⟩ input).1.quoted = false ∧
    (run false want ⟨false, false, ws, acc, nAcc, mode, done, cur, nCols, err⟩ input).1.err = err := by
  induction input with
  | nil =>
    intro ws acc nAcc mode done cur nCols err hw hn
    cases ws <;> simp [run, ref, out]
  | cons c rest ih =>
    intro ws acc nAcc mode done cur nCols err hw hn
    simp only [List.length_cons] at hn
    by_cases hc : isWs c = true
    · cases ws
      · have := ih true acc nAcc mode (cur.reverse :: done) [] nCols err (by simp) (by omega)
        simpa [run, step, ref, hc] using this
      · have hcur := hw rfl
        subst hcur
        have := ih true acc nAcc mode done [] nCols err (by simp) (by omega)
        simpa [run, step, ref, hc] using this
    · have hc' : isWs c = false := by simpa using hc
      by_cases h35 : c = 35
      · subst h35
        cases ws <;> simp [run, step, ref, out, hc']
      · cases ws
        · have := ih false acc nAcc mode done (c :: cur) nCols err (by simp) (by omega)
          simpa [run, step, ref, hc', h35, startTok, emit] using this
        · have hcur := hw rfl
          subst hcur
          have hlt : ¬ nCols ≥ want := by omega
          have := ih false acc nAcc mode done [c] (nCols + 1) err (by simp) (by omega)
          simpa [run, step, ref, hc', h35, startTok, emit, hlt] using this


/-! ### the Standards-shaped reader -/

open Spec in
theorem spec_ref (l : List Nat) :
    (∀ fuel cur, fuel ≥ l.length + 1 →
      ∃ tok r, body false fuel false cur l = .ok (tok, r) ∧ r.length ≤ l.length ∧
        ∀ done F, F ≥ r.length + 1 → tokens false F r (tok :: done) = ⟨ref done cur true l, none⟩) ∧
    (∀ done F, F ≥ l.length + 1 → tokens false F l done = ⟨ref done [] false l, none⟩) := by
  induction l with
  | nil =>
    constructor
    · intro fuel cur hf
      obtain ⟨f, rfl⟩ : ∃ f, fuel = f + 1 := ⟨fuel - 1, by simp at hf; omega⟩
      refine ⟨cur.reverse, [], by simp [body], by simp, ?_⟩
      intro done F hF
      cases F <;> simp [tokens, ref]
    · intro done F hF
      cases F <;> simp [tokens, ref]
  | cons c rest ih =>
    obtain ⟨ihA, ihB⟩ := ih
    constructor
    · intro fuel cur hf
      obtain ⟨f, rfl⟩ : ∃ f, fuel = f + 1 := ⟨fuel - 1, by simp at hf; omega⟩
      simp only [List.length_cons] at hf
      by_cases hc : isWs c = true
      · refine ⟨cur.reverse, rest, by simp [body, hc], by simp, ?_⟩
        intro done F hF
        rw [ihB (cur.reverse :: done) F hF]
        simp [ref, hc]
      · have hc' : isWs c = false := by simpa using hc
        by_cases h35 : c = 35
        · subst h35
          refine ⟨cur.reverse, 35 :: rest, by simp [body, hc'], by simp, ?_⟩
          intro done F hF
          obtain ⟨g, rfl⟩ : ∃ g, F = g + 1 := ⟨F - 1, by simp at hF; omega⟩
          simp [tokens, ref, hc']
        · obtain ⟨tok, r, h1, h2, h3⟩ := ihA f (c :: cur) (by omega)
          refine ⟨tok, r, by simp [body, hc', h35, h1], by simp; omega, ?_⟩
          intro done F hF
          rw [h3 done F hF]
          simp [ref, hc', h35]
    · intro done F hF
      obtain ⟨g, rfl⟩ : ∃ g, F = g + 1 := ⟨F - 1, by omega⟩
      simp only [List.length_cons] at hF
      by_cases hc : isWs c = true
      · simp only [tokens, hc, if_true]
        rw [ihB done g (by omega)]
        simp [ref, hc]
      · have hc' : isWs c = false := by simpa using hc
        by_cases h35 : c = 35
        · subst h35
          simp [tokens, ref, hc']
        · obtain ⟨tok, r, h1, h2, h3⟩ := ihA (rest.length + 1) [c] (by omega)
          have hb : body false (rest.length + 2) false [] (c :: rest) = .ok (tok, r) := by
            simp [body, hc', h35, h1]
          simp only [tokens, hc', Bool.false_eq_true, if_false, h35, hb]
          rw [h3 done g (by omega)]
          simp [ref, hc', h35]

/-- **Standards Versions <= 5: the C tokeniser is the Standards' tokeniser, for every
    line.**  With `tok_want` above the number of bytes (no cut-off), the tokens
    `_GD_Tokenise`'s state machine produces are exactly those of the reader written
    from dirfile-format(5), and neither reports an error. -/
theorem impl_eq_spec_v5 (input : List Nat) (want : Nat) (hw : input.length < want) :
    (Impl.tokenise false want input).tokens = (Spec.tokenise false input).tokens ∧
    (Impl.tokenise false want input).err = none ∧ (Spec.tokenise false input).err = none := by
  have hI := run_ref want input true 0 0 .none [] [] 0 none (by simp) (by simpa using hw)
  have hS := (spec_ref input).2 [] (input.length + 1) (by omega)
  obtain ⟨h1, h2, h3, h4⟩ := hI
  have hs0 : (⟨false, false, true, 0, 0, .none, [], [], 0, none⟩ : Impl.St) = {} := rfl
  rw [hs0] at h1 h2 h3 h4
  unfold Spec.tokenise
  rw [hS]
  unfold Impl.tokenise
  generalize Impl.run false want {} input = r at h1 h2 h3 h4
  obtain ⟨s, rest, b⟩ := r
  simp only at h1 h2 h3 h4
  simp only [h2, h3, h4, Bool.false_eq_true, false_and, if_false, or_self]
  simp only [out] at h1
  refine ⟨?_, by simp, by simp⟩
  simpa using h1

end GdModel.Token.Plain
