/-
  GdModel.Token.Spec — tokenisation as dirfile-format(5) "Tokens" describes
  it, written as a recursive-descent reader (not as the C state machine):
  skip whitespace; a '#' outside quotes ends the line; a token is a run of
  plain bytes, quoted sections and escape sequences; escapes are decoded by
  value (`\ooo` 1–3 octal digits not exceeding 0377, `\xhh` 1–2 hex digits,
  `\uh…` 1–7 hex digits → UTF-8); NUL cannot be produced; unmatched quote or a
  trailing backslash is a syntax error.  Readings the man page leaves open are
  taken as the code has them and listed here:
   * newline counts as whitespace (a "line" handed to `gd_strtok` may contain
     several); a backslash directly before a newline keeps the escape pending;
   * `\477`: the third digit is not consumed when the value would exceed 0377;
   * `\u` code points above 0x10FFFF and escapes producing NUL are
     GD_E_FORMAT_CHARACTER errors; `\x` / `\u` followed by a non-hex byte too,
     but at the very end of the input they are an unterminated token;
   * Standards Versions ≤ 5 (v6 = false): backslash and quote are ordinary bytes.
-/
import GdModel.Token.Impl

namespace GdModel.Token.Spec
open GdModel.Token

/-- value of a list of hex digits -/
def hexValue (ds : List Nat) : Nat := ds.foldl (fun a d => a * 16 + hexVal d) 0

/-- longest prefix of at most `n` bytes satisfying `p`, and the rest -/
def takeUpTo (p : Nat → Bool) : Nat → List Nat → List Nat × List Nat
  | 0, l => ([], l)
  | _ + 1, [] => ([], [])
  | n + 1, c :: r => if p c then let (a, b) := takeUpTo p n r; (c :: a, b) else ([], c :: r)

/-- decode what follows a backslash: the bytes produced and the remaining input.
    `none` as first component = the escape is still pending at end of input
    (trailing backslash, or backslash-newline at the very end). -/
def escape : List Nat → Except Err (Option (List Nat) × List Nat)
  | [] => .ok (none, [])
  | c :: rest =>
    if c = 10 then
      -- backslash-newline: no line splicing; the escape stays pending and applies to what follows
      match rest with
      | [] => .ok (none, [])
      | _ => escapeAfterNewlines rest rest.length
    else decode c rest
where
  decode (c : Nat) (rest : List Nat) : Except Err (Option (List Nat) × List Nat) :=
    match simpleEscape c with
    | some b => .ok (some [b], rest)
    | none =>
      if isOctal c then
        let d0 := c - 48
        match rest with
        | d1 :: r1 =>
          if isOctal d1 then
            let v2 := d0 * 8 + (d1 - 48)
            match r1 with
            | d2 :: r2 =>
              if v2 ≤ 31 ∧ isOctal d2 then num (v2 * 8 + (d2 - 48)) r2 else num v2 r1
            | [] => num v2 r1
          else num d0 rest
        | [] => num d0 rest
      else if c = 120 then
        let (ds, r) := takeUpTo isHex 2 rest
        if ds = [] then (if rest = [] then .ok (none, []) else .error .character) else num (hexValue ds) r
      else if c = 117 then
        let (ds, r) := takeUpTo isHex 7 rest
        if ds = [] then (if rest = [] then .ok (none, []) else .error .character) else
        match utf8Encode (hexValue ds) with
        | some bs => .ok (some bs, r)
        | none => .error .character
      else .ok (some [c], rest)
  num (v : Nat) (r : List Nat) : Except Err (Option (List Nat) × List Nat) :=
    if v = 0 then .error .character else .ok (some [v % 256], r)
  escapeAfterNewlines (l : List Nat) : Nat → Except Err (Option (List Nat) × List Nat)
    | 0 => .ok (none, [])
    | fuel + 1 =>
      match l with
      | [] => .ok (none, [])
      | c :: rest => if c = 10 then escapeAfterNewlines rest fuel else decode c rest

structure Result where
  tokens : List (List Nat)
  err : Option Err
  deriving Repr, DecidableEq

/-- read the rest of a token (we are inside one; `quoted` says whether inside
    quotation marks); returns its bytes and the input after it -/
def body (v6 : Bool) : Nat → Bool → List Nat → List Nat → Except Err (List Nat × List Nat)
  | 0, _, acc, l => .ok (acc.reverse, l)
  | _ + 1, quoted, acc, [] => if quoted then .error .unterminated else .ok (acc.reverse, [])
  | fuel + 1, quoted, acc, c :: rest =>
    if c = 92 ∧ v6 then
      match escape rest with
      | .error e => .error e
      | .ok (none, _) => .error .unterminated
      | .ok (some bs, r) => body v6 fuel quoted (bs.reverse ++ acc) r
    else if c = 34 ∧ v6 then body v6 fuel (!quoted) acc rest
    else if !quoted ∧ isWs c then .ok (acc.reverse, rest)
    else if !quoted ∧ c = 35 then .ok (acc.reverse, c :: rest)
    else body v6 fuel quoted (c :: acc) rest

/-- all tokens of the input -/
def tokens (v6 : Bool) : Nat → List Nat → List (List Nat) → Result
  | 0, _, acc => ⟨acc.reverse, none⟩
  | _ + 1, [], acc => ⟨acc.reverse, none⟩
  | fuel + 1, c :: rest, acc =>
    if isWs c then tokens v6 fuel rest acc
    else if c = 35 then ⟨acc.reverse, none⟩
    else
      match body v6 (rest.length + 2) false [] (c :: rest) with
      | .error e => ⟨acc.reverse, some e⟩
      | .ok (tok, r) => tokens v6 fuel r (tok :: acc)

/-- tokenise a whole string (no limit on the number of tokens).  On error the
    tokens completed before the offending one are reported. -/
def tokenise (v6 : Bool) (input : List Nat) : Result := tokens v6 (input.length + 1) input []

end GdModel.Token.Spec
