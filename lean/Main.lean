/- gdmodel: line-protocol driver for the executable Lean models. -/
import GdModel.Driver.Conv
open GdModel.Driver

def dispatch (line : String) : String :=
  match words line with
  | "conv" :: rest => handleConv false rest
  | "convspec" :: rest => handleConv true rest
  | _ => "bad-op"

partial def loop (h : IO.FS.Stream) (out : IO.FS.Stream) : IO Unit := do
  let line ← h.getLine
  if line.isEmpty then return ()
  out.putStrLn (dispatch line)
  loop h out

def main : IO Unit := do
  let stdin ← IO.getStdin
  let stdout ← IO.getStdout
  loop stdin stdout
