/- gdmodel: line-protocol driver for the executable Lean models. -/
import GdModel.Driver.Conv
import GdModel.Driver.Field
import GdModel.Driver.Tok
import GdModel.Driver.Disk
import GdModel.Driver.Index
import GdModel.Driver.Restructure
import GdModel.Driver.Names
import GdModel.Driver.Scope
open GdModel.Driver

structure St where
  db : DB := []
  spec : Bool := false
  names : List GdModel.Names.Key := []

def step (st : St) (line : String) : St × String :=
  match words line with
  | "conv" :: rest => (st, handleConv false rest)
  | "convspec" :: rest => (st, handleConv true rest)
  | "def" :: rest =>
    match parseDef rest with
    | some d => ({ st with db := st.db ++ [d] }, "-")
    | none => (st, "bad-def")
  | "tok" :: rest => (st, handleTok st.spec rest)
  | "escape" :: rest => (st, handleEscape rest)
  | "names" :: rest =>
    let (t, o) := handleNames st.names rest
    ({ st with names := t }, o)
  | "scope" :: rest => (st, handleScope rest)
  | "scopespec" :: rest => (st, handleScopeSpec rest)
  | "alias" :: rest => (st, handleAlias rest)
  | "d2a" :: rest => (st, handleD2a rest)
  | "reset" :: _ => ({ st with db := [] }, "-")
  | "open" :: _ => (st, "open e=0")
  | "get" :: rest =>
    match handleGetRaw st.db rest with
    | some o => (st, o)
    | none => (st, handleGet st.spec st.db rest)
  | "put" :: rest =>
    let (db', o) := handlePut st.db rest
    ({ st with db := db' }, o)
  | "eof" :: rest => (st, handleEof st.spec st.db rest)
  | "spf" :: rest => (st, handleSpf st.db rest)
  | "bof" :: rest => (st, handleBof st.spec st.db rest)
  | "nframes" :: _ => (st, handleNframes st.db)
  | "framenum" :: rest => (st, handleFramenum st.db rest)
  | "bytes" :: rest => (st, handleBytes st.db rest)
  | "baredecode" :: rest => (st, handleBareDecode rest)
  | "siedecode" :: rest => (st, handleSieDecode rest)
  | "textdecode" :: rest => (st, handleTextDecode rest)
  | "textencode" :: rest => (st, handleTextEncode rest)
  | [] => (st, "-")
  | w :: rest =>
    if w.startsWith "m_" then
      let (db', o) := handleRestructure st.db w rest
      ({ st with db := db' }, o)
    else (st, "-")

partial def loop (h : IO.FS.Stream) (out : IO.FS.Stream) (st : St) : IO Unit := do
  let line ← h.getLine
  if line.isEmpty then return ()
  let (st', o) := step st line
  out.putStrLn o
  loop h out st'

def main (args : List String) : IO Unit := do
  let stdin ← IO.getStdin
  let stdout ← IO.getStdout
  loop stdin stdout { spec := args.contains "--spec" }
