#!/usr/bin/env python3
"""ddmin.py <replay.json> <pattern> : minimise the op script so that the LAST output line still contains <pattern>
(or the harness still crashes when pattern == CRASH).  Prints the minimal op list (file/def/open lines kept)."""
import json, sys
sys.path.insert(0, '/verif')
from vlib import common as C, streams
o = json.load(open(sys.argv[1]))
pat = sys.argv[2]
defs = sys.argv[3:] if len(sys.argv) > 3 else []
h = C.build_harness('gdh', ['gdh.c'], defines=defs)
lines = o['script']
fixed = [l for l in lines if l.split()[0] in ('reset', 'file', 'open')]
ops = [l for l in lines if l.split()[0] not in ('reset', 'file', 'open')]
last = ops[-1]
body = ops[:-1]
def bad(b):
    out, rc, err = streams.run_gdh(h, fixed + b + [last], "dd")
    if pat == "CRASH":
        return rc != 0
    return bool(out) and pat in out[-1] and len(out) == len(fixed + b) + 1
assert bad(body), "does not reproduce"
n = 2
while len(body) >= 2:
    chunk = max(1, len(body) // n)
    reduced = False
    for i in range(0, len(body), chunk):
        cand = body[:i] + body[i + chunk:]
        if bad(cand):
            body = cand; n = max(n - 1, 2); reduced = True; break
    if not reduced:
        if chunk == 1: break
        n = min(n * 2, len(body))
if len(body) == 1 and bad([]): body = []
print("\n".join(body + [last]))
for l in fixed:
    if l.startswith("open"): print("#", l)
