#!/usr/bin/env python3
"""Regenerate the generated tables at the end of DESIGN.md (ledger of findings,
seeded changes and which check catches which) from known_findings.json and
seeded/*/meta.json.  Everything after the marker line is replaced."""
import json, glob, os
MARK = "<!-- GENERATED TABLES (tools/design_tables.py) — do not edit below this line -->"
root = os.path.dirname(os.path.dirname(os.path.abspath(__file__)))
d = open(os.path.join(root, "DESIGN.md")).read()
if MARK in d:
    d = d[:d.index(MARK)]
k = json.load(open(os.path.join(root, "known_findings.json")))["findings"]
L = [MARK, "", "## 9. Ledger of defects found on the unchanged tree (generated from known_findings.json)", "",
     "`fixed` = repaired in /repo by the `fix:` commit named (suppresses nothing); `known` = genuine defect recorded, not repaired: the check prints",
     "`KNOWN-FINDING:` for failing inputs matching the signature and still reports any other violation of the same property.", "",
     "| id | property | status | commit | what fails |", "|----|----------|--------|--------|------------|"]
for f in k:
    t = f["text"]
    if t.startswith("fixed: "):
        t = t.split(" ", 3)[3] if len(t.split(" ", 3)) > 3 else t
    L.append("| %s | %s | %s | %s | %s |" % (f["id"], f["property"], f["status"], f.get("commit", ""), t.replace("|", "\\|").replace("\n", " ")[:330]))
L += ["", "## 10. Seeded changes and the checks that catch them (generated from seeded/*/meta.json)", "",
      "Each change was written by a fresh sub-agent that saw only the property text and its own scratch worktree, and was kept only after",
      "`tools/verify_seed.sh` confirmed: compiles, the 1609 tests pass, the agent's demonstration fails with it and passes without it.", "",
      "| seed | property | needs, in order to manifest | caught by |", "|------|----------|-----------------------------|-----------|"]
for p in sorted(glob.glob(os.path.join(root, "seeded", "*", "meta.json"))):
    m = json.load(open(p))
    det = "; ".join(m.get("detected_by") or []) or "**not detected yet**"
    L.append("| %s | %s | %s | %s |" % (m["id"], m["property"], m.get("needs_to_manifest", "").replace("|", "\\|")[:260], det.replace("|", "\\|")[:420]))
open(os.path.join(root, "DESIGN.md"), "w").write(d.rstrip("\n") + "\n\n" + "\n".join(L) + "\n")
print("tables written:", len(k), "findings")
