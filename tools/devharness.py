#!/usr/bin/env python3
"""Build the gdh harness (small buffers) and keep it at /var/tmp/gdh_dev for manual experiments."""
import os, shutil, sys
sys.path.insert(0, os.path.dirname(os.path.dirname(os.path.abspath(__file__))))
os.environ["VERIF_KEEP_SCRATCH"] = "1"
from vlib import common as C, history
h = C.build_harness("gdh", ["gdh.c"], defines=history.SMALL_BUF_DEFINES if "--big" not in sys.argv else ())
shutil.copy(h, "/var/tmp/gdh_dev")
shutil.rmtree(C.scratch(), ignore_errors=True)
print("/var/tmp/gdh_dev")
