#!/usr/bin/env python3
"""Regenerate /verif/MANIFEST.json from tools/manifest_entries.json (claimed checks)
and properties.jsonl (everything else goes to not_applicable with its reason)."""
import json
props = [json.loads(l) for l in open('/verif/properties.jsonl')]
ent = json.load(open('/verif/tools/manifest_entries.json'))
checks = []
for pid, e in sorted(ent["checks"].items()):
    checks.append({
        "property_id": pid,
        "quick_cmd": "./check %s --tier quick" % pid,
        "thorough_cmd": "./check %s --tier thorough" % pid,
        "evidence_file": "evidence/%s.json" % pid,
        "replay_cmd_template": "./check %s --replay {path}" % pid,
        "engine": "lean4-gdmodel",
        "level_claimed": {"category": "proof", "text": e["text"], "design_ref": "DESIGN.md section 4 " + pid},
        "level_note": e["note"],
        "technique": e.get("technique", "Lean 4 proof over an executable model + differential correspondence with the real library"),
    })
claimed = set(ent["checks"])
na = [{"property_id": p["id"], "reason": ent["not_applicable"].get(p["id"], "check under construction (see DESIGN.md section 4); not yet claimed")}
      for p in props if p["id"] not in claimed]
m = {"version": 1,
     "setup_cmd": "cd /verif/lean && lake build GdModel gdmodel",
     "hooks": {"guard": "GD_VERIF_HOOKS",
               "enable": "checks compile /repo/src/*.c themselves with -DGD_VERIF_HOOKS (plus -DGD_VERIF_BUFFER_SIZE=... etc.) into a scratch static archive under /var/tmp (vlib/common.py build_lib)",
               "baseline_off_cmd": "make -C /repo -j8 check", "source_commits": ["417c03c"], "add_only": True},
     "engines": [{"name": "lean4-gdmodel", "path": "lean/", "serves_properties": sorted(claimed),
                  "kind_free_text": "Lean 4 models + theorems (lake project GdModel), native line-protocol driver gdmodel, extractors in extract/, C harnesses in harness/, driver ./check"}],
     "checks": checks, "not_applicable": na,
     "notes": "See DESIGN.md. Genuine defects repaired in /repo are 'fix:' commits listed in known_findings.json (status fixed); unrepaired ones are status known."}
json.dump(m, open('/verif/MANIFEST.json', 'w'), indent=1)
print("claimed:", sorted(claimed))
