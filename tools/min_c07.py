#!/usr/bin/env python3
"""minimise a C07 replay: drop ops while the before/after dumps still differ (or reopen still fails)"""
import json, sys, os, subprocess
sys.path.insert(0, '/verif')
from checks.c07 import canon, first_diff
o = json.load(open(sys.argv[1])); s = o['script']
hdr = [l for l in s if l.split()[0] in ('reset', 'file')]
ops = [l for l in s if l.split()[0] not in ('reset', 'file', 'open', 'dumpmeta', 'metaflush', 'rewrite', 'close', 'discard')]
def run(L):
    os.system("rm -rf /var/tmp/_wd; mkdir /var/tmp/_wd")
    r = subprocess.run(["/var/tmp/gdh_dev", "/var/tmp/_wd"], input=("\n".join(L) + "\n").encode(), capture_output=True, env={"ASAN_OPTIONS": "detect_leaks=0"})
    return r.stdout.decode().split("\n")
def bad(t):
    out = run(hdr + ['open rdwr'] + t + ['dumpmeta', 'close', 'open rdonly', 'dumpmeta'])
    if len(out) < 5: return "crash"
    a, b = canon(out[-5].rsplit(" rl=", 1)[0]), canon(out[-2].rsplit(" rl=", 1)[0])
    return first_diff(a, b) if a != b else None
cur = ops[:]
ch = True
while ch:
    ch = False
    for i in range(len(cur)):
        t = cur[:i] + cur[i + 1:]
        if bad(t):
            cur = t; ch = True; break
def show(c):
    return c if not c.startswith(('addspec', 'maddspec')) else c.split()[0] + ' ' + c.split()[1] + ' ' + bytes.fromhex(c.split()[2]).decode()
print([show(c) for c in cur]); print(bad(cur))
