#!/bin/sh
# mk_worktree.sh <dir> : scratch git worktree of /repo (HEAD) with the untracked
# autotools files copied in, configured and built (library + tests not run).
set -e
D="$1"
git -C /repo worktree add --detach "$D" >/dev/null 2>&1
cd /repo
# untracked generated build-system files (not objects, not libs, not test outputs)
git status --short --ignored | sed -n 's/^!! //p' | grep -E '(^|/)(configure|Makefile\.in|aclocal\.m4|ltmain\.sh|compile|config\.guess|config\.sub|depcomp|install-sh|missing|test-driver|.*\.m4|gd_config\.h\.in|ar-lib)$' > /var/tmp/wt_files.$$ || true
rsync -a --files-from=/var/tmp/wt_files.$$ /repo/ "$D"/
rm -f /var/tmp/wt_files.$$
cd "$D"
./configure CFLAGS=-Wno-error >configure.out 2>&1
make -j8 >make.out 2>&1
echo "worktree ready: $D"
