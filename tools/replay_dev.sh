#!/bin/sh
# usage: tools/replay_dev.sh <replay.json | script.txt>   -- runs script on /var/tmp/gdh_dev and the Lean model side by side
f="$1"
case "$f" in *.json) python3 -c "
import json,sys
o=json.load(open('$f')); r=o.get('replay',o); print('\n'.join(r['script']))" > /var/tmp/_s.txt ;; *) cp "$f" /var/tmp/_s.txt;; esac
rm -rf /var/tmp/_wd; mkdir -p /var/tmp/_wd
ASAN_OPTIONS=detect_leaks=0 /var/tmp/gdh_dev /var/tmp/_wd < /var/tmp/_s.txt > /var/tmp/_o.txt 2>/var/tmp/_e.txt
/verif/lean/.lake/build/bin/gdmodel < /var/tmp/_s.txt > /var/tmp/_m.txt
paste -d'\n' /var/tmp/_s.txt /var/tmp/_o.txt /var/tmp/_m.txt | cut -c1-${COLS:-200} | awk 'NR%3==1{print "> "$0} NR%3==2{print "  L "$0} NR%3==0{print "  M "$0}'
head -${ELINES:-30} /var/tmp/_e.txt
