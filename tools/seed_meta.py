#!/usr/bin/env python3
"""seed_meta.py <id> <property> <needs...> : write seeded/<id>/meta.json from verify.log"""
import json, sys, os
sid, prop, needs = sys.argv[1], sys.argv[2], " ".join(sys.argv[3:])
d = "/verif/seeded/" + sid
log = open(d + "/verify.log").read()
meta = {"id": sid, "property": prop, "needs_to_manifest": needs,
        "confirmed": "SEED-CONFIRMED" in log,
        "what_i_ran": ["tools/verify_seed.sh <scratch worktree> %s : make with patch; full test suite; demo with and without patch" % sid],
        "verify_log_tail": log.strip().split("\n")[-4:],
        "detected_by": []}
if os.path.exists(d + "/meta.json"):
    meta["detected_by"] = json.load(open(d + "/meta.json")).get("detected_by", [])
json.dump(meta, open(d + "/meta.json", "w"), indent=1)
print(meta["confirmed"])
