#!/usr/bin/env python3
"""Validate MANIFEST.json and evidence files against the schemas (run with python3-vt)."""
import json, sys, glob, jsonschema
m = json.load(open('/verif/MANIFEST.json'))
jsonschema.validate(m, json.load(open('/root/.vp/MANIFEST.schema.json')))
es = json.load(open('/root/.vp/EVIDENCE.schema.json'))
for c in m['checks']:
    f = '/verif/' + c['evidence_file']
    try:
        jsonschema.validate(json.load(open(f)), es)
        print('ok', f)
    except Exception as e:
        print('BAD', f, str(e)[:300])
ids = {c['property_id'] for c in m['checks']} | {n['property_id'] for n in m.get('not_applicable', [])}
print('manifest ok; properties covered or listed:', len(ids))
