#!/bin/bash
# verify_seed.sh <worktree> <seed-id> : confirm a seeded change independently:
#  builds with the patch, full test suite passes, demo fails with / passes without.
# Copies patch.diff, demo, NOTES.md into /verif/seeded/<id>/ and writes verify.log there.
WT="$1"; ID="$2"; OUT=/verif/seeded/$ID
mkdir -p "$OUT"
cp "$WT"/_seed/patch.diff "$WT"/_seed/NOTES.md "$OUT"/ 2>/dev/null
cp "$WT"/_seed/*.c "$WT"/_seed/*.cpp "$WT"/_seed/*.sh "$OUT"/ 2>/dev/null
LOG="$OUT/verify.log"; : > "$LOG"
cd "$WT" || exit 2
git checkout -q -- . 2>>"$LOG"
if ! git apply --check _seed/patch.diff 2>>"$LOG"; then echo "PATCH-DOES-NOT-APPLY" >> "$LOG"; exit 1; fi
build_demo() {
  if [ -f _seed/run_demo.sh ]; then (cd _seed && bash run_demo.sh) ; return $?; fi
  if [ -f _seed/demo.cpp ]; then
    g++ -I"$WT"/src -I"$WT"/bindings/cxx _seed/demo.cpp -o _seed/demo "$WT"/bindings/cxx/.libs/libgetdata++.so "$WT"/src/.libs/libgetdata.so -Wl,-rpath,"$WT"/src/.libs -Wl,-rpath,"$WT"/bindings/cxx/.libs -lm >>"$LOG" 2>&1 || return 99
  else
    gcc -I"$WT"/src _seed/demo.c -o _seed/demo "$WT"/src/.libs/libgetdata.so -Wl,-rpath,"$WT"/src/.libs -lm -lpthread >>"$LOG" 2>&1 || return 99
  fi
  (cd _seed && timeout 120 ./demo) >>"$LOG" 2>&1
}
# without the change
make -j8 >/dev/null 2>>"$LOG"
build_demo; R0=$?
echo "DEMO-WITHOUT-CHANGE exit=$R0" >> "$LOG"
# with the change
git apply _seed/patch.diff
if ! make -j8 >/dev/null 2>>"$LOG"; then echo "DOES-NOT-COMPILE" >> "$LOG"; exit 1; fi
build_demo; R1=$?
echo "DEMO-WITH-CHANGE exit=$R1" >> "$LOG"
make -C test check -j8 > "$OUT/testsuite.log" 2>&1
NP=$(grep -c '^PASS:' "$OUT/testsuite.log"); NF=$(grep -c '^FAIL:\|^ERROR:' "$OUT/testsuite.log")
grep '^FAIL:\|^ERROR:' "$OUT/testsuite.log" | head -5 >> "$LOG"
echo "TESTSUITE-WITH-CHANGE pass=$NP fail=$NF" >> "$LOG"
rm -f "$OUT/testsuite.log"
if [ "$R0" = 0 ] && [ "$R1" != 0 ] && [ "$R1" != 99 ] && [ "$NF" = 0 ] && [ "$NP" -gt 1500 ]; then echo "SEED-CONFIRMED" >> "$LOG"; else echo "SEED-REJECTED" >> "$LOG"; fi
tail -5 "$LOG"
