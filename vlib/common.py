"""Common machinery for the /verif checks (see DESIGN.md section 1).

Everything here derives its paths from this file's location, builds the code
under test from /repo's *current working tree* into a scratch directory outside
/repo and /verif, and removes the scratch directory on exit.
"""
import atexit, fcntl, hashlib, json, os, re, shutil, subprocess, sys, time
from concurrent.futures import ThreadPoolExecutor

VERIF = os.path.dirname(os.path.dirname(os.path.abspath(__file__)))
REPO = os.environ.get("VERIF_REPO", "/repo")
LEAN = os.path.join(VERIF, "lean")
NCPU = os.cpu_count() or 4

LIB_SOURCES = """add.c ascii.c bzip.c close.c common.c compat.c constant.c del.c
encoding.c endian.c entry.c errors.c field_list.c flimits.c flush.c fragment.c
getdata.c globals.c gzip.c index.c include.c iopos.c legacy.c lzma.c mod.c
move.c name.c native.c nfields.c nframes.c open.c parse.c protect.c putdata.c
raw.c sie.c spf.c string.c types.c""".split()

_scratch = None


def scratch():
    """Per-process scratch directory outside /repo and /verif; removed at exit."""
    global _scratch
    if _scratch is None:
        base = os.environ.get("VERIF_SCRATCH_BASE", "/var/tmp")
        _scratch = os.path.join(base, "gdverif.%d" % os.getpid())
        shutil.rmtree(_scratch, ignore_errors=True)
        os.makedirs(_scratch)
        if not os.environ.get("VERIF_KEEP_SCRATCH"):
            atexit.register(shutil.rmtree, _scratch, True)
    return _scratch


def run(cmd, cwd=None, timeout=None, inp=None, env=None, check=False):
    e = dict(os.environ)
    if env:
        e.update(env)
    p = subprocess.run(cmd, cwd=cwd, timeout=timeout, input=inp, env=e,
                       stdout=subprocess.PIPE, stderr=subprocess.PIPE)
    if check and p.returncode != 0:
        raise RuntimeError("command failed (%d): %s\n%s\n%s" % (
            p.returncode, cmd, p.stdout.decode(errors="replace")[-4000:],
            p.stderr.decode(errors="replace")[-4000:]))
    return p


def src_hash(subdirs=("src",)):
    h = hashlib.sha256()
    for sd in subdirs:
        d = os.path.join(REPO, sd)
        for root, dirs, files in os.walk(d):
            dirs[:] = sorted(x for x in dirs if not x.startswith("."))
            for f in sorted(files):
                if f.endswith((".c", ".h", ".cpp", ".in")):
                    p = os.path.join(root, f)
                    h.update(p.encode())
                    with open(p, "rb") as fh:
                        h.update(fh.read())
    return h.hexdigest()[:16]


SAN_FLAGS = ["-fsanitize=address,undefined", "-fno-sanitize-recover=undefined", "-fwrapv", "-fno-sanitize=signed-integer-overflow", "-fno-sanitize=alignment",
             "-fno-omit-frame-pointer"]


def copy_src():
    """Copy /repo/src (sources + generated headers) into scratch/src, with
    modules disabled so the encodings are linked in statically."""
    dst = os.path.join(scratch(), "src")
    if os.path.isdir(dst):
        return dst
    os.makedirs(dst)
    srcd = os.path.join(REPO, "src")
    for f in os.listdir(srcd):
        if f.endswith((".c", ".h")):
            shutil.copy2(os.path.join(srcd, f), os.path.join(dst, f))
    for need in ("gd_config.h", "getdata.h"):
        if not os.path.exists(os.path.join(dst, need)):
            _configure_scratch(dst)
            break
    cfg = os.path.join(dst, "gd_config.h")
    s = open(cfg).read()
    s = re.sub(r"#define USE_MODULES[^\n]*", "/* #undef USE_MODULES (verif) */", s)
    open(cfg, "w").write(s)
    return dst


def _configure_scratch(dst):
    """Generated headers are missing from /repo/src: run ./configure in a
    scratch copy of the whole tree (works offline) and take them from there."""
    full = os.path.join(scratch(), "fullcopy")
    run(["rsync", "-a", "--exclude", ".git", "--exclude", "*.o", "--exclude",
         "*.lo", "--exclude", ".libs", REPO + "/", full + "/"], check=True)
    run(["./configure", "CFLAGS=-Wno-error"], cwd=full, check=True, timeout=1200)
    run(["make", "-C", "src", "getdata.h"], cwd=full, timeout=600)
    for need in ("gd_config.h", "getdata.h"):
        shutil.copy2(os.path.join(full, "src", need), os.path.join(dst, need))
    shutil.rmtree(full, ignore_errors=True)


_lib_cache = {}


def build_lib(defines=(), sanitize=True, opt="-O1"):
    """Compile /repo/src into a static archive in the scratch dir.
    Returns (archive_path, include_dir).  Raises RuntimeError with the
    compiler output if the tree does not compile."""
    key = (tuple(defines), sanitize, opt)
    if key in _lib_cache:
        return _lib_cache[key]
    src = copy_src()
    tag = hashlib.sha1(repr(key).encode()).hexdigest()[:10]
    objd = os.path.join(scratch(), "obj_" + tag)
    os.makedirs(objd, exist_ok=True)
    flags = [opt, "-g", "-w", "-DHAVE_CONFIG_H", "-DGD_VERIF_HOOKS", "-I", src]
    flags += ["-D" + d for d in defines]
    if sanitize:
        flags += SAN_FLAGS
    srcs = [f for f in LIB_SOURCES if os.path.exists(os.path.join(src, f))]
    if not re.search(r"^\s*#\s*define\s+GD_LEGACY_API", open(os.path.join(src, "getdata.h")).read(), re.M):
        srcs = [f for f in srcs if f != "legacy.c"]   # legacy API not configured

    def cc(f):
        o = os.path.join(objd, f[:-2] + ".o")
        p = run(["gcc"] + flags + ["-c", os.path.join(src, f), "-o", o])
        return (f, p.returncode, p.stderr.decode(errors="replace"), o)
    with ThreadPoolExecutor(NCPU) as ex:
        res = list(ex.map(cc, srcs))
    bad = [r for r in res if r[1] != 0]
    if bad:
        raise RuntimeError("library does not compile: " + bad[0][0] + "\n" + bad[0][2][-3000:])
    ar = os.path.join(objd, "libgd.a")
    run(["ar", "rcs", ar] + [r[3] for r in res], check=True)
    _lib_cache[key] = (ar, src)
    return _lib_cache[key]


LINK_LIBS = ["-ldl", "-lz", "-lbz2", "-llzma", "-lpcre", "-lm", "-lpthread"]


def build_harness(name, sources, defines=(), sanitize=True, extra=(), cxx=False, opt="-O1"):
    """Compile a harness program from /verif/harness against the scratch library."""
    ar, inc = build_lib(defines, sanitize, opt)
    out = os.path.join(scratch(), name + "_" + hashlib.sha1(
        repr((tuple(defines), sanitize, tuple(extra))).encode()).hexdigest()[:8])
    if os.path.exists(out):
        return out
    cmd = ["g++" if cxx else "gcc", opt, "-g", "-w", "-DHAVE_CONFIG_H", "-DGD_VERIF_HOOKS",
           "-I", inc, "-I", os.path.join(VERIF, "harness")]
    cmd += ["-D" + d for d in defines]
    if sanitize:
        cmd += SAN_FLAGS
    cmd += [os.path.join(VERIF, "harness", s) if not os.path.isabs(s) else s for s in sources]
    cmd += list(extra) + [ar] + LINK_LIBS + ["-o", out]
    run(cmd, check=True)
    return out


SAN_ENV = {"ASAN_OPTIONS": "detect_leaks=0:abort_on_error=0:exitcode=99:allocator_may_return_null=1",
           "UBSAN_OPTIONS": "print_stacktrace=1:halt_on_error=1:exitcode=98"}

# ----------------------------------------------------------------------------
# Lean side


class LeanResult:
    def __init__(self):
        self.ok = True
        self.failed_modules = []   # modules that failed to build
        self.errors = ""           # compiler output of the failures
        self.forbidden = []        # sorry/axiom/native_decide hits
        self.axioms = {}           # theorem -> list of axioms
        self.bad_axioms = {}       # theorem -> unaccepted axioms
        self.theorems = []         # names audited
        self.build_s = 0.0


ALLOWED_AXIOMS = {"propext", "Classical.choice", "Quot.sound"}
FORBIDDEN_RE = re.compile(r"\bsorry\b|\badmit\b|^\s*axiom\s|native_decide|bv_decide|implemented_by|\bunsafe\s|maxHeartbeats\s+0\b")


def strip_lean_comments(text):
    out = []
    i = 0
    depth = 0
    n = len(text)
    while i < n:
        if text.startswith("/-", i):
            depth += 1
            i += 2
            continue
        if depth and text.startswith("-/", i):
            depth -= 1
            i += 2
            continue
        if depth:
            if text[i] == "\n":
                out.append("\n")
            i += 1
            continue
        if text.startswith("--", i):
            while i < n and text[i] != "\n":
                i += 1
            continue
        if text[i] == '"':
            j = i + 1
            while j < n and text[j] != '"':
                if text[j] == "\\":
                    j += 1
                j += 1
            out.append('""')
            i = j + 1
            continue
        out.append(text[i])
        i += 1
    return "".join(out)


def lean_forbidden_scan():
    hits = []
    for root, dirs, files in os.walk(LEAN):
        dirs[:] = [d for d in dirs if d != ".lake"]
        for f in files:
            if f.endswith(".lean"):
                p = os.path.join(root, f)
                txt = strip_lean_comments(open(p, encoding="utf-8").read())
                for ln, line in enumerate(txt.split("\n"), 1):
                    if FORBIDDEN_RE.search(line):
                        hits.append("%s:%d: %s" % (os.path.relpath(p, LEAN), ln, line.strip()[:120]))
    return hits


class LeanLock:
    def __enter__(self):
        self.f = open(os.path.join(LEAN, ".build.lock"), "w")
        fcntl.flock(self.f, fcntl.LOCK_EX)
        return self

    def __exit__(self, *a):
        fcntl.flock(self.f, fcntl.LOCK_UN)
        self.f.close()


def lake_build(targets):
    """lake build the given module targets; returns (ok, output)."""
    p = run(["lake", "build"] + list(targets), cwd=LEAN, timeout=3600)
    out = p.stdout.decode(errors="replace") + p.stderr.decode(errors="replace")
    return p.returncode == 0, out


def lean_theorem_names(module):
    """Names of theorems declared in a Props module (by scanning its source)."""
    path = os.path.join(LEAN, module.replace(".", "/") + ".lean")
    txt = strip_lean_comments(open(path, encoding="utf-8").read())
    names = []
    ns = []
    for line in txt.split("\n"):
        m = re.match(r"\s*namespace\s+(\S+)", line)
        if m:
            ns.append(m.group(1))
            continue
        m = re.match(r"\s*end\s+(\S+)", line)
        if m and ns and ns[-1] == m.group(1):
            ns.pop()
            continue
        m = re.match(r"\s*(?:@\[[^\]]*\]\s*)?(?:private\s+|protected\s+)?theorem\s+(\S+)", line)
        if m:
            names.append(".".join(ns + [m.group(1)]))
    return names


def lean_audit(modules):
    """Build modules, scan for forbidden constructs, and #print axioms of every
    theorem in them.  Returns a LeanResult."""
    r = LeanResult()
    t0 = time.time()
    with LeanLock():
        ok, out = lake_build(modules)
        r.build_s = time.time() - t0
        if not ok:
            r.ok = False
            r.errors = out[-6000:]
            for m in re.finditer(r"^(?:✖|error:).*?(GdModel[\w./]*)", out, re.M):
                r.failed_modules.append(m.group(1))
            for m in re.finditer(r"error: (\S+\.lean):(\d+):\d+: (.*)", out):
                r.failed_modules.append("%s:%s %s" % (m.group(1), m.group(2), m.group(3)[:160]))
        r.forbidden = lean_forbidden_scan()
        if r.forbidden:
            r.ok = False
        if ok:
            names = []
            for m in modules:
                names += lean_theorem_names(m)
            r.theorems = names
            src = "\n".join("import " + m for m in modules) + "\n" + \
                "\n".join("#print axioms %s" % n for n in names) + "\n"
            f = os.path.join(scratch(), "audit_%d.lean" % (abs(hash(tuple(modules))) % 10**8))
            open(f, "w").write(src)
            p = run(["lake", "env", "lean", f], cwd=LEAN, timeout=1800)
            o = p.stdout.decode(errors="replace") + p.stderr.decode(errors="replace")
            if p.returncode != 0:
                r.ok = False
                r.errors += "\naudit failed:\n" + o[-3000:]
            cur = None
            for blk in re.finditer(r"'([^']+)' (does not depend on any axioms|depends on axioms: \[([^\]]*)\])", o, re.S):
                nm = blk.group(1)
                ax = [a.strip() for a in (blk.group(3) or "").replace("\n", " ").split(",") if a.strip()]
                r.axioms[nm] = ax
                bad = [a for a in ax if a not in ALLOWED_AXIOMS]
                if bad:
                    r.bad_axioms[nm] = bad
                    r.ok = False
            missing = [n for n in names if n not in r.axioms]
            if missing:
                r.ok = False
                r.errors += "\naudit: no axiom report for " + ", ".join(missing[:10])
    return r


def build_gdmodel():
    """Build the native line-protocol driver; returns its path."""
    with LeanLock():
        ok, out = lake_build(["gdmodel"])
    if not ok:
        raise RuntimeError("gdmodel does not build:\n" + out[-4000:])
    return os.path.join(LEAN, ".lake", "build", "bin", "gdmodel")


# ----------------------------------------------------------------------------
# evidence, replay, known findings

TRUSTED_BASE = [
    "Lean 4.33.0 kernel; axioms limited to propext, Classical.choice, Quot.sound (audited by #print axioms on every run)",
    "no sorry/admit/axiom/native_decide/bv_decide/implemented_by/unsafe (source scan on every run)",
    "extractors in /verif/extract (Python, regex/clang-AST) that regenerate GdModel/Generated/*.lean from /repo on every run",
    "correspondence harness (C, gcc -fsanitize=address,undefined), generators and diff (Python)",
    "Lean compiler for the executable model driver gdmodel (not used in any proof)",
]


def load_known_findings():
    p = os.path.join(VERIF, "known_findings.json")
    if not os.path.exists(p):
        return []
    return json.load(open(p))["findings"]


def write_evidence(pid, tier, seed, coverage, wall_s, violations, assumptions):
    os.makedirs(os.path.join(VERIF, "evidence"), exist_ok=True)
    ev = {"property_id": pid, "tier": tier, "seed": seed, "level": "proof",
          "coverage": coverage, "assumptions": assumptions, "wall_s": round(wall_s, 2),
          "violations": violations}
    tmp = os.path.join(VERIF, "evidence", pid + ".json.tmp")
    with open(tmp, "w") as f:
        json.dump(ev, f, indent=1, sort_keys=True)
    os.replace(tmp, os.path.join(VERIF, "evidence", pid + ".json"))


def write_replay(pid, obj):
    d = os.path.join(VERIF, "replays")
    os.makedirs(d, exist_ok=True)
    body = json.dumps(obj, indent=1, sort_keys=True)
    name = "%s_%s.json" % (pid, hashlib.sha1(body.encode()).hexdigest()[:10])
    p = os.path.join(d, name)
    open(p, "w").write(body)
    return p


def build_cxx_harness(name="gdhxx", source="gdhxx.cpp", sanitize=True):
    """Compile the C++ binding (bindings/cxx/*.cpp of the working tree) and a
    C++ harness against the scratch C library."""
    import glob
    ar, inc = build_lib((), sanitize)
    out = os.path.join(scratch(), name + ("_san" if sanitize else "_plain"))
    if os.path.exists(out):
        return out
    cxxdir = os.path.join(REPO, "bindings", "cxx")
    objd = os.path.join(scratch(), "cxxobj" + ("_san" if sanitize else ""))
    os.makedirs(objd, exist_ok=True)
    flags = ["-O1", "-g", "-w", "-std=gnu++14", "-DHAVE_CONFIG_H", "-I", inc, "-I", cxxdir] + (SAN_FLAGS if sanitize else [])
    srcs = sorted(glob.glob(os.path.join(cxxdir, "*.cpp")))

    def cc(f):
        o = os.path.join(objd, os.path.basename(f)[:-4] + ".o")
        p = run(["g++"] + flags + ["-c", f, "-o", o])
        return (f, p.returncode, p.stderr.decode(errors="replace"), o)
    with ThreadPoolExecutor(NCPU) as ex:
        res = list(ex.map(cc, srcs))
    bad = [r for r in res if r[1] != 0]
    if bad:
        raise RuntimeError("C++ binding does not compile: " + bad[0][0] + "\n" + bad[0][2][-3000:])
    run(["g++"] + flags + [os.path.join(VERIF, "harness", source)] + [r[3] for r in res] + [ar] + LINK_LIBS + ["-o", out], check=True)
    return out
