"""Check framework: obligations, failures, known findings, evidence, exit code."""
import json, os, random, sys, time, traceback
from . import common as C


class Ctx:
    def __init__(self, pid, tier, seed):
        self.pid = pid
        self.tier = tier
        self.seed = seed
        self.rng = random.Random(seed * 1000003 + sum(ord(c) for c in pid))
        self.t0 = time.time()
        self.obligations = []     # (name, ok:bool, detail)
        self.failures = []        # Failure
        self.coverage = {}        # extra coverage keys
        self.samples = []
        self.evaluations = 0
        self.distinct = set()
        self.notes = []

    def thorough(self):
        return self.tier == "thorough"

    def oblige(self, name, ok, detail=""):
        self.obligations.append((name, bool(ok), detail))

    def fail(self, kind, what, replay, sig=None, has_input=True):
        """Record a failure.  kind: 'input' (property fails on a concrete
        input, replay holds it), 'obligation' (a Lean obligation or extractor
        no longer checks), 'correspondence' (model and code differ)."""
        self.failures.append(Failure(kind, what, replay, sig or {}, has_input))

    def count(self, key=None, n=1):
        self.evaluations += n
        if key is not None:
            self.distinct.add(key)

    def sample(self, s, limit=6):
        if len(self.samples) < limit:
            self.samples.append(s)


class Failure:
    def __init__(self, kind, what, replay, sig, has_input):
        self.kind = kind
        self.what = what
        self.replay = replay
        self.sig = sig
        self.has_input = has_input


def sig_matches(entry_sig, sig):
    """A known-finding signature is a dict of field -> value | list of values;
    it matches when every listed field of the failure equals / is among them."""
    for k, v in entry_sig.items():
        if k not in sig:
            return False
        if isinstance(v, list):
            if sig[k] not in v:
                return False
        elif sig[k] != v:
            return False
    return True


def lean_obligations(ctx, modules, extractors=()):
    """Run extractors, build + audit the Lean modules; record obligations.
    Returns (ok, LeanResult, extractor_infos)."""
    infos = []
    ok_all = True
    for ex in extractors:
        try:
            info = ex()
        except Exception as e:   # extractor crash = obligation failure, not a guess
            info = {"error": "extractor crashed: %r" % (e,), "file": getattr(ex, "__name__", "?")}
        infos.append(info)
        good = not info.get("error") and not info.get("unknown")
        ctx.oblige("extract:" + os.path.basename(str(info.get("file", "?"))), good,
                   info.get("error") or ("unrecognised entries: %s" % info.get("unknown") if info.get("unknown") else ""))
        ok_all &= good
    r = C.lean_audit(modules)
    ctx.oblige("lake build " + " ".join(modules), not r.failed_modules and not (r.errors and not r.theorems),
               "; ".join(r.failed_modules[:6]))
    ctx.oblige("no sorry/admit/axiom/native_decide/bv_decide/implemented_by/unsafe", not r.forbidden,
               "; ".join(r.forbidden[:5]))
    for t in r.theorems:
        ax = r.axioms.get(t)
        ctx.oblige("theorem " + t, ax is not None and t not in r.bad_axioms,
                   "axioms: " + ",".join(ax) if ax else "not checked")
    ctx.coverage["axioms_used"] = sorted({a for v in r.axioms.values() for a in v})
    ctx.coverage["lean_build_s"] = round(r.build_s, 1)
    return (ok_all and r.ok), r, infos


def finish(ctx, assumptions, checker_cmd):
    """Classify failures, print VIOLATION / KNOWN-FINDING lines, write evidence."""
    known = [k for k in C.load_known_findings() if k.get("property") == ctx.pid and k.get("status") == "known"]
    violations = []
    known_hits = {}
    for f in ctx.failures:
        hit = None
        if f.has_input:
            for k in known:
                if sig_matches(k.get("signature", {}), f.sig):
                    hit = k
                    break
        if hit is not None:
            known_hits.setdefault(hit["id"], (hit, 0))
            known_hits[hit["id"]] = (hit, known_hits[hit["id"]][1] + 1)
        else:
            violations.append(f)
    for hid, (hit, n) in sorted(known_hits.items()):
        print("KNOWN-FINDING: property=%s %s [%s; %d failing inputs matched]" % (ctx.pid, hit["text"], hid, n))
    # group violations: at most a handful of lines, one replay each
    shown = 0
    seen = set()
    for f in violations:
        key = (f.kind, f.what[:80])
        if key in seen:
            continue
        seen.add(key)
        obj = dict(f.replay)
        obj.update({"property": ctx.pid, "kind": f.kind, "what": f.what, "seed": ctx.seed,
                    "tier": ctx.tier, "signature": f.sig})
        path = C.write_replay(ctx.pid, obj)
        tail = "" if f.has_input else " no-failing-input-found"
        print("VIOLATION property=%s replay=%s%s" % (ctx.pid, path, tail))
        print("  # " + f.what[:300])
        shown += 1
        if shown >= 8:
            break
    n_obl = len(ctx.obligations)
    n_dis = sum(1 for o in ctx.obligations if o[1])
    cov = {
        "obligations": n_obl, "discharged": n_dis,
        "checker_cmd": checker_cmd,
        "trusted_base": C.TRUSTED_BASE,
        "obligation_list": [{"name": n, "ok": ok, "detail": d} for (n, ok, d) in ctx.obligations],
        "evaluations": ctx.evaluations,
        "distinct_nontrivial": len(ctx.distinct),
        "samples": ctx.samples or ["(no correspondence samples recorded)"],
        "known_findings_matched": {hid: n for hid, (h, n) in known_hits.items()},
        "notes": ctx.notes,
    }
    cov.update(ctx.coverage)
    C.write_evidence(ctx.pid, ctx.tier, ctx.seed, cov, time.time() - ctx.t0, len(violations), assumptions)
    if violations:
        return 1
    print("OK property=%s tier=%s seed=%d obligations=%d/%d evaluations=%d distinct=%d wall=%.0fs" % (
        ctx.pid, ctx.tier, ctx.seed, n_dis, n_obl, ctx.evaluations, len(ctx.distinct), time.time() - ctx.t0))
    return 0


def run_check(ctx, mod):
    try:
        mod.run(ctx)
    except C_BuildError as e:
        print("ERROR: code under test does not build: %s" % e, file=sys.stderr)
        return 2
    except Exception:
        traceback.print_exc()
        # machinery crash: the property is not shown; report it as such
        ctx.oblige("check machinery ran to completion", False, traceback.format_exc()[-1500:])
        ctx.fail("obligation", "check machinery crashed: " + traceback.format_exc()[-600:],
                 {"theorem": "(machinery)"}, has_input=False)
    return finish(ctx, getattr(mod, "ASSUMPTIONS", []), getattr(mod, "CHECKER_CMD", "lake build && lake env lean <audit>"))


class C_BuildError(Exception):
    pass


def do_replay(ctx, mod, path):
    obj = json.load(open(path))
    if not hasattr(mod, "replay"):
        print("no replay support for", ctx.pid)
        return 2
    return mod.replay(ctx, obj)
