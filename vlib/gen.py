"""Generators of dirfiles for the correspondence streams (DESIGN.md 1.5).

A generated dirfile is described twice in one op script: `file …` lines that
the C harness materialises on disk (format text + data files), and `def …`
lines that the Lean model reads.  Every random choice comes from the rng
passed in.
"""
import struct

REAL_TYPES = ['i8', 'u8', 'i16', 'u16', 'i32', 'u32', 'i64', 'u64', 'f32', 'f64']
GDNAME = {'i8': 'INT8', 'u8': 'UINT8', 'i16': 'INT16', 'u16': 'UINT16', 'i32': 'INT32', 'u32': 'UINT32',
          'i64': 'INT64', 'u64': 'UINT64', 'f32': 'FLOAT32', 'f64': 'FLOAT64', 'c64': 'COMPLEX64',
          'c128': 'COMPLEX128'}
SIZE = {'i8': 1, 'u8': 1, 'i16': 2, 'u16': 2, 'i32': 4, 'u32': 4, 'i64': 8, 'u64': 8, 'f32': 4, 'f64': 8,
        'c64': 8, 'c128': 16}
FMT = {'i8': 'b', 'u8': 'B', 'i16': 'h', 'u16': 'H', 'i32': 'i', 'u32': 'I', 'i64': 'q', 'u64': 'Q',
       'f32': 'f', 'f64': 'd'}
ORDERS = {'le': 'little', 'be': 'big', 'lea': 'little arm', 'bea': 'big arm'}


def f64hex(x):
    return "%x" % struct.unpack('<Q', struct.pack('<d', float(x)))[0]


def fnum(x):
    """text of a double that strtod reads back exactly"""
    return repr(float(x))


def encode_samples(ty, order, vals):
    """file bytes of a list of python numbers for type ty in byte order `order`"""
    big = order.startswith('be')
    arm = order.endswith('a')
    out = bytearray()
    for v in vals:
        b = struct.pack('<' + FMT[ty], v)
        if big:
            b = b[::-1]
        if arm and ty == 'f64':
            b = b[4:] + b[:4]
        out += b
    return bytes(out)


ENC_EXT = {'none': '', 'text': '.txt', 'sie': '.sie', 'gzip': '.gz', 'bzip2': '.bz2', 'lzma': '.xz'}


def text_encode(ty, vals):
    out = []
    for v in vals:
        if ty in ('f32', 'f64'):
            if v != v:
                out.append("nan")
            else:
                out.append(("%.9g" if ty == 'f32' else "%.17g") % v)
        else:
            out.append(str(int(v)))
    return ("\n".join(out) + ("\n" if out else "")).encode()


def sie_encode(ty, order, vals, merge=True):
    """(last-sample-index int64 in fragment integer byte order, value) records"""
    big = order.startswith('be')
    recs = []
    for i, v in enumerate(vals):
        b = encode_samples(ty, order, [v])
        if merge and recs and recs[-1][1] == b:
            recs[-1][0] = i
        else:
            recs.append([i, b])
    out = bytearray()
    for idx, b in recs:
        out += struct.pack(('>' if big else '<') + 'q', idx) + b
    return bytes(out)


def file_encode(enc, ty, order, vals, raw_bytes):
    import gzip, bz2, lzma
    if enc == 'none':
        return raw_bytes
    if enc == 'text':
        return text_encode(ty, vals)
    if enc == 'sie':
        return sie_encode(ty, order, vals)
    if enc == 'gzip':
        return gzip.compress(raw_bytes, mtime=0)
    if enc == 'bzip2':
        return bz2.compress(raw_bytes)
    if enc == 'lzma':
        return lzma.compress(raw_bytes, format=lzma.FORMAT_XZ)
    raise ValueError(enc)


def rand_value(rng, ty, regime):
    if ty in ('f32', 'f64'):
        if regime == 'exact' or rng.random() < 0.5:
            return float(rng.randint(-200, 200)) / rng.choice([1, 2, 4, 8])
        x = rng.uniform(-1e3, 1e3) * 10 ** rng.randint(-3, 3)
        if ty == 'f32':
            x = struct.unpack('<f', struct.pack('<f', x))[0]
        return x
    bits = SIZE[ty] * 8
    signed = ty[0] == 'i'
    r = rng.random()
    if r < 0.7:
        lo, hi = (-100, 100) if signed else (0, 200)
        return rng.randint(lo, hi)
    if r < 0.85:
        # type extremes
        if signed:
            return rng.choice([-(2 ** (bits - 1)), 2 ** (bits - 1) - 1, -1, 0])
        return rng.choice([2 ** bits - 1, 0, 2 ** (bits - 1)])
    v = rng.getrandbits(bits)
    if signed and v >= 2 ** (bits - 1):
        v -= 2 ** bits
    return v


class Dirfile:
    """One fragment, unencoded RAW files, vector fields of every modelled type."""

    def __init__(self, rng, regime='exact', max_fields=8, spfs=(1, 2, 3, 5, 7, 8), depth=4, enc='none',
                 types=REAL_TYPES, allow=('lincom', 'linterp', 'bit', 'sbit', 'multiply', 'divide', 'recip',
                                          'phase', 'polynom', 'window', 'indir')):
        self.rng = rng
        self.regime = regime
        self.order = rng.choice(list(ORDERS))
        self.enc = enc
        self.lincom_n = [1, 2, 2, 3, 3, 3]
        self.foff = rng.choice([0, 0, 1, 2, 3])
        self.fields = []      # dicts
        self.consts = []      # (name, type, value text) used for scalar indirection
        self.lut_files = {}   # relpath -> text
        nraw = rng.randint(1, 4)
        for i in range(nraw):
            self.add_raw("r%d" % i, rng.choice(list(types)), rng.choice(spfs))
        nder = rng.randint(1, max_fields)
        for i in range(nder):
            self.add_derived("d%d" % i, allow, depth)

    # -- field constructors -------------------------------------------------
    def add_raw(self, name, ty, spf, nsamp=None):
        rng = self.rng
        if nsamp is None:
            nsamp = rng.choice([0, 1, spf, spf * rng.randint(1, 6), spf * rng.randint(1, 6) + rng.randint(0, spf - 1),
                                rng.randint(1, 40)])
        vals = [rand_value(rng, ty, self.regime) for _ in range(nsamp)]
        f = dict(kind='raw', name=name, ty=ty, spf=spf, vals=vals, depth=0,
                 partial=(rng.randint(1, SIZE[ty] - 1) if SIZE[ty] > 1 and rng.random() < 0.15 and self.enc == 'none' else 0))
        self.fields.append(f)
        return f

    def vec(self, maxdepth=99, pred=None):
        c = [f for f in self.fields if f['depth'] < maxdepth and (pred is None or pred(f))]
        return self.rng.choice(c) if c else None

    def scalar(self, x, ty='f64'):
        """Return the text of a numeric parameter: literally, or (sometimes)
        through a CONST field, which the model receives already resolved."""
        rng = self.rng
        if rng.random() < 0.25:
            name = "k%d" % len(self.consts)
            if ty == 'f64':
                self.consts.append((name, 'FLOAT64', fnum(x)))
            elif ty == 'i64':
                self.consts.append((name, 'INT64', str(int(x))))
            else:
                self.consts.append((name, 'UINT64', str(int(x))))
            return name
        return fnum(x) if ty == 'f64' else str(int(x))

    def coef(self):
        rng = self.rng
        if self.regime == 'exact' or rng.random() < 0.5:
            return float(rng.choice([-4, -2, -1, -0.5, 0.5, 1, 2, 3, 8, 0.25, 0]))
        return rng.uniform(-10, 10)

    def add_derived(self, name, allow, depth):
        rng = self.rng
        for _ in range(20):
            kind = rng.choice(list(allow))
            f = self._mk(kind, name, depth)
            if f is not None:
                self.fields.append(f)
                return f
        return None

    def _mk(self, kind, name, depth):
        rng = self.rng
        inp = self.vec(depth)
        if inp is None:
            return None
        rs = lambda f: f['name'] + (rng.choice(['', '', '', '', '.r', '.m', '.z', '.i', '.a'])
                                    if f['kind'] != 'raw' or True else '')
        if kind == 'lincom':
            n = rng.choice(getattr(self, 'lincom_n', [1, 1, 2, 2, 3]))
            ins = [inp] + [self.vec(depth) for _ in range(n - 1)]
            terms = [(rs(i), self.coef(), self.coef()) for i in ins]
            if n == 1 and rng.random() < 0.2:
                terms = [(terms[0][0], 1.0, 0.0)]
            txt = "%s LINCOM %d %s" % (name, n, " ".join("%s %s %s" % (c, self.scalar(m), self.scalar(b)) for c, m, b in terms))
            d = "lincom %s %s" % (name, " ".join("%s %s %s" % (c, f64hex(m), f64hex(b)) for c, m, b in terms))
            return dict(kind=kind, name=name, text=txt, deff=d, depth=1 + max(i['depth'] for i in ins), inputs=[i['name'] for i in ins])
        if kind == 'linterp':
            npts = rng.randint(2, 6)
            xs = sorted(rng.sample(range(-150, 250), npts))
            if rng.random() < 0.3:
                xs = xs[::-1]   # descending file order: the library sorts
            ys = [self.coef() * rng.randint(-5, 5) for _ in xs]
            path = "lut_%s.txt" % name
            self.lut_files[path] = "".join("%s %s\n" % (fnum(x), fnum(y)) for x, y in zip(xs, ys))
            pts = sorted(zip(xs, ys))
            txt = "%s LINTERP %s %s" % (name, rs(inp), path)
            d = "linterp %s %s %s" % (name, txt.split()[2], " ".join("%s %s" % (f64hex(x), f64hex(y)) for x, y in pts))
            return dict(kind=kind, name=name, text=txt, deff=d, depth=1 + inp['depth'], inputs=[inp['name']])
        if kind in ('bit', 'sbit'):
            src = self.vec(depth, lambda f: (f['kind'] == 'raw' and f['ty'] not in ('f32', 'f64')) or f['kind'] in ('bit', 'sbit'))
            if src is None:
                return None
            bitnum = rng.randint(0, 20)
            numbits = rng.choice([1, 1, 2, 3, 8, 16, 33, 64 - bitnum])
            if bitnum + numbits > 64:
                numbits = 64 - bitnum
            txt = "%s %s %s %s %s" % (name, kind.upper(), src['name'], self.scalar(bitnum, 'u64'), self.scalar(numbits, 'u64'))
            if numbits == 1 and rng.random() < 0.5:
                txt = "%s %s %s %d" % (name, kind.upper(), src['name'], bitnum)
            d = "%s %s %s %d %d" % (kind, name, src['name'], bitnum, numbits)
            return dict(kind=kind, name=name, text=txt, deff=d, depth=1 + src['depth'], inputs=[src['name']])
        if kind in ('multiply', 'divide'):
            b = self.vec(depth)
            a1, b1 = rs(inp), rs(b)
            txt = "%s %s %s %s" % (name, kind.upper(), a1, b1)
            d = "%s %s %s %s" % (kind, name, a1, b1)
            return dict(kind=kind, name=name, text=txt, deff=d, depth=1 + max(inp['depth'], b['depth']), inputs=[inp['name'], b['name']])
        if kind == 'recip':
            dv = self.coef() or 1.0
            a1 = rs(inp)
            txt = "%s RECIP %s %s" % (name, a1, self.scalar(dv))
            d = "recip %s %s %s" % (name, a1, f64hex(dv))
            return dict(kind=kind, name=name, text=txt, deff=d, depth=1 + inp['depth'], inputs=[inp['name']])
        if kind == 'phase':
            sh = rng.choice([0, 1, -1, 2, -2, 3, -3, 7, -7, 50, -50])
            a1 = rs(inp)
            txt = "%s PHASE %s %s" % (name, a1, self.scalar(sh, 'i64'))
            d = "phase %s %s %d" % (name, a1, sh)
            return dict(kind=kind, name=name, text=txt, deff=d, depth=1 + inp['depth'], inputs=[inp['name']])
        if kind == 'polynom':
            order = rng.randint(1, 5)
            co = [self.coef() for _ in range(order + 1)]
            a1 = rs(inp)
            txt = "%s POLYNOM %s %s" % (name, a1, " ".join(self.scalar(c) for c in co))
            d = "polynom %s %s %s" % (name, a1, " ".join(f64hex(c) for c in co))
            return dict(kind=kind, name=name, text=txt, deff=d, depth=1 + inp['depth'], inputs=[inp['name']])
        if kind == 'window':
            op = rng.choice(['eq', 'ge', 'gt', 'le', 'lt', 'ne', 'set', 'clr'])
            if op in ('eq', 'ne', 'set', 'clr'):
                # (a BIT field wider than 48 bits is not used as the check field: the executable model carries values as doubles)
                chk = self.vec(depth, lambda f: f['kind'] == 'raw' and f['ty'] in ('i8', 'u8', 'i16', 'u16', 'i32', 'u32') or (f['kind'] in ('bit',) and int(f['deff'].split()[-1]) <= 48))
                if chk is None:
                    return None
                thr = rng.randint(0, 12) if op in ('set', 'clr') else rng.randint(-3, 12)
                thr_txt = self.scalar(thr, 'u64' if op in ('set', 'clr') else 'i64')
                thr_m = str(thr)
                chkname = chk['name']
            else:
                chk = self.vec(depth)
                thr = float(rng.randint(-40, 60)) / 2
                thr_txt = self.scalar(thr)
                thr_m = f64hex(thr)
                chkname = rs(chk)
            a1 = rs(inp)
            txt = "%s WINDOW %s %s %s %s" % (name, a1, chkname, op.upper(), thr_txt)
            d = "window %s %s %s %s %s" % (name, a1, chkname, op, thr_m)
            return dict(kind=kind, name=name, text=txt, deff=d, depth=1 + max(inp['depth'], chk['depth']), inputs=[inp['name'], chk['name']])
        if kind == 'indir':
            idx = self.vec(depth, lambda f: f['kind'] == 'raw' and f['ty'] in ('i8', 'u8', 'i16', 'u16') or f['kind'] == 'bit')
            if idx is None:
                return None
            cname = "ca_%s" % name
            n = rng.randint(1, 6)
            vals = [float(rng.randint(-50, 50)) / 2 for _ in range(n)]
            self.consts.append((cname, 'CARRAY FLOAT64', " ".join(fnum(v) for v in vals)))
            txt = "%s INDIR %s %s" % (name, idx['name'], cname)
            d = "carray %s f64 %s\ndef indir %s %s %s" % (cname, " ".join(f64hex(v) for v in vals), name, idx['name'], cname)
            return dict(kind=kind, name=name, text=txt, deff=d, depth=1 + idx['depth'], inputs=[idx['name']])
        return None

    # -- output -------------------------------------------------------------
    def format_text(self):
        L = ["/VERSION 10", "/ENDIAN " + ORDERS[self.order], "/ENCODING " + self.enc]
        if self.foff:
            L.append("/FRAMEOFFSET %d" % self.foff)
        for (n, t, v) in self.consts:
            if t.startswith('CARRAY'):
                L.append("%s %s %s" % (n, t, v))
            else:
                L.append("%s CONST %s %s" % (n, t, v))
        for f in self.fields:
            if f['kind'] == 'raw':
                L.append("%s RAW %s %d" % (f['name'], GDNAME[f['ty']], f['spf']))
            else:
                L.append(f['text'])
        return "\n".join(L) + "\n"

    def raw_bytes(self, f):
        b = encode_samples(f['ty'], self.order, f['vals'])
        if f.get('partial'):
            b += bytes(self.rng.getrandbits(8) for _ in range(f['partial']))
        return b

    def script(self):
        L = ["reset"]
        L.append("file format " + self.format_text().encode().hex())
        for p, t in self.lut_files.items():
            L.append("file %s %s" % (p, t.encode().hex()))
        for f in self.fields:
            if f['kind'] == 'raw':
                b = self.raw_bytes(f)
                f['bytes'] = b
                L.append("file %s%s %s" % (f['name'], ENC_EXT[self.enc], file_encode(self.enc, f['ty'], self.order, f['vals'], b).hex()))
                L.append("def raw %s %s %d %d %s %s" % (f['name'], f['ty'], f['spf'], self.foff, self.order, b.hex()))
            else:
                for d in f['deff'].split("\n"):
                    L.append(d if d.startswith("def ") else "def " + d)
        L.append("open rdonly")
        return L

    def vector_names(self):
        return [f['name'] for f in self.fields]
