"""Read-side call histories on one open dirfile (streams gen_history / gen_iopos).

All fields of a generated dirfile share one sample rate, so that every window is
aligned (known finding 5.1 stays out of these streams); all six encodings are
used, with the library built with small I/O buffers (hook H1) so that
decompression-window and copy-buffer boundaries are crossed in kilobyte files.
"""
from . import gen

SMALL_BUF_DEFINES = ["GD_VERIF_BUFFER_SIZE=640", "GD_VERIF_BZIP_BUFFER_SIZE=96",
                     "GD_VERIF_LZMA_DATA_OUT=160", "GD_VERIF_LZMA_DATA_IN=64", "GD_VERIF_LZMA_LOOKBACK=48"]


class HistDirfile(gen.Dirfile):
    def __init__(self, rng, enc, phase_shifts=(0, 1, 2, 5, 9), mplex=True):
        self.rng = rng
        self.regime = 'exact'
        self.order = rng.choice(list(gen.ORDERS))
        self.enc = enc
        self.lincom_n = [1, 2, 3]
        self.foff = rng.choice([0, 0, 1, 2])
        self.fields = []
        self.consts = []
        self.lut_files = {}
        self.extra_lines = []
        spf = rng.choice([1, 1, 2, 4])
        self.the_spf = spf
        nraw = rng.randint(2, 3)
        for i in range(nraw):
            ty = rng.choice(['u8', 'i16', 'u16', 'i32', 'f32', 'f64', 'i64'])
            n = rng.choice([spf * rng.randint(20, 160), spf * rng.randint(2, 10) + rng.randint(0, spf - 1)])
            self.add_raw("r%d" % i, ty, spf, n)
        # a small-valued index field for MPLEX / WINDOW
        self.add_raw("ix", 'u8', spf, None)
        f = self.fields[-1]
        f['vals'] = [rng.randint(0, 4) for _ in range(spf * rng.randint(10, 80))]
        allow = ['lincom', 'linterp', 'bit', 'multiply', 'divide', 'recip', 'polynom', 'window']
        for i in range(rng.randint(2, 5)):
            self.add_derived("d%d" % i, allow, 3)
        for i in range(rng.randint(0, 2)):
            inp = self.vec(3)
            sh = rng.choice(phase_shifts)
            self.fields.append(dict(kind='phase', name="p%d" % i, text="p%d PHASE %s %d" % (i, inp['name'], sh),
                                    deff="phase p%d %s %d" % (i, inp['name'], sh), depth=1 + inp['depth'],
                                    inputs=[inp['name']], shift=sh))
        # derived fields whose SECOND input is INDEX (it has no file position of its own: its I/O pointer is wherever the
        # other input is — src/iopos.c passes the first input's position down as a hint)
        # (only at one sample per frame: INDEX has that rate, and reads of multi-rate fields that do not start on a frame
        # boundary are the separate known finding 5.1, which these histories must not mix in)
        if spf == 1 and rng.random() < 0.8:
            raw0 = [f for f in self.fields if f['kind'] == 'raw'][0]
            for nm, knd in rng.sample([("xm", "multiply"), ("xd", "divide"), ("xw", "window")], rng.randint(1, 2)):
                if knd == "window":
                    thr = float(rng.randint(2, 30))
                    txt = "%s WINDOW %s INDEX GE %s" % (nm, raw0['name'], gen.fnum(thr))
                    d = "window %s %s INDEX ge %s" % (nm, raw0['name'], gen.f64hex(thr))
                else:
                    txt = "%s %s %s INDEX" % (nm, knd.upper(), raw0['name'])
                    d = "%s %s %s INDEX" % (knd, nm, raw0['name'])
                self.fields.append(dict(kind=knd, name=nm, text=txt, deff=d, depth=1, inputs=[raw0['name']]))
        self.mplex = []
        if mplex:
            for i in range(rng.randint(0, 2)):
                inp = self.vec(3, lambda f: f['kind'] != 'mplex')
                cnt = rng.randint(0, 4)
                per = rng.choice([0, 0, 5, 8])
                nm = "m%d" % i
                self.fields.append(dict(kind='mplex', name=nm,
                                        text="%s MPLEX %s ix %d%s" % (nm, inp['name'], cnt, (" %d" % per) if per else ""),
                                        deff="mplex %s %s ix %d %d" % (nm, inp['name'], cnt, per),
                                        depth=1 + inp['depth'], inputs=[inp['name'], 'ix']))


def history_ops(rng, df, n_ops, with_tell=True):
    """random read-side history; returns list of op lines"""
    names = df.vector_names()
    raws = [f['name'] for f in df.fields if f['kind'] == 'raw']
    spf = df.the_spf
    L = []
    for _ in range(n_ops):
        r = rng.random()
        f = rng.choice(names)
        if r < 0.45:
            s = rng.choice([0, rng.randint(0, 40), rng.randint(0, 700), rng.randint(0, 200)])
            n = rng.choice([1, 2, 7, 33, 100, 400])
            if rng.random() < 0.3:
                L.append("get %s %d %d %d %d f64" % (f, s // spf, s % spf, n // spf, n % spf))
            else:
                L.append("get %s 0 %d 0 %d f64" % (f, s, n))
            if with_tell:
                L.append("tell " + f)
        elif r < 0.6:
            L.append("tell " + f)
            L.append("get %s here here 0 %d f64" % (f, rng.choice([1, 3, 20, 150])))
            L.append("tell " + f)
        elif r < 0.72:
            wh = rng.choice(['set', 'set', 'cur', 'end'])
            if wh == 'set':
                L.append("seek %s 0 %d set" % (f, rng.randint(0, 500)))
            elif wh == 'cur':
                L.append("seek %s 0 %d cur" % (f, rng.randint(-20, 40)))
            else:
                L.append("seek %s 0 %d end" % (f, rng.randint(-30, 5)))
            L.append("tell " + f)
        elif r < 0.80:
            # calls that must fail and change nothing
            k = rng.randrange(4)
            if k == 0:
                L.append("get nosuchfield 0 0 0 5 f64")
            elif k == 1:
                L.append("get %s 0 9223372036854775800 0 50 f64" % f)
            elif k == 2:
                L.append("seek %s 0 -5 set" % f)
            else:
                L.append("eof nosuchfield")
        elif r < 0.87:
            L.append("rawclose" + ("" if rng.random() < 0.4 else " " + rng.choice(raws)))
        elif r < 0.92:
            L.append("flush" + ("" if rng.random() < 0.5 else " " + rng.choice(raws)))
        elif r < 0.96:
            L.append("openlimit %d" % rng.choice([0, 2, 2, 3, 5]))
        else:
            L.append("eof " + f)
            L.append("bof " + f)
    return L


def build(rng, enc, n_ops):
    df = HistDirfile(rng, enc)
    head = df.script()            # reset, files, defs, open rdonly
    whole = ["lookback all"] + ["get %s 0 0 0 100000 f64" % nm for nm in df.vector_names()] + \
            ["eof %s" % nm for nm in df.vector_names()] + ["discard", "open rdonly", "lookback all"]
    ops = history_ops(rng, df, n_ops)
    return df, head + whole + ops
