"""Running an op script through the real library (gdh) and the Lean driver."""
import os, shutil
from . import common as C


def run_gdh(harness, lines, tag="w", timeout=1800, env=None):
    wd = os.path.join(C.scratch(), "work_" + tag)
    shutil.rmtree(wd, ignore_errors=True)
    os.makedirs(wd)
    e = dict(C.SAN_ENV)
    if env:
        e.update(env)
    p = C.run([harness, wd], inp=("\n".join(lines) + "\n").encode(), env=e, timeout=timeout)
    out = p.stdout.decode(errors="replace").split("\n")
    if out and out[-1] == "":
        out.pop()
    shutil.rmtree(wd, ignore_errors=True)
    return out, p.returncode, p.stderr.decode(errors="replace")


def run_model(gdmodel, lines, spec=False, timeout=1800):
    cmd = [gdmodel] + (["--spec"] if spec else [])
    p = C.run(cmd, inp=("\n".join(lines) + "\n").encode(), timeout=timeout)
    out = p.stdout.decode(errors="replace").split("\n")
    if out and out[-1] == "":
        out.pop()
    return out, p.returncode, p.stderr.decode(errors="replace")


def strip_rl(line):
    """split ' rl=N' suffix off a harness line -> (body, rl or None)"""
    i = line.rfind(" rl=")
    if i < 0:
        return line, None
    try:
        return line[:i], int(line[i + 4:])
    except ValueError:
        return line, None


def run_chunks(harness, chunks, tag="w", env=None):
    """Run several scripts (each starting with `reset`) through gdh, restarting
    after a crash so one sanitizer abort does not hide the rest.
    Returns list of (lines, out, crashed:bool, stderr)."""
    res = []
    i = 0
    while i < len(chunks):
        # run chunks i.. in one process
        flat = []
        bounds = []
        for c in chunks[i:]:
            bounds.append((len(flat), len(flat) + len(c)))
            flat += c
        out, rc, err = run_gdh(harness, flat, tag, env=env)
        done = 0
        for (a, b) in bounds:
            if len(out) >= b and (rc == 0 or b < len(out) or True) and not (rc != 0 and len(out) < b):
                res.append((chunks[i + done], out[a:b], False, ""))
                done += 1
            else:
                break
        if i + done < len(chunks) and (rc != 0 or len(out) < len(flat)):
            a, b = bounds[done]
            res.append((chunks[i + done], out[a:], True, err[-3000:]))
            done += 1
        i += done
        if done == 0:
            break
    return res
